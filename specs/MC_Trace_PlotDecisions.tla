------------------------ MODULE MC_Trace_PlotDecisions ------------------------
EXTENDS Trace_PlotDecisions
NoInputs == <<>>
=============================================================================
