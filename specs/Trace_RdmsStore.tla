--------------------------- MODULE Trace_RdmsStore ---------------------------
(***************************************************************************)
(* Implementation -> specification: histories recorded from real RDMs      *)
(* objects (harness/rdmstore.py:random_trace, and C09/C12/C16 drivers) are *)
(* checked against the actions of RdmsStore.  Every event must be Enabled  *)
(* (inside the documented contract) and the projected heap logged after the*)
(* call must equal Apply(objs, e); Shape and Assoc are evaluated in every  *)
(* state.  One behaviour per trace id; acceptance is printed.              *)
(***************************************************************************)
EXTENDS RdmsStore, IOUtils, TLCExt
VARIABLES tid, l
Traces == JsonDeserialize(IOEnv.TRACE_FILE)

SameOb(a, b) == /\ a.rows = b.rows /\ a.pats = b.pats /\ a.ridx = b.ridx /\ a.pidx = b.pidx
                /\ a.pinv = b.pinv /\ a.vec = b.vec /\ a.meas = b.meas /\ a.pcat = b.pcat /\ a.pdem = b.pdem
SameHeap(h, logged) == \A o \in 1..MaxObj : SameOb(h[o], logged[o])
FirstDiff(h, logged) == CHOOSE o \in 1..MaxObj : ~SameOb(h[o], logged[o])

TInit == /\ tid \in 1..Len(Traces) /\ l = 1
         /\ objs = [o \in 1..MaxObj |-> IF o = 1 THEN Source ELSE Null]
         /\ hist = <<>>

TStep == /\ l >= 1 /\ l <= Len(Traces[tid])
         /\ LET rec == Traces[tid][l]  e == rec.ev IN
            IF Enabled(objs, e) /\ SameHeap(Apply(objs, e), rec.post) /\ rec.ret = Ret(objs, e)
            THEN /\ objs' = Apply(objs, e) /\ l' = l + 1
                 /\ (l = Len(Traces[tid]) => PrintT(ToJson([accept |-> tid])))
            ELSE /\ PrintT(ToJson([reject |-> tid, l |-> l, ev |-> e, enabled |-> Enabled(objs, e),
                                   slot |-> IF Enabled(objs, e) /\ ~SameHeap(Apply(objs, e), rec.post)
                                            THEN FirstDiff(Apply(objs, e), rec.post) ELSE 0,
                                   expected |-> IF Enabled(objs, e) THEN Apply(objs, e) ELSE objs,
                                   ret |-> IF Enabled(objs, e) THEN Ret(objs, e) ELSE <<>>]))
                 /\ objs' = objs /\ l' = 0
         /\ UNCHANGED <<tid, hist>>
TSpec == TInit /\ [][TStep]_<<objs, hist, tid, l>>
=============================================================================
