--------------------------- MODULE Trace_Variances ---------------------------
(***************************************************************************)
(* Implementation -> specification for C06.  harness/variances.py records, *)
(* for numpy-generated integer inputs that are larger than the TLC grids,  *)
(* what rsatoolbox returned:                                               *)
(*   op "extract": covariance (scalar / vector / matrix / 3-stack), nc,    *)
(*       n_rdm, n_pattern (0 = None) and the three outputs of              *)
(*       extract_variances (directly, or read off a Result object) as      *)
(*       integers out * den, den = n-1 or (n_rdm-1)(n_pattern-1) or 1;     *)
(*       frac = TRUE if some out * den was not an integer to 1e-9          *)
(*   op "means": evaluation array (2-5 dimensions, NaN marks) with         *)
(*       cv (1 fixed / crossvalidation, 2 otherwise) and Result.get_means  *)
(*       as normalised fractions <<num, den>> (<<0, 0>> = NaN).            *)
(* Every event is re-computed here from the logged INPUT with the          *)
(* operators of Variances.tla (ExtractOut, MeansOf) and compared exactly.  *)
(* One behaviour per trace id; acceptance / first failing event printed.   *)
(***************************************************************************)
EXTENDS Variances, IOUtils
VARIABLES tid, l
Traces == JsonDeserialize(IOEnv.TRACE_FILE)

\* logged = r * den   <=>   logged * r.den = r.num * den
Scaled(logged, den, r) == logged * r[2] = r[1] * den
VarInp(rec) == [kind |-> "var", shape |-> rec.shape, k |-> rec.k, nc |-> rec.nc, cov |-> rec.cov,
                nr |-> rec.nr, np |-> rec.np]
MeanInp(rec) == [kind |-> "means", cv |-> rec.cv, d |-> rec.d, k |-> rec.k, ev |-> rec.ev]

ExtractOk(rec) ==
  LET e == ExtractOut(VarInp(rec)) IN
  /\ ~rec.frac
  /\ Len(rec.mv) = Len(e.mv) /\ \A a \in 1..Len(e.mv) : Scaled(rec.mv[a], rec.den, e.mv[a])
  /\ Len(rec.dv) = Len(e.dv) /\ \A x \in 1..Len(e.dv) : Scaled(rec.dv[x], rec.den, e.dv[x])
  /\ Len(rec.ncv) = Len(e.ncv)
  /\ \A a \in 1..Len(e.ncv) : Len(rec.ncv[a]) = 2 /\ \A q \in 1..2 : Scaled(rec.ncv[a][q], rec.den, e.ncv[a][q])
MeansOk(rec) ==
  LET e == MeansOf(MeanInp(rec)) IN
  /\ ~rec.frac
  /\ Len(rec.out) = Len(e) /\ \A m \in 1..Len(e) : rec.out[m] = e[m]

\* the recorder must stay inside the domain of the specification
EnabledEv(rec) == IF rec.op = "means" THEN Admissible(MeanInp(rec))
                  ELSE rec.op = "extract" /\ rec.den > 0 /\ (rec.nr = 0 \/ rec.nr >= 2) /\ (rec.np = 0 \/ rec.np >= 2)
Ok(rec) == IF rec.op = "means" THEN MeansOk(rec) ELSE ExtractOk(rec)
Expected(rec) == IF rec.op = "means" THEN [means |-> MeansOf(MeanInp(rec))]
                 ELSE LET e == ExtractOut(VarInp(rec)) IN [mv |-> e.mv, dv |-> e.dv, ncv |-> e.ncv]

TInit == /\ tid \in 1..Len(Traces) /\ l = 1
         /\ inp = 0 /\ stage = "trace" /\ raw = <<>> /\ out = Blank /\ prm = <<>>
TStep == /\ l >= 1 /\ l <= Len(Traces[tid])
         /\ LET rec == Traces[tid][l] IN
            IF EnabledEv(rec) /\ Ok(rec)
            THEN /\ l' = l + 1
                 /\ (l = Len(Traces[tid]) => PrintT(ToJson([accept |-> tid])))
            ELSE /\ PrintT(ToJson([reject |-> tid, l |-> l, op |-> rec.op, enabled |-> EnabledEv(rec),
                                   expected |-> IF EnabledEv(rec) THEN Expected(rec) ELSE [none |-> 0]]))
                 /\ l' = 0
         /\ UNCHANGED <<tid, inp, stage, raw, out, prm>>
TSpec == TInit /\ [][TStep]_<<inp, stage, raw, out, prm, tid, l>>
=============================================================================
