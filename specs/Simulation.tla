------------------------------ MODULE Simulation ------------------------------
(***************************************************************************)
(* rsatoolbox.simulation.make_design / make_dataset (property C18).        *)
(*                                                                         *)
(* Exact integer model of the loop  model RDM -> second moment -> exact    *)
(* signal -> data = Z U sqrt(signal) + noise -> calc_rdm(euclidean by      *)
(* condition).                                                             *)
(*                                                                         *)
(* Model RDMs come from integer point configurations x_1..x_n in Z^Dim, so *)
(* they are Euclidean-embeddable by construction and the squared distances *)
(* D_ij = |x_i - x_j|^2 are exact integers.  With Y_i = n x_i - sum_j x_j  *)
(* (n times the centred point, an integer vector)                          *)
(*      n^2 G_ij = <Y_i, Y_j>,   G = -1/2 H D H   (DoubleCentring, checked)*)
(* An exact signal is ANY n x P matrix A with A A^T = P G.  The model uses *)
(* the representatives A = (sqrt(P)/n) Y Q, Q a signed channel permutation *)
(* (identity, or reversed and negated), Y padded with zero channels; which *)
(* representative a draw yields is left open (it depends on the draw id),  *)
(* and Contract must hold for every one.  Data are kept in the unit        *)
(* u = sqrt(signal) sqrt(P) / n, i.e. as the integer matrix Z Y Q.         *)
(*                                                                         *)
(* Contract (clause a): for P >= n and no signal covariance the RDM of the *)
(* data by condition - conditions = sorted distinct labels, mean over the  *)
(* observations of a label, squared distance summed over channels divided  *)
(* by P, as calc_rdm computes it - equals signal * ModelRdm, exactly.      *)
(* Clause b: MakeDesign lists every condition exactly once per partition.  *)
(* Clause d: protocol of the random draws (numpy.random.uniform calls):    *)
(* same-signal: ONE signal draw before the loop, used by every simulation; *)
(* default: a fresh signal draw inside every iteration; one noise draw per *)
(* iteration; shapes as in the code.                                       *)
(* Clause e: data(root) = signal part + root * Eps, root = sqrt(noise      *)
(* variance) carried as a rational.                                        *)
(* Clause c (descriptors) is pure projection and is checked by the harness.*)
(*                                                                         *)
(* Beyond the property (growth towards all of simulation/sim.py):          *)
(*  - encoding-style design matrices (integer weights, not indicators):    *)
(*    data = Z U sqrt(signal); the RDM BY OBSERVATION is                   *)
(*    signal (z_a - z_b)^T G (z_a - z_b)   (EncContract);                  *)
(*  - noise with channel AND trial structure: noise = Lt (root Eps) Lc,    *)
(*    Lt / Lc the (token) factors of noise_cov_trial / noise_cov_channel;  *)
(*    linear in root, the order of the two products is irrelevant,         *)
(*    identity factors change nothing (NoiseStructure);                    *)
(*  - make_signal: shape n x P in every branch (n > P: drawn n x n, then   *)
(*    truncated), the exact G is emitted as the integer matrix 2 n^2 G.    *)
(***************************************************************************)
EXTENDS Integers, Sequences, FiniteSets, TLC, SequencesExt, FiniteSetsExt, Functions, Json

CONSTANTS Dim,          \* length of the coordinate tuples
          NConds,       \* set of numbers of conditions
          Grid,         \* set of integer points (tuples of length Dim) the models are built from
          Catalogue,    \* Mode "protocol": set of point sequences (hand-picked models)
          Mode,         \* "models": all point sequences over Grid, flavours derived from a hash
                        \* "protocol": Catalogue x the full cross product of the flavours
          ChanOffsets,  \* n_channel = n_cond + offset (offset -1: negative control, not demanded)
          NParts, NSims,\* sets
          Signals,      \* set of <<num,den>>
          NoiseRoots,   \* set of <<num,den>>: square roots of the noise variances used for clause e
          KeepMod, Salt \* keep one configuration in KeepMod (deterministic thinning by a hash salted with Salt)

VARIABLES inp,          \* the configuration (record)
          stage,        \* "input" -> "designed" -> "drawn"(loop) -> "done"
          des,          \* design: make_design's vectors, the labels handed to make_dataset, Z
          prot,         \* protocol of the random draws
          res           \* expected observables
vars == <<inp, stage, des, prot, res>>

(* ------------------------------ helpers -------------------------------- *)
Abs(a) == IF a < 0 THEN -a ELSE a
RECURSIVE Gcd(_, _)
Gcd(a, b) == IF b = 0 THEN a ELSE Gcd(b, a % b)
RECURSIVE SumSeq(_)
SumSeq(s) == IF s = <<>> THEN 0 ELSE Head(s) + SumSeq(Tail(s))
RECURSIVE HashSeq(_, _)
HashSeq(s, h) == IF s = <<>> THEN h ELSE HashSeq(Tail(s), ((h * 131) + Head(s) + 1) % 1000003)
SortedSeq(S) == SetToSortSeq(S, <)
CLen(n) == (n * (n - 1)) \div 2
Pairs(n) == SetToSortSeq({pq \in (1..n) \X (1..n) : pq[1] < pq[2]},
                         LAMBDA a, b : a[1] < b[1] \/ (a[1] = b[1] /\ a[2] < b[2]))   \* condensed order
Dot(a, b) == SumSeq([d \in 1..Len(a) |-> a[d] * b[d]])
D2(a, b) == SumSeq([d \in 1..Len(a) |-> (a[d] - b[d]) * (a[d] - b[d])])

(* ------------------------------ the model RDM -------------------------- *)
ModelRdm(pts) == LET n == Len(pts)  pr == Pairs(n) IN [k \in 1..Len(pr) |-> D2(pts[pr[k][1]], pts[pr[k][2]])]
Centred(pts) == LET n == Len(pts) IN       \* Y_i = n x_i - sum_j x_j
  [i \in 1..n |-> [d \in 1..Dim |-> n * pts[i][d] - SumSeq([j \in 1..n |-> pts[j][d]])]]
\* -1/2 H D H, times 2 n^2, computed from the distances alone (what make_dataset does)
Gram2FromD(pts, i, j) ==
  LET n == Len(pts)
      R(a) == SumSeq([b \in 1..n |-> D2(pts[a], pts[b])])
      T == SumSeq([a \in 1..n |-> R(a)])
  IN -(n * n * D2(pts[i], pts[j]) - n * R(i) - n * R(j) + T)
DoubleCentring(pts) == LET Y == Centred(pts) IN
  \A i, j \in 1..Len(pts) : 2 * Dot(Y[i], Y[j]) = Gram2FromD(pts, i, j)

(* rank structure of the second-moment matrix (exact, fraction-free elimination; TLC reports overflow) *)
Norm(v) == LET g == FoldLeft(LAMBDA a, b : Gcd(a, Abs(b)), 0, v) IN
           IF g = 0 THEN v ELSE [d \in 1..Len(v) |-> v[d] \div g]
RECURSIVE Elim(_, _)
Elim(rows, col) ==
  IF col > Dim \/ rows = <<>> THEN 0
  ELSE LET nz == SelectSeq(rows, LAMBDA r : r[col] # 0) IN
       IF nz = <<>> THEN Elim(rows, col + 1)
       ELSE LET p == nz[1] IN
            1 + Elim([i \in 1..Len(rows) |-> Norm([d \in 1..Dim |-> rows[i][d] * p[col] - p[d] * rows[i][col]])],
                     col + 1)
Rank(rows) == Elim(rows, 1)
\* a condition is "early dependent" if its centred pattern lies in the span of the earlier ones although
\* later conditions still add dimensions (the leading principal minor of G is singular before rank(G) is
\* reached).  "early-zero": all such conditions sit exactly at the centroid (zero row of G).
ModelClass(pts) ==
  LET Y == Centred(pts)  n == Len(pts)
      rk == [k \in 0..n |-> IF k = 0 THEN 0 ELSE Rank(SubSeq(Y, 1, k))]
      early == {k \in 1..n : rk[k] = rk[k-1] /\ rk[n] > rk[k-1]}
  IN IF early = {} THEN "trailing"
     ELSE IF \A k \in early : \A d \in 1..Dim : Y[k][d] = 0 THEN "early-zero" ELSE "early-dependent"

(* ------------------------------ design (clause b) ---------------------- *)
\* make_design(n_cond, n_part): kron(ones(n_part), 0..n_cond-1), kron(0..n_part-1, ones(n_cond))
MakeDesign(n, np) == [cond |-> [o \in 1..n * np |-> (o - 1) % n], part |-> [o \in 1..n * np |-> (o - 1) \div n]]
DesignBalanced(d, n, np) ==
  /\ Len(d.cond) = n * np /\ Len(d.part) = n * np
  /\ \A c \in 0..n-1 : \A p \in 0..np-1 : Cardinality({o \in 1..n * np : d.cond[o] = c /\ d.part[o] = p}) = 1
\* what a user may hand to make_dataset: trials in another order, other (increasing) label values
TrialOrder(kind, n, np) ==                 \* position -> index into make_design's vectors
  LET N == n * np IN
  IF kind = 1 THEN [o \in 1..N |-> o]                                    \* as make_design
  ELSE IF kind = 2 THEN [o \in 1..N |-> N + 1 - o]                       \* reversed
  ELSE [o \in 1..N |-> ((o - 1) % np) * n + ((o - 1) \div np) + 1]        \* blocked by condition
\* label kinds: 0: c (make_design's values); 1: integers with offset and gaps, 2c+3; 2: FRACTIONAL floats
\* (c+1)/8 - carried as the numerator c+1, denominator LabelDen; 3: strings 'a','b',.. - carried as the
\* code c+1.  All kinds are increasing in c, so the sorted-label order (indicator, calc_rdm) is the same.
LabelOf(kind, c) == IF kind = 0 THEN c ELSE IF kind = 1 THEN 2 * c + 3 ELSE c + 1
LabelDen(kind) == IF kind = 2 THEN 8 ELSE 1
\* util.matrix.indicator: one column per distinct value, columns in sorted order
Indicator(labels) == LET u == SortedSeq(ToSet(labels)) IN
  [o \in 1..Len(labels) |-> [j \in 1..Len(u) |-> IF labels[o] = u[j] THEN 1 ELSE 0]]

\* encoding-style design matrices with integer weights (kind 1..3), n_obs rows x n columns
EncZ(n, kind) ==
  LET e(j, k) == IF j = k THEN 1 ELSE 0      nxt(j) == (j % n) + 1 IN
  IF kind = 1 THEN [o \in 1..2 * n |-> [k \in 1..n |-> IF o <= n THEN e(o, k) ELSE e(o - n, k) + e(nxt(o - n), k)]]
  ELSE IF kind = 2 THEN [o \in 1..n + 1 |-> [k \in 1..n |-> IF o <= n THEN 2 * e(o, k) - e(nxt(o), k) ELSE 1]]
  ELSE [o \in 1..n + 1 |-> [k \in 1..n |-> IF o <= n THEN o * e(o, k) ELSE 0]]

(* ------------------------------ signal, data, RDM ---------------------- *)
\* representative r of the exact signals, P channels, in units sqrt(P)/n:  Y padded, channels signed-permuted
ExactSignal(pts, P, r) ==
  LET Y == Centred(pts)
      pad(i, c) == IF c <= Dim THEN Y[i][c] ELSE 0
  IN [i \in 1..Len(pts) |-> [c \in 1..P |-> IF r = 0 THEN pad(i, c) ELSE -pad(i, P + 1 - c)]]
\* U U^T = n^2 G  (so A A^T = P G for A = sqrt(P)/n U)
SignalIsExact(pts, U) == LET Y == Centred(pts) IN \A i, j \in 1..Len(pts) : Dot(U[i], U[j]) = Dot(Y[i], Y[j])
MatMul(Z, U) == [o \in 1..Len(Z) |-> [c \in 1..Len(U[1]) |-> SumSeq([j \in 1..Len(U) |-> Z[o][j] * U[j][c]])]]
\* calc_rdm(method euclidean, descriptor = labels): per sorted distinct label the MEAN over its observations,
\* squared distance summed over channels, divided by the number of channels.  Data in units u (u^2 =
\* signal * P / n^2): entry k is the rational <<num, den>>.
RdmOfData(data, labels, P, n, sig) ==
  LET u == SortedSeq(ToSet(labels))
      S == [a \in 1..Len(u) |-> [c \in 1..P |->
              SumSeq([o \in 1..Len(labels) |-> IF labels[o] = u[a] THEN data[o][c] ELSE 0])]]
      cnt == [a \in 1..Len(u) |-> Cardinality({o \in 1..Len(labels) : labels[o] = u[a]})]
      pr == Pairs(Len(u))
  IN [k \in 1..Len(pr) |->
        LET a == pr[k][1]  b == pr[k][2]  ca == cnt[a]  cb == cnt[b] IN
        \* sum_c (Sa/ca - Sb/cb)^2 / P  * (sig P / n^2)
        <<sig[1] * SumSeq([c \in 1..P |-> (S[a][c] * cb - S[b][c] * ca) * (S[a][c] * cb - S[b][c] * ca)]),
          sig[2] * ca * ca * cb * cb * n * n>>]
RatEq(a, b) == a[1] * b[2] = b[1] * a[2]

(* ------------------------------ state machine -------------------------- *)
Input(pts, off, np, ns, sig, dm, same, ord, lab, covsig, ncov, root) ==
  [n |-> Len(pts), pts |-> pts, P |-> Len(pts) + off, nPart |-> np, nSim |-> ns, sig |-> sig,
   design |-> dm, same |-> same, order |-> ord, lab |-> lab, covsig |-> covsig, ncov |-> ncov % 2,
   tcov |-> (ncov \div 2) % 2, root |-> root]
DesignKinds == <<"vector", "matrix", "vector", "matrix", "encoding">>
PickFrom(S, h) == SortedSeq(S)[(h % Cardinality(S)) + 1]
GridFor(n) == {p \in Grid : \A d \in 1..Dim : d > n => p[d] = 0}     \* at most n coordinates used: rank <= n <= P
InitModels ==
  \E n \in NConds : \E f \in [1..n -> GridFor(n)] : \E off \in ChanOffsets : \E sig \in Signals :
    LET pts == [i \in 1..n |-> f[i]]
        h == HashSeq(FlattenSeq(pts) \o <<off + 1, sig[1], sig[2], Salt>>, 7)
        roots == SetToSeq(NoiseRoots)
    IN /\ off <= n
       /\ h % KeepMod = 0
       /\ inp = Input(pts, off, PickFrom(NParts, h \div 7), PickFrom(NSims, h \div 23),
                      sig, DesignKinds[((h \div 97) % 5) + 1], (h \div 11) % 2 = 1,
                      1 + ((h \div 41) % 3), (h \div 5) % 4, FALSE, (h \div 3) % 4,
                      roots[((h \div 13) % Len(roots)) + 1])
InitProtocol ==
  \E pts \in Catalogue : \E off \in ChanOffsets : \E np \in NParts : \E ns \in NSims : \E sig \in Signals :
  \E dm \in {"vector", "matrix", "encoding"} : \E same \in BOOLEAN : \E ord \in 1..3 : \E lab \in 0..3 : \E covsig \in BOOLEAN :
    LET h == HashSeq(FlattenSeq(pts) \o <<off + 1, np, ns, sig[1], ord, lab, Salt>>, 7)
        roots == SetToSeq(NoiseRoots) IN
    /\ Len(pts) \in NConds
    /\ (covsig => (ord = 1 /\ lab = 0))                    \* negative control: a few suffice
    /\ off <= Len(pts)
    /\ (dm = "encoding" => (lab = 0 /\ np = CHOOSE x \in NParts : \A y \in NParts : x <= y))   \* labels / partitions unused
    /\ HashSeq(<<h, IF dm = "vector" THEN 0 ELSE IF dm = "matrix" THEN 1 ELSE 2, IF same THEN 1 ELSE 0,
                 IF covsig THEN 1 ELSE 0>>, 3) % KeepMod = 0
    /\ inp = Input(pts, off, np, ns, sig, dm, same, ord, lab, covsig, h % 4, roots[((h \div 13) % Len(roots)) + 1])
\* Mode "design": make_design alone, for every n_cond in NConds x n_part in NParts (large n: the closed
\* form must hold for every size, e.g. n_cond = 49, 98, 103 where a float formula for the partition drifts)
InitDesign == \E n \in NConds : \E np \in NParts : inp = [n |-> n, nPart |-> np]
Init == /\ IF Mode = "models" THEN InitModels ELSE IF Mode = "design" THEN InitDesign ELSE InitProtocol
        /\ stage = "input" /\ des = <<>> /\ res = <<>>
        /\ prot = [nd |-> 0, log |-> <<>>, sigOf |-> <<>>, noiseOf |-> <<>>, pre |-> 0]

NObs == IF stage = "input" THEN inp.n * inp.nPart ELSE Len(des.Z)
Encoding == inp.design = "encoding"
Demanded == inp.P >= inp.n /\ ~inp.covsig     \* the model is embeddable by construction

\* make_design, then the labels / design matrix the caller hands to make_dataset
Design == /\ stage = "input"
          /\ LET md == MakeDesign(inp.n, inp.nPart)
                 ord == TrialOrder(inp.order, inp.n, inp.nPart)
                 labels == [o \in 1..NObs |-> LabelOf(inp.lab, md.cond[ord[o]])]
                 Ze == EncZ(inp.n, inp.order)
             IN des' = IF Encoding
                       THEN [cond |-> md.cond, part |-> md.part, labels |-> [o \in 1..Len(Ze) |-> o],   \* by observation
                             parts |-> [o \in 1..Len(Ze) |-> 0], Z |-> Ze]
                       ELSE [cond |-> md.cond, part |-> md.part, labels |-> labels,
                             parts |-> [o \in 1..NObs |-> md.part[ord[o]]], Z |-> Indicator(labels)]
          /\ stage' = "designed"
          /\ UNCHANGED <<inp, prot, res>>

Draw(p, kind, rows, cols) == [p EXCEPT !.nd = p.nd + 1, !.log = Append(p.log, <<kind, rows, cols>>)]
SignalShape == <<inp.n, IF inp.n > inp.P THEN inp.n ELSE inp.P>>      \* make_signal draws n x max(n, P)
\* "if use_same_signal: true_U = make_signal(...)" before the loop
PreSignal == /\ stage = "designed"
             /\ prot' = IF inp.same THEN [Draw(prot, 1, SignalShape[1], SignalShape[2]) EXCEPT !.pre = prot.nd + 1]
                        ELSE prot
             /\ stage' = "drawn"
             /\ UNCHANGED <<inp, des, res>>
\* one iteration of "for _ in range(n_sim)": fresh signal unless same; noise draw n_obs x P
OneSim == /\ stage = "drawn" /\ Len(prot.sigOf) < inp.nSim
          /\ LET p1 == IF inp.same THEN prot ELSE Draw(prot, 1, SignalShape[1], SignalShape[2])
                 sid == IF inp.same THEN prot.pre ELSE p1.nd
                 p2 == Draw(p1, 2, NObs, inp.P)
             IN prot' = [p2 EXCEPT !.sigOf = Append(prot.sigOf, sid), !.noiseOf = Append(prot.noiseOf, p2.nd)]
          /\ UNCHANGED <<inp, stage, des, res>>
\* the observables: per simulation the RDM by condition of the noise-free data
Measure == /\ stage = "drawn" /\ Len(prot.sigOf) = inp.nSim
           /\ res' = [model |-> ModelRdm(inp.pts),
                      cls |-> ModelClass(inp.pts),
                      \* one RDM per representative of the exact signals; simulation k uses rep[sigOf[k] % 2]
                      rep |-> IF Demanded
                              THEN [r \in 0..1 |->
                                      IF \E k \in 1..inp.nSim : prot.sigOf[k] % 2 = r
                                      THEN RdmOfData(MatMul(des.Z, ExactSignal(inp.pts, inp.P, r)),
                                                     des.labels, inp.P, inp.n, inp.sig)
                                      ELSE <<>>]
                              ELSE <<>>]
           /\ stage' = "done"
           /\ UNCHANGED <<inp, des, prot>>
DesignOnly == /\ stage = "input" /\ Mode = "design"
              /\ des' = MakeDesign(inp.n, inp.nPart)
              /\ stage' = "design-done"
              /\ UNCHANGED <<inp, prot, res>>
Next == IF Mode = "design" THEN DesignOnly ELSE (Design \/ PreSignal \/ OneSim \/ Measure)
Done == stage = "done"

(* ------------------------------ properties ----------------------------- *)
DesignOk == (stage = "designed" /\ ~Encoding) =>
   /\ DesignBalanced(des, inp.n, inp.nPart)
   \* the labels handed over still list every condition once per partition, whatever the trial order
   /\ \A c \in 0..inp.n-1 : \A p \in 0..inp.nPart-1 :
        Cardinality({o \in 1..NObs : des.labels[o] = LabelOf(inp.lab, c) /\ des.parts[o] = p}) = 1
   /\ \A o \in 1..NObs : SumSeq(des.Z[o]) = 1                        \* indicator rows
   /\ Len(des.Z[1]) = inp.n
\* o |-> cond[o] + n * part[o] is a bijection onto 0..N-1  <=>  every (condition, partition) pair exactly once
DesignSweepOk == stage = "design-done" =>
   LET N == inp.n * inp.nPart IN
   /\ Len(des.cond) = N /\ Len(des.part) = N
   /\ \A o \in 1..N : des.cond[o] \in 0..inp.n-1 /\ des.part[o] \in 0..inp.nPart-1
   /\ Cardinality({des.cond[o] + inp.n * des.part[o] : o \in 1..N}) = N
EmitDesign == stage = "design-done" =>
   PrintT(ToJson([kind |-> "design", n |-> inp.n, nPart |-> inp.nPart, cond |-> des.cond, part |-> des.part]))
GramOk == Done => DoubleCentring(inp.pts)
SignalOk == (Done /\ inp.P >= inp.n) => \A r \in 0..1 : SignalIsExact(inp.pts, ExactSignal(inp.pts, inp.P, r))
Contract ==          \* clause a: Rdm(MakeDataset(model, exact signal, zero noise)) = signal * ModelRdm
  (Done /\ Demanded /\ ~Encoding) => \A k \in 1..inp.nSim : \A e \in 1..CLen(inp.n) :
       RatEq(res.rep[prot.sigOf[k] % 2][e], <<inp.sig[1] * res.model[e], inp.sig[2]>>)
\* encoding design: RDM by observation = signal (z_a - z_b)^T G (z_a - z_b) = signal |sum_j (z_aj - z_bj) Y_j|^2 / n^2
EncContract ==
  (Done /\ Demanded /\ Encoding) =>
     LET Y == Centred(inp.pts)  pr == Pairs(NObs) IN
     \A k \in 1..inp.nSim : \A e \in 1..Len(pr) :
        LET a == pr[e][1]  b == pr[e][2]
            dv == [d \in 1..Dim |-> SumSeq([j \in 1..inp.n |-> (des.Z[a][j] - des.Z[b][j]) * Y[j][d]])]
        IN RatEq(res.rep[prot.sigOf[k] % 2][e], <<inp.sig[1] * Dot(dv, dv), inp.sig[2] * inp.n * inp.n>>)
SameSignal ==        \* clause d
  stage \in {"drawn", "done"} =>
    /\ (inp.same => \A k \in 1..Len(prot.sigOf) : prot.sigOf[k] = prot.pre /\ prot.pre = 1)
    /\ (~inp.same => \A k, m \in 1..Len(prot.sigOf) : k # m => prot.sigOf[k] # prot.sigOf[m])
    /\ \A k, m \in 1..Len(prot.noiseOf) : k # m => prot.noiseOf[k] # prot.noiseOf[m]
    /\ \A k \in 1..Len(prot.sigOf) : \A m \in 1..Len(prot.noiseOf) : prot.sigOf[k] # prot.noiseOf[m]
    \* a draw is a signal draw iff its log entry says so, and it has the shape the code asks for
    /\ \A k \in 1..Len(prot.sigOf) : prot.log[prot.sigOf[k]] = <<1, SignalShape[1], SignalShape[2]>>
    /\ \A k \in 1..Len(prot.noiseOf) : prot.log[prot.noiseOf[k]] = <<2, NObs, inp.P>>
DrawCount == Done => prot.nd = (IF inp.same THEN 1 + inp.nSim ELSE 2 * inp.nSim)
\* clause e: the noise part of entry (o, c) is root * Eps(o, c); Eps is the (transformed) draw, a token here
Eps(o, c) == 100 * o + c
NoisePart(root, o, c) == <<root[1] * Eps(o, c), root[2]>>
NoiseRelation == Done => \A o \in {1, NObs} : \A c \in {1, inp.P} :
   /\ RatEq(NoisePart(inp.root, o, c), <<inp.root[1] * NoisePart(<<1, 1>>, o, c)[1], inp.root[2]>>)
   /\ NoisePart(<<0, 1>>, o, c)[1] = 0
\* channel and trial structure: noise = Lt (root Eps) Lc with lower-triangular factors (tokens: 2 on the diagonal,
\* 1 below; the identity when the covariance is not given)
Fac(on, i, j) == IF on = 1 THEN (IF i = j THEN 2 ELSE IF j < i THEN 1 ELSE 0) ELSE (IF i = j THEN 1 ELSE 0)
ChanFirst(o, c) ==      \* the code: epsilon @ chol_channel, then chol_trial @ (that)
  SumSeq([o2 \in 1..NObs |-> Fac(inp.tcov, o, o2) * SumSeq([c2 \in 1..inp.P |-> Eps(o2, c2) * Fac(inp.ncov, c2, c)])])
TrialFirst(o, c) ==
  SumSeq([c2 \in 1..inp.P |-> SumSeq([o2 \in 1..NObs |-> Fac(inp.tcov, o, o2) * Eps(o2, c2)]) * Fac(inp.ncov, c2, c)])
NoiseStructure == Done => \A o \in {1, NObs} : \A c \in {1, inp.P} :
   /\ ChanFirst(o, c) = TrialFirst(o, c)                                       \* order of the two products
   /\ ((inp.tcov = 0 /\ inp.ncov = 0) => ChanFirst(o, c) = Eps(o, c))          \* no structure: the draw itself
   /\ (inp.tcov = 0 => ChanFirst(o, c) = SumSeq([c2 \in 1..inp.P |-> Eps(o, c2) * Fac(inp.ncov, c2, c)]))

Emit == Done => PrintT(ToJson(
   [n |-> inp.n, pts |-> inp.pts, P |-> inp.P, nPart |-> inp.nPart, nSim |-> inp.nSim, sig |-> inp.sig,
    design |-> inp.design, same |-> inp.same, order |-> inp.order, lab |-> inp.lab, labden |-> LabelDen(inp.lab),
    covsig |-> inp.covsig,
    ncov |-> inp.ncov, tcov |-> inp.tcov, root |-> inp.root, demanded |-> Demanded, nobs |-> NObs,
    gram2 |-> [i \in 1..inp.n |-> [j \in 1..inp.n |-> Gram2FromD(inp.pts, i, j)]],      \* 2 n^2 G, exact
    cond |-> des.cond, part |-> des.part, labels |-> des.labels, Z |-> des.Z,
    draws |-> prot.log, sigOf |-> prot.sigOf, model |-> res.model, cls |-> res.cls,
    rdm |-> IF Demanded THEN res.rep[prot.sigOf[1] % 2] ELSE <<>>]))
=============================================================================
