---------------------------- MODULE Trace_Compare ----------------------------
(***************************************************************************)
(* Implementation -> specification for Compare: calls of                    *)
(* rsatoolbox.rdm.compare recorded on integer stacks LARGER than the        *)
(* exhaustive grid (harness/compare.py:record_trace) are re-evaluated by    *)
(* TLC.  Every event binds the variables of Compare to the logged input,    *)
(* res' is the specification's own Result, and the logged output must be    *)
(* explained by it:                                                         *)
(*   rational measures (tau-a, rho-a): the recorder logs value * den        *)
(*     rounded to the integer it has to be; it must equal ab exactly;       *)
(*   irrational last step (cosine, corr, spearman, tau-b): the recorder     *)
(*     logs sign and q = round(|value| * K); with N = |ab|, D = aa * bb the *)
(*     relation value^2 * D = N^2 becomes, within the rounding bound,       *)
(*         (q-1)^2 * D <= K^2 * N^2 <= (q+1)^2 * D                          *)
(*     in exact integer arithmetic (numbers leave 32 bits: base-10^4 limbs);*)
(*   whitened measures: shape and pairing are validated here, the exact V   *)
(*     and centred vectors are printed for the kernel (V^-1 is not integer).*)
(* The invariants of Compare (CauchySchwarz, Symmetric, SelfOne, Pairing,   *)
(* VProps) are evaluated on every state reached this way.                   *)
(* One behaviour per trace id; acceptance is printed.                       *)
(***************************************************************************)
EXTENDS Compare, IOUtils
VARIABLES tid, l
Traces == JsonDeserialize(IOEnv.TRACE_FILE)
K == 1000000

(* ---------------- naturals beyond 32 bits: little-endian limbs base 10^4 -- *)
BB == 10000
RECURSIVE BigNorm(_)
BigNorm(x) == IF x # <<>> /\ x[Len(x)] = 0 THEN BigNorm(SubSeq(x, 1, Len(x) - 1)) ELSE x
Big(n) == BigNorm(<<n % BB, (n \div BB) % BB, n \div (BB * BB)>>)          \* 0 <= n < 2^31
RECURSIVE BigAddC(_, _, _)
BigAddC(x, y, c) ==
  IF x = <<>> /\ y = <<>> THEN (IF c = 0 THEN <<>> ELSE <<c>>)
  ELSE LET xd == IF x = <<>> THEN 0 ELSE Head(x)
           yd == IF y = <<>> THEN 0 ELSE Head(y)
           s == xd + yd + c IN
       <<s % BB>> \o BigAddC(IF x = <<>> THEN x ELSE Tail(x), IF y = <<>> THEN y ELSE Tail(y), s \div BB)
BigAdd(x, y) == BigAddC(x, y, 0)
RECURSIVE BigMulD(_, _, _)                                                \* x * d + c, 0 <= d < BB
BigMulD(x, d, c) == IF x = <<>> THEN (IF c = 0 THEN <<>> ELSE <<c>>)
                    ELSE LET p == Head(x) * d + c IN <<p % BB>> \o BigMulD(Tail(x), d, p \div BB)
Shift(z) == IF z = <<>> THEN z ELSE <<0>> \o z
RECURSIVE BigMul(_, _)
BigMul(x, y) == IF y = <<>> \/ x = <<>> THEN <<>>
                ELSE BigAdd(BigNorm(BigMulD(x, Head(y), 0)), Shift(BigMul(x, Tail(y))))
RECURSIVE BigLeqFrom(_, _, _)
BigLeqFrom(x, y, i) == IF i = 0 THEN TRUE ELSE IF x[i] # y[i] THEN x[i] < y[i] ELSE BigLeqFrom(x, y, i - 1)
BigLeq(x, y) == IF Len(x) # Len(y) THEN Len(x) < Len(y) ELSE BigLeqFrom(x, y, Len(x))
BigSq(n) == BigMul(Big(n), Big(n))

\* the bignum arithmetic is itself checked against TLC's integers where both apply
ASSUME \A x \in {0, 1, 7, 9999, 10000, 12345, 46340} : \A y \in {0, 3, 9999, 10001, 46340} :
          /\ BigMul(Big(x), Big(y)) = Big(x * y)
          /\ BigAdd(Big(x), Big(y)) = Big(x + y)
          /\ BigLeq(Big(x), Big(y)) = (x <= y)
ASSUME BigMul(Big(2000000000), Big(2000000000)) = <<0, 0, 0, 0, 400>>

(* ---------------- explaining one logged entry ---------------------------- *)
\* |value| = N / sqrt(D) within one unit of q / K
RootRelation(q, N, aa, bb) ==
  LET D == BigMul(Big(aa), Big(bb))
      K2N2 == BigMul(BigSq(K), BigSq(N))
      lo == IF q >= 1 THEN q - 1 ELSE 0 IN
  /\ BigLeq(BigMul(BigSq(lo), D), K2N2)
  /\ BigLeq(K2N2, BigMul(BigSq(q + 1), D))

Explains(m, st, o) ==
  IF m \in CovMethods THEN TRUE
  ELSE IF m \in {"tau-a", "rho-a"}
  THEN o.ok /\ o.q = Abs(st.ab) /\ o.sg = Sign(st.ab)
  ELSE /\ o.q <= K + 1                                      \* range [-1, 1]
       /\ RootRelation(o.q, Abs(st.ab), st.aa, st.bb)
       /\ (o.q >= 2 => o.sg = Sign(st.ab))
       /\ (o.q <= 1 => o.sg \in {0, Sign(st.ab)})

\* C17 h along a recorded session: the event repeats the previous call after a transform of the
\* FIRST stack; "same": strictly increasing map, rank-based measure: the statistics are identical;
\* "lin": positive affine / scaling map: ab and aa scale by c and c^2, i.e. ab' * aa = c * ab * aa ...
\* checked as ab'^2 * aa = ab^2 * aa' with equal sign and bb' = bb (multi-limb products)
InvOk(ev, R) ==
  IF ev.inv = "none" THEN TRUE
  ELSE /\ Len(R) = Len(res) /\ Len(R[1]) = Len(res[1])
       /\ \A i \in 1..Len(R) : \A j \in 1..Len(R[1]) :
            LET s == res[i][j]  t == R[i][j] IN
            IF ev.inv = "same" THEN t = s
            ELSE IF ev.m \in CovMethods THEN Proportional(t.u, s.u) /\ t.v = s.v
            ELSE /\ Sign(t.ab) = Sign(s.ab) /\ t.bb = s.bb
                 /\ BigMul(BigSq(Abs(t.ab)), Big(s.aa)) = BigMul(BigSq(Abs(s.ab)), Big(t.aa))

ShapeOk(ev) == /\ "bad" \notin DOMAIN ev
               /\ ev.shape = <<Len(ev.a), Len(ev.b)>>
               /\ Len(ev.out) = Len(ev.a) /\ \A i \in 1..Len(ev.a) : Len(ev.out[i]) = Len(ev.b)
InDomain(ev) == /\ ev.m \in AllMethods \ PointMethods
                /\ \A i \in 1..Len(ev.a) : Len(ev.a[i]) = L /\ AdmVec(ev.m, ev.a[i])
                /\ \A j \in 1..Len(ev.b) : Len(ev.b[j]) = L /\ AdmVec(ev.m, ev.b[j])
FirstBad(ev, R) == CHOOSE ij \in (1..Len(ev.a)) \X (1..Len(ev.b)) : ~Explains(ev.m, R[ij[1]][ij[2]], ev.out[ij[1]][ij[2]])

TInit == /\ tid \in 1..Len(Traces) /\ l = 1
         /\ a = <<>> /\ b = <<>> /\ pa = <<>> /\ pb = <<>> /\ method = "cosine" /\ sid = 0
         /\ sigma = NoSigma /\ pc = "in" /\ res = <<>> /\ mv = NoMove

TStep == /\ l >= 1 /\ l <= Len(Traces[tid])
         /\ LET ev == Traces[tid][l]
                R == Result(ev.m, ev.a, ev.b, <<>>, <<>>) IN
            IF InDomain(ev) /\ ShapeOk(ev) /\ InvOk(ev, R)
               /\ \A i \in 1..Len(ev.a) : \A j \in 1..Len(ev.b) : Explains(ev.m, R[i][j], ev.out[i][j])
            THEN /\ a' = ev.a /\ b' = ev.b /\ method' = ev.m /\ sigma' = ev.sg /\ res' = R /\ pc' = "out"
                 /\ l' = l + 1
                 /\ (ev.m \in CovMethods => PrintT(ToJson([cov |-> tid, l |-> l, V |-> VMat(ev.sg), uv |-> R])))
                 /\ (l = Len(Traces[tid]) => PrintT(ToJson([accept |-> tid])))
            ELSE /\ PrintT(ToJson([reject |-> tid, l |-> l, m |-> ev.m, enabled |-> InDomain(ev),
                                   shape |-> InDomain(ev) /\ ShapeOk(ev),
                                   inv |-> InDomain(ev) /\ ShapeOk(ev) /\ InvOk(ev, R),
                                   entry |-> IF InDomain(ev) /\ ShapeOk(ev) /\ InvOk(ev, R)
                                                /\ \E ij \in (1..Len(ev.a)) \X (1..Len(ev.b)) :
                                                      ~Explains(ev.m, R[ij[1]][ij[2]], ev.out[ij[1]][ij[2]])
                                             THEN FirstBad(ev, R) ELSE <<0, 0>>,
                                   expected |-> IF InDomain(ev) THEN R ELSE <<>>]))
                 /\ l' = 0 /\ UNCHANGED <<a, b, method, sigma, res, pc>>
         /\ UNCHANGED <<tid, pa, pb, sid, mv>>
TSpec == TInit /\ [][TStep]_<<vars, tid, l>>
=============================================================================
