------------------------ MODULE MC_Trace_ResultSummary ------------------------
EXTENDS Trace_ResultSummary
MCLenGrid == {1}
MCValGrid == {0}
MCPGrid == {0}
=============================================================================
