------------------------------- MODULE Compare -------------------------------
(***************************************************************************)
(* RDM comparison measures (rsatoolbox.rdm.compare and the compare_*       *)
(* functions) as exact definitions over integers, and the invariances the  *)
(* theory dictates (C03 and clause h of C17).                              *)
(*                                                                         *)
(* An RDM is its condensed upper-triangular vector (row-major pairs        *)
(* (1,2),(1,3),..,(NC-1,NC)) of small integers.  The state holds two       *)
(* stacks a, b of such vectors, the method name and the pattern covariance *)
(* sigma.  Every measure is reduced to exact SUFFICIENT STATISTICS         *)
(*      [ab, aa, bb]   with   value = ab / sqrt(aa * bb)                   *)
(* (cosine: dot products; corr: dot products of the centred vectors        *)
(* scaled by the length to stay integral; spearman: of the centred doubled *)
(* tie-averaged ranks; kendall (tau-b): ab = C-D, aa = n0-Tx, bb = n0-Ty   *)
(* from brute-force concordance counts; tau-a: ab = C-D, aa = bb = n0, so  *)
(* the value is the rational (C-D)/n0; rho-a: ab = 3*Sum(r2x*r2y),         *)
(* aa = bb = n^3-n, the rational 12*Sum(rx*ry)/(n^3-n)).  For the whitened *)
(* measures the statistics are the (centred) vectors u, v and the exact    *)
(* integer matrix V(sigma), value = u'V^-1v / sqrt(u'V^-1u * v'V^-1v);     *)
(* V^-1 is applied by numpy.linalg.solve in the trusted kernel             *)
(* (harness/compare.py).  sigma = None, a variance vector and a matrix are *)
(* ONE definition: SigmaMat turns all three into a matrix (identity,       *)
(* diagonal, itself) and V is computed from that matrix.                   *)
(* Bures: the inputs are integer point configurations (hence Euclidean     *)
(* embeddable); the RDM holds squared distances, the double-centred kernel *)
(* is checked to be the Gram matrix of the centred points, and for points  *)
(* of dimension <= 2 the squared fidelity is the exact integer             *)
(* |M|_F^2 + 2|det M| with M = Xa'Xb, so [ab = F^2, aa = tr A, bb = tr B]. *)
(*                                                                         *)
(* Stages: Init picks an admissible input (pc = "in"), Compute fills res   *)
(* (pc = "out"), then ONE move transforms the input and recomputes         *)
(* (pc = "moved"): simultaneous permutation of the conditions of both      *)
(* stacks (and of sigma), swap of the arguments, every strictly increasing *)
(* map of the value set applied to one side, positive scaling, positive    *)
(* affine maps.  The theorems are invariants of the "out" states and       *)
(* action properties of the moves; TLC checks them on the whole grid and   *)
(* the Emit invariant prints every state as a test vector.                 *)
(***************************************************************************)
EXTENDS Integers, Sequences, FiniteSets, TLC, Functions, FiniteSetsExt, SequencesExt, Json

CONSTANTS NC,          \* number of conditions (3 or 4 in the exhaustive runs)
          Vecs,        \* the set of RDM vectors the first stack is drawn from
          VecsB,       \* ... and the second stack (= Vecs in the exhaustive runs)
          MoveVecs,    \* moves are explored from stacks drawn from this subset
          Shapes,      \* set of <<n1, n2>> : sizes of the two stacks
          Methods,     \* subset of AllMethods
          Sigmas,      \* catalogue (sequence) of pattern covariances [kind, v, m]
          Moves,       \* subset of {"perm","swap","mono","scale","affine"}
          MonoLo, MonoHi,  \* strictly increasing maps go into MonoLo..MonoHi
          Scales,      \* positive integer factors
          Affines,     \* set of <<c, d>>, c > 0 : x |-> c*x + d
          Configs,     \* point configurations (sequences of NC points) for Bures
          MoveConfigs, \* moves of the Bures runs are explored from these configurations
          Degenerate,  \* TRUE: exactly ONE vector of the two stacks is degenerate for the method
                       \* (entries that involve it are not demanded), FALSE: none is
          EmitMod,     \* emit one "out" state in EmitMod
          MoveEmitMod  \* emit one "moved" state in MoveEmitMod

VARIABLES a, b,        \* the two stacks (sequences of vectors)
          pa, pb,      \* ghost: the point configurations behind a, b (Bures), else <<>>
          method, sid, sigma,
          pc, res, mv
vars == <<a, b, pa, pb, method, sid, sigma, pc, res, mv>>

AllMethods == {"cosine", "corr", "spearman", "kendall", "tau-a", "rho-a",
               "cosine_cov", "corr_cov", "bures", "bures_metric", "neg_riem_dist"}
CovMethods == {"cosine_cov", "corr_cov"}
RankMethods == {"spearman", "kendall", "tau-a", "rho-a"}
BuresMethods == {"bures", "bures_metric"}
RiemMethods == {"neg_riem_dist"}          \* spec growth: not named by the statement of C03
PointMethods == BuresMethods \cup RiemMethods   \* inputs are point configurations (embeddable RDMs)
CentredMethods == {"corr", "corr_cov"}

(* ---------------- small arithmetic --------------------------------------- *)
Abs(x) == IF x < 0 THEN -x ELSE x
Sign(x) == IF x > 0 THEN 1 ELSE IF x < 0 THEN -1 ELSE 0
Min2(x, y) == IF x < y THEN x ELSE y
Max2(x, y) == IF x < y THEN y ELSE x
RECURSIVE GCD(_, _)
GCD(x, y) == IF y = 0 THEN x ELSE GCD(y, x % y)
Sum(f) == SumFunction(f)
Dot(u, v) == Sum([k \in DOMAIN u |-> u[k] * v[k]])
\* a rational is <<num, den>> in lowest terms with den > 0; <<0, 0>> stands for 0/0 (undefined)
Rat(n, d) == IF d = 0 THEN <<0, 0>>
             ELSE LET g == GCD(Abs(n), Abs(d)) IN <<Sign(d) * (n \div g), Abs(d) \div g>>
RatMul(p, q) == IF p[2] = 0 \/ q[2] = 0 THEN <<0, 0>>      \* cross-reduced: no big intermediates
                ELSE LET g1 == GCD(Abs(p[1]), q[2])  g2 == GCD(Abs(q[1]), p[2]) IN
                     <<(p[1] \div g1) * (q[1] \div g2), (p[2] \div g2) * (q[2] \div g1)>>

(* ---------------- condensed index ---------------------------------------- *)
CLen(n) == (n * (n - 1)) \div 2
L == CLen(NC)
Cidx(n, p, q) == (p - 1) * n - ((p - 1) * p) \div 2 + (q - p)          \* 1 <= p < q <= n
Pairs == [k \in 1..L |-> CHOOSE pq \in (1..NC) \X (1..NC) : pq[1] < pq[2] /\ Cidx(NC, pq[1], pq[2]) = k]
CidxU(p, q) == Cidx(NC, Min2(p, q), Max2(p, q))                        \* unordered, p # q

(* ---------------- the building blocks of the measures -------------------- *)
\* centred vector, scaled by its length so that it stays integral
Cen(x) == LET n == Len(x)  s == Sum(x) IN [k \in 1..n |-> n * x[k] - s]
\* doubled tie-averaged ranks: 2 * (#smaller + (#equal + 1) / 2)
Rank2(x) == [k \in 1..Len(x) |->
               2 * Cardinality({j \in 1..Len(x) : x[j] < x[k]})
               + Cardinality({j \in 1..Len(x) : x[j] = x[k]}) + 1]
\* centred doubled ranks: the mean of the doubled ranks is n + 1
CRank2(x) == LET r == Rank2(x) IN [k \in 1..Len(x) |-> r[k] - (Len(x) + 1)]
\* concordant / discordant / tied index pairs by brute force
IdxPairs(n) == {ij \in (1..n) \X (1..n) : ij[1] < ij[2]}
ConDis(x, y) ==
  LET P == IdxPairs(Len(x))
      s(ij) == Sign(x[ij[1]] - x[ij[2]]) * Sign(y[ij[1]] - y[ij[2]]) IN
  [c  |-> Cardinality({ij \in P : s(ij) > 0}),
   d  |-> Cardinality({ij \in P : s(ij) < 0}),
   tx |-> Cardinality({ij \in P : x[ij[1]] = x[ij[2]]}),
   ty |-> Cardinality({ij \in P : y[ij[1]] = y[ij[2]]}),
   txy |-> Cardinality({ij \in P : x[ij[1]] = x[ij[2]] /\ y[ij[1]] = y[ij[2]]})]
NoTies(x) == \A i, j \in 1..Len(x) : i # j => x[i] # x[j]
IsConst(x) == \A i, j \in 1..Len(x) : x[i] = x[j]

S3(ab, aa, bb) == [ab |-> ab, aa |-> aa, bb |-> bb]
DotStat(u, v) == S3(Dot(u, v), Dot(u, u), Dot(v, v))

(* ---------------- whitening: V(sigma) ------------------------------------ *)
NoSigma == [kind |-> "none", v |-> <<>>, m |-> <<>>]
\* None -> identity, variance vector -> diagonal matrix, matrix -> itself : ONE definition
SigmaMat(s) == CASE s.kind = "none" -> [i \in 1..NC |-> [j \in 1..NC |-> IF i = j THEN 1 ELSE 0]]
                 [] s.kind = "vec"  -> [i \in 1..NC |-> [j \in 1..NC |-> IF i = j THEN s.v[i] ELSE 0]]
                 [] s.kind = "mat"  -> s.m
\* covariance of the contrasts (e_i - e_j), (e_p - e_q), and its element-wise square
Xi(S, k, l) == LET i == Pairs[k][1]  j == Pairs[k][2]  p == Pairs[l][1]  q == Pairs[l][2] IN
               S[i][p] - S[i][q] - S[j][p] + S[j][q]
VMat(s) == LET S == SigmaMat(s) IN [k \in 1..L |-> [l \in 1..L |-> Xi(S, k, l) * Xi(S, k, l)]]

(* ---------------- Bures: point configurations ---------------------------- *)
\* a configuration is a sequence of NC points, a point a sequence of PDim integers
SqDist(p, q) == Sum([d \in DOMAIN p |-> (p[d] - q[d]) * (p[d] - q[d])])
RdmOf(cfg) == [k \in 1..L |-> SqDist(cfg[Pairs[k][1]], cfg[Pairs[k][2]])]
\* NC * centred coordinates
CenPts(cfg) == [i \in 1..NC |-> [d \in DOMAIN cfg[i] |->
                   NC * cfg[i][d] - Sum([j \in 1..NC |-> cfg[j][d]])]]
\* 2*NC^2 * (-1/2 H D H): the double-centred kernel computed from the RDM vector alone
MatOf(x, i, j) == IF i = j THEN 0 ELSE x[CidxU(i, j)]
Kernel2(x) ==
  LET row(i) == Sum([j \in 1..NC |-> MatOf(x, i, j)])
      tot == Sum([i \in 1..NC |-> row(i)]) IN
  [i \in 1..NC |-> [j \in 1..NC |-> -(NC * NC * MatOf(x, i, j) - NC * row(i) - NC * row(j) + tot)]]
\* M = Xa' Xb (PDim x PDim) from the scaled centred points; trace of the scaled Gram matrix
CrossM(ca, cb) == LET D == DOMAIN ca[1] IN
                  [d \in D |-> [e \in D |-> Sum([i \in 1..NC |-> ca[i][d] * cb[i][e]])]]
TraceG(c) == Sum([i \in 1..NC |-> Dot(c[i], c[i])])
\* (sum of singular values)^2 of a 1x1 or 2x2 matrix = |M|_F^2 + 2|det M|
Nuc2(M) == IF Len(M) = 1 THEN M[1][1] * M[1][1]
           ELSE M[1][1] * M[1][1] + M[1][2] * M[1][2] + M[2][1] * M[2][1] + M[2][2] * M[2][2]
                + 2 * Abs(M[1][1] * M[2][2] - M[1][2] * M[2][1])
BuresStat(ca, cb) == S3(Nuc2(CrossM(ca, cb)), TraceG(ca), TraceG(cb))

(* ---------------- negative Riemannian distance (spec growth) -------------- *)
\* The code maps an RDM to the second moment of the contrasts against the FIRST condition,
\* G~ = P G P' with P = [-1 | I]: diagonal d(1,i), off-diagonal (d(1,i) + d(1,j) - d(i,j)) / 2, the noise
\* to Sigma^ = P Sigma P', and returns  - min over (t0, t1) of
\*      sqrt( sum_k log^2 lambda_k )   with lambda the generalised eigenvalues of
\*      (exp(t0) G~1 + exp(t1) Sigma^) v = lambda G~2 v .
\* The roles are NOT symmetric: the first RDM is rescaled and gets noise added, the second is the
\* reference and has to be positive definite.  Exact here: 2 G~ and Sigma^ as integer matrices, their
\* positive definiteness (leading minors), 2 G~ = 2 * Gram of the points relative to the first one
\* (embeddable), and how both change under a permutation of the conditions (a congruence with an
\* integer matrix of determinant +-1, which leaves the generalised eigenvalues alone).  The minimisation
\* over (t0, t1), log and the eigenvalues belong to the kernel.
NR1 == NC - 1
Riem2(x) == [i \in 1..NR1 |-> [j \in 1..NR1 |->
               IF i = j THEN 2 * x[CidxU(1, i + 1)]
               ELSE x[CidxU(1, i + 1)] + x[CidxU(1, j + 1)] - x[CidxU(i + 1, j + 1)]]]
SigHat(s) == LET S == SigmaMat(s) IN
             [i \in 1..NR1 |-> [j \in 1..NR1 |-> S[1][1] - S[1][j + 1] - S[i + 1][1] + S[i + 1][j + 1]]]
Det2(M) == M[1][1] * M[2][2] - M[1][2] * M[2][1]
Det3g(M) == M[1][1] * (M[2][2] * M[3][3] - M[2][3] * M[3][2])
          - M[1][2] * (M[2][1] * M[3][3] - M[2][3] * M[3][1])
          + M[1][3] * (M[2][1] * M[3][2] - M[2][2] * M[3][1])
\* positive definite by leading principal minors (matrices of size NC-1 <= 3)
PosDef(M) == /\ M[1][1] > 0
             /\ (NR1 >= 2 => Det2(M) > 0)
             /\ (NR1 >= 3 => Det3g(M) > 0)
\* the change of reference condition under "new condition p is old condition pi[p]":
\* e(pi[p]) - e(pi[1]) = c(pi[p]) - c(pi[1]) in the old contrasts c(k) = e(k) - e(1), c(1) = 0
RiemM(pi) == [p \in 1..NR1 |-> [k \in 1..NR1 |->
                (IF pi[p + 1] = k + 1 THEN 1 ELSE 0) - (IF pi[1] = k + 1 THEN 1 ELSE 0)]]
Congr(M, G) == [i \in 1..NR1 |-> [j \in 1..NR1 |->
                  Sum([k \in 1..NR1 |-> M[i][k] * Sum([l \in 1..NR1 |-> G[k][l] * M[j][l]])])]]
RelPts(cfg) == [i \in 1..NR1 |-> [d \in DOMAIN cfg[1] |-> cfg[i + 1][d] - cfg[1][d]]]

(* ---------------- the statistics of one pair ----------------------------- *)
Stat(m, x, y) ==
  CASE m = "cosine"   -> DotStat(x, y)
    [] m = "corr"     -> DotStat(Cen(x), Cen(y))
    [] m = "spearman" -> DotStat(CRank2(x), CRank2(y))
    [] m = "kendall"  -> LET k == ConDis(x, y)  n0 == CLen(Len(x)) IN S3(k.c - k.d, n0 - k.tx, n0 - k.ty)
    [] m = "tau-a"    -> LET k == ConDis(x, y)  n0 == CLen(Len(x)) IN S3(k.c - k.d, n0, n0)
    [] m = "rho-a"    -> LET n == Len(x)  d == n * n * n - n IN S3(3 * Dot(CRank2(x), CRank2(y)), d, d)
    [] m = "cosine_cov" -> [u |-> x, v |-> y]
    [] m = "corr_cov"   -> [u |-> Cen(x), v |-> Cen(y)]
    [] m = "neg_riem_dist" -> [g1 |-> Riem2(x), g2 |-> Riem2(y)]      \* Sigma^ : SigHat(sigma)
\* the result matrix: entry (i,j) pairs RDM i of the first with RDM j of the second stack
Result(m, A, B, PA, PB) ==
  IF m \in BuresMethods
  THEN [i \in 1..Len(A) |-> [j \in 1..Len(B) |-> BuresStat(CenPts(PA[i]), CenPts(PB[j]))]]
  ELSE [i \in 1..Len(A) |-> [j \in 1..Len(B) |-> Stat(m, A[i], B[j])]]

\* the generator constraint: inputs on which the measure is 0/0 are excluded (and counted by the harness)
AdmVec(m, x) == CASE m \in {"cosine", "cosine_cov", "bures", "bures_metric"} -> {k \in 1..Len(x) : x[k] # 0} # {}
                  [] m \in RiemMethods -> PosDef(Riem2(x))      \* affinely independent points
                  [] m \in {"corr", "corr_cov", "spearman", "kendall"} -> ~IsConst(x)
                  [] OTHER -> TRUE
AdmStack(m, A) == \A i \in 1..Len(A) : AdmVec(m, A[i])
NDeg(m, A) == Cardinality({i \in 1..Len(A) : ~AdmVec(m, A[i])})

(* ---------------- moves -------------------------------------------------- *)
Perms(n) == {p \in [1..n -> 1..n] : Range(p) = 1..n}
\* new condition p is old condition pi[p] (RDMs.reorder / subsample_pattern); kappa is the induced
\* map on condensed indices
Kappa(pi) == [k \in 1..L |-> CidxU(pi[Pairs[k][1]], pi[Pairs[k][2]])]
PermVec(x, pi) == LET kap == Kappa(pi) IN [k \in 1..L |-> x[kap[k]]]
PermStack(A, pi) == [i \in 1..Len(A) |-> PermVec(A[i], pi)]
PermCfgs(P, pi) == [i \in 1..Len(P) |-> [p \in 1..NC |-> P[i][pi[p]]]]
PermSigma(s, pi) == CASE s.kind = "none" -> s
                      [] s.kind = "vec" -> [s EXCEPT !.v = [p \in 1..NC |-> s.v[pi[p]]]]
                      [] s.kind = "mat" -> [s EXCEPT !.m = [p \in 1..NC |-> [q \in 1..NC |-> s.m[pi[p]][pi[q]]]]]
ValsOf(A) == UNION {Range(A[i]) : i \in 1..Len(A)}
\* ALL strictly increasing maps of the finite value set S into MonoLo..MonoHi
StrictInc(S) == {f \in [S -> MonoLo..MonoHi] : \A x, y \in S : x < y => f[x] < f[y]}
MapStack(A, f) == [i \in 1..Len(A) |-> [k \in 1..Len(A[i]) |-> f[A[i][k]]]]
LinStack(A, c, d) == [i \in 1..Len(A) |-> [k \in 1..Len(A[i]) |-> c * A[i][k] + d]]

NoMove == [k |-> "none", side |-> 0, arg |-> <<>>, a0 |-> <<>>, b0 |-> <<>>]
Mv(k, side, arg) == [k |-> k, side |-> side, arg |-> arg, a0 |-> a, b0 |-> b]

Init == /\ method \in Methods
        /\ IF method \in PointMethods
           THEN /\ pa \in [1..1 -> Configs] /\ pb \in [1..1 -> Configs]
                /\ a = [i \in 1..Len(pa) |-> RdmOf(pa[i])]
                /\ b = [i \in 1..Len(pb) |-> RdmOf(pb[i])]
           ELSE /\ pa = <<>> /\ pb = <<>>
                /\ \E sh \in Shapes : a \in [1..sh[1] -> Vecs] /\ b \in [1..sh[2] -> VecsB]
        /\ (method \in BuresMethods => \A i \in 1..NC : pa[1][i][3] = 0 /\ pb[1][i][3] = 0)   \* planar: Nuc2
        /\ IF Degenerate THEN NDeg(method, a) + NDeg(method, b) = 1
           ELSE AdmStack(method, a) /\ AdmStack(method, b)
        /\ sid \in (IF method \in CovMethods THEN 1..Len(Sigmas)
                    ELSE IF method \in RiemMethods     \* sigma_k None or a matrix (a vector is not accepted)
                    THEN {k \in 1..Len(Sigmas) : Sigmas[k].kind # "vec"} ELSE {0})
        /\ sigma = IF sid = 0 THEN NoSigma ELSE Sigmas[sid]
        /\ pc = "in" /\ res = <<>> /\ mv = NoMove

Compute == /\ pc = "in"
           /\ res' = Result(method, a, b, pa, pb)
           /\ pc' = "out"
           /\ UNCHANGED <<a, b, pa, pb, method, sid, sigma, mv>>

Movable == /\ pc = "out" /\ ~Degenerate
           /\ IF method \in PointMethods
              THEN (\A i \in 1..Len(pa) : pa[i] \in MoveConfigs) /\ (\A j \in 1..Len(pb) : pb[j] \in MoveConfigs)
              ELSE (\A i \in 1..Len(a) : a[i] \in MoveVecs) /\ (\A j \in 1..Len(b) : b[j] \in MoveVecs)
Moved(A, B, PA, PB, s, m) == /\ a' = A /\ b' = B /\ pa' = PA /\ pb' = PB /\ sigma' = s /\ mv' = m
                             /\ res' = Result(method, A, B, PA, PB) /\ pc' = "moved"
                             /\ UNCHANGED <<method, sid>>

MovePerm == /\ Movable /\ "perm" \in Moves
            /\ \E pi \in Perms(NC) :
                 Moved(PermStack(a, pi), PermStack(b, pi),
                       IF pa = <<>> THEN pa ELSE PermCfgs(pa, pi), IF pb = <<>> THEN pb ELSE PermCfgs(pb, pi),
                       PermSigma(sigma, pi), Mv("perm", 0, pi))
MoveSwap == /\ Movable /\ "swap" \in Moves
            /\ Moved(b, a, pb, pa, sigma, Mv("swap", 0, <<>>))
\* strictly increasing maps: on either side, for the rank-based measures
MoveMono == /\ Movable /\ "mono" \in Moves /\ method \in RankMethods
            /\ \/ \E f \in StrictInc(ValsOf(a)) : Moved(MapStack(a, f), b, pa, pb, sigma, Mv("mono", 1, f))
               \/ \E f \in StrictInc(ValsOf(b)) : Moved(a, MapStack(b, f), pa, pb, sigma, Mv("mono", 2, f))
\* positive scaling: for every measure but the (unnormalised) Bures metric
MoveScale == /\ Movable /\ "scale" \in Moves /\ method \notin PointMethods
             /\ \E c \in Scales :
                  \/ Moved(LinStack(a, c, 0), b, pa, pb, sigma, Mv("scale", 1, <<c, 0>>))
                  \/ Moved(a, LinStack(b, c, 0), pa, pb, sigma, Mv("scale", 2, <<c, 0>>))
\* positive affine maps: for the correlation-type and the rank-based measures
MoveAffine == /\ Movable /\ "affine" \in Moves /\ method \in CentredMethods \cup RankMethods
              /\ \E cd \in Affines :
                   \/ Moved(LinStack(a, cd[1], cd[2]), b, pa, pb, sigma, Mv("affine", 1, cd))
                   \/ Moved(a, LinStack(b, cd[1], cd[2]), pa, pb, sigma, Mv("affine", 2, cd))

Next == Compute \/ MovePerm \/ MoveSwap \/ MoveMono \/ MoveScale \/ MoveAffine
Spec == Init /\ [][Next]_vars

(* ---------------- theorems on the "out" states (C03 clause g, a) ---------- *)
IsCov == method \in CovMethods
IsRiem == method \in RiemMethods
Out == pc = "out"
Entries == {ij \in (1..Len(a)) \X (1..Len(b)) : TRUE}
\* an entry is demanded when both of its RDMs are non-degenerate for the method (always, unless Degenerate)
Demanded == {ij \in Entries : AdmVec(method, a[ij[1]]) /\ AdmVec(method, b[ij[2]])}

\* |value| <= 1 : Cauchy-Schwarz on the statistics (for Bures: fidelity^2 <= trA * trB)
CauchySchwarz == (Out /\ ~IsCov /\ ~IsRiem) =>
   \A ij \in Demanded : LET s == res[ij[1]][ij[2]] IN
      /\ s.aa > 0 /\ s.bb > 0
      /\ IF method \in {"tau-a", "rho-a"} THEN Abs(s.ab) <= s.aa       \* aa = bb, avoids the product
         ELSE IF method \in BuresMethods THEN s.ab >= 0 /\ Rat(s.ab, s.aa)[1] <= s.bb * Rat(s.ab, s.aa)[2]
         ELSE RatMul(Rat(s.ab, s.aa), Rat(s.ab, s.bb))[1] <= RatMul(Rat(s.ab, s.aa), Rat(s.ab, s.bb))[2]

\* the entries that are not demanded are exactly those with a vanishing norm statistic (this is how
\* the harness recognises them in an emitted vector)
UndemandedIsZeroNorm == Out => \A ij \in Entries :
   LET s == res[ij[1]][ij[2]]
       zero == IF IsCov THEN (\A k \in DOMAIN s.u : s.u[k] = 0) \/ (\A k \in DOMAIN s.v : s.v[k] = 0)
               ELSE IF IsRiem THEN ~PosDef(s.g1) \/ ~PosDef(s.g2)
               ELSE s.aa = 0 \/ s.bb = 0 IN
   zero <=> ij \notin Demanded

\* symmetric in the two arguments: swapping the RDMs swaps aa and bb and keeps ab
StatOfPair(x, y, px, py) == IF method \in BuresMethods THEN BuresStat(CenPts(px), CenPts(py))
                            ELSE Stat(method, x, y)
Flip(s) == IF "u" \in DOMAIN s THEN [u |-> s.v, v |-> s.u]
           ELSE IF "g1" \in DOMAIN s THEN [g1 |-> s.g2, g2 |-> s.g1]       \* (the VALUE is not symmetric)
           ELSE S3(s.ab, s.bb, s.aa)
Symmetric == Out => \A ij \in Entries :
   LET i == ij[1]  j == ij[2] IN
   StatOfPair(b[j], a[i], IF pb = <<>> THEN <<>> ELSE pb[j], IF pa = <<>> THEN <<>> ELSE pa[i]) = Flip(res[i][j])

\* an RDM with itself: value 1 (ab = aa = bb); tau-a and rho-a reach 1 exactly when there are no ties
SelfOne == Out => \A i \in {k \in 1..Len(a) : AdmVec(method, a[k])} :
   LET s == StatOfPair(a[i], a[i], IF pa = <<>> THEN <<>> ELSE pa[i], IF pa = <<>> THEN <<>> ELSE pa[i]) IN
   IF IsCov THEN s.u = s.v
   ELSE IF IsRiem THEN s.g1 = s.g2          \* exp(t0) = 1, exp(t1) -> 0 : all lambda = 1, distance 0 (infimum)
   ELSE IF method \in BuresMethods THEN s.aa = s.bb /\ s.ab = s.aa * s.aa   \* fidelity(A,A) = tr A
   ELSE IF method \in {"tau-a", "rho-a"} THEN s.aa = s.bb /\ s.ab <= s.aa /\ (s.ab = s.aa <=> NoTies(a[i]))
   ELSE s.ab = s.aa /\ s.aa = s.bb

\* entry (i,j) of the result is the comparison of the sub-stacks <<a[i]>>, <<b[j]>>; shape n1 x n2
Pairing == Out =>
   /\ Len(res) = Len(a) /\ \A i \in 1..Len(a) : Len(res[i]) = Len(b)
   /\ \A ij \in Entries :
        Result(method, <<a[ij[1]]>>, <<b[ij[2]]>>,
               IF pa = <<>> THEN <<>> ELSE <<pa[ij[1]]>>, IF pb = <<>> THEN <<>> ELSE <<pb[ij[2]]>>)
          = <<<<res[ij[1]][ij[2]]>>>>

\* V is symmetric with positive diagonal; for NC = 3 positive definite by its leading minors
\* (larger V: checked numerically by the kernel, determinants leave 32 bits)
Det3(M) == M[1][1] * (M[2][2] * M[3][3] - M[2][3] * M[3][2])
         - M[1][2] * (M[2][1] * M[3][3] - M[2][3] * M[3][1])
         + M[1][3] * (M[2][1] * M[3][2] - M[2][2] * M[3][1])
VProps == (Out /\ IsCov) =>
   LET V == VMat(sigma) IN
   /\ \A k, l \in 1..L : V[k][l] = V[l][k] /\ V[k][l] >= 0
   /\ \A k \in 1..L : V[k][k] > 0
   /\ NC = 3 => V[1][1] * V[2][2] - V[1][2] * V[2][1] > 0 /\ Det3(V) > 0
\* a variance vector and the diagonal matrix built from it are the same covariance (clause e)
VecIsDiag == (Out /\ IsCov /\ sigma.kind = "vec") =>
   VMat(sigma) = VMat([kind |-> "mat", v |-> <<>>,
                       m |-> [i \in 1..NC |-> [j \in 1..NC |-> IF i = j THEN sigma.v[i] ELSE 0]]])

\* Bures: the RDM of a point configuration is embeddable: its double-centred kernel is the Gram
\* matrix of the centred points (2 * NC^2 * G on both sides)
Embeddable == (Out /\ method \in BuresMethods) =>
   \A i \in 1..Len(a) : LET c == CenPts(pa[i]) IN
      Kernel2(a[i]) = [p \in 1..NC |-> [q \in 1..NC |-> 2 * Dot(c[p], c[q])]]

\* neg_riem_dist: 2 G~ computed from the RDM vector is twice the Gram matrix of the points relative to the
\* first one; it and Sigma^ are symmetric, Sigma^ is positive definite, the reference is (admissibility)
RiemTheorems == (Out /\ IsRiem) =>
   LET sh == SigHat(sigma) IN
   /\ PosDef(sh) /\ \A i, j \in 1..NR1 : sh[i][j] = sh[j][i]
   /\ \A i \in 1..Len(a) : LET r == RelPts(pa[i]) IN
        Riem2(a[i]) = [p \in 1..NR1 |-> [q \in 1..NR1 |-> 2 * Dot(r[p], r[q])]]
   /\ \A ij \in Entries : PosDef(res[ij[1]][ij[2]].g2) /\ PosDef(res[ij[1]][ij[2]].g1)

(* ---------------- theorems on the moves (C03 g, C17 h) -------------------- *)
SameSign(s, t) == Sign(s.ab) = Sign(t.ab)
\* equal value ab/sqrt(aa*bb): equal sign and equal square, as reduced rationals
SameValue(s, t) == /\ SameSign(s, t)
                   /\ RatMul(Rat(s.ab, s.aa), Rat(s.ab, s.bb)) = RatMul(Rat(t.ab, t.aa), Rat(t.ab, t.bb))
\* u = lambda * w for some lambda > 0
Proportional(u, w) == /\ \A i, j \in DOMAIN u : u[i] * w[j] = u[j] * w[i]
                      /\ Dot(u, w) > 0

\* joint permutation of the conditions: the statistics do not change; for the whitened measures
\* vectors and V are carried along by the same index map kappa
PermInvariant == [][(pc = "out" /\ pc' = "moved" /\ mv'.k = "perm") =>
   IF IsCov
   THEN LET kap == Kappa(mv'.arg)  V == VMat(sigma)  W == VMat(sigma') IN
        /\ \A k, l \in 1..L : W[k][l] = V[kap[k]][kap[l]]
        /\ \A ij \in Entries : \A k \in 1..L :
              /\ res'[ij[1]][ij[2]].u[k] = res[ij[1]][ij[2]].u[kap[k]]
              /\ res'[ij[1]][ij[2]].v[k] = res[ij[1]][ij[2]].v[kap[k]]
   ELSE IF IsRiem
   THEN LET M == RiemM(mv'.arg) IN       \* a congruence: the generalised eigenvalues do not change
        /\ Abs(IF NR1 = 2 THEN Det2(M) ELSE IF NR1 = 3 THEN Det3g(M) ELSE M[1][1]) = 1
        /\ SigHat(sigma') = Congr(M, SigHat(sigma))
        /\ \A ij \in Entries : /\ res'[ij[1]][ij[2]].g1 = Congr(M, res[ij[1]][ij[2]].g1)
                                /\ res'[ij[1]][ij[2]].g2 = Congr(M, res[ij[1]][ij[2]].g2)
   ELSE res' = res]_vars

SwapTransposes == [][(pc = "out" /\ pc' = "moved" /\ mv'.k = "swap") =>
   /\ Len(res') = Len(b) /\ \A ij \in Entries : res'[ij[2]][ij[1]] = Flip(res[ij[1]][ij[2]])]_vars

\* C17 h: rank-based measures do not see a strictly increasing map of either RDM
MonoInvariant == [][(pc = "out" /\ pc' = "moved" /\ mv'.k = "mono") => res' = res]_vars

\* positive scaling / positive affine map of either side: the value is unchanged
LinInvariant == [][(pc = "out" /\ pc' = "moved" /\ mv'.k \in {"scale", "affine"}) =>
   \A ij \in Entries : LET s == res[ij[1]][ij[2]]  t == res'[ij[1]][ij[2]] IN
      IF IsCov THEN Proportional(t.u, s.u) /\ Proportional(t.v, s.v) /\ sigma' = sigma
      ELSE IF method \in RankMethods THEN t = s
      ELSE SameValue(t, s)]_vars

(* ---------------- emission (S -> I) --------------------------------------- *)
Pick(n) == n = 1 \/ RandomElement(1..n) = 1
Emit == /\ (pc = "out" /\ Pick(EmitMod)) =>
            PrintT(ToJson([t |-> "v", m |-> method, s |-> sid, a |-> a, b |-> b, pa |-> pa, pb |-> pb, res |-> res]))
        /\ (pc = "moved" /\ Pick(MoveEmitMod)) =>
            PrintT(ToJson([t |-> "m", m |-> method, s |-> sid, sg |-> sigma, a |-> a, b |-> b, pa |-> pa, pb |-> pb,
                           res |-> res, k |-> mv.k, side |-> mv.side,
                           arg |-> IF mv.k = "mono" THEN SetToSeq({<<x, mv.arg[x]>> : x \in DOMAIN mv.arg}) ELSE mv.arg,
                           a0 |-> mv.a0, b0 |-> mv.b0]))
\* the V matrices of the catalogue, printed once
VCatalogue == [s \in 1..Len(Sigmas) |-> VMat(Sigmas[s])]
SigHatCatalogue == [s \in 1..Len(Sigmas) |-> SigHat(Sigmas[s])]
=============================================================================
