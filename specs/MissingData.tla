----------------------------- MODULE MissingData -----------------------------
(***************************************************************************)
(* Missing (NaN) dissimilarities (property C13).                           *)
(*                                                                         *)
(* An RDM is its condensed vector of small integers together with a MASK,  *)
(* the set of entries that are missing.  Four modes share the module:      *)
(*                                                                         *)
(*  compare  two stacks a, b of masked RDMs, a comparison method and a     *)
(*           pattern covariance.  Stages as in rdm/compare.py:             *)
(*              Parse       (masks all equal: delete the masked entries)   *)
(*              Misaligned  (masks differ anywhere: the ONLY outcome is    *)
(*                           Error)                                        *)
(*              Measure     (the measure of Compare.tla on the DELETED     *)
(*                           vectors; whitened: u, v and the sub-block of  *)
(*                           V(sigma) on the kept entries)                 *)
(*           The theorem MaskedIsDeleted says that this equals the measure *)
(*           written directly on the masked vectors (sums, means, ranks,   *)
(*           concordance counts over the kept index set only) - two        *)
(*           independent formulations; VSubRule says the kept block of V   *)
(*           is the contrast covariance of the kept condition pairs.       *)
(*           Masks come from three sources: free (any subset), boot (the   *)
(*           pairs that a with-replacement draw of the conditions maps to  *)
(*           one condition: bootstrap_sample_pattern) and part (pairs      *)
(*           outside the condition subset of a partial RDM: from_partials).*)
(*           Classes: none | common | between_eq | between_ne | within.    *)
(*  pool     one stack; sufficient statistics of pool_rdm per RDM (vector  *)
(*           u_r and the rational sc_r, normalised entry = u * sqrt(sc)),  *)
(*           computed over the kept entries only; exact pooled rationals   *)
(*           for the mean / rank kinds; missing = union of the masks.      *)
(*  mean     Mean(vecs, w) as exact rationals, w in none | rdm | entry;    *)
(*           NaN (<<0,0>>) exactly where no RDM has a value.               *)
(*  mean2    a SESSION of two calls that share one weights object:         *)
(*           MeanFirst (stack a, masks ma) then MeanSecond (stack a2,      *)
(*           masks ma2), both with the SAME w.  The weights are an input   *)
(*           no call may change (WeightsFrame), so the second value is the *)
(*           definition on (a2, ma2, w) whatever the first call saw.       *)
(*  rescale  inputs in_r = f_r * base restricted to mask_r; the module     *)
(*           states only the facts the post-conditions rest on (a common   *)
(*           scale exists; which mask families are overlap-connected).     *)
(*           A second family ("signed") takes arbitrary vectors with       *)
(*           negative entries (crossnobis-type), among them RDMs that are  *)
(*           negatively related to the others on their support: the        *)
(*           post-condition "one POSITIVE constant per RDM" has no         *)
(*           exception for them.                                           *)
(*                                                                         *)
(*  partials from_partials as an embedding of token-valued partial RDMs:   *)
(*           every partial RDM lists its patterns in ITS OWN ORDER (any    *)
(*           arrangement of >= 2 conditions), the combined list is given   *)
(*           (any catalogue permutation) or is the union in order of first *)
(*           appearance.  Entry (p,q) of the combined RDM r holds the      *)
(*           dissimilarity of the condition pair {list[p], list[q]} of     *)
(*           partial r, or is missing when one of them is not in r -       *)
(*           whatever the orders are (PartialsAssoc: every value names the *)
(*           pair it sits at).                                             *)
(* rescale also carries a per-RDM decimal exponent (the unit the RDM is    *)
(* measured in: 1e-13, 1e-10 of the others, 1e+8): proportionality and     *)
(* hence every post-condition is independent of the units.                 *)
(*                                                                         *)
(* The comparison measures themselves are NOT repeated here: they are the  *)
(* operators of Compare.tla (property C03), instantiated below.            *)
(***************************************************************************)
EXTENDS Integers, Sequences, FiniteSets, TLC, Functions, FiniteSetsExt, SequencesExt, Json

CONSTANTS
  Mode,       \* "compare" | "pool" | "mean" | "mean2" | "rescale" | "partials"
  NC,         \* conditions behind a vector (whitened measures, boot and part masks)
  LEN,        \* entries of a vector (NC(NC-1)/2 unless only plain vectors are used)
  VecCat,     \* catalogue (sequence) of integer vectors of length LEN
  Rots,       \* RDM number r of a state is VecCat[((r - 1 + rot) % Len(VecCat)) + 1]
  Shapes,     \* set of <<n1, n2>> (n2 = 0 outside compare mode)
  Methods,    \* comparison / pooling methods
  Sigmas,     \* catalogue of pattern covariances [kind, v, m] as in Compare
  MaskSrcs,   \* subset of {"free", "boot", "part"}
  FreeMasks,  \* the masks an RDM may carry when the source is "free"
  MinKeep,    \* every RDM keeps at least MinKeep entries
  WKinds,     \* mean: subset of {"none", "rdm", "entry"}
  WCat,       \* mean: catalogue of per-RDM weight vectors (length >= 3)
  WECat,      \* mean: catalogue of per-entry weight matrices (>= 3 rows of length >= LEN)
  Factors,    \* rescale: integer scale factors
  Families,   \* rescale: subset of {"prop", "signed"}
  ExpCat,     \* rescale: catalogue of per-RDM decimal exponents (the unit an RDM is measured in), length >= 3
  ExpIds,     \* rescale: subset of 1..Len(ExpCat)
  AllPCat,    \* partials: catalogue of explicit all_patterns lists (permutations of 1..NC)
  AllPIds,    \* partials: subset of 0..Len(AllPCat); 0 = all_patterns=None (union in order of first appearance)
  EmitMod,    \* emit one terminal state in EmitMod ...
  EmitAligned \* ... but one in EmitAligned of the compare states whose masks are aligned (none / common)

VARIABLES inp, pc, out
vars == <<inp, pc, out>>

C == INSTANCE Compare WITH
       Vecs <- {}, VecsB <- {}, MoveVecs <- {}, Moves <- {}, MonoLo <- 0, MonoHi <- 0, Scales <- {},
       Affines <- {}, Configs <- {}, MoveConfigs <- {}, MoveEmitMod <- 1, Degenerate <- FALSE,
       a <- <<>>, b <- <<>>, pa <- <<>>, pb <- <<>>, method <- "none", sid <- 0, sigma <- <<>>,
       pc <- "none", res <- <<>>, mv <- <<>>

CovMethods == {"cosine_cov", "corr_cov"}
Undef == <<0, 0>>                                   \* NaN
Rat(n, d) == C!Rat(n, d)
Sum(f) == SumFunction(f)
SumOver(S, Op(_)) == Sum([k \in S |-> Op(k)])

(* ---------------- vectors, masks, deletion -------------------------------- *)
CatVec(rot, r) == VecCat[((r - 1 + rot) % Len(VecCat)) + 1]
Keep(n, mask) == (1..n) \ mask
KeepSeq(n, mask) == SortSeq(SetToSeq(Keep(n, mask)), LAMBDA x, y : x < y)
\* Delete(v, mask): the vector without its masked entries, order kept
Delete(v, mask) == LET ks == KeepSeq(Len(v), mask) IN [k \in 1..Len(ks) |-> v[ks[k]]]
DeleteStack(A, M) == [i \in 1..Len(A) |-> Delete(A[i], M[i])]

\* condition pair of entry k (row-major upper triangle), written here independently of Compare
PairOf(k) == CHOOSE pq \in (1..NC) \X (1..NC) :
                /\ pq[1] < pq[2]
                /\ k = Cardinality({rs \in (1..NC) \X (1..NC) :
                                      rs[1] < rs[2] /\ (rs[1] < pq[1] \/ (rs[1] = pq[1] /\ rs[2] <= pq[2]))})
PairTab == [k \in 1..((NC * (NC - 1)) \div 2) |-> PairOf(k)]
EntryOf(p, q) == CHOOSE k \in DOMAIN PairTab : PairTab[k] = IF p < q THEN <<p, q>> ELSE <<q, p>>

\* bootstrap over conditions: draw d (one source condition per slot), sorted as subsample_pattern does
SortedSel(d) == SortSeq(d, LAMBDA x, y : x < y)
BootMask(sel) == {k \in DOMAIN PairTab : sel[PairTab[k][1]] = sel[PairTab[k][2]]}
SubVec(v, sel) == [k \in DOMAIN PairTab |->
                     IF sel[PairTab[k][1]] = sel[PairTab[k][2]] THEN 0
                     ELSE v[EntryOf(sel[PairTab[k][1]], sel[PairTab[k][2]])]]
\* partial RDM on the condition subset P, embedded by from_partials
PartMask(P) == {k \in DOMAIN PairTab : ~(PairTab[k][1] \in P /\ PairTab[k][2] \in P)}
PartSets == {P \in SUBSET (1..NC) : Cardinality(P) >= 2}

(* ---------------- classes of mask families -------------------------------- *)
AllSame(M) == \A i, j \in DOMAIN M : M[i] = M[j]
ClassOf(MA, MB) ==
  LET all == MA \o MB IN
  IF \A i \in DOMAIN all : all[i] = {} THEN "none"
  ELSE IF AllSame(all) THEN "common"
  ELSE IF AllSame(MA) /\ AllSame(MB)
       THEN (IF Cardinality(MA[1]) = Cardinality(MB[1]) THEN "between_eq" ELSE "between_ne")
  ELSE "within"
Classes == {"none", "common", "between_eq", "between_ne", "within"}
Aligned(c) == c \in {"none", "common"}

(* ---------------- the measures written directly on masked vectors --------- *)
\* everything below runs over the kept index set K only and never builds the deleted vector
MDot(x, y, K) == SumOver(K, LAMBDA k : x[k] * y[k])
MCen(x, K) == LET n == Cardinality(K)  s == SumOver(K, LAMBDA k : x[k]) IN [k \in K |-> n * x[k] - s]
MRank2(x, K) == [k \in K |-> 2 * Cardinality({j \in K : x[j] < x[k]}) + Cardinality({j \in K : x[j] = x[k]}) + 1]
MCRank2(x, K) == LET r == MRank2(x, K) IN [k \in K |-> r[k] - (Cardinality(K) + 1)]
FDot(f, g, K) == SumOver(K, LAMBDA k : f[k] * g[k])
MConDis(x, y, K) ==
  LET P == {ij \in K \X K : ij[1] < ij[2]}
      s(ij) == C!Sign(x[ij[1]] - x[ij[2]]) * C!Sign(y[ij[1]] - y[ij[2]]) IN
  [c |-> Cardinality({ij \in P : s(ij) > 0}), d |-> Cardinality({ij \in P : s(ij) < 0}),
   tx |-> Cardinality({ij \in P : x[ij[1]] = x[ij[2]]}), ty |-> Cardinality({ij \in P : y[ij[1]] = y[ij[2]]})]
S3(ab, aa, bb) == [ab |-> ab, aa |-> aa, bb |-> bb]
SeqOn(f, n, mask) == LET ks == KeepSeq(n, mask) IN [k \in 1..Len(ks) |-> f[ks[k]]]
MStat(m, x, y, mask) ==
  LET n == Len(x)  K == Keep(n, mask)  nk == Cardinality(K)  n0 == (nk * (nk - 1)) \div 2 IN
  CASE m = "cosine"   -> S3(MDot(x, y, K), MDot(x, x, K), MDot(y, y, K))
    [] m = "corr"     -> LET cx == MCen(x, K)  cy == MCen(y, K) IN S3(FDot(cx, cy, K), FDot(cx, cx, K), FDot(cy, cy, K))
    [] m = "spearman" -> LET cx == MCRank2(x, K)  cy == MCRank2(y, K) IN S3(FDot(cx, cy, K), FDot(cx, cx, K), FDot(cy, cy, K))
    [] m = "kendall"  -> LET k == MConDis(x, y, K) IN S3(k.c - k.d, n0 - k.tx, n0 - k.ty)
    [] m = "tau-a"    -> LET k == MConDis(x, y, K) IN S3(k.c - k.d, n0, n0)
    [] m = "rho-a"    -> LET cx == MCRank2(x, K)  cy == MCRank2(y, K)  d == nk * nk * nk - nk IN S3(3 * FDot(cx, cy, K), d, d)
    [] m = "cosine_cov" -> [u |-> SeqOn(x, n, mask), v |-> SeqOn(y, n, mask)]
    [] m = "corr_cov"   -> [u |-> SeqOn(MCen(x, K), n, mask), v |-> SeqOn(MCen(y, K), n, mask)]

\* the sub-block of V on the kept entries, and the same thing from the kept condition pairs directly
VSub(s, mask) == LET V == C!VMat(s)  ks == KeepSeq(LEN, mask) IN
                 [k \in 1..Len(ks) |-> [l \in 1..Len(ks) |-> V[ks[k]][ks[l]]]]
VDirect(s, mask) ==
  LET S == C!SigmaMat(s)  ks == KeepSeq(LEN, mask)
      xi(k, l) == LET i == PairTab[k][1]  j == PairTab[k][2]  p == PairTab[l][1]  q == PairTab[l][2] IN
                  S[i][p] - S[i][q] - S[j][p] + S[j][q] IN
  [k \in 1..Len(ks) |-> [l \in 1..Len(ks) |-> xi(ks[k], ks[l]) * xi(ks[k], ks[l])]]

(* ---------------- compare mode -------------------------------------------- *)
SigmaOf(s) == IF s = 0 THEN C!NoSigma ELSE Sigmas[s]
AdmMasked(m, x, mask) == /\ Cardinality(Keep(Len(x), mask)) >= MinKeep
                         /\ C!AdmVec(m, Delete(x, mask))
AdmCompare(i) ==
  /\ \A r \in DOMAIN i.a : Cardinality(Keep(LEN, i.ma[r])) >= MinKeep
  /\ \A r \in DOMAIN i.b : Cardinality(Keep(LEN, i.mb[r])) >= MinKeep
  /\ Aligned(ClassOf(i.ma, i.mb)) =>
        /\ \A r \in DOMAIN i.a : AdmMasked(i.m, i.a[r], i.ma[r])
        /\ \A r \in DOMAIN i.b : AdmMasked(i.m, i.b[r], i.mb[r])

MkCompare(A0, B0, A, B, MA, MB, m, s, src, arg) ==
  [a0 |-> A0, b0 |-> B0, a |-> A, b |-> B, ma |-> MA, mb |-> MB, m |-> m, s |-> s, src |-> src, arg |-> arg]

InitCompare ==
  \E sh \in Shapes, rot \in Rots, m \in Methods, src \in MaskSrcs :
  \E s \in (IF m \in CovMethods THEN 1..Len(Sigmas) ELSE {0}) :
    LET n1 == sh[1]  n2 == sh[2]
        A == [i \in 1..n1 |-> CatVec(rot, i)]  B == [j \in 1..n2 |-> CatVec(rot, n1 + j)] IN
    /\ \/ /\ src = "free"
          /\ \E MA \in [1..n1 -> FreeMasks], MB \in [1..n2 -> FreeMasks] :
                inp = MkCompare(A, B, A, B, MA, MB, m, s, src, <<>>)
       \/ /\ src = "boot"
          /\ \E d \in [1..NC -> 1..NC] :
               LET sel == SortedSel(d)  bm == BootMask(sel) IN
               inp = MkCompare(A, B, [i \in 1..n1 |-> SubVec(A[i], sel)], [j \in 1..n2 |-> SubVec(B[j], sel)],
                               [i \in 1..n1 |-> bm], [j \in 1..n2 |-> bm], m, s, src, d)
       \/ /\ src = "part"
          /\ \E PA \in [1..n1 -> PartSets], PB \in [1..n2 -> PartSets] :
               inp = MkCompare(A, B, A, B, [i \in 1..n1 |-> PartMask(PA[i])], [j \in 1..n2 |-> PartMask(PB[j])],
                               m, s, src, <<[i \in 1..n1 |-> SetToSortSeq(PA[i], <)], [j \in 1..n2 |-> SetToSortSeq(PB[j], <)]>>)
    /\ AdmCompare(inp)

Cls == ClassOf(inp.ma, inp.mb)
NoOut == [err |-> FALSE, da |-> <<>>, db |-> <<>>, res |-> <<>>]

\* masks agree everywhere: the masked entries are deleted from every vector
Parse == /\ Mode = "compare" /\ pc = "in" /\ Aligned(Cls)
         /\ out' = [NoOut EXCEPT !.da = DeleteStack(inp.a, inp.ma), !.db = DeleteStack(inp.b, inp.mb)]
         /\ pc' = "parsed" /\ UNCHANGED inp
\* masks differ between the stacks or inside one: the only allowed outcome is an error
Misaligned == /\ Mode = "compare" /\ pc = "in" /\ ~Aligned(Cls)
              /\ out' = [NoOut EXCEPT !.err = TRUE]
              /\ pc' = "done" /\ UNCHANGED inp
\* the measure of Compare.tla on the deleted vectors
Measure == /\ Mode = "compare" /\ pc = "parsed"
           /\ out' = [out EXCEPT !.res = [i \in 1..Len(out.da) |-> [j \in 1..Len(out.db) |->
                                            C!Stat(inp.m, out.da[i], out.db[j])]]]
           /\ pc' = "done" /\ UNCHANGED inp

(* ---------------- pool mode ----------------------------------------------- *)
PoolKind(m) == CASE m \in {"euclid", "neg_riem_dist"} -> "mean"
                 [] m \in {"cosine", "cosine_cov"} -> "cos"
                 [] m \in {"corr", "corr_cov"} -> "z"
                 [] OTHER -> "rank"
\* statistics of one RDM from its deleted vector, re-inserted at the kept positions (0 elsewhere)
Reinsert(d, n, mask) == LET ks == KeepSeq(n, mask) IN
                        [k \in 1..n |-> IF k \in mask THEN 0 ELSE d[CHOOSE j \in 1..Len(ks) : ks[j] = k]]
PoolStatDeleted(kind, x, mask) ==
  LET d == Delete(x, mask)  n == Len(d) IN
  CASE kind = "mean" -> [u |-> Reinsert(d, Len(x), mask), sc |-> <<1, 1>>]
    [] kind = "cos"  -> [u |-> Reinsert(d, Len(x), mask), sc |-> <<n, C!Dot(d, d)>>]
    [] kind = "z"    -> LET c == C!Cen(d) IN [u |-> Reinsert(c, Len(x), mask), sc |-> <<n, C!Dot(c, c)>>]
    [] kind = "rank" -> [u |-> Reinsert(C!Rank2(d), Len(x), mask), sc |-> <<1, 4>>]
\* the same statistics written on the masked vector
PoolStatMasked(kind, x, mask) ==
  LET n == Len(x)  K == Keep(n, mask)  nk == Cardinality(K)
      put(f) == [k \in 1..n |-> IF k \in K THEN f[k] ELSE 0] IN
  CASE kind = "mean" -> [u |-> put(x), sc |-> <<1, 1>>]
    [] kind = "cos"  -> [u |-> put(x), sc |-> <<nk, MDot(x, x, K)>>]
    [] kind = "z"    -> LET c == MCen(x, K) IN [u |-> put(c), sc |-> <<nk, FDot(c, c, K)>>]
    [] kind = "rank" -> [u |-> put(MRank2(x, K)), sc |-> <<1, 4>>]
PoolAdm(kind, x, mask) == /\ Cardinality(Keep(Len(x), mask)) >= MinKeep
                          /\ kind = "cos" => C!AdmVec("cosine", Delete(x, mask))
                          /\ kind = "z" => C!AdmVec("corr", Delete(x, mask))
UnionMask(M) == UNION {M[r] : r \in DOMAIN M}

InitPool ==
  \E sh \in Shapes, rot \in Rots, m \in Methods, src \in MaskSrcs :
    LET n == sh[1]  A == [i \in 1..n |-> CatVec(rot, i)] IN
    /\ \/ /\ src = "free" /\ \E MA \in [1..n -> FreeMasks] :
                inp = MkCompare(A, <<>>, A, <<>>, MA, <<>>, m, 0, src, <<>>)
       \/ /\ src = "boot" /\ \E d \in [1..NC -> 1..NC] :
               LET sel == SortedSel(d)  bm == BootMask(sel) IN
               inp = MkCompare(A, <<>>, [i \in 1..n |-> SubVec(A[i], sel)], <<>>, [i \in 1..n |-> bm], <<>>, m, 0, src, d)
       \/ /\ src = "part" /\ \E PA \in [1..n -> PartSets] :
               inp = MkCompare(A, <<>>, A, <<>>, [i \in 1..n |-> PartMask(PA[i])], <<>>, m, 0, src,
                               <<[i \in 1..n |-> SetToSortSeq(PA[i], <)], <<>> >>)
    /\ \A r \in DOMAIN inp.a : PoolAdm(PoolKind(inp.m), inp.a[r], inp.ma[r])

Pool == /\ Mode = "pool" /\ pc = "in"
        /\ LET kind == PoolKind(inp.m)  R == Len(inp.a)
               st == [r \in 1..R |-> PoolStatDeleted(kind, inp.a[r], inp.ma[r])]
               miss == UnionMask(inp.ma) IN
           out' = [kind |-> kind, st |-> st, miss |-> SetToSortSeq(miss, <),
                   \* util/pooling.py normalises the whitened methods by u' V^-1 u on the entries every RDM has
                   V |-> IF inp.m \in CovMethods /\ 2 * LEN = NC * (NC - 1) THEN VSub(C!NoSigma, miss) ELSE <<>>,
                   \* exact pooled entries where the last step is rational: mean of the values / of the doubled ranks
                   exact |-> IF kind \in {"mean", "rank"}
                             THEN [k \in 1..LEN |-> IF k \in miss THEN Undef
                                                    ELSE Rat(Sum([r \in 1..R |-> st[r].u[k]]), R * (IF kind = "rank" THEN 2 ELSE 1))]
                             ELSE <<>>]
        /\ pc' = "done" /\ UNCHANGED inp

(* ---------------- mean mode ----------------------------------------------- *)
WeightsOf(wk, wid, R) ==
  CASE wk = "none"  -> [r \in 1..R |-> [k \in 1..LEN |-> 1]]
    [] wk = "rdm"   -> [r \in 1..R |-> [k \in 1..LEN |-> WCat[wid][r]]]
    [] wk = "entry" -> [r \in 1..R |-> [k \in 1..LEN |-> WECat[wid][r][k]]]
InitMean ==
  \E sh \in Shapes, rot \in Rots, wk \in WKinds, src \in MaskSrcs \ {"boot"} :
  \E wid \in (IF wk = "none" THEN {0} ELSE IF wk = "rdm" THEN 1..Len(WCat) ELSE 1..Len(WECat)) :
    LET n == sh[1]  A == [i \in 1..n |-> CatVec(rot, i)] IN
    \/ /\ src = "free" /\ \E MA \in [1..n -> FreeMasks] :
            inp = [a |-> A, ma |-> MA, wk |-> wk, wid |-> wid, w |-> WeightsOf(wk, wid, n), src |-> src, arg |-> <<>>]
    \/ /\ src = "part" /\ \E PA \in [1..n -> PartSets] :
            inp = [a |-> A, ma |-> [i \in 1..n |-> PartMask(PA[i])], wk |-> wk, wid |-> wid,
                   w |-> WeightsOf(wk, wid, n), src |-> src, arg |-> [i \in 1..n |-> SetToSortSeq(PA[i], <)]]

Present(i, k) == {r \in DOMAIN i.a : k \notin i.ma[r]}
MeanAt(i, k) == LET P == Present(i, k) IN
                IF P = {} THEN Undef
                ELSE Rat(SumOver(P, LAMBDA r : i.w[r][k] * i.a[r][k]), SumOver(P, LAMBDA r : i.w[r][k]))
Mean == /\ Mode = "mean" /\ pc = "in"
        /\ out' = [mean |-> [k \in 1..LEN |-> MeanAt(inp, k)]]
        /\ pc' = "done" /\ UNCHANGED inp

(* ---------------- mean2 mode: two calls sharing one weights object ---------- *)
InitMean2 ==
  \E sh \in Shapes, rot \in Rots, wk \in WKinds \ {"none"} :
  \E wid \in (IF wk = "rdm" THEN 1..Len(WCat) ELSE 1..Len(WECat)) :
    LET n == sh[1]  A == [i \in 1..n |-> CatVec(rot, i)]  A2 == [i \in 1..n |-> CatVec(rot, n + i)] IN
    \E MA \in [1..n -> FreeMasks], MA2 \in [1..n -> FreeMasks] :
       inp = [a |-> A, ma |-> MA, a2 |-> A2, ma2 |-> MA2, wk |-> wk, wid |-> wid, w |-> WeightsOf(wk, wid, n),
              src |-> "free", arg |-> <<>>]
Second(i) == [a |-> i.a2, ma |-> i.ma2, w |-> i.w]
MeanFirst == /\ Mode = "mean2" /\ pc = "in"
             /\ out' = [mean |-> [k \in 1..LEN |-> MeanAt(inp, k)], mean2 |-> <<>>]
             /\ pc' = "first" /\ UNCHANGED inp
MeanSecond == /\ Mode = "mean2" /\ pc = "first"
              /\ out' = [out EXCEPT !.mean2 = [k \in 1..LEN |-> MeanAt(Second(inp), k)]]
              /\ pc' = "done" /\ UNCHANGED inp

(* ---------------- rescale mode -------------------------------------------- *)
\* RDM r is f_r * base outside mask_r; RDMs r, s are linked when they share an entry
Linked(M, r, s) == Keep(LEN, M[r]) \cap Keep(LEN, M[s]) # {}
RECURSIVE Reach(_, _, _)
Reach(M, S, n) == IF n = 0 THEN S
                  ELSE Reach(M, S \cup {s \in DOMAIN M : \E r \in S : Linked(M, r, s)}, n - 1)
Connected(M) == Reach(M, {1}, Len(M)) = DOMAIN M
InitRescale ==
  \E sh \in Shapes, rot \in Rots, src \in MaskSrcs \ {"boot"} :
    LET n == sh[1]  base == CatVec(rot, 1) IN
    \E fam \in Families, eid \in ExpIds :
    \E f \in (IF fam = "prop" THEN [1..n -> Factors] ELSE {[r \in 1..n |-> 0]}) :
      LET A == IF fam = "prop" THEN [r \in 1..n |-> [k \in 1..LEN |-> f[r] * base[k]]]
               ELSE [r \in 1..n |-> CatVec(rot, r)] IN
      /\ \/ /\ src = "free" /\ \E MA \in [1..n -> FreeMasks] :
                 inp = [fam |-> fam, base |-> base, f |-> f, ma |-> MA, src |-> src, arg |-> <<>>, a |-> A,
                        exp |-> [r \in 1..n |-> ExpCat[eid][r]]]
         \/ /\ src = "part" /\ \E PA \in [1..n -> PartSets] :
                 inp = [fam |-> fam, base |-> base, f |-> f, ma |-> [i \in 1..n |-> PartMask(PA[i])], src |-> src,
                        arg |-> [i \in 1..n |-> SetToSortSeq(PA[i], <)], a |-> A,
                        exp |-> [r \in 1..n |-> ExpCat[eid][r]]]
      /\ \A r \in 1..n : Cardinality(Keep(LEN, inp.ma[r])) >= MinKeep
      /\ fam = "prop" => \A k \in 1..LEN : base[k] > 0
      \* an RDM without a non-zero entry cannot be scaled; nor can the consensus the iteration starts from
      \* (the entry-wise mean) when the RDMs cancel exactly on the whole support of some RDM (0/0)
      /\ \A r \in 1..n : \E k \in Keep(LEN, inp.ma[r]) : inp.a[r][k] # 0
      /\ \A r \in 1..n : \E k \in Keep(LEN, inp.ma[r]) :
            SumOver({s \in 1..n : k \notin inp.ma[s]}, LAMBDA s : inp.a[s][k]) # 0
\* RDM r is negatively related to the sum of the others on the entries it has
AntiRelated(i, r) ==
  SumOver(Keep(LEN, i.ma[r]), LAMBDA k :
            i.a[r][k] * SumOver({s \in DOMAIN i.a : s # r /\ k \notin i.ma[s]}, LAMBDA s : i.a[s][k])) < 0
Rescale == /\ Mode = "rescale" /\ pc = "in"
           /\ out' = [conn |-> Connected(inp.ma),
                      neg |-> \E r \in DOMAIN inp.a : \E k \in Keep(LEN, inp.ma[r]) : inp.a[r][k] < 0,
                      anti |-> {r \in DOMAIN inp.a : AntiRelated(inp, r)} # {},
                      shared |-> Cardinality({k \in 1..LEN : Cardinality({r \in DOMAIN inp.ma : k \notin inp.ma[r]}) >= 2})]
           /\ pc' = "done" /\ UNCHANGED inp

(* ---------------- partials mode: from_partials as an embedding -------------- *)
Tok(p, q) == IF p < q THEN 10 * p + q ELSE 10 * q + p            \* the value names its condition pair
\* all arrangements (sequences without repetition) of at least two conditions
Arrangements == UNION {{s \in [1..m -> 1..NC] : \A i, j \in 1..m : i # j => s[i] # s[j]} : m \in 2..NC}
PairSeqOf(m) == SetToSortSeq({pq \in (1..m) \X (1..m) : pq[1] < pq[2]},
                             LAMBDA x, y : x[1] < y[1] \/ (x[1] = y[1] /\ x[2] < y[2]))
\* the condensed vector of a partial RDM that lists its patterns in the order ord
PartialVec(ord) == LET ps == PairSeqOf(Len(ord)) IN [k \in 1..Len(ps) |-> Tok(ord[ps[k][1]], ord[ps[k][2]])]
\* union of the pattern lists in order of first appearance (all_patterns=None)
RECURSIVE ConcatAll(_)
ConcatAll(ss) == IF ss = <<>> THEN <<>> ELSE Head(ss) \o ConcatAll(Tail(ss))
FirstSeen(s) == LET pos == SelectSeq([k \in 1..Len(s) |-> k], LAMBDA k : \A j \in 1..(k - 1) : s[j] # s[k])
                IN [k \in 1..Len(pos) |-> s[pos[k]]]
InitPartials ==
  \E sh \in Shapes, aid \in AllPIds :
    \E ords \in [1..sh[1] -> Arrangements] :
       inp = [ords |-> ords, allp |-> IF aid = 0 THEN <<>> ELSE AllPCat[aid],
              parts |-> [r \in 1..sh[1] |-> PartialVec(ords[r])]]
Embed == /\ Mode = "partials" /\ pc = "in"
         /\ LET lst == IF inp.allp = <<>> THEN FirstSeen(ConcatAll(inp.ords)) ELSE inp.allp
                ps == PairSeqOf(Len(lst))
                has(r, c) == c \in Range(inp.ords[r]) IN
            out' = [lst |-> lst,
                    vecs |-> [r \in DOMAIN inp.ords |-> [k \in 1..Len(ps) |->
                                IF has(r, lst[ps[k][1]]) /\ has(r, lst[ps[k][2]])
                                THEN inp.parts[r][CHOOSE j \in 1..Len(inp.parts[r]) :
                                        LET pj == PairSeqOf(Len(inp.ords[r]))[j] IN
                                        {inp.ords[r][pj[1]], inp.ords[r][pj[2]]} = {lst[ps[k][1]], lst[ps[k][2]]}]
                                ELSE 0]],
                    miss |-> [r \in DOMAIN inp.ords |->
                                SetToSortSeq({k \in 1..Len(ps) : ~(has(r, lst[ps[k][1]]) /\ has(r, lst[ps[k][2]]))}, <)]]
         /\ pc' = "done" /\ UNCHANGED inp

(* ---------------- behaviour ----------------------------------------------- *)
Init == /\ pc = "in" /\ out = NoOut
        /\ CASE Mode = "compare" -> InitCompare
             [] Mode = "pool"    -> InitPool
             [] Mode = "mean"    -> InitMean
             [] Mode = "mean2"   -> InitMean2
             [] Mode = "rescale" -> InitRescale
             [] Mode = "partials" -> InitPartials
Next == Parse \/ Misaligned \/ Measure \/ Pool \/ Mean \/ MeanFirst \/ MeanSecond \/ Rescale \/ Embed
Spec == Init /\ [][Next]_vars

(* ---------------- theorems: compare --------------------------------------- *)
IsCmp == Mode = "compare"
Done == pc = "done"
\* the error outcome is reserved for, and forced on, the families with differing masks
ErrorIffDiffering == (IsCmp /\ Done) => (out.err <=> ~Aligned(Cls))
ClassTotal == IsCmp => Cls \in Classes
\* clause a: the measure on the deleted vectors is the measure restricted to the kept entries
MaskedIsDeleted == (IsCmp /\ Done /\ ~out.err) =>
   \A i \in DOMAIN inp.a : \A j \in DOMAIN inp.b :
      out.res[i][j] = MStat(inp.m, inp.a[i], inp.b[j], inp.ma[1])
\* whitened measures: the kept block of V is the covariance of the kept contrasts; it is symmetric with
\* positive diagonal, and it is NOT the V of a smaller design (it keeps the condition pairs of the entries)
VSubRule == (IsCmp /\ Done /\ ~out.err /\ inp.m \in CovMethods) =>
   LET W == VSub(SigmaOf(inp.s), inp.ma[1]) IN
   /\ W = VDirect(SigmaOf(inp.s), inp.ma[1])
   /\ \A k, l \in DOMAIN W : W[k][l] = W[l][k] /\ W[k][k] > 0
   /\ Len(W) = Len(out.da[1])
\* no mask: nothing is deleted
NoneIsPlain == (IsCmp /\ Done /\ Cls = "none") => (out.da = inp.a /\ out.db = inp.b)
\* bootstrap masks are common to every RDM of both stacks; empty iff the draw repeats no condition
BootCommon == (Mode \in {"compare", "pool"} /\ inp.src = "boot") =>
   /\ ClassOf(inp.ma, inp.mb) \in {"none", "common"}
   /\ (inp.ma[1] = {} <=> Cardinality(Range(inp.arg)) = NC)
   /\ Cardinality(inp.ma[1]) = SumOver(Range(inp.arg), LAMBDA c :
         LET n == Cardinality({p \in 1..NC : inp.arg[p] = c}) IN (n * (n - 1)) \div 2)
\* from_partials: an entry is missing iff one of its conditions is outside the subset
PartMaskRule == (Mode \in {"compare", "pool", "mean"} /\ inp.src = "part") =>
   \A r \in DOMAIN inp.ma :
      LET P == Range(IF Mode = "mean" THEN inp.arg[r] ELSE inp.arg[1][r])  np == Cardinality(P) IN
      Cardinality(Keep(LEN, inp.ma[r])) = (np * (np - 1)) \div 2

(* ---------------- theorems: pool ------------------------------------------ *)
PoolMaskedIsDeleted == (Mode = "pool" /\ Done) =>
   \A r \in DOMAIN inp.a : out.st[r] = PoolStatMasked(out.kind, inp.a[r], inp.ma[r])
PoolMissingIsUnion == (Mode = "pool" /\ Done) =>
   \A k \in 1..LEN : (k \in Range(out.miss)) <=> (\E r \in DOMAIN inp.ma : k \in inp.ma[r])

(* ---------------- theorems: mean ------------------------------------------ *)
IsMean == Mode = "mean" /\ Done
NaNIffNone == IsMean => \A k \in 1..LEN : (out.mean[k] = Undef) <=> (\A r \in DOMAIN inp.a : k \in inp.ma[r])
\* a weighted mean with positive weights lies between the smallest and the largest available value
MeanBounds == IsMean => \A k \in 1..LEN : out.mean[k] # Undef =>
   LET P == Present(inp, k)  q == out.mean[k] IN
   /\ \E r \in P : inp.a[r][k] * q[2] <= q[1]
   /\ \E r \in P : inp.a[r][k] * q[2] >= q[1]
\* equal weights are no weights; a single available RDM is returned as it is
PlainWhenEqual == IsMean => \A k \in 1..LEN :
   LET P == Present(inp, k) IN
   /\ (P # {} /\ \A r, s \in P : inp.w[r][k] = inp.w[s][k]) =>
         out.mean[k] = Rat(SumOver(P, LAMBDA r : inp.a[r][k]), Cardinality(P))
   /\ (Cardinality(P) = 1) => out.mean[k] = Rat(inp.a[CHOOSE r \in P : TRUE][k], 1)
\* the weights of missing entries never matter
MissingWeightsIrrelevant == IsMean =>
   LET j == [inp EXCEPT !.w = [r \in DOMAIN inp.a |-> [k \in 1..LEN |->
                                  IF k \in inp.ma[r] THEN 7 * inp.w[r][k] + 1 ELSE inp.w[r][k]]]] IN
   \A k \in 1..LEN : MeanAt(j, k) = out.mean[k]

(* ---------------- theorems: mean2 (a session sharing the weights) ---------- *)
\* no call changes its weights: they are part of the input, which every action leaves alone
WeightsFrame == [][inp' = inp]_vars
\* the second call is the definition on its own stack and the ORIGINAL weights: it does not depend on the
\* stack or the masks the first call saw
SecondCallIndependent == (Mode = "mean2" /\ Done) =>
   \A MA0 \in {inp.ma, [r \in DOMAIN inp.ma |-> {}]} :
      LET j == [inp EXCEPT !.ma = MA0] IN
      out.mean2 = [k \in 1..LEN |-> MeanAt(Second(j), k)]
Mean2NaNIffNone == (Mode = "mean2" /\ Done) =>
   /\ \A k \in 1..LEN : (out.mean[k] = Undef) <=> (\A r \in DOMAIN inp.a : k \in inp.ma[r])
   /\ \A k \in 1..LEN : (out.mean2[k] = Undef) <=> (\A r \in DOMAIN inp.a2 : k \in inp.ma2[r])

(* ---------------- theorems: rescale --------------------------------------- *)
\* the inputs are mutually proportional: dividing RDM r by f_r is a common scale
CommonScaleExists == (Mode = "rescale" /\ inp.fam = "prop") =>
   \A r, s \in DOMAIN inp.a : \A k \in Keep(LEN, inp.ma[r]) \cap Keep(LEN, inp.ma[s]) :
      inp.a[r][k] * inp.f[s] = inp.a[s][k] * inp.f[r]
\* a connected family of at least two RDMs shares an entry
ConnectedShares == (Mode = "rescale" /\ Done /\ out.conn /\ Len(inp.ma) >= 2) => out.shared >= 1

(* ---------------- theorems: partials --------------------------------------- *)
\* never misaligned: every value of the combined RDM names the pair of list entries it sits at, it is missing
\* exactly when one of the two conditions is not among the patterns of that partial RDM, every dissimilarity of
\* a partial RDM arrives exactly once, and the list holds every pattern once
PartialsAssoc == (Mode = "partials" /\ Done) =>
  LET ps == PairSeqOf(Len(out.lst)) IN
  /\ Cardinality(Range(out.lst)) = Len(out.lst)
  /\ UNION {Range(inp.ords[r]) : r \in DOMAIN inp.ords} \subseteq Range(out.lst)
  /\ \A r \in DOMAIN inp.ords :
       /\ \A k \in 1..Len(ps) :
            IF k \in Range(out.miss[r])
            THEN ~({out.lst[ps[k][1]], out.lst[ps[k][2]]} \subseteq Range(inp.ords[r]))
            ELSE out.vecs[r][k] = Tok(out.lst[ps[k][1]], out.lst[ps[k][2]])
       /\ Len(ps) - Len(out.miss[r]) = Len(inp.parts[r])
\* all_patterns=None: the list is the union in order of first appearance
PartialsListOrder == (Mode = "partials" /\ Done /\ inp.allp = <<>>) =>
  /\ out.lst[1] = inp.ords[1][1]
  /\ \A i, j \in 1..Len(inp.ords[1]) : i < j =>
        (CHOOSE p \in DOMAIN out.lst : out.lst[p] = inp.ords[1][i]) < (CHOOSE p \in DOMAIN out.lst : out.lst[p] = inp.ords[1][j])

(* ---------------- emission ------------------------------------------------ *)
Pick(n) == n = 1 \/ RandomElement(1..n) = 1
MaskSeqs(M) == [r \in DOMAIN M |-> SetToSortSeq(M[r], <)]
Emit == (Done /\ Pick(IF Mode = "compare" /\ Aligned(Cls) THEN EmitAligned ELSE EmitMod)) =>
   CASE Mode = "compare" ->
          PrintT(ToJson([t |-> "cmp", cls |-> Cls, m |-> inp.m, s |-> inp.s, src |-> inp.src, arg |-> inp.arg,
                         a0 |-> inp.a0, b0 |-> inp.b0, a |-> inp.a, b |-> inp.b,
                         ma |-> MaskSeqs(inp.ma), mb |-> MaskSeqs(inp.mb), err |-> out.err, res |-> out.res,
                         V |-> IF ~out.err /\ inp.m \in CovMethods THEN VSub(SigmaOf(inp.s), inp.ma[1]) ELSE <<>>]))
     [] Mode = "pool" ->
          PrintT(ToJson([t |-> "pool", cls |-> ClassOf(inp.ma, <<>>), m |-> inp.m, src |-> inp.src, arg |-> inp.arg,
                         a0 |-> inp.a0, a |-> inp.a, ma |-> MaskSeqs(inp.ma), kind |-> out.kind, st |-> out.st,
                         miss |-> out.miss, exact |-> out.exact, V |-> out.V]))
     [] Mode = "mean" ->
          PrintT(ToJson([t |-> "mean", wk |-> inp.wk, wid |-> inp.wid, w |-> inp.w, src |-> inp.src, arg |-> inp.arg,
                         a |-> inp.a, ma |-> MaskSeqs(inp.ma), mean |-> out.mean]))
     [] Mode = "mean2" ->
          PrintT(ToJson([t |-> "mean2", wk |-> inp.wk, wid |-> inp.wid, w |-> inp.w, src |-> inp.src,
                         a |-> inp.a, ma |-> MaskSeqs(inp.ma), a2 |-> inp.a2, ma2 |-> MaskSeqs(inp.ma2),
                         mean |-> out.mean, mean2 |-> out.mean2]))
     [] Mode = "rescale" ->
          PrintT(ToJson([t |-> "resc", fam |-> inp.fam, neg |-> out.neg, anti |-> out.anti, base |-> inp.base, f |-> inp.f, src |-> inp.src, arg |-> inp.arg,
                         a |-> inp.a, exp |-> inp.exp, ma |-> MaskSeqs(inp.ma), conn |-> out.conn, shared |-> out.shared]))
     [] Mode = "partials" ->
          PrintT(ToJson([t |-> "partials", ords |-> inp.ords, allp |-> inp.allp, parts |-> inp.parts,
                         lst |-> out.lst, vecs |-> out.vecs, miss |-> out.miss]))
=============================================================================
