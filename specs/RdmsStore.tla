------------------------------ MODULE RdmsStore ------------------------------
(***************************************************************************)
(* Labelled RDM containers (rsatoolbox.rdm.RDMs) and every structural      *)
(* operation on them, as a heap of value objects.                          *)
(*                                                                         *)
(* An object is a record                                                   *)
(*   rows : sequence of SOURCE rdm ids      (which source RDM is row k)    *)
(*   pats : sequence of SOURCE condition ids (which source condition is    *)
(*          pattern k)                                                     *)
(*   have : per row, the set of source conditions the row has data for     *)
(*          (smaller than the universe only after from_partials)           *)
(*   ridx, pidx : the library-managed 'index' descriptors                  *)
(*   pinv : the 'p_inv' descriptor left by permute_rdms (<<>> if none)     *)
(*   meas : 1 if the dissimilarity measure name is still attached, 0 if it *)
(*          is None (permute_rdms builds its result without one; append and*)
(*          concat insist on equal measures)                               *)
(*   pdem : 1 if the objects carries an array-valued rdm descriptor: concat *)
(*          and from_partials demote the object descriptor 'p_inv' to an   *)
(*          rdm descriptor when it differs between their arguments; the    *)
(*          long-form DataFrame export cannot hold array-valued columns,   *)
(*          and append needs every rdm descriptor of its target in the     *)
(*          appended object                                                *)
(*   pcat : 1 if the pattern descriptor 'cat' exists (from_partials keeps  *)
(*          only the descriptor it aligns on)                              *)
(*   vec  : per row the STORED condensed upper-triangular vector, computed *)
(*          by every operation the way the code computes it.               *)
(* rows/pats/have are ghost labels: user descriptors ('subj','grp' per     *)
(* RDM; 'cond','cat' per condition) are fixed functions of the source id,  *)
(* so "keeps all its descriptor values" is "the descriptor columns read    *)
(* off the real object decode to rows / pats".  Values are self-describing *)
(* tokens Tok(r,i,j); NaN is -1.                                           *)
(*                                                                         *)
(* Assoc is the property of C10/C09: the stored value at (row, pair) is the*)
(* source value of the same RDM and the same two source conditions, NaN    *)
(* exactly for self-pairs and for pairs a partial RDM does not have.       *)
(* Every operation is Enabled(e) (the documented contract) and Apply(e).   *)
(***************************************************************************)
EXTENDS Integers, Sequences, FiniteSets, TLC, SequencesExt, Functions, Json

CONSTANTS NR,        \* number of source RDMs
          NC,        \* number of source conditions
          MaxObj,    \* heap slots
          MaxRows,   \* cap on rows of any object (growth guard)
          MaxPats,   \* cap on patterns of any object
          Depth,     \* length of the enumerated histories
          NanPairs,  \* set of <<r,i,j>>, i<j: source entries that are NaN from the start
          Ops,       \* set of operation names enabled in this configuration
          ArgLevel,  \* 2 = full argument domains, 1 = trimmed (one representative per class)
          EmitMod    \* emit one behaviour in EmitMod (1 = all) for replay

VARIABLES objs, hist
vars == <<objs, hist>>

NaN == -1
Min2(a, b) == IF a < b THEN a ELSE b
Max2(a, b) == IF a < b THEN b ELSE a
Tok(r, i, j) == IF <<r, Min2(i, j), Max2(i, j)>> \in NanPairs THEN NaN
                ELSE 100 * r + 10 * Min2(i, j) + Max2(i, j)

(* ---------------- user descriptors as functions of the source id -------- *)
Grp(r) == (r + 1) \div 2          \* 'grp' : RDMs 1,2 -> 1 ; 3,4 -> 2  (duplicates)
Cat(c) == (c + 1) \div 2          \* 'cat' : conditions 1,2 -> 1 ; 3,4 -> 2

(* ---------------- condensed (upper-triangular, row-major) index --------- *)
CLen(n) == (n * (n - 1)) \div 2
Cidx(n, p, q) == (p - 1) * n - ((p - 1) * p) \div 2 + (q - p)       \* 1 <= p < q <= n
PairAt(n, k) == CHOOSE pq \in (1..n) \X (1..n) : pq[1] < pq[2] /\ Cidx(n, pq[1], pq[2]) = k
MatAt(v, n, p, q) == IF p = q THEN 0 ELSE v[Cidx(n, Min2(p, q), Max2(p, q))]

\* square form -> fancy index with sel on both axes -> condensed form (reorder, subsample_pattern)
VecFromSel(v, n, sel, diagNaN) ==
  LET m == Len(sel) IN
  [k \in 1..CLen(m) |->
     LET pq == PairAt(m, k)  a == sel[pq[1]]  b == sel[pq[2]] IN
     IF a = b THEN (IF diagNaN THEN NaN ELSE 0) ELSE MatAt(v, n, a, b)]

\* boolean mask on the condensed vector: keep entries whose two ends are both selected (subset_pattern)
MaskVec(v, n, inSel) ==
  LET keep == SelectSeq([k \in 1..CLen(n) |-> k],
                        LAMBDA k : PairAt(n, k)[1] \in inSel /\ PairAt(n, k)[2] \in inSel)
  IN [k \in 1..Len(keep) |-> v[keep[k]]]

Null == [rows |-> <<>>, pats |-> <<>>, have |-> <<>>, ridx |-> <<>>, pidx |-> <<>>,
         pinv |-> <<>>, meas |-> 0, pcat |-> 0, pdem |-> 0, vec |-> <<>>]
Live(h, o) == h[o].pats # <<>>
LiveSet(h) == {o \in 1..MaxObj : Live(h, o)}
FreeSlot(h) == CHOOSE o \in 1..MaxObj : ~Live(h, o) /\ \A o2 \in 1..MaxObj : ~Live(h, o2) => o <= o2
HasFree(h) == \E o \in 1..MaxObj : ~Live(h, o)

Iota(n) == [k \in 1..n |-> k - 1]            \* the index descriptor 0..n-1
Universe == 1..NC

Source == [rows |-> [k \in 1..NR |-> k], pats |-> [k \in 1..NC |-> k],
           have |-> [k \in 1..NR |-> Universe],
           ridx |-> Iota(NR), pidx |-> Iota(NC), pinv |-> <<>>, meas |-> 1, pcat |-> 1, pdem |-> 0,
           vec |-> [r \in 1..NR |-> [k \in 1..CLen(NC) |->
                       Tok(r, PairAt(NC, k)[1], PairAt(NC, k)[2])]]]

(* ---------------- descriptor columns of an object ----------------------- *)
RDesc(ob, by) == CASE by = "index" -> ob.ridx
                   [] by = "subj"  -> ob.rows
                   [] by = "grp"   -> [k \in 1..Len(ob.rows) |-> Grp(ob.rows[k])]
PDesc(ob, by) == CASE by = "index" -> ob.pidx
                   [] by = "cond"  -> ob.pats
                   [] by = "cat"   -> [k \in 1..Len(ob.pats) |-> Cat(ob.pats[k])]
NoDup(s) == Cardinality(Range(s)) = Len(s)
\* positions (ascending) whose descriptor value is in the set vs
Matching(col, vs) == SelectSeq([k \in 1..Len(col) |-> k], LAMBDA k : col[k] \in vs)
\* for each value in the sequence vals, in order, all matching positions (subsample)
RECURSIVE MatchSeq(_, _)
MatchSeq(col, vals) == IF vals = <<>> THEN <<>>
                       ELSE Matching(col, {Head(vals)}) \o MatchSeq(col, Tail(vals))
SortAsc(s) == SortSeq(s, LAMBDA a, b : a < b)
\* stable argsort of a column of integers
StableArgsort(col) == SortSeq([k \in 1..Len(col) |-> k],
                              LAMBDA a, b : col[a] < col[b] \/ (col[a] = col[b] /\ a < b))
\* np.unique of a descriptor column: the sorted distinct values (the bootstrap's groups)
Groups(col) == SortAsc(SetToSeq(Range(col)))
IsDraw(d, g) == Len(d) = Len(g) /\ Range(d) \subseteq 1..Len(g)      \* as many draws as groups
IsPerm(p, n) == Len(p) = n /\ Range(p) = 1..n
InvPerm(p) == [k \in 1..Len(p) |-> CHOOSE j \in 1..Len(p) : p[j] = k]
Pick(s, sel) == [k \in 1..Len(sel) |-> s[sel[k]]]

(* ---------------- the operations ---------------------------------------- *)
\* An event is a record [op, o, o2, by, vals, by2, vals2]; unused fields are 0 / "" / <<>>.
Ev2(op, o, o2, by, vals, by2, vals2) == [op |-> op, o |-> o, o2 |-> o2, by |-> by, vals |-> vals,
                                         by2 |-> by2, vals2 |-> vals2]
Ev(op, o, o2, by, vals) == Ev2(op, o, o2, by, vals, "", <<>>)

SelRows(ob, sel) == [ob EXCEPT !.rows = Pick(ob.rows, sel), !.have = Pick(ob.have, sel),
                               !.ridx = Pick(ob.ridx, sel), !.vec = Pick(ob.vec, sel)]
PermPats(ob, p) ==           \* reorder(): every pattern descriptor follows, incl. index
  LET n == Len(ob.pats) IN
  [ob EXCEPT !.pats = Pick(ob.pats, p), !.pidx = Pick(ob.pidx, p),
             !.vec = [r \in 1..Len(ob.rows) |-> VecFromSel(ob.vec[r], n, p, FALSE)]]

Producer(op) == op \in {"boot_rdm", "boot_pattern", "boot_both", "getitem", "subset", "subsample", "subset_pattern", "subsample_pattern",
                        "copy", "concat", "from_partials", "permute", "inverse_permute",
                        "dict", "matrices", "saveload"}
InPlace(op) == op \in {"reorder", "sort_alpha", "sort_list", "append"}

Enabled(h, e) ==
  /\ e.op \in Ops
  /\ e.o \in 1..MaxObj /\ Live(h, e.o)
  /\ Producer(e.op) => HasFree(h)
  /\ LET ob == h[e.o]  nr == Len(ob.rows)  np == Len(ob.pats) IN
     CASE e.op = "getitem" ->            \* rdms[i] or rdms[[i,j]] : 1-based positions here
            /\ np >= 2                   \* (an object without any pair has empty vectors: degenerate)
            /\ e.vals # <<>> /\ Range(e.vals) \subseteq 1..nr /\ Len(e.vals) <= MaxRows
       [] e.op = "subset" ->             \* vals is a duplicate-free list of existing values
            /\ e.by \in {"index", "subj", "grp"} /\ e.vals # <<>> /\ NoDup(e.vals)
            /\ Range(e.vals) \subseteq Range(RDesc(ob, e.by))
       [] e.op = "subsample" ->
            /\ e.by \in {"index", "subj", "grp"} /\ e.vals # <<>>
            /\ Range(e.vals) \subseteq Range(RDesc(ob, e.by))
            /\ Len(MatchSeq(RDesc(ob, e.by), e.vals)) <= MaxRows
       [] e.op = "subset_pattern" ->
            /\ e.by \in {"index", "cond", "cat"} /\ e.vals # <<>> /\ NoDup(e.vals)
            /\ (e.by = "cat" => ob.pcat = 1)
            /\ Range(e.vals) \subseteq Range(PDesc(ob, e.by))
       [] e.op = "subsample_pattern" ->
            /\ e.by \in {"index", "cond", "cat"} /\ e.vals # <<>>
            /\ (e.by = "cat" => ob.pcat = 1)
            /\ Range(e.vals) \subseteq Range(PDesc(ob, e.by))
            /\ Len(MatchSeq(PDesc(ob, e.by), e.vals)) <= MaxPats
       [] e.op = "boot_rdm" ->           \* vals = the draw (1-based indices into the sorted groups)
            /\ e.by \in {"index", "subj", "grp"} /\ IsDraw(e.vals, Groups(RDesc(ob, e.by)))
            /\ Len(MatchSeq(RDesc(ob, e.by), Pick(Groups(RDesc(ob, e.by)), e.vals))) <= MaxRows
       [] e.op = "boot_pattern" ->
            /\ e.by \in {"index", "cond", "cat"} /\ (e.by = "cat" => ob.pcat = 1)
            /\ IsDraw(e.vals, Groups(PDesc(ob, e.by)))
            /\ Len(MatchSeq(PDesc(ob, e.by), Pick(Groups(PDesc(ob, e.by)), e.vals))) <= MaxPats
       [] e.op = "boot_both" ->          \* (by, vals) resample RDMs, (by2, vals2) conditions
            /\ e.by \in {"index", "subj", "grp"} /\ IsDraw(e.vals, Groups(RDesc(ob, e.by)))
            /\ Len(MatchSeq(RDesc(ob, e.by), Pick(Groups(RDesc(ob, e.by)), e.vals))) <= MaxRows
            /\ e.by2 \in {"index", "cond", "cat"} /\ (e.by2 = "cat" => ob.pcat = 1)
            /\ IsDraw(e.vals2, Groups(PDesc(ob, e.by2)))
            /\ Len(MatchSeq(PDesc(ob, e.by2), Pick(Groups(PDesc(ob, e.by2)), e.vals2))) <= MaxPats
       [] e.op = "reorder" -> IsPerm(e.vals, np)
       [] e.op = "sort_alpha" -> e.by \in {"index", "cond", "cat"} /\ e.o2 \in {0, 1} /\ (e.by = "cat" => ob.pcat = 1)  \* o2=1: reindex=False
       [] e.op = "sort_list" ->          \* explicit order: a permutation of a duplicate-free column
            /\ e.by \in {"index", "cond"} /\ NoDup(PDesc(ob, e.by))
            /\ Len(e.vals) = np /\ Range(e.vals) = Range(PDesc(ob, e.by))
       [] e.op = "append" ->             \* same shape and the same pattern labelling
            /\ e.o2 \in 1..MaxObj /\ Live(h, e.o2) /\ e.o2 # e.o
            /\ h[e.o2].pats = ob.pats /\ nr + Len(h[e.o2].rows) <= MaxRows
            /\ h[e.o2].meas = ob.meas /\ (ob.pdem = 1 => h[e.o2].pdem = 1)
       [] e.op = "concat" ->             \* aligned on the unique descriptor 'cond', else same order
            /\ e.o2 \in 1..MaxObj /\ Live(h, e.o2)
            /\ nr + Len(h[e.o2].rows) <= MaxRows
            /\ h[e.o2].meas = ob.meas
            /\ \/ h[e.o2].pats = ob.pats
               \/ NoDup(ob.pats) /\ NoDup(h[e.o2].pats) /\ Range(ob.pats) = Range(h[e.o2].pats)
       [] e.op = "from_partials" ->      \* on descriptor 'cond'; each partial duplicate-free
            /\ e.o2 \in 1..MaxObj /\ Live(h, e.o2)
            /\ NoDup(ob.pats) /\ NoDup(h[e.o2].pats)
            /\ nr + Len(h[e.o2].rows) <= MaxRows
            /\ Cardinality(Range(ob.pats) \cup Range(h[e.o2].pats)) <= MaxPats
       [] e.op = "permute" -> IsPerm(e.vals, np)
       [] e.op = "inverse_permute" -> IsPerm(ob.pinv, np)
       [] e.op = "to_df" -> ob.pdem = 0
       [] e.op \in {"copy", "dict", "matrices", "saveload", "drop"} -> TRUE
       [] OTHER -> FALSE
  /\ e.op = "drop" => Cardinality(LiveSet(h)) >= 2

SubsetRows(ob, by, vs) == SelRows(ob, Matching(RDesc(ob, by), vs))
SubsetPats(ob, by, vs) ==
  LET sel == Matching(PDesc(ob, by), vs) IN
  [ob EXCEPT !.pats = Pick(ob.pats, sel), !.pidx = Pick(ob.pidx, sel),
             !.vec = [r \in 1..Len(ob.rows) |-> MaskVec(ob.vec[r], Len(ob.pats), Range(sel))]]
SubsampleRows(ob, by, vals) == SelRows(ob, MatchSeq(RDesc(ob, by), vals))
SubsamplePats(ob, by, vals) ==
  LET sel == SortAsc(MatchSeq(PDesc(ob, by), vals)) IN
  [ob EXCEPT !.pats = Pick(ob.pats, sel), !.pidx = Pick(ob.pidx, sel),
             !.vec = [r \in 1..Len(ob.rows) |-> VecFromSel(ob.vec[r], Len(ob.pats), sel, TRUE)]]
\* the group values a bootstrap returns as "indices": groups[draw]
BootIdx(col, draw) == Pick(Groups(col), draw)

\* the object an operation produces / the new value of its in-place target
Result(h, e) ==
  LET ob == h[e.o]  nr == Len(ob.rows)  np == Len(ob.pats) IN
  CASE e.op = "getitem" -> SelRows(ob, e.vals)
    [] e.op = "subset" -> SubsetRows(ob, e.by, Range(e.vals))
    [] e.op = "subsample" -> SubsampleRows(ob, e.by, e.vals)
    [] e.op = "boot_rdm" -> SubsampleRows(ob, e.by, BootIdx(RDesc(ob, e.by), e.vals))
    [] e.op = "boot_pattern" -> SubsamplePats(ob, e.by, BootIdx(PDesc(ob, e.by), e.vals))
    [] e.op = "boot_both" ->
         SubsamplePats(SubsampleRows(ob, e.by, BootIdx(RDesc(ob, e.by), e.vals)),
                       e.by2, BootIdx(PDesc(ob, e.by2), e.vals2))
    [] e.op = "subset_pattern" -> SubsetPats(ob, e.by, Range(e.vals))
    [] e.op = "subsample_pattern" -> SubsamplePats(ob, e.by, e.vals)
    [] e.op = "reorder" -> PermPats(ob, e.vals)
    [] e.op = "sort_alpha" ->
         LET s == PermPats(ob, StableArgsort(PDesc(ob, e.by))) IN
         IF e.o2 = 1 THEN s ELSE [s EXCEPT !.pidx = Iota(np)]
    [] e.op = "sort_list" ->
         LET col == PDesc(ob, e.by)
             p == [k \in 1..np |-> CHOOSE j \in 1..np : col[j] = e.vals[k]] IN
         [PermPats(ob, p) EXCEPT !.pidx = Iota(np)]
    [] e.op = "append" ->
         LET b == h[e.o2] IN
         [ob EXCEPT !.rows = ob.rows \o b.rows, !.have = ob.have \o b.have,
                    !.vec = ob.vec \o b.vec, !.ridx = Iota(nr + Len(b.rows))]
    [] e.op = "concat" ->
         LET b0 == h[e.o2]
             b == IF b0.pats = ob.pats THEN b0
                  ELSE PermPats(b0, [k \in 1..np |-> CHOOSE j \in 1..np : b0.pats[j] = ob.pats[k]]) IN
         [ob EXCEPT !.rows = ob.rows \o b.rows, !.have = ob.have \o b.have,
                    !.vec = ob.vec \o b.vec, !.ridx = Iota(nr + Len(b.rows)),
                    !.pinv = IF ob.pinv = b0.pinv THEN ob.pinv ELSE <<>>,
                    !.pdem = IF ob.pinv # b0.pinv \/ ob.pdem = 1 \/ b0.pdem = 1 THEN 1 ELSE 0]
    [] e.op = "from_partials" ->
         LET b == h[e.o2]
             extra == SelectSeq(b.pats, LAMBDA c : c \notin Range(ob.pats))
             all == ob.pats \o extra          \* union in order of first appearance
             n == Len(all)
             Scatter(x, r) ==                 \* x's row r scattered into the NaN matrix over all
               [k \in 1..CLen(n) |->
                  LET pq == PairAt(n, k)  ca == all[pq[1]]  cb == all[pq[2]] IN
                  IF ca \in Range(x.pats) /\ cb \in Range(x.pats)
                  THEN MatAt(x.vec[r], Len(x.pats),
                             CHOOSE j \in 1..Len(x.pats) : x.pats[j] = ca,
                             CHOOSE j \in 1..Len(x.pats) : x.pats[j] = cb)
                  ELSE NaN]
         IN [rows |-> ob.rows \o b.rows,
             pats |-> all,
             have |-> [k \in 1..nr |-> ob.have[k] \cap Range(ob.pats)]
                      \o [k \in 1..Len(b.rows) |-> b.have[k] \cap Range(b.pats)],
             ridx |-> Iota(nr + Len(b.rows)), pidx |-> Iota(n),
             pinv |-> IF ob.pinv = b.pinv THEN ob.pinv ELSE <<>>,   \* differing object descriptors are demoted
             meas |-> b.meas, pcat |-> 0,
             pdem |-> IF ob.pinv # b.pinv \/ ob.pdem = 1 \/ b.pdem = 1 THEN 1 ELSE 0,
             vec |-> [k \in 1..nr |-> Scatter(ob, k)] \o [k \in 1..Len(b.rows) |-> Scatter(b, k)]]
    [] e.op = "permute" -> [PermPats(ob, e.vals) EXCEPT !.pinv = InvPerm(e.vals), !.meas = 0]
    [] e.op = "inverse_permute" -> [PermPats(ob, ob.pinv) EXCEPT !.pinv = InvPerm(ob.pinv), !.meas = 0]
    [] e.op \in {"copy", "dict", "matrices", "saveload"} -> ob
    [] OTHER -> ob

\* what a bootstrap returns besides the sample: the drawn group values, per axis
Ret(h, e) ==
  LET ob == h[e.o] IN
  CASE e.op = "boot_rdm" -> <<BootIdx(RDesc(ob, e.by), e.vals), <<>> >>
    [] e.op = "boot_pattern" -> << <<>>, BootIdx(PDesc(ob, e.by), e.vals)>>
    [] e.op = "boot_both" -> <<BootIdx(RDesc(ob, e.by), e.vals), BootIdx(PDesc(ob, e.by2), e.vals2)>>
    [] OTHER -> << <<>>, <<>> >>

Apply(h, e) ==
  IF e.op = "drop" THEN [h EXCEPT ![e.o] = Null]
  ELSE IF e.op = "to_df" THEN h
  ELSE IF Producer(e.op) THEN [h EXCEPT ![FreeSlot(h)] = Result(h, e)]
  ELSE [h EXCEPT ![e.o] = Result(h, e)]

(* ---------------- argument domains for enumeration ---------------------- *)
SeqsUpTo(S, n) == UNION {[1..k -> S] : k \in 1..n}
\* trimmed domain: singletons and one pair without / with repetition
Trim(S) == {<<x>> : x \in S} \cup
           (IF Cardinality(S) >= 2
            THEN LET a == CHOOSE x \in S : \A y \in S : x <= y
                     b == CHOOSE x \in S \ {a} : \A y \in S \ {a} : x <= y
                 IN {<<b, a>>, <<a, a>>, <<a, a, b>>}
            ELSE {})
ValSeqs(S, n) == IF ArgLevel >= 2 THEN SeqsUpTo(S, n) ELSE Trim(S)
Perms(n) == {p \in [1..n -> 1..n] : Range(p) = 1..n}
\* every outcome of randint(0, g, size=g); trimmed: all-first, identity, all-last, one rotation
Draws(g) == IF ArgLevel >= 2 THEN [1..g -> 1..g]
            ELSE {d \in [1..g -> 1..g] : \/ \A k \in 1..g : d[k] = 1
                                         \/ \A k \in 1..g : d[k] = k
                                         \/ \A k \in 1..g : d[k] = g
                                         \/ \A k \in 1..g : d[k] = IF k = 1 THEN g ELSE IF k = g THEN 1 ELSE 1 + (k % g)}
PermsT(n) == IF ArgLevel >= 2 THEN Perms(n)
             ELSE {p \in Perms(n) : p = [k \in 1..n |-> n + 1 - k] \/ p = [k \in 1..n |-> (k % n) + 1]}

Events(h) ==
  UNION {
    LET ob == h[o]  nr == Len(ob.rows)  np == Len(ob.pats) IN
      {Ev("getitem", o, 0, "", v) : v \in ValSeqs(1..nr, 2)}
      \cup {Ev("subset", o, 0, by, v) : by \in {"index", "subj", "grp"}, v \in ValSeqs(Range(RDesc(ob, "index")) \cup Range(ob.rows) \cup {1, 2}, 2)}
      \cup {Ev("subsample", o, 0, by, v) : by \in {"index", "subj", "grp"}, v \in ValSeqs(Range(RDesc(ob, "index")) \cup Range(ob.rows) \cup {1, 2}, 3)}
      \cup {Ev("subset_pattern", o, 0, by, v) : by \in {"index", "cond", "cat"}, v \in ValSeqs(Range(ob.pidx) \cup Range(ob.pats) \cup {1, 2}, 2)}
      \cup {Ev("subsample_pattern", o, 0, by, v) : by \in {"index", "cond", "cat"}, v \in ValSeqs(Range(ob.pidx) \cup Range(ob.pats) \cup {1, 2}, 3)}
      \cup UNION {{Ev("boot_rdm", o, 0, by, d) : d \in Draws(Len(Groups(RDesc(ob, by))))} : by \in {"index", "subj", "grp"}}
      \cup UNION {{Ev("boot_pattern", o, 0, by, d) : d \in Draws(Len(Groups(PDesc(ob, by))))} : by \in {"index", "cond", "cat"}}
      \cup (IF "boot_both" \in Ops
            THEN UNION {UNION {{Ev2("boot_both", o, 0, by, d, by2, d2) :
                                  d \in Draws(Len(Groups(RDesc(ob, by)))), d2 \in Draws(Len(Groups(PDesc(ob, by2))))}
                               : by2 \in {"index", "cond", "cat"}} : by \in {"index", "subj", "grp"}}
            ELSE {})
      \cup {Ev("reorder", o, 0, "", p) : p \in PermsT(np)}
      \cup {Ev("sort_alpha", o, ri, by, <<>>) : by \in {"index", "cond", "cat"}, ri \in {0, 1}}
      \cup {Ev("sort_list", o, 0, by, Pick(PDesc(ob, by), p)) : by \in {"index", "cond"}, p \in PermsT(np)}
      \cup {Ev(op, o, o2, "", <<>>) : op \in {"append", "concat", "from_partials"}, o2 \in LiveSet(h)}
      \cup {Ev("permute", o, 0, "", p) : p \in PermsT(np)}
      \cup {Ev(op, o, 0, "", <<>>) : op \in {"inverse_permute", "copy", "dict", "matrices", "saveload", "to_df", "drop"}}
    : o \in LiveSet(h)}

Init == /\ objs = [o \in 1..MaxObj |-> IF o = 1 THEN Source ELSE Null]
        /\ hist = <<>>

Step(e) == /\ Enabled(objs, e)
           /\ objs' = Apply(objs, e)
           /\ hist' = Append(hist, [ev |-> e, post |-> objs', ret |-> Ret(objs, e)])

Next == Len(hist) < Depth /\ \E e \in Events(objs) : Step(e)

Spec == Init /\ [][Next]_vars

(* ---------------- properties checked by TLC on the model ---------------- *)
ShapeOk(ob) ==
  /\ Len(ob.have) = Len(ob.rows) /\ Len(ob.ridx) = Len(ob.rows) /\ Len(ob.vec) = Len(ob.rows)
  /\ Len(ob.pidx) = Len(ob.pats)
  /\ \A r \in 1..Len(ob.rows) : Len(ob.vec[r]) = CLen(Len(ob.pats))
Shape == \A o \in LiveSet(objs) : ShapeOk(objs[o])

\* C10/C09: value <-> (source RDM, unordered source condition pair); NaN exactly for self-pairs
\* and for pairs the (partial) RDM does not have
AssocOk(ob) ==
  LET n == Len(ob.pats) IN
  \A r \in 1..Len(ob.rows) : \A p \in 1..n : \A q \in 1..n : p < q =>
     ob.vec[r][Cidx(n, p, q)] =
        IF ob.pats[p] # ob.pats[q] /\ ob.pats[p] \in ob.have[r] /\ ob.pats[q] \in ob.have[r]
        THEN Tok(ob.rows[r], ob.pats[p], ob.pats[q]) ELSE NaN
Assoc == \A o \in LiveSet(objs) : AssocOk(objs[o])

\* the condensed index is a bijection onto 1..CLen(n) and n is recovered from the length
CondensedOk == \A n \in 1..(MaxPats + 1) :
   /\ \A p \in 1..n : \A q \in 1..n : p < q => Cidx(n, p, q) \in 1..CLen(n) /\ PairAt(n, Cidx(n, p, q)) = <<p, q>>
   /\ n >= 2 => (n - 1) * (n - 1) < 2 * CLen(n) /\ 2 * CLen(n) < n * n

\* in-place operations change only their target; producers only fill the free slot
Frame == [][\A o \in 1..MaxObj :
              LET e == hist'[Len(hist')].ev IN
              (o # (IF Producer(e.op) THEN FreeSlot(objs) ELSE e.o)) => objs'[o] = objs[o]]_vars

\* subset_pattern's mask on the condensed vector equals fancy indexing with the ascending selection
MaskIsSel == \A o \in LiveSet(objs) :
   LET ob == objs[o]  n == Len(ob.pats) IN
   \A S \in SUBSET (1..n) : S # {} =>
      \A r \in 1..Len(ob.rows) :
         MaskVec(ob.vec[r], n, S) = VecFromSel(ob.vec[r], n, SortAsc(SetToSeq(S)), FALSE)

\* C09: a bootstrap sample consists of whole groups with the drawn multiplicity: after a boot step,
\* for every group value the number of members in the sample = (times drawn) x (members in the source)
Count(col, v) == Cardinality({k \in DOMAIN col : col[k] = v})
BootFaithful == [][
   LET st == hist'[Len(hist')]  e == st.ev  ob == objs[e.o]  new == objs'[FreeSlot(objs)] IN
   /\ (e.op \in {"boot_rdm", "boot_both"} =>
         LET col == RDesc(ob, e.by)  idx == st.ret[1] IN
         /\ Len(idx) = Cardinality(Range(col))
         /\ \A v \in Range(col) : Count(RDesc(new, e.by), v) = Count(idx, v) * Count(col, v))
   /\ (e.op \in {"boot_pattern", "boot_both"} =>
         LET by == IF e.op = "boot_both" THEN e.by2 ELSE e.by
             col == PDesc(ob, by)  idx == st.ret[2] IN
         /\ Len(idx) = Cardinality(Range(col))
         /\ \A v \in Range(col) : Count(PDesc(new, by), v) = Count(idx, v) * Count(col, v))
   ]_vars

(* ---------------- emission of behaviours for replay (S -> I) ------------- *)
Emit == (Len(hist) = Depth /\ (EmitMod = 1 \/ RandomElement(1..EmitMod) = 1)) => PrintT(ToJson([hist |-> hist]))
=============================================================================
