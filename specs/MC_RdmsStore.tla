---------------------------- MODULE MC_RdmsStore ----------------------------
EXTENDS RdmsStore
NanPairsA == {<<2, 1, 3>>}
NanPairsNone == {}
AllOps == {"getitem", "subset", "subsample", "subset_pattern", "subsample_pattern", "reorder",
           "sort_alpha", "sort_list", "append", "concat", "from_partials", "permute",
           "inverse_permute", "copy", "dict", "matrices", "saveload", "to_df", "drop"}
BootOps == {"boot_rdm", "boot_pattern", "boot_both"}
BootCtx == {"boot_rdm", "boot_pattern", "subsample", "subsample_pattern", "subset_pattern", "sort_alpha",
            "reorder", "concat", "copy"}
BootAll == BootCtx \cup BootOps
EveryOp == AllOps \cup BootOps
=============================================================================
