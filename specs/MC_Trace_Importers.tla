------------------------- MODULE MC_Trace_Importers -------------------------
(* Constants for trace validation: only the word classes matter (the harness lexes digit strings to   *)
(* 300 + value, members of rsatoolbox.io.petnames.PETNAMES to 400 + list index, everything else to    *)
(* ids >= 1000 or to the fixed id of the key word it spells).                                          *)
EXTENDS Trace_Importers
NoVals == [sub |-> {}, ses |-> {}, task |-> {}, run |-> {}, space |-> {}, desc |-> {}, suffix |-> {},
           ext |-> {}, derivative |-> {}, modality |-> {}]
NumWordsT == 300..399
PetWordsT == 400..899
Empty == {}
DsNone == [func |-> 0]
=============================================================================
