------------------------- MODULE MC_Trace_DataStore -------------------------
EXTENDS Trace_DataStore
AllOps == {"split_obs", "split_channel", "split_time", "split_merge", "subset_obs", "subset_channel",
           "subset_time", "sort_by", "merge", "odd_even", "nested_odd_even", "bin_time",
           "time_as_observations", "time_as_channels", "df", "copy", "saveload", "dict",
           "average_by", "tensor", "average", "drop"}
=============================================================================
