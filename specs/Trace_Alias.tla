----------------------------- MODULE Trace_Alias -----------------------------
(***************************************************************************)
(* Implementation -> specification for C12.  A trace is one experiment     *)
(* performed on real objects: the fingerprints (sha of array bytes and     *)
(* normalised descriptor values, coded as small integers) of ALL tracked   *)
(* objects and of every result component, before the call, after the call  *)
(* and after the in-place operation / array write.  The trace is accepted  *)
(* iff the observed version changes are exactly those the actions of Alias *)
(* allow: nothing on Produce, one result component on MutateResult, one    *)
(* tracked object on MutateSource.                                         *)
(***************************************************************************)
EXTENDS Alias, TLCExt
VARIABLES tid, l, fps, rfps, bad
Traces == JsonDeserialize(IOEnv.TRACE_FILE)
\* Traces[t] = [p, before : [name -> code], events : Seq([op, side, target, comp, mut, fps, rfps])]

Changed(old, new) == {n \in DOMAIN old : old[n] # new[n]}
ChangedSeq(old, new) == {c \in DOMAIN old : c \in DOMAIN new /\ old[c] # new[c]}

TInit == /\ tid \in 1..Len(Traces) /\ l = 1
         /\ phase = "init" /\ exp = NoExp /\ ver = [n \in TrackedNames |-> 0] /\ rver = <<>>
         /\ fps = Traces[tid].before /\ rfps = <<>> /\ bad = FALSE

\* structural part of the guard: the recorded step is a step of the schedule the model enumerates
StructOk(rec) ==
  CASE rec.op = "produce" -> phase = "init"
    [] rec.op = "mutate" /\ rec.side = "result" ->
         /\ phase = "produced" /\ rec.comp \in DOMAIN rver
         /\ Applicable(rec.mut, Catalogue[exp.p].comps[rec.comp]) /\ Catalogue[exp.p].class = "producer"
    [] rec.op = "mutate" /\ rec.side = "source" ->
         /\ phase = "produced" /\ Catalogue[exp.p].class = "producer"
         /\ \E k \in DOMAIN Catalogue[exp.p].args : Catalogue[exp.p].args[k] = rec.target
         /\ Applicable(rec.mut, KindOfName(rec.target))
    [] OTHER -> FALSE
\* observational part: the observed fingerprint changes are exactly those the action allows
ObsOk(rec) ==
  CASE rec.op = "produce" -> Changed(fps, rec.fps) = {}
    [] rec.op = "mutate" /\ rec.side = "result" ->
         Changed(fps, rec.fps) = {}      \* (components of one result may share storage among themselves:
                                        \*  the property speaks about result versus source only)
    [] rec.op = "mutate" /\ rec.side = "source" ->
         /\ Changed(fps, rec.fps) \subseteq {rec.target}
         /\ ChangedSeq(rfps, rec.rfps) = {}
    [] OTHER -> FALSE
Act(rec) ==
  CASE rec.op = "produce" -> Produce(Traces[tid].p)
    [] rec.op = "mutate" /\ rec.side = "result" -> MutateResult(rec.comp, rec.mut)
    [] OTHER -> MutateSource(rec.target, rec.mut)

\* a step whose observation contradicts the action is reported and the rest of the trace is still
\* checked from the logged state (one aliasing defect must not hide another)
TStep == /\ l >= 1 /\ l <= Len(Traces[tid].events)
         /\ LET rec == Traces[tid].events[l] IN
            IF StructOk(rec)
            THEN /\ Act(rec) /\ fps' = rec.fps /\ rfps' = rec.rfps /\ l' = l + 1
                 /\ bad' = (bad \/ ~ObsOk(rec))
                 /\ (~ObsOk(rec) =>
                       PrintT(ToJson([reject |-> tid, l |-> l, op |-> rec.op, side |-> rec.side,
                                      tracked_changed |-> Changed(fps, rec.fps),
                                      result_changed |-> IF rec.op = "produce" THEN {} ELSE ChangedSeq(rfps, rec.rfps)])))
                 /\ ((l = Len(Traces[tid].events) /\ ~bad') => PrintT(ToJson([accept |-> tid])))
            ELSE /\ PrintT(ToJson([reject |-> tid, l |-> l, op |-> rec.op, side |-> rec.side, structural |-> TRUE]))
                 /\ l' = 0 /\ bad' = TRUE /\ UNCHANGED <<phase, exp, ver, rver, fps, rfps>>
         /\ UNCHANGED tid
TSpec == TInit /\ [][TStep]_<<vars, tid, l, fps, rfps, bad>>
=============================================================================
