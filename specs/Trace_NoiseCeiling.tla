------------------------- MODULE Trace_NoiseCeiling -------------------------
(***************************************************************************)
(* Implementation -> specification for NoiseCeiling: calls of              *)
(* boot_noise_ceiling / cv_noise_ceiling recorded by                       *)
(* harness/noiseceiling.py:record_trace (wrapped pool_rdm / compare inside *)
(* rsatoolbox.inference.noise_ceiling) are stepped through the protocol    *)
(* actions PoolAll, LeaveOut, PoolTrain, Score, Finish of NoiseCeiling.    *)
(*                                                                         *)
(* header: the data object (source RDM ids, source condition ids; entries  *)
(*   are tokens), the valuation (token numbers or logged integer data),    *)
(*   the grouping descriptor, for cv the handed-in ceiling / test sets.    *)
(*   For boot the specification builds the leave-one-out folds ITSELF.     *)
(* "fold" event: what the implementation pooled for this group (the token  *)
(*   set the wrapped pool_rdm received), which conditions the prediction   *)
(*   covers, which RDMs it was compared with, the two scores * 10^8.       *)
(*   It must be Score's new entry: the prediction pooled from the OTHER    *)
(*   groups only (cv: the training RDMs at the test conditions); the upper *)
(*   prediction pooled from everything (cv: from ALL data RDMs at the test *)
(*   conditions of the fold, cut BEFORE pooling).                          *)
(* "ret" event: the returned bounds are the averages over the folds;       *)
(*   lower <= upper (cosine / correlation type, singleton groups);         *)
(*   for rho-a on logged integer data both bounds equal the exact          *)
(*   rationals of the specification within rounding.                       *)
(*   The data object's fingerprint logged with the bounds must be the one   *)
(*   logged before the first call (computing a ceiling leaves the data      *)
(*   alone).  "call" event: the NEXT ceiling, another method, on the SAME   *)
(*   object (action NextCall): its folds / bounds are checked like the first*)
(* "cand" event: a candidate RDM's average similarity (scored by the       *)
(*   implementation) is never above the returned upper bound.              *)
(* All Nc* invariants are evaluated on every state.  One behaviour per     *)
(* trace id; acceptance is printed.                                        *)
(***************************************************************************)
EXTENDS NoiseCeiling, IOUtils
VARIABLES tid, l, acc
Traces == JsonDeserialize(IOEnv.TRACE_FILE)
K8 == 100000000
K6 == 1000000

MkSrc(rows, pats) ==
  LET n == Len(pats) IN
  [rows |-> rows, pats |-> pats, have |-> [k \in 1..Len(rows) |-> Universe],
   ridx |-> Iota(Len(rows)), pidx |-> Iota(n), pinv |-> <<>>, meas |-> 1, pcat |-> 1,
   vec |-> [r \in 1..Len(rows) |-> [k \in 1..CLen(n) |->
              LET pq == PairAt(n, k) IN
              IF pats[pq[1]] = pats[pq[2]] THEN NaN ELSE Tok(rows[r], pats[pq[1]], pats[pq[2]])]]]
\* a handed-in (ceil, test) pair, given by positions in the data object
MkFold(s, fo) ==
  LET atP(ob) == SubsetPats(ob, "index", Range(fo.tpat))
      ceil == atP(SubsetRows(s, "index", Range(fo.ceil)))
      test == atP(SubsetRows(s, "index", Range(fo.test))) IN
  Fold(ceil, test, ceil, TRUE, <<>>, fo.testIdx)

Hdr == Traces[tid].hdr
Evs == Traces[tid].ev
Acc0 == [lo |-> 0, up |-> 0, ret |-> FALSE, up8 |-> 0]

TInit == /\ tid \in 1..Len(Traces) /\ l = 1 /\ acc = Acc0
         /\ objs = [o \in 1..MaxObj |-> IF o = 1 THEN Source ELSE Null] /\ hist = <<>> /\ stage = 1
         /\ pc = "start" /\ g = 0 /\ pred = NoPred /\ upper = NoPred /\ res = <<>> /\ cand = <<>> /\ xf = <<>> /\ calls = <<>>
         /\ api = Traces[tid].hdr.api /\ meth = Traces[tid].hdr.meth
         /\ src = MkSrc(Traces[tid].hdr.rows, Traces[tid].hdr.pats)
         /\ val = IF Traces[tid].hdr.val = <<>> THEN TokVal ELSE Traces[tid].hdr.val
         /\ fc = Case(1, IF Traces[tid].hdr.api = "boot" THEN "loo_rdm" ELSE "given",
                      Traces[tid].hdr.by, Traces[tid].hdr.byP, 0, 0, FALSE, <<>>)
         /\ folds = IF Traces[tid].hdr.api = "boot" THEN LooRdm(src, Traces[tid].hdr.by)
                    ELSE [f \in 1..Len(Traces[tid].hdr.folds) |-> MkFold(src, Traces[tid].hdr.folds[f])]
         /\ splits = IF Traces[tid].hdr.api = "boot"
                     THEN Cardinality(Range(RDesc(src, Traces[tid].hdr.by))) > 1
                     ELSE Traces[tid].hdr.splits

Reject(why) == /\ PrintT(ToJson([reject |-> tid, l |-> l, why |-> why, g |-> g,
                                 expected |-> IF pc = "pooled"
                                              THEN [predDeps |-> SetSeq(pred.deps), predPats |-> pred.ob.pats,
                                                    upDeps |-> SetSeq(upper.deps), testRows |-> folds[g].test.rows,
                                                    testPats |-> folds[g].test.pats]
                                              ELSE [predDeps |-> <<>>, predPats |-> <<>>, upDeps |-> <<>>,
                                                    testRows |-> <<>>, testPats |-> <<>>]]))
               /\ l' = 0
               /\ UNCHANGED <<objs, hist, fc, folds, stage, src, splits, api, meth, val, pc, g, pred, upper, res,
                              cand, xf, calls, tid, acc>>
Accept == l = Len(Evs) => PrintT(ToJson([accept |-> tid]))

\* which clause of the fold event cannot be explained
FoldWhy(e) ==
  LET F == folds[g] IN
  IF e.predDeps # SetSeq(pred.deps) THEN
     (IF splits /\ Range(e.predDeps) \cap DepTokens(F.test) # {} THEN "prediction-uses-left-out-group"
      ELSE "prediction-deps")
  ELSE IF e.upDeps # SetSeq(upper.deps) THEN "upper-deps"
  ELSE IF SortAsc(e.testRows) # SortAsc(F.test.rows) THEN "test-rows"
  ELSE IF e.predPats # pred.ob.pats \/ e.testPats # F.test.pats \/ e.upPats # F.test.pats THEN "conditions"
  ELSE ""

\* rho-a on logged integer data, singleton groups: 3 N / D is the exact bound
RhoD == Len(src.rows) * (LET n == Len(Compact(val[1])) IN n * n * n - n)
RhoUpN == 3 * RhoSum(RankPool2(ObVals(src)), ObVals(src))
RhoLoN == 3 * SumS([f \in 1..Len(folds) |-> RhoSum(RankPool2(ObVals(folds[f].ceil)), ObVals(folds[f].test))])
Near(x6, n, d) == x6 * d - n * K6 <= d /\ n * K6 - x6 * d <= d
RetWhy(e) ==
  LET G == Len(folds) IN
  IF e.fp # Hdr.fp THEN "data-modified"
  ELSE IF ~(e.lo8 * G - acc.lo <= G /\ acc.lo - e.lo8 * G <= G) THEN "lower-not-average-of-folds"
  ELSE IF ~(e.up8 * G - acc.up <= G /\ acc.up - e.up8 * G <= G) THEN "upper-not-average-of-folds"
  ELSE IF Hdr.single /\ Hdr.ordered /\ meth \in CosType \cup CorrType /\ e.lo8 > e.up8 + 1 THEN "lower-above-upper"
  ELSE IF Hdr.exact /\ meth = "rho-a" /\ ~Near(e.up6, RhoUpN, RhoD) THEN "upper-not-exact-rho-a"
  ELSE IF Hdr.exact /\ meth = "rho-a" /\ ~Near(e.lo6, RhoLoN, RhoD) THEN "lower-not-exact-rho-a"
  ELSE ""

Silent == /\ l >= 1 /\ l <= Len(Evs)
          /\ \/ PoolAll
             \/ (pc = "loop" /\ g < Len(folds) /\ LeaveOut(g + 1))
             \/ PoolTrain
             \/ Finish
          /\ UNCHANGED <<tid, l, acc>>
TFold == /\ l >= 1 /\ l <= Len(Evs) /\ pc = "pooled"
         /\ LET e == Evs[l] IN
            IF e.op = "fold" /\ FoldWhy(e) = ""
            THEN /\ Score /\ l' = l + 1 /\ Accept
                 /\ acc' = [acc EXCEPT !.lo = @ + e.lo8, !.up = @ + e.up8]
                 /\ UNCHANGED tid
            ELSE Reject(IF e.op = "fold" THEN FoldWhy(e) ELSE "event-order")
TDone == /\ l >= 1 /\ l <= Len(Evs) /\ pc = "done"
         /\ LET e == Evs[l] IN
            IF e.op = "ret" /\ ~acc.ret /\ RetWhy(e) = ""
            THEN /\ acc' = [acc EXCEPT !.ret = TRUE, !.up8 = e.up8] /\ l' = l + 1 /\ Accept
                 /\ UNCHANGED <<objs, hist, fc, folds, stage, src, splits, api, meth, val, pc, g, pred, upper, res,
                                cand, xf, calls, tid>>
            ELSE IF e.op = "call" /\ acc.ret /\ Len(calls) + 1 < MaxCalls
            THEN /\ NextCall(e.meth) /\ acc' = Acc0 /\ l' = l + 1 /\ UNCHANGED tid /\ Accept
            ELSE IF e.op = "cand" /\ acc.ret /\ e.s8 <= acc.up8 + 1
            THEN /\ l' = l + 1 /\ Accept
                 /\ UNCHANGED <<objs, hist, fc, folds, stage, src, splits, api, meth, val, pc, g, pred, upper, res,
                                cand, xf, calls, tid, acc>>
            ELSE Reject(IF e.op = "ret" THEN RetWhy(e) ELSE IF e.op = "cand" THEN "candidate-beats-upper"
                        ELSE "event-order")
\* more groups in the specification than fold events in the log (or the reverse) ends the behaviour
\* without acceptance
TNext == Silent \/ TFold \/ TDone
TSpec == TInit /\ [][TNext]_<<objs, hist, fc, folds, stage, src, splits, api, meth, val, pc, g, pred, upper, res,
                              cand, xf, calls, tid, l, acc>>
=============================================================================
