---------------------------- MODULE PlotDecisions ----------------------------
(***************************************************************************)
(* X01 - the decision layer of rsatoolbox.vis: WHAT is drawn WHERE.        *)
(*                                                                         *)
(* Exact definitional oracle (integers and rationals <<num, den>>, den > 0)*)
(* for the decisions taken by                                              *)
(*   vis.model_plot.plot_model_comparison and its helpers plot_nili_bars,  *)
(*   plot_golan_wings, plot_arrows, plot_cliques          (kind "bars")    *)
(*   vis.rdm_plot.show_rdm: grid of panels                (kind "grid")    *)
(*   vis.rdm_plot.show_rdm: overlay / contour cells       (kind "mask")    *)
(*   vis.colors.color_scale                               (kind "cscale")  *)
(*   vis.timecourse.plot_timecourse: displayed time points(kind "tdisp")   *)
(*   vis.modelfamily_graph.get_node_position              (kind "family")  *)
(*   vis.modelfamily_graph.show_family_graph              (kind "famgraph")*)
(*                                                                         *)
(* kind "bars".  A Result with k models and a set of options.  Two sources *)
(* of p-values:                                                            *)
(*   src "boot"  bootstrap-type Result: nb samples x k models of integer   *)
(*               evaluations ev (value ev/den), per-sample noise-ceiling   *)
(*               bounds ncl, ncu, model variances var (value var/den^2);   *)
(*               test_type 'bootstrap': the three families of p-values are *)
(*               rationals with small denominators, so that a p-value can  *)
(*               lie EXACTLY on a threshold                                *)
(*   src "given" p-values given on a grid (the test itself is abstract:    *)
(*               t-test / rank-sum p-values are irrational); perf given by *)
(*               integer ranks rk                                          *)
(* Actions follow the stages of the code:                                  *)
(*   Means   bar heights: NaN-free mean over the samples                   *)
(*   Sort    the order of the bars demanded by `sort` (any permutation     *)
(*           that sorts the heights - equal heights may come in any order) *)
(*   Test    the p-values in drawn order                                   *)
(*   Correct the threshold after the multiple-testing correction of the    *)
(*           pairwise tests, and the matrix of significant pairs           *)
(*   Mark    models marked above 0 / below the lower noise-ceiling bound   *)
(*           (Bonferroni over the k models, as documented)                 *)
(*   Layout  what each style of the upper panel draws                      *)
(*                                                                         *)
(* Theorems checked by TLC on the whole grid:                              *)
(*   SigSymmetric    the marked pairs form a symmetric irreflexive relation*)
(*   SigBelowAlpha   no marked pair has p >= alpha, whatever correction    *)
(*   Nested          Bonferroni marks <= FDR marks <= uncorrected marks    *)
(*   BHSelfConsistent the number of FDR-marked pairs is the step-up rank   *)
(*   OrderSorted     heights monotone in drawn order as `sort` demands     *)
(*   ModelLevel      (clause a) the picture, read per MODEL, does not      *)
(*                   depend on the order in which the bars are drawn       *)
(*   NiliPartition   nili bars and negative nili bars partition the pairs  *)
(*   GolanDominance  every marked pair with different heights is a feather *)
(*                   of exactly one wing: the better model's               *)
(*   CliquesExact    inside a clique nothing is marked, every unmarked pair*)
(*                   lies in some clique, cliques are maximal              *)
(*   CeilOrdered     informative only (lower <= upper on the grid)         *)
(*   GridShows / GridShape / ScaleEnds / TimeEnds / FamilyDistinct /       *)
(*   FamGraphShape / MaskTriangles                                         *)
(* Emit prints every terminal state as a JSON vector with the expected     *)
(* picture (specification -> implementation); Trace_PlotDecisions.tla      *)
(* re-uses the operators to validate recorded plots.                       *)
(***************************************************************************)
EXTENDS Integers, Sequences, FiniteSets, TLC, Json

CONSTANTS BarInputs,    \* tuple of sets of [k, nb, den, ev, ncl, ncu, var]
          PInputs,      \* tuple of sets of [k, pp, pz, pn, rk]
          Alphas,       \* set of <<num, den>>, 0 < alpha <= 1
          Sorts,        \* subset of {0, 1, 2}: unsorted, descending, ascending
          Mpts,         \* subset of {0, 1, 2}: uncorrected, FDR, Bonferroni / FWER
          GridInputs,   \* set of [n, nrow, ncol, cb]  (0 = None; cb 0 none, 1 panel, 2 figure)
          ScaleInputs,  \* tuple of sets of [n, anchors]
          TimeInputs,   \* set of [T, nd]
          FamilyNs,     \* set of numbers of models of a model family
          FamGraphInputs, \* set of [n, sc]: a model family of n models with the scores of its 2^n - 1 members
          MaskInputs,   \* set of [nc, vec, sym]: overlay / contour of show_rdm (vec: pair <<i, j>> -> 0/1; sym 0 both, 1 upper, 2 lower)
          GivenEmitMod  \* emit one terminal state with given p-values in GivenEmitMod (deterministic choice)

VARIABLES inp, stage, perf, ord, pv, thr, sig, marks, lay
vars == <<inp, stage, perf, ord, pv, thr, sig, marks, lay>>

Min2(a, b) == IF a < b THEN a ELSE b
Max2(a, b) == IF a < b THEN b ELSE a
Abs(a) == IF a < 0 THEN -a ELSE a
SetMax(S) == CHOOSE x \in S : \A y \in S : y <= x
SetMin(S) == CHOOSE x \in S : \A y \in S : x <= y
RECURSIVE ISum(_)
ISum(s) == IF s = <<>> THEN 0 ELSE Head(s) + ISum(Tail(s))

(* ---------------- rationals <<num, den>>, den > 0 ------------------------ *)
RECURSIVE GCD(_, _)
GCD(a, b) == IF b = 0 THEN a ELSE GCD(b, a % b)
Norm(r) == LET g == GCD(Abs(r[1]), r[2]) IN
           IF r[1] < 0 THEN <<-(Abs(r[1]) \div g), r[2] \div g>> ELSE <<r[1] \div g, r[2] \div g>>
\* equal denominators are compared without cross-multiplying (recorded p-values are scaled integers
\* over one large denominator; TLC integers are 32 bit)
RLt(a, b) == IF a[2] = b[2] THEN a[1] < b[1] ELSE a[1] * b[2] < b[1] * a[2]
RLe(a, b) == ~RLt(b, a)
REq(a, b) == ~RLt(a, b) /\ ~RLt(b, a)

(* ---------------- pairs --------------------------------------------------- *)
PairIdx(k) == {xy \in (1..k) \X (1..k) : xy[1] < xy[2]}
NTests(k) == (k * (k - 1)) \div 2
\* the k! orders as sequences, built by choosing the first element (never as a filter over the k^k functions)
RECURSIVE PermSeqs(_)
PermSeqs(S) == IF S = {} THEN {<<>>} ELSE UNION {{<<x>> \o p : p \in PermSeqs(S \ {x})} : x \in S}
Perms(k) == PermSeqs(1..k)
IsPerm(p, k) == Len(p) = k /\ {p[a] : a \in 1..k} = 1..k
IdPerm(k) == [a \in 1..k |-> a]

(* ======================= kind "bars" ======================================= *)

(* ---------------- Means ---------------------------------------------------- *)
\* bar height = mean over the (NaN-free) samples, as Result.get_means
PerfOf(i) == IF i.src = "boot"
             THEN [m \in 1..i.k |-> Norm(<<ISum([s \in 1..i.nb |-> i.ev[s][m]]), i.nb * i.den>>)]
             ELSE [m \in 1..i.k |-> <<i.rk[m], 1>>]

(* ---------------- Sort ------------------------------------------------------ *)
\* sort = False: "plot bars in the order passed"; 'descend[ing]' / 'ascend[ing]': "in descending /
\* ascending order of model performance".  Equal performances: any order.
SortedBy(pf, p, srt) == \A x \in 1..(Len(p) - 1) :
                           IF srt = 1 THEN RLe(pf[p[x + 1]], pf[p[x]]) ELSE RLe(pf[p[x]], pf[p[x + 1]])
Orders(pf, k, srt) == IF srt = 0 THEN {IdPerm(k)} ELSE {p \in Perms(k) : SortedBy(pf, p, srt)}

(* ---------------- Test ------------------------------------------------------ *)
\* test_type 'bootstrap' (inference_util.all_tests):
\*   pair: "Tests add 1/len(evaluations) to each p-value and are computed as two sided tests, i.e. as
\*         2 * the smaller proportion"; proportion of samples with e_a < e_b among the samples without
\*         a tie: p = (n-1)/n * 2 min(c, m - c)/m + 1/n
\*   zero: (#{e_a <= 0} + 1) / n          nc: (#{lower_s - e_a <= 0} + 1) / n
CLess(i, a, b) == Cardinality({s \in 1..i.nb : i.ev[s][a] < i.ev[s][b]})
CTie(i, a, b) == Cardinality({s \in 1..i.nb : i.ev[s][a] = i.ev[s][b]})
BootPair(i, a, b) == IF a = b THEN <<1, 1>> ELSE
   LET n == i.nb  m == n - CTie(i, a, b)  c == CLess(i, a, b) IN
   Norm(<<(n - 1) * 2 * Min2(c, m - c) + m, n * m>>)
BootZero(i, a) == Norm(<<Cardinality({s \in 1..i.nb : i.ev[s][a] <= 0}) + 1, i.nb>>)
BootNc(i, a) == Norm(<<Cardinality({s \in 1..i.nb : i.ncl[s] - i.ev[s][a] <= 0}) + 1, i.nb>>)
\* generator constraint of the bootstrap grid: two different models never tie within a sample (the
\* library's proportion c/(n - ties) is then a dyadic float, so a p-value ON a threshold is computed
\* exactly) and no two models are identical (0/0)
NoTies(i) == \A a \in 1..i.k : \A b \in 1..i.k : a # b => CTie(i, a, b) = 0

\* the p-values in DRAWN order (o[x] = model drawn at position x)
PvOf(i, o) ==
  IF i.src = "boot"
  THEN [pair |-> [x \in 1..i.k |-> [y \in 1..i.k |-> BootPair(i, o[x], o[y])]],
        zero |-> [x \in 1..i.k |-> BootZero(i, o[x])],
        nc   |-> [x \in 1..i.k |-> BootNc(i, o[x])]]
  ELSE [pair |-> [x \in 1..i.k |-> [y \in 1..i.k |-> IF x = y THEN <<1, 1>> ELSE i.pp[o[x]][o[y]]]],
        zero |-> [x \in 1..i.k |-> i.pz[o[x]]],
        nc   |-> [x \in 1..i.k |-> i.pn[o[x]]]]

(* ---------------- Correct ---------------------------------------------------- *)
\* 'uncorrected' / None: p < alpha.   'Bonferroni' / 'FWER': p < alpha / n_tests, n_tests = k(k-1)/2.
\* 'FDR' ("control the false-discovery rate at q = alpha"): Benjamini-Hochberg step-up over the
\* n_tests pair p-values with STRICT comparisons (the code's): K = the largest rank i such that the
\* i-th smallest p-value is < alpha i / n_tests (0 if none); marked: p < alpha K / n_tests.
\* A value v is the i-th smallest iff #{p < v} < i <= #{p <= v}.
BHRank(pp, k, alpha) ==
  LET P == PairIdx(k)  m == NTests(k)
      V(q) == pp[q[1]][q[2]]
      Below(q) == Cardinality({r \in P : RLt(V(r), V(q))})
      AtMost(q) == Cardinality({r \in P : RLe(V(r), V(q))})
      Ok == {i \in 1..m : \E q \in P : Below(q) < i /\ i <= AtMost(q)
                                        /\ RLt(V(q), <<alpha[1] * i, alpha[2] * m>>)}
  IN IF Ok = {} THEN 0 ELSE SetMax(Ok)
ThrOf(pp, k, alpha, mpt) ==
  CASE mpt = 0 -> alpha
    [] mpt = 1 -> <<alpha[1] * BHRank(pp, k, alpha), alpha[2] * NTests(k)>>
    [] mpt = 2 -> <<alpha[1], alpha[2] * NTests(k)>>
SigOf(pp, k, t) == [x \in 1..k |-> [y \in 1..k |-> x # y /\ RLt(pp[x][y], t)]]
SigPairs(sg, k) == {pq \in PairIdx(k) : sg[pq[1]][pq[2]]}

(* ---------------- Mark ------------------------------------------------------- *)
\* "Tests are one-sided, use the global alpha threshold and are automatically Bonferroni-corrected for
\* the number of models tested."
MarksOf(p, k, alpha) ==
  [zero |-> {x \in 1..k : RLt(p.zero[x], <<alpha[1], alpha[2] * k>>)},
   nc   |-> {x \in 1..k : RLt(p.nc[x], <<alpha[1], alpha[2] * k>>)}]

(* ---------------- Layout ----------------------------------------------------- *)
\* nili: "each significant difference by a horizontal line (or each nonsignificant difference if the
\* string contains a '2')".
\* golan (default version 3): "one wing indicating all dominance relationships for one model": anchor
\* = the model, one downward feather at every model it significantly dominates; wings "from bottom to
\* top in model order" (right to left if the bars ascend).
WingOrder(k, srt) == IF srt = 2 THEN [x \in 1..k |-> k + 1 - x] ELSE [x \in 1..k |-> x]
Feathers(sg, pfd, k, x) == {y \in 1..k : y # x /\ sg[x][y] /\ RLt(pfd[y], pfd[x])}
Wings(sg, pfd, k, srt) ==
  LET wo == WingOrder(k, srt)
      cand == [n \in 1..k |-> [a |-> wo[n], f |-> Feathers(sg, pfd, k, wo[n])]]
  IN SelectSeq(cand, LAMBDA w : w.f # {})
\* cliques: "maximal cliques of models that are not significantly different ... One bar is drawn for
\* each clique with open circles indicating the clique members."  (single models are not drawn)
IsClique(sg, c) == \A x \in c : \A y \in c : x # y => ~sg[x][y]
Cliques(sg, k) == {c \in SUBSET (1..k) : /\ Cardinality(c) >= 2 /\ IsClique(sg, c)
                                          /\ \A z \in (1..k) \ c : ~IsClique(sg, c \cup {z})}
\* arrows: "indicating pairs of sets between which all differences are significant".  The algorithm is
\* a heuristic; what it must satisfy is relational.  An element is <<type, x1, x2>>:
\*   1 double arrow between x1 < x2: every model <= x1 against every model >= x2
\*   2 arrow with its dot at x1 and its head towards x2: model x1 against every model from x2 onwards
\*   3 plain line: the pair
\* "all pairwise inferential model comparisons are shown": the pairs covered = the marked pairs.
Cov(e, k) ==
  CASE e[1] = 1 -> {pq \in PairIdx(k) : pq[1] <= Min2(e[2], e[3]) /\ pq[2] >= Max2(e[2], e[3])}
    [] e[1] = 2 -> IF e[2] < e[3] THEN {pq \in PairIdx(k) : pq[1] = e[2] /\ pq[2] >= e[3]}
                                  ELSE {pq \in PairIdx(k) : pq[2] = e[2] /\ pq[1] <= e[3]}
    [] e[1] = 3 -> {<<Min2(e[2], e[3]), Max2(e[2], e[3])>>}
Covered(es, k) == UNION {Cov(es[n], k) : n \in 1..Len(es)}

LayOf(sg, pfd, k, srt) ==
  [nili    |-> SigPairs(sg, k),
   nili2   |-> PairIdx(k) \ SigPairs(sg, k),
   golan   |-> Wings(sg, pfd, k, srt),
   cliques |-> Cliques(sg, k)]

\* the noise-ceiling box: "np.mean(noise_ceiling[0]) is the lower bound and np.mean(noise_ceiling[1])
\* is the higher one"
CeilOf(i) == << Norm(<<ISum(i.ncl), i.nb * i.den>>), Norm(<<ISum(i.ncu), i.nb * i.den>>) >>

(* ======================= kind "grid": show_rdm ============================== *)
\* n RDMs; one more panel is reserved for a figure-level colour bar.  Rows / columns as given; a
\* missing one is the smallest that fits; both missing: ceil(sqrt(panels)) columns.  The empty panels
\* come first ("number of empty panels at the top"), the RDMs follow in reading order.
CeilDiv(a, b) == (a + b - 1) \div b
CeilSqrt(a) == SetMin({c \in 1..a : c * c >= a})
GridPanels(g) == g.n + (IF g.cb = 2 THEN 1 ELSE 0)
GridShapeOf(g) ==
  LET np == GridPanels(g)
      c0 == IF g.ncol = 0 /\ g.nrow = 0 THEN CeilSqrt(np) ELSE g.ncol
      r  == IF g.nrow = 0 THEN CeilDiv(np, c0) ELSE g.nrow
      c  == IF c0 = 0 THEN CeilDiv(np, r) ELSE c0
  IN <<r, c>>
GridFits(g) == LET s == GridShapeOf(g) IN s[1] * s[2] >= GridPanels(g)
GridOut(g) ==
  LET s == GridShapeOf(g)  tot == s[1] * s[2]  empty == tot - g.n IN
  [shape |-> s,
   cells |-> [p \in 1..tot |-> IF p <= empty THEN 0 ELSE p - empty],     \* reading order, 0 = empty
   bars  |-> IF g.cb = 1 THEN g.n ELSE IF g.cb = 2 THEN 1 ELSE 0]        \* number of colour bars

(* ======================= kind "cscale": color_scale ========================= *)
\* "linearly interpolates between a set of given anchor colours to give n_cols": colour c (1..n) sits at
\* t = (c-1)(A-1)/(n-1) on the anchor axis 0..A-1
ScaleOut(i) ==
  LET A == Len(i.anchors)  n == i.n IN
  [c \in 1..n |->
     IF n = 1 THEN [ch \in 1..3 |-> <<i.anchors[1][ch], 1>>]
     ELSE LET num == (c - 1) * (A - 1)  seg == Min2(num \div (n - 1), A - 2)  fr == num - seg * (n - 1) IN
          [ch \in 1..3 |-> Norm(<<i.anchors[seg + 1][ch] * ((n - 1) - fr) + i.anchors[seg + 2][ch] * fr, n - 1>>)]]

(* ======================= kind "tdisp": plot_timecourse ====================== *)
\* "n_t_display: number of RDM time points to display": min(T, nd) of the T time points, evenly spread
\* from the first to the last; position j (1..n) is (j-1)(T-1)/(n-1) rounded to the nearest index - an
\* exact half may go either way.
TimeN(t) == Min2(t.T, t.nd)
TimeCands(t, j) ==
  LET n == TimeN(t) IN
  IF n = 1 THEN {0}
  ELSE LET num == (j - 1) * (t.T - 1)  q == num \div (n - 1)  r2 == 2 * (num - q * (n - 1)) IN
       IF r2 < n - 1 THEN {q} ELSE IF r2 > n - 1 THEN {q + 1} ELSE {q, q + 1}
RECURSIVE TimeSeqs(_, _)
TimeSeqs(t, j) == IF j = 0 THEN {<<>>} ELSE {Append(s, c) : s \in TimeSeqs(t, j - 1), c \in TimeCands(t, j)}
TimeOuts(t) == TimeSeqs(t, TimeN(t))

(* ======================= kind "family": get_node_position =================== *)
\* members of a model family are listed by subset size, then lexicographically (ModelFamily); the node
\* of member number idx (0-based) sits on level y = its subset size; the C(n, y) nodes of a level are
\* spread evenly between -ceil(C/2) and floor(C/2)
RECURSIVE Binom(_, _)
Binom(n, r) == IF r = 0 \/ r = n THEN 1 ELSE IF r < 0 \/ r > n THEN 0 ELSE Binom(n - 1, r - 1) + Binom(n - 1, r)
RECURSIVE CumBinom(_, _)
CumBinom(n, y) == IF y < 1 THEN 0 ELSE Binom(n, y) + CumBinom(n, y - 1)      \* members of size 1..y
FamLevel(n, idx) == SetMin({y \in 1..n : idx + 1 <= CumBinom(n, y)})
FamOut(n) ==
  [idx \in 0..(CumBinom(n, n) - 1) |->
     LET y == FamLevel(n, idx)  m == Binom(n, y)  j == idx - CumBinom(n, y - 1)      \* 0-based within level
         lo == -((m + 1) \div 2)  hi == m \div 2 IN
     [y |-> y, x |-> IF m = 1 THEN <<lo, 1>> ELSE Norm(<<lo * (m - 1) + j * (hi - lo), m - 1>>)]]

(* ======================= kind "famgraph": show_family_graph ================= *)
\* one node per family member (non-empty subset of the n models, in the order of ModelFamily: by size, then
\* lexicographically), one edge between every member and each of its sub-members with one model less; the edge
\* points to the member with the HIGHER score (equal scores: to the smaller member) - the code's reading of
\* "visualizes the model family results in a graph".
Members(n) == (SUBSET (1..n)) \ {{}}
LexLess(A, B) == SetMin((A \ B) \cup (B \ A)) \in A            \* equal sizes, A # B: sorted sequences compared
MemberIdx(n, A) == Cardinality({B \in Members(n) : \/ Cardinality(B) < Cardinality(A)
                                                    \/ (Cardinality(B) = Cardinality(A) /\ B # A /\ LexLess(B, A))})
MemberAt(n, idx) == CHOOSE A \in Members(n) : MemberIdx(n, A) = idx
FamGraphOut(i) ==
  LET n == i.n  N == CumBinom(n, n) IN
  [members |-> [j \in 1..N |-> MemberAt(n, j - 1)],
   edges   |-> {IF i.sc[MemberIdx(n, ab[1]) + 1] > i.sc[MemberIdx(n, ab[2]) + 1]
                THEN <<MemberIdx(n, ab[2]), MemberIdx(n, ab[1])>> ELSE <<MemberIdx(n, ab[1]), MemberIdx(n, ab[2])>> :
                  ab \in {xy \in Members(n) \X Members(n) : xy[2] \subseteq xy[1] /\ Cardinality(xy[1]) = Cardinality(xy[2]) + 1}}]

(* ======================= kind "mask": overlay / contour of show_rdm ========= *)
\* "vector (one value per pair) which indicates whether to highlight the given cells" / "to add a border to the
\* given cells": the cells <<row, column>> of the marked pairs, in both triangles or only in the upper / lower one;
\* the border = every side of a marked cell whose neighbour on that side is not marked (sides 1 top, 2 right,
\* 3 bottom, 4 left; a neighbour outside the matrix is not marked).
MaskCells(i) == {rc \in (1..i.nc) \X (1..i.nc) :
                   /\ rc[1] # rc[2] /\ i.vec[<<Min2(rc[1], rc[2]), Max2(rc[1], rc[2])>>] = 1
                   /\ (i.sym = 0 \/ (i.sym = 1 /\ rc[1] < rc[2]) \/ (i.sym = 2 /\ rc[1] > rc[2]))}
MaskNb(r, c, sd) == CASE sd = 1 -> <<r - 1, c>> [] sd = 2 -> <<r, c + 1>> [] sd = 3 -> <<r + 1, c>> [] sd = 4 -> <<r, c - 1>>
MaskOut(i) == LET cells == MaskCells(i) IN
  [cells |-> cells,
   edges |-> {e \in (1..i.nc) \X (1..i.nc) \X (1..4) : <<e[1], e[2]>> \in cells /\ MaskNb(e[1], e[2], e[3]) \notin cells}]

(* ======================= the state machine ================================== *)
None == <<>>
Init ==
  /\ \/ \E g \in 1..Len(BarInputs) : \E b \in BarInputs[g] : \E al \in Alphas : \E so \in Sorts : \E mp \in Mpts :
          inp = [kind |-> "bars", src |-> "boot", k |-> b.k, nb |-> b.nb, den |-> b.den, ev |-> b.ev,
                 ncl |-> b.ncl, ncu |-> b.ncu, var |-> b.var, alpha |-> al, sort |-> so, mpt |-> mp]
     \/ \E g \in 1..Len(PInputs) : \E b \in PInputs[g] : \E al \in Alphas : \E so \in Sorts : \E mp \in Mpts :
          inp = [kind |-> "bars", src |-> "given", k |-> b.k, pp |-> b.pp, pz |-> b.pz, pn |-> b.pn,
                 rk |-> b.rk, alpha |-> al, sort |-> so, mpt |-> mp]
     \/ \E g \in GridInputs : inp = [kind |-> "grid", n |-> g.n, nrow |-> g.nrow, ncol |-> g.ncol, cb |-> g.cb]
     \/ \E g \in 1..Len(ScaleInputs) : \E c \in ScaleInputs[g] : inp = [kind |-> "cscale", n |-> c.n, anchors |-> c.anchors]
     \/ \E t \in TimeInputs : inp = [kind |-> "tdisp", T |-> t.T, nd |-> t.nd]
     \/ \E n \in FamilyNs : inp = [kind |-> "family", n |-> n]
     \/ \E g \in FamGraphInputs : inp = [kind |-> "famgraph", n |-> g.n, sc |-> g.sc]
     \/ \E g \in MaskInputs : inp = [kind |-> "mask", nc |-> g.nc, vec |-> g.vec, sym |-> g.sym]
  /\ stage = "in" /\ perf = None /\ ord = None /\ pv = None /\ thr = None /\ sig = None /\ marks = None /\ lay = None

Bars == inp.kind = "bars"
Means   == /\ Bars /\ stage = "in" /\ stage' = "means" /\ perf' = PerfOf(inp)
           /\ UNCHANGED <<inp, ord, pv, thr, sig, marks, lay>>
Sort    == /\ Bars /\ stage = "means" /\ stage' = "sorted"
           /\ \E o \in Orders(perf, inp.k, inp.sort) : ord' = o
           /\ UNCHANGED <<inp, perf, pv, thr, sig, marks, lay>>
Test    == /\ Bars /\ stage = "sorted" /\ stage' = "tested" /\ pv' = PvOf(inp, ord)
           /\ UNCHANGED <<inp, perf, ord, thr, sig, marks, lay>>
Correct == /\ Bars /\ stage = "tested" /\ stage' = "corrected"
           /\ thr' = ThrOf(pv.pair, inp.k, inp.alpha, inp.mpt)
           /\ sig' = SigOf(pv.pair, inp.k, thr')
           /\ UNCHANGED <<inp, perf, ord, pv, marks, lay>>
Mark    == /\ Bars /\ stage = "corrected" /\ stage' = "marked" /\ marks' = MarksOf(pv, inp.k, inp.alpha)
           /\ UNCHANGED <<inp, perf, ord, pv, thr, sig, lay>>
Layout  == /\ Bars /\ stage = "marked" /\ stage' = "done"
           /\ lay' = LayOf(sig, [x \in 1..inp.k |-> perf[ord[x]]], inp.k, inp.sort)
           /\ UNCHANGED <<inp, perf, ord, pv, thr, sig, marks>>
\* the four small decision functions: one step
Decide  == /\ ~Bars /\ stage = "in" /\ stage' = "done"
           /\ CASE inp.kind = "grid"   -> GridFits(inp) /\ lay' = GridOut(inp)
                [] inp.kind = "cscale" -> lay' = ScaleOut(inp)
                [] inp.kind = "tdisp"  -> \E d \in TimeOuts(inp) : lay' = d
                [] inp.kind = "family" -> lay' = FamOut(inp.n)
                [] inp.kind = "famgraph" -> lay' = FamGraphOut(inp)
                [] inp.kind = "mask" -> lay' = MaskOut(inp)
           /\ UNCHANGED <<inp, perf, ord, pv, thr, sig, marks>>
Next == Means \/ Sort \/ Test \/ Correct \/ Mark \/ Layout \/ Decide
Spec == Init /\ [][Next]_vars

(* ======================= theorems ============================================ *)
Done(kd) == stage = "done" /\ inp.kind = kd
AfterCorrect == Bars /\ stage \in {"corrected", "marked", "done"}

GridAdmissible == (Bars /\ inp.src = "boot") => NoTies(inp)
SigSymmetric == AfterCorrect => \A x \in 1..inp.k : ~sig[x][x] /\ \A y \in 1..inp.k : sig[x][y] = sig[y][x]
SigBelowAlpha == AfterCorrect => \A x \in 1..inp.k : \A y \in 1..inp.k : sig[x][y] => RLt(pv.pair[x][y], inp.alpha)
SigSet(mp) == SigPairs(SigOf(pv.pair, inp.k, ThrOf(pv.pair, inp.k, inp.alpha, mp)), inp.k)
Nested == AfterCorrect => SigSet(2) \subseteq SigSet(1) /\ SigSet(1) \subseteq SigSet(0)
BHSelfConsistent == AfterCorrect => Cardinality(SigSet(1)) = BHRank(pv.pair, inp.k, inp.alpha)
OrderSorted == (Bars /\ ord # None) => /\ IsPerm(ord, inp.k)
                                       /\ (inp.sort = 0 => ord = IdPerm(inp.k))
                                       /\ (inp.sort # 0 => SortedBy(perf, ord, inp.sort))
\* clause a: read per model, the picture is the one of the unsorted plot
ModelLevel ==
  Done("bars") =>
    LET k == inp.k  id == IdPerm(k)  p0 == PvOf(inp, id)
        s0 == SigOf(p0.pair, k, ThrOf(p0.pair, k, inp.alpha, inp.mpt))  m0 == MarksOf(p0, k, inp.alpha) IN
    /\ {<<ord[pq[1]], ord[pq[2]]>> : pq \in SigPairs(sig, k)} \cup {<<ord[pq[2]], ord[pq[1]]>> : pq \in SigPairs(sig, k)}
         = {pq \in (1..k) \X (1..k) : s0[pq[1]][pq[2]]}
    /\ {ord[x] : x \in marks.zero} = m0.zero
    /\ {ord[x] : x \in marks.nc} = m0.nc
NiliPartition == Done("bars") => /\ lay.nili \cup lay.nili2 = PairIdx(inp.k) /\ lay.nili \cap lay.nili2 = {}
                                 /\ lay.nili = SigPairs(sig, inp.k)
GolanDominance ==
  Done("bars") =>
    LET W == lay.golan  k == inp.k IN
    /\ \A n \in 1..Len(W) : W[n].f # {} /\ \A y \in W[n].f : sig[W[n].a][y] /\ RLt(perf[ord[y]], perf[ord[W[n].a]])
    /\ \A pq \in SigPairs(sig, k) : ~REq(perf[ord[pq[1]]], perf[ord[pq[2]]]) =>
          Cardinality({n \in 1..Len(W) : (W[n].a = pq[1] /\ pq[2] \in W[n].f) \/ (W[n].a = pq[2] /\ pq[1] \in W[n].f)}) = 1
    /\ \A n1 \in 1..Len(W) : \A n2 \in 1..Len(W) : n1 # n2 => W[n1].a # W[n2].a
CliquesExact ==
  Done("bars") =>
    /\ \A c \in lay.cliques : \A x \in c : \A y \in c : x # y => ~sig[x][y]
    /\ \A pq \in PairIdx(inp.k) : ~sig[pq[1]][pq[2]] => \E c \in lay.cliques : pq[1] \in c /\ pq[2] \in c
    /\ \A c1 \in lay.cliques : \A c2 \in lay.cliques : c1 \subseteq c2 => c1 = c2
\* the trivial arrows layout (one plain line per marked pair) satisfies the relational demand: the demand is satisfiable
ArrowsSatisfiable ==
  Done("bars") => LET S == SigPairs(sig, inp.k) IN UNION {Cov(<<3, pq[1], pq[2]>>, inp.k) : pq \in S} = S

GridShows == Done("grid") =>
   LET s == lay.shape  tot == s[1] * s[2] IN
   /\ \A r \in 1..inp.n : Cardinality({p \in 1..tot : lay.cells[p] = r}) = 1
   /\ \A p \in 1..(tot - 1) : lay.cells[p] <= lay.cells[p + 1]
   /\ (inp.cb = 2 => lay.cells[1] = 0)                       \* the panel the figure colour bar is centred on
GridShape == Done("grid") =>
   LET R == lay.shape[1]  Cc == lay.shape[2]  np == GridPanels(inp) IN
   /\ (inp.nrow # 0 => R = inp.nrow) /\ (inp.ncol # 0 => Cc = inp.ncol)
   /\ R * Cc >= np
   /\ (inp.nrow = 0 => (R - 1) * Cc < np)                          \* the smallest number of rows that fits: no empty row
   /\ ((inp.ncol = 0 /\ inp.nrow # 0) => (Cc - 1) * R < np)          \* the smallest number of columns that fits
   /\ ((inp.ncol = 0 /\ inp.nrow = 0) => Cc * Cc >= np /\ (Cc - 1) * (Cc - 1) < np)
ScaleEnds == Done("cscale") =>
   /\ \A ch \in 1..3 : lay[1][ch] = <<inp.anchors[1][ch], 1>>
   /\ (inp.n > 1 => \A ch \in 1..3 : lay[inp.n][ch] = <<inp.anchors[Len(inp.anchors)][ch], 1>>)
   /\ \A c \in 1..inp.n : \A ch \in 1..3 :          \* never outside the range of the anchors
        \E a1 \in 1..Len(inp.anchors) : \E a2 \in 1..Len(inp.anchors) :
            RLe(<<inp.anchors[a1][ch], 1>>, lay[c][ch]) /\ RLe(lay[c][ch], <<inp.anchors[a2][ch], 1>>)
TimeEnds == Done("tdisp") =>
   /\ lay[1] = 0 /\ lay[TimeN(inp)] = (IF TimeN(inp) = 1 THEN 0 ELSE inp.T - 1)
   /\ \A j \in 1..(TimeN(inp) - 1) : lay[j] < lay[j + 1]
FamilyDistinct == Done("family") =>
   /\ \A a \in DOMAIN lay : \A b \in DOMAIN lay : a # b => ~(lay[a].y = lay[b].y /\ REq(lay[a].x, lay[b].x))
   /\ \A a \in DOMAIN lay : \A b \in DOMAIN lay : a < b => lay[a].y <= lay[b].y

FamGraphShape == Done("famgraph") =>
   LET n == inp.n  N == CumBinom(n, n) IN
   /\ {MemberIdx(n, A) : A \in Members(n)} = 0..(N - 1)                              \* the order of ModelFamily is a numbering
   /\ \A j \in 1..N : Cardinality(lay.members[j]) = FamLevel(n, j - 1)              \* level of get_node_position = size
   /\ Cardinality(lay.edges) = ISum([y \in 1..n |-> IF y >= 2 THEN y * Binom(n, y) ELSE 0])
   /\ \A e \in lay.edges : inp.sc[e[2] + 1] >= inp.sc[e[1] + 1]                      \* an edge never points to a lower score

MaskTriangles == Done("mask") =>
   LET up == MaskCells([inp EXCEPT !.sym = 1])  lo == MaskCells([inp EXCEPT !.sym = 2])  bo == MaskCells([inp EXCEPT !.sym = 0]) IN
   /\ up \cup lo = bo /\ up \cap lo = {}
   /\ \A rc \in bo : <<rc[2], rc[1]>> \in bo
   /\ \A rc \in up : <<rc[2], rc[1]>> \in lo
   /\ Cardinality(lay.edges) % 2 = 0                    \* the border consists of closed curves

(* ======================= emission of test vectors (S -> I) ================== *)
\* deterministic sampling of the states with given p-values (RandomElement is not reproducible with
\* several workers)
GHash(i) == ISum([x \in 1..i.k |-> ISum([y \in 1..i.k |-> i.pp[x][y][2] * (x + 3 * y)])])
            + 7 * i.sort + 13 * i.mpt + i.alpha[2]
EmitThis == inp.src = "boot" \/ GHash(inp) % GivenEmitMod = 0
Emit ==
  /\ (Done("bars") /\ EmitThis) =>
       PrintT(ToJson([inp |-> inp, ord |-> ord,
                      h |-> [x \in 1..inp.k |-> perf[ord[x]]],
                      pv |-> pv, thr |-> thr, sig |-> sig, zero |-> marks.zero, nc |-> marks.nc,
                      ceil |-> IF inp.src = "boot" THEN CeilOf(inp) ELSE <<>>,
                      \* a p-value exactly on a threshold that some option value uses (given p-values are
                      \* realised through a t distribution: such states are not replayed bit-exactly)
                      tie |-> \/ \E pq \in PairIdx(inp.k) : \E i \in 1..NTests(inp.k) :
                                    REq(pv.pair[pq[1]][pq[2]], <<inp.alpha[1] * i, inp.alpha[2] * NTests(inp.k)>>)
                              \/ \E x \in 1..inp.k : REq(pv.zero[x], <<inp.alpha[1], inp.alpha[2] * inp.k>>)
                                                      \/ REq(pv.nc[x], <<inp.alpha[1], inp.alpha[2] * inp.k>>),
                      lay |-> lay]))
  /\ (stage = "done" /\ ~Bars /\ inp.kind # "mask") => PrintT(ToJson([inp |-> inp, out |-> lay]))
  /\ Done("mask") => PrintT(ToJson([inp |-> [kind |-> "mask", nc |-> inp.nc, sym |-> inp.sym,
                                                marked |-> {pq \in PairIdx(inp.nc) : inp.vec[pq] = 1}], out |-> lay]))
=============================================================================
