--------------------------- MODULE MC_Trace_CalcRdm ---------------------------
(* wrapper for trace validation: the enumeration constants of CalcRdm are not used (TInit binds the *)
(* logged input), they only need some value *)
EXTENDS Trace_CalcRdm
NoCat == <<>>
NoVals == {}
=============================================================================
