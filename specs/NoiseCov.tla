------------------------------ MODULE NoiseCov ------------------------------
(***************************************************************************)
(* Noise covariance estimation (rsatoolbox.data.noise) as an exact         *)
(* definitional oracle.                                                    *)
(*                                                                         *)
(* An input is a sequence of BLOCKS (one for a single residual matrix or   *)
(* Dataset, several for a list / 3-D array).  A block is                   *)
(*     lab : sequence of condition ids, one per observation (row)          *)
(*     x   : sequence of rows, each a sequence of P integers                *)
(* A residual matrix is the block with ONE condition (cov_from_residuals   *)
(* removes the column means); a Dataset block carries its obs_descriptor.  *)
(* The definition is the same for both:                                    *)
(*     Resid     r[o]   = x[o] - mean of the rows with the label of o      *)
(*     CrossProd XP     = SUM_o r[o] r[o]^T          (integer matrix)      *)
(*     Dof       dof    = #observations - #conditions, or the dof passed   *)
(*                        (a list gives every element ITS dof)             *)
(*     Full      full   = XP / dof   as rationals <<num, den>>             *)
(*     Diag             = diagonal of Full                                 *)
(* The two shrinkage estimates are specified by RELATION only (the         *)
(* property does not state the intensity): out = l*T + (1-l)*Full for ONE  *)
(* l in [0,1], T = (tr Full / P) I  or  T = diag(Full).                    *)
(* Data are integers multiplied by the lcm of the group sizes, so every    *)
(* group mean is an integer and all of the above is exact in TLC.          *)
(*                                                                         *)
(* Theorems of the definition checked as invariants: SymFull, RowOrderInv, *)
(* MeasEqUnb (tensor route = per-row route on every balanced design),      *)
(* ListElementwise, MomentForm (independent computational formula),        *)
(* GramPSD, ShrinkGrid (the relation yields symmetric PSD matrices of the  *)
(* same trace / diagonal for l on a rational grid, PD on the grid if l>0). *)
(* Emit prints every terminal state as a test vector.                      *)
(***************************************************************************)
EXTENDS Integers, Sequences, FiniteSets, TLC, SequencesExt, Functions, Json

CONSTANTS Cs,       \* numbers of conditions for Dataset blocks (subset of 1..4; 1 = all rows one label)
          MaxRep,   \* largest number of repetitions of one condition
          MaxN,     \* largest number of observations of one block
          Ps,       \* numbers of channels
          Vals,     \* raw integer values (before scaling by the lcm of the group sizes)
          Forms,    \* subset of 1..5, see FormName below
          DofOpts,  \* subset of {0,1,2}: dof=None / scalar / list
          DofVals,  \* values a passed dof can take
          KList,    \* number of elements of list inputs
          NDraw,    \* random mode: number of draws per (form, P, dofopt, balanced?)
          EmitMod   \* emit one terminal state in EmitMod

VARIABLES inp,   \* [form, P, dofopt, dofv, blocks, bal, draw]
          pc,    \* "init" -> "resid" -> "xprod" -> "dof" -> "full" -> "done"
          res,   \* per block: residual rows
          xp,    \* per block: P x P integer cross-product
          dof,   \* per block: degrees of freedom
          full   \* per block: P x P matrix of <<num, den>>
vars == <<inp, pc, res, xp, dof, full>>

\* forms: 1 residual matrix, 2 list of residual matrices, 3 3-D array of residual matrices,
\*        4 Dataset, 5 list of Datasets
IsList(form) == form \in {2, 3, 5}
IsData(form) == form \in {4, 5}

(* ---------------- arithmetic helpers ------------------------------------ *)
Sum(f) == FoldFunction(LAMBDA a, b : a + b, 0, f)
RECURSIVE Gcd(_, _)
Gcd(a, b) == IF b = 0 THEN a ELSE Gcd(b, a % b)
Lcm(a, b) == (a * b) \div Gcd(a, b)
RECURSIVE LcmSeq(_)
LcmSeq(s) == IF s = <<>> THEN 1 ELSE Lcm(Head(s), LcmSeq(Tail(s)))

(* ---------------- blocks ------------------------------------------------ *)
NObs(b) == Len(b.lab)
Conds(b) == Range(b.lab)
NCond(b) == Cardinality(Conds(b))
GRows(b, g) == {o \in 1..NObs(b) : b.lab[o] = g}
GSize(b, g) == Cardinality(GRows(b, g))
GSum(b, g, c) == Sum([o \in GRows(b, g) |-> b.x[o][c]])
GroupLcm(lab) == LcmSeq(SetToSeq({Cardinality({o \in DOMAIN lab : lab[o] = g}) : g \in Range(lab)}))
MeansIntegral(b, P) == \A g \in Conds(b), c \in 1..P : GSum(b, g, c) % GSize(b, g) = 0
Balanced(b) == \A g, h \in Conds(b) : GSize(b, g) = GSize(b, h)
NatDof(b) == NObs(b) - NCond(b)
WellFormed(b, P) == /\ NObs(b) >= 2 /\ Len(b.x) = NObs(b)
                    /\ \A o \in 1..NObs(b) : Len(b.x[o]) = P
                    /\ MeansIntegral(b, P)
\* the natural dof must be positive when no dof is passed; with a passed dof one repetition per
\* condition (N = C, all residuals zero) is admissible
DofAdmissible(b, opt) == opt = 0 => NatDof(b) >= 1

(* ---------------- the definition, per block ----------------------------- *)
ResidOf(b, P) == [o \in 1..NObs(b) |-> [c \in 1..P |->
                    b.x[o][c] - GSum(b, b.lab[o], c) \div GSize(b, b.lab[o])]]
XProd(r, P) == [i \in 1..P |-> [j \in 1..P |-> Sum([o \in 1..Len(r) |-> r[o][i] * r[o][j]])]]
DofOf(b, opt, given) == IF opt = 0 THEN NatDof(b) ELSE given
FullOf(m, d, P) == [i \in 1..P |-> [j \in 1..P |-> <<m[i][j], d>>]]
DiagOf(f, P) == [i \in 1..P |-> [j \in 1..P |-> IF i = j THEN f[i][j] ELSE <<0, f[i][j][2]>>]]
FullSingle(b, P, opt, given) == FullOf(XProd(ResidOf(b, P), P), DofOf(b, opt, given), P)

(* the route of cov_from_measurements: tensor conditions x repetitions x channels, conditions in
   order of first appearance, repetitions in dataset order; residuals around the mean over the
   repetition axis; dof = C * (R - 1)                                                       *)
FirstPos(lab, g) == CHOOSE o \in DOMAIN lab : lab[o] = g /\ \A o2 \in DOMAIN lab : lab[o2] = g => o <= o2
CondOrder(lab) == SortSeq(SetToSeq(Range(lab)), LAMBDA g, h : FirstPos(lab, g) < FirstPos(lab, h))
RowsOf(lab, g) == SelectSeq([o \in 1..Len(lab) |-> o], LAMBDA o : lab[o] = g)
Tensor(b) == LET ord == CondOrder(b.lab) IN
             [ci \in 1..Len(ord) |-> [r \in 1..GSize(b, ord[ci]) |-> b.x[RowsOf(b.lab, ord[ci])[r]]]]
TensorXProd(b, P) ==
  LET t == Tensor(b)  C == Len(t)  R == Len(t[1])
      m == [ci \in 1..C |-> [c \in 1..P |-> Sum([r \in 1..R |-> t[ci][r][c]]) \div R]]
      rr == [ci \in 1..C |-> [r \in 1..R |-> [c \in 1..P |-> t[ci][r][c] - m[ci][c]]]]
  IN [i \in 1..P |-> [j \in 1..P |->
        Sum([ci \in 1..C |-> Sum([r \in 1..R |-> rr[ci][r][i] * rr[ci][r][j]])])]]
TensorDof(b) == LET t == Tensor(b) IN Len(t) * (Len(t[1]) - 1)

(* computational formula: raw second moments minus the between-condition part *)
MomentXProd(b, P) == [i \in 1..P |-> [j \in 1..P |->
     Sum([o \in 1..NObs(b) |-> b.x[o][i] * b.x[o][j]])
   - Sum([g \in Conds(b) |-> (GSum(b, g, i) * GSum(b, g, j)) \div GSize(b, g)])]]

PermBlock(b, p) == [lab |-> [o \in 1..NObs(b) |-> b.lab[p[o]]], x |-> [o \in 1..NObs(b) |-> b.x[p[o]]]]
RowPerms(n) == IF n <= 4 THEN Permutations(1..n)
               ELSE {[o \in 1..n |-> IF o = k THEN k + 1 ELSE IF o = k + 1 THEN k ELSE o] : k \in 1..(n - 1)}
                    \cup {[o \in 1..n |-> (o % n) + 1], [o \in 1..n |-> n + 1 - o]}

(* ---------------- initial states ---------------------------------------- *)
K(form) == IF IsList(form) THEN KList ELSE 1
CsOf(form) == IF IsData(form) THEN Cs ELSE {1}
LabelsOK(l, C) == /\ \A g \in 1..C : Cardinality({o \in DOMAIN l : l[o] = g}) \in 1..(IF C = 1 THEN MaxN ELSE MaxRep)
Scaled(l, raw, P) == [lab |-> l, x |-> [o \in 1..Len(l) |-> [c \in 1..P |-> GroupLcm(l) * raw[o][c]]]]
\* every label vector onto 1..C = every design (balanced or not) in every row order
LabelSets(form) == UNION {{l \in [1..N -> 1..C] : Range(l) = 1..C /\ LabelsOK(l, C)} :
                          N \in 2..MaxN, C \in CsOf(form)}
BlocksEx(form, P) == UNION {{Scaled(l, raw, P) : raw \in [1..Len(l) -> [1..P -> Vals]]} : l \in LabelSets(form)}
DofVecs(opt, k) == CASE opt = 0 -> {[i \in 1..k |-> 0]}
                     [] opt = 1 -> {[i \in 1..k |-> d] : d \in DofVals}
                     [] opt = 2 -> [1..k -> DofVals]
Blank == /\ res = <<>> /\ xp = <<>> /\ dof = <<>> /\ full = <<>>

\* exhaustive over designs, data and dof options
InitEx ==
  \E form \in Forms, P \in Ps, opt \in DofOpts :
    /\ (opt = 2 => IsList(form))
    /\ \E bs \in [1..K(form) -> BlocksEx(form, P)], dv \in DofVecs(opt, K(form)) :
         /\ (form = 3 => \A i, j \in 1..K(form) : NObs(bs[i]) = NObs(bs[j]))
         /\ \A k \in 1..K(form) : DofAdmissible(bs[k], opt)
         /\ inp = [form |-> form, P |-> P, dofopt |-> opt, dofv |-> dv, blocks |-> bs,
                   bal |-> 0, draw |-> <<>>]
    /\ pc = "init" /\ Blank

\* random designs: every random quantity is drawn into the state (inp.draw) in the initial
\* predicate; the deterministic action Build turns the draws into blocks: group sizes (balanced
\* or not), rows shuffled by sorting on random keys, raw data
MaxTot == 4 * MaxRep
InitRnd ==
  \E s \in 1..NDraw, form \in Forms, P \in Ps, opt \in DofOpts, bal \in {0, 1} :
    /\ (opt = 2 => IsList(form))
    /\ (bal = 1 => IsData(form))
    /\ inp = [form |-> form, P |-> P, dofopt |-> opt, bal |-> bal, blocks |-> <<>>,
              dofv |-> [k \in 1..K(form) |-> IF opt = 0 THEN 0 ELSE RandomElement(DofVals)],
              draw |-> [k \in 1..K(form) |->
                         [C |-> RandomElement(Cs), r |-> RandomElement(2..MaxRep),
                          n |-> RandomElement(2..MaxN),
                          cnts |-> [g \in 1..4 |-> RandomElement(1..MaxRep)],
                          keys |-> [o \in 1..MaxTot |-> RandomElement(1..10000)],
                          raw |-> [o \in 1..MaxTot |-> [c \in 1..P |-> RandomElement(Vals)]]]]]
    /\ pc = "draw" /\ Blank

DrawCounts(d, form, bal, n3) ==
  IF IsData(form) THEN (IF d.C = 1 THEN <<d.n>>    \* single-condition Dataset: any number of rows
                        ELSE [g \in 1..d.C |-> IF bal = 1 THEN d.r ELSE d.cnts[g]])
  ELSE <<IF form = 3 THEN n3 ELSE d.n>>
LabFromCounts(cnt, keys) ==
  LET C == Len(cnt)
      N == Sum(cnt)
      sorted == [o \in 1..N |-> CHOOSE g \in 1..C : Sum([h \in 1..(g - 1) |-> cnt[h]]) < o
                                                       /\ o <= Sum([h \in 1..g |-> cnt[h]])]
      perm == SortSeq([o \in 1..N |-> o], LAMBDA a, b : keys[a] < keys[b] \/ (keys[a] = keys[b] /\ a < b))
  IN [o \in 1..N |-> sorted[perm[o]]]
Build ==
  /\ pc = "draw"
  /\ LET KK == Len(inp.draw)
         cnt == [k \in 1..KK |-> DrawCounts(inp.draw[k], inp.form, inp.bal, inp.draw[1].n)]
     IN /\ \A k \in 1..KK : /\ Sum(cnt[k]) <= MaxN /\ Sum(cnt[k]) >= 2
                              /\ (inp.dofopt = 0 => Sum(cnt[k]) - Len(cnt[k]) >= 1)
        /\ inp' = [inp EXCEPT !.draw = <<>>,
                     !.dofv = IF inp.dofopt = 1 THEN [k \in 1..KK |-> inp.dofv[1]] ELSE inp.dofv,
                     !.blocks = [k \in 1..KK |->
                        Scaled(LabFromCounts(cnt[k], inp.draw[k].keys), inp.draw[k].raw, inp.P)]]
  /\ pc' = "init" /\ UNCHANGED <<res, xp, dof, full>>

(* ---------------- staged actions (the stages of the code path) ---------- *)
NB == Len(inp.blocks)
Resid == /\ pc = "init"
         /\ \A k \in 1..NB : WellFormed(inp.blocks[k], inp.P) /\ DofAdmissible(inp.blocks[k], inp.dofopt)
         /\ res' = [k \in 1..NB |-> ResidOf(inp.blocks[k], inp.P)]
         /\ pc' = "resid" /\ UNCHANGED <<inp, xp, dof, full>>
CrossProd == /\ pc = "resid"
             /\ xp' = [k \in 1..NB |-> XProd(res[k], inp.P)]
             /\ pc' = "xprod" /\ UNCHANGED <<inp, res, dof, full>>
Dof == /\ pc = "xprod"
       /\ dof' = [k \in 1..NB |-> DofOf(inp.blocks[k], inp.dofopt, inp.dofv[k])]
       /\ pc' = "dof" /\ UNCHANGED <<inp, res, xp, full>>
Full == /\ pc = "dof"
        /\ \A k \in 1..NB : dof[k] >= 1
        /\ full' = [k \in 1..NB |-> FullOf(xp[k], dof[k], inp.P)]
        /\ pc' = "done" /\ UNCHANGED <<inp, res, xp, dof>>
Next == Build \/ Resid \/ CrossProd \/ Dof \/ Full

(* ---------------- theorems of the definition ---------------------------- *)
Done == pc = "done"
TypeOK == pc \in {"draw", "init", "resid", "xprod", "dof", "full", "done"}
ResidSumZero == pc = "resid" =>
  \A k \in 1..NB : \A g \in Conds(inp.blocks[k]), c \in 1..inp.P :
     Sum([o \in GRows(inp.blocks[k], g) |-> res[k][o][c]]) = 0
SymFull == Done => \A k \in 1..NB : \A i, j \in 1..inp.P : full[k][i][j] = full[k][j][i]
DiagNonNeg == Done => \A k \in 1..NB : \A i \in 1..inp.P : full[k][i][i][1] >= 0 /\ full[k][i][i][2] >= 1
RowOrderInv == Done => \A k \in 1..NB : \A p \in RowPerms(NObs(inp.blocks[k])) :
  FullSingle(PermBlock(inp.blocks[k], p), inp.P, inp.dofopt, inp.dofv[k]) = full[k]
MeasEqUnb == Done => \A k \in 1..NB :
  (IsData(inp.form) /\ Balanced(inp.blocks[k])) =>
     /\ TensorXProd(inp.blocks[k], inp.P) = xp[k]
     /\ TensorDof(inp.blocks[k]) = NatDof(inp.blocks[k])
     /\ (inp.dofopt = 0 => FullOf(TensorXProd(inp.blocks[k], inp.P), TensorDof(inp.blocks[k]), inp.P) = full[k])
ListElementwise == Done => \A k \in 1..NB :
  full[k] = FullSingle(inp.blocks[k], inp.P, IF inp.dofopt = 2 THEN 1 ELSE inp.dofopt, inp.dofv[k])
MomentForm == Done => \A k \in 1..NB : MomentXProd(inp.blocks[k], inp.P) = xp[k]
DofRule == Done => \A k \in 1..NB :
  dof[k] = IF inp.dofopt = 0 THEN NObs(inp.blocks[k]) - NCond(inp.blocks[k]) ELSE inp.dofv[k]

Quad(m, v, P) == Sum([i \in 1..P |-> Sum([j \in 1..P |-> v[i] * m[i][j] * v[j]])])
Trace(m, P) == Sum([i \in 1..P |-> m[i][i]])
GridVecs(P) == [1..P -> {-1, 0, 1}]
GramPSD == Done => \A k \in 1..NB : \A v \in GridVecs(inp.P) : Quad(xp[k], v, inp.P) >= 0
\* shrinkage relation with l = a/4, matrices scaled by 4*P*dof (eye) and 4*dof (diag)
ShrEye(m, a, P) == [i \in 1..P |-> [j \in 1..P |->
                      (IF i = j THEN a * Trace(m, P) ELSE 0) + (4 - a) * P * m[i][j]]]
ShrDiag(m, a, P) == [i \in 1..P |-> [j \in 1..P |-> IF i = j THEN 4 * m[i][j] ELSE (4 - a) * m[i][j]]]
ShrinkGrid == Done => \A k \in 1..NB : \A a \in 0..4 :
  LET P == inp.P  e == ShrEye(xp[k], a, P)  d == ShrDiag(xp[k], a, P) IN
  /\ \A i, j \in 1..P : e[i][j] = e[j][i] /\ d[i][j] = d[j][i]
  /\ Trace(e, P) = 4 * P * Trace(xp[k], P)                       \* target of equal trace
  /\ \A i \in 1..P : d[i][i] = 4 * xp[k][i][i]                   \* own diagonal kept
  /\ \A v \in GridVecs(P) : Quad(e, v, P) >= 0 /\ Quad(d, v, P) >= 0
  /\ (a > 0 /\ Trace(xp[k], P) > 0) => \A v \in GridVecs(P) : (\E i \in 1..P : v[i] # 0) => Quad(e, v, P) > 0
  /\ (a > 0 /\ \A i \in 1..P : xp[k][i][i] > 0) =>
        \A v \in GridVecs(P) : (\E i \in 1..P : v[i] # 0) => Quad(d, v, P) > 0

(* ---------------- emission of test vectors (S -> I) --------------------- *)
Emit == (Done /\ (EmitMod = 1 \/ RandomElement(1..EmitMod) = 1)) =>
        PrintT(ToJson([form |-> inp.form, P |-> inp.P, dofopt |-> inp.dofopt, dofv |-> inp.dofv,
                       blocks |-> inp.blocks, dof |-> dof, full |-> full]))
=============================================================================
