--------------------------- MODULE Trace_Importers ---------------------------
(***************************************************************************)
(* Implementation -> specification for C20.  The harness drives the real   *)
(* importers with random inputs well beyond the model's bounds (long       *)
(* random entity values incl. values that spell key words, up to 8         *)
(* stimuli, bigger integer matrices) and records for every call the input  *)
(* and the projected result; text is lexed into atoms.  Every event must   *)
(* be explained by the operators of Importers: TLC recomputes Format /     *)
(* Parse / LookupEnt, ParseName and the sorting permutation, DmExpect,     *)
(* MneExpect and the exact projection on the logged input and compares.    *)
(* One behaviour per trace id; a trace is accepted when all its events are *)
(* explained, otherwise the first failing clause is printed.               *)
(***************************************************************************)
EXTENDS Importers, IOUtils, TLCExt
VARIABLES tid, l
Traces == JsonDeserialize(IOEnv.TRACE_FILE)

Cl(name, ok) == [name |-> name, ok |-> ok]

BidsClauses(ev) ==
  << Cl("enabled", Valid(ev.e)),
     Cl("format", ev.path = Format(ev.e)),
     Cl("parse", ev.attrs = Parse(ev.path)),
     Cl("roundtrip", ev.attrs = ev.e),
     Cl("reformat", ev.same = Format(Parse(ev.path))),
     Cl("namedescs", ev.nd = NameDescs(ev.e)),
     Cl("lookup", \A i \in 1..Len(ev.looks) :
            LET k == ev.looks[i] IN
            /\ LookEnabled(k.kind, ev.e)
            /\ k.path = Format(LookupEnt(k.kind, ev.e, k.d, k.s))
            /\ k.path = LookupPath(k.kind, ev.path, k.d, k.s)) >>

MeadowsClauses(ev) ==
  LET d == ParseName(ev.fname)
      x == MeadowsExpectN(d, ev.i)  g == ev.got IN
  << Cl("enabled", Loadable(d) /\ Len(ev.i.order) >= 3 /\ Range(ev.i.order) = 1..Len(ev.i.order)),
     Cl("name", g.shape = x.shape /\ g.exp = x.exp /\ g.ver = x.ver /\ g.struct = x.struct /\ g.ft = x.ft),
     Cl("conds", g.conds = x.conds),
     Cl("values", g.vec = x.vec),
     Cl("assoc", AssocOk([conds |-> g.conds, vec |-> g.vec])),
     Cl("participant", IF x.shape = "mp1t" THEN g.plist = x.plist ELSE g.participant = x.participant),
     Cl("task", IF x.shape = "mp1t" THEN g.task = x.task
                ELSE IF x.shape = "1pmt" THEN g.tpos = x.tpos ELSE TRUE),
     Cl("task_index", x.shape # "mp1t" => g.task_index = x.task_index) >>

SpmClauses(ev) ==
  LET x == Filter(ev.Y, ev.runs) IN
  << Cl("enabled", /\ \A r \in 1..Len(ev.runs) : Orthonormal(ev.runs[r]) /\ Len(ev.runs[r].B) = ev.runs[r].n
                   /\ SumN(ev.runs) = Len(ev.Y)),
     Cl("exact", ev.exact = 1),
     Cl("projection", ev.got = [t \in 1..Len(ev.Y) |-> x[t].num]) >>

DmClauses(ev) ==
  LET x == DmExpect(ev.i)  g == ev.got IN
  << Cl("ncols", g.ncols = x.ncols), Cl("mask", g.mask = x.mask), Cl("dof", g.dof = x.dof),
     Cl("colcond", Len(g.colcond) = Len(x.colcond) /\ Range(g.colcond) = Range(x.colcond)), Cl("normalised", g.norm = 1), Cl("confounds", g.conf = 1) >>

MneClauses(ev) ==
  LET x == MneExpect(ev.i)  g == ev.got IN
  << Cl("data", g.meas = x.meas), Cl("event", g.event = x.event), Cl("name", g.name = x.name),
     Cl("time", g.time = x.time) >>

Clauses(ev) == CASE ev.k = "bids" -> BidsClauses(ev)
                 [] ev.k = "meadows" -> MeadowsClauses(ev)
                 [] ev.k = "spm" -> SpmClauses(ev)
                 [] ev.k = "dm" -> DmClauses(ev)
                 [] ev.k = "mne" -> MneClauses(ev)
FirstFail(cs) == IF \A i \in 1..Len(cs) : cs[i].ok THEN 0
                 ELSE CHOOSE i \in 1..Len(cs) : ~cs[i].ok /\ \A j \in 1..(i - 1) : cs[j].ok

TInit == /\ tid \in 1..Len(Traces) /\ l = 1
         /\ sec = "trace" /\ stage = "" /\ inp = <<>> /\ out = <<>>
TStep == /\ l >= 1 /\ l <= Len(Traces[tid])
         /\ LET ev == Traces[tid][l]  cs == Clauses(ev)  f == FirstFail(cs) IN
            IF f = 0
            THEN /\ l' = l + 1
                 /\ (l = Len(Traces[tid]) => PrintT(ToJson([accept |-> tid])))
            ELSE /\ PrintT(ToJson([reject |-> tid, l |-> l, k |-> ev.k, clause |-> cs[f].name,
                                   enabled |-> cs[1].ok]))
                 /\ l' = 0
         /\ UNCHANGED <<tid, sec, stage, inp, out>>
TSpec == TInit /\ [][TStep]_<<vars, tid, l>>
=============================================================================
