--------------------------- MODULE Trace_Importers ---------------------------
(***************************************************************************)
(* Implementation -> specification for C20.  The harness drives the real   *)
(* importers with random inputs well beyond the model's bounds (long       *)
(* random entity values incl. values that spell key words, up to 8         *)
(* stimuli, bigger integer matrices) and records for every call the input  *)
(* and the projected result; text is lexed into atoms.  Every event must   *)
(* be explained by the operators of Importers: TLC recomputes Format /     *)
(* Parse / LookupEnt, ParseName and the sorting permutation, DmExpect,     *)
(* MneExpect and the exact projection on the logged input and compares.    *)
(* One behaviour per trace id; a trace is accepted when all its events are *)
(* explained, otherwise the first failing clause is printed.               *)
(***************************************************************************)
EXTENDS Importers, IOUtils, TLCExt
VARIABLES tid, l
Traces == JsonDeserialize(IOEnv.TRACE_FILE)

Cl(name, ok) == [name |-> name, ok |-> ok]

BidsClauses(ev) ==
  << Cl("enabled", Valid(ev.e)),
     Cl("format", ev.path = Format(ev.e)),
     Cl("parse", ev.attrs = Parse(ev.path)),
     Cl("roundtrip", ev.attrs = ev.e),
     Cl("reformat", ev.same = Format(Parse(ev.path))),
     Cl("namedescs", ev.nd = NameDescs(ev.e)),
     Cl("lookup", \A i \in 1..Len(ev.looks) :
            LET k == ev.looks[i] IN
            /\ LookEnabled(k.kind, ev.e)
            /\ k.path = Format(LookupEnt(k.kind, ev.e, k.d, k.s))
            /\ k.path = LookupPath(k.kind, ev.path, k.d, k.s)) >>

MeadowsClauses(ev) ==
  LET d == ParseName(ev.fname)
      xs == MeadowsExpectN(d, ev.i)  g == ev.got
      \* a task listing the same stimuli in another order may be left out (documented) or aligned
      x == xs IN
  << Cl("enabled", Loadable(d) /\ Len(ev.i.order) >= 3 /\ Range(ev.i.order) = 1..Len(ev.i.order)),
     Cl("name", g.shape = x.shape /\ g.exp = x.exp /\ g.ver = x.ver /\ g.struct = x.struct /\ g.ft = x.ft),
     Cl("conds", g.conds = x.labels),
     Cl("values", LET y == IF g.tpos = xs.alt.tpos THEN xs.alt ELSE xs IN g.vec = y.vec \/ g.vec = y.vecswap),
     Cl("assoc", Len(g.vec) = Len(IF g.tpos = xs.alt.tpos THEN xs.alt.rows ELSE xs.rows)
                 /\ AssocOk([conds |-> IF g.vec = xs.vec \/ g.vec = xs.alt.vec THEN xs.conds ELSE xs.condswap, vec |-> g.vec,
                             rows |-> IF g.tpos = xs.alt.tpos THEN xs.alt.rows ELSE xs.rows])),
     Cl("participant", IF xs.shape = "mp1t" THEN g.plist = xs.plist
                       ELSE g.participant = (IF g.tpos = xs.alt.tpos THEN xs.alt.participant ELSE xs.participant)),
     Cl("task", IF xs.shape = "mp1t" THEN g.task = xs.task
                ELSE IF xs.shape = "1pmt" THEN (g.tpos = xs.tpos \/ g.tpos = xs.alt.tpos) ELSE TRUE),
     Cl("task_index", xs.shape # "mp1t" =>
            g.task_index = (IF g.tpos = xs.alt.tpos THEN xs.alt.task_index ELSE xs.task_index)) >>

\* a sequence of look-ups issued on ONE layout object over a family of files
LayoutClauses(ev) ==
  << Cl("enabled", \A k \in 1..Len(ev.steps) : ev.steps[k].f \in 1..Len(ev.files)
                       /\ LookEnabled(ev.steps[k].kind, ev.files[ev.steps[k].f])),
     Cl("files", \A f \in 1..Len(ev.files) : ev.paths[f] = Format(ev.files[f])),
     Cl("lookup", \A k \in 1..Len(ev.steps) : LET st == ev.steps[k] IN
            st.path = Format(Answer(ev.files, st.f, st.kind, st.d, st.s))) >>

SpmClauses(ev) ==
  LET x == Filter(ev.Y, ev.runs) IN
  << Cl("enabled", /\ \A r \in 1..Len(ev.runs) : Orthonormal(ev.runs[r]) /\ Len(ev.runs[r].B) = ev.runs[r].n
                   /\ SumN(ev.runs) = Len(ev.Y)),
     Cl("exact", ev.exact = 1),
     Cl("projection", ev.got = [t \in 1..Len(ev.Y) |-> x[t].num]) >>

DmClauses(ev) ==
  LET x == DmExpect([ev.i EXCEPT !.nan = Range(ev.i.nan)])  g == ev.got IN
  << Cl("ncols", g.ncols = x.ncols), Cl("mask", g.mask = x.mask), Cl("dof", g.dof = x.dof), Cl("masklen", g.masklen = x.ncols),
     Cl("colcond", Len(g.colcond) = Len(x.colcond) /\ Range(g.colcond) = Range(x.colcond)), Cl("normalised", g.norm = 1), Cl("confounds", g.conf = 1) >>

MneClauses(ev) ==
  LET x == MneExpect(ev.i)  g == ev.got IN
  << Cl("data", g.meas = x.meas), Cl("event", g.event = x.event), Cl("name", g.name = x.name),
     Cl("time", g.time = x.time), Cl("descriptors", g.descs = x.descs) >>

\* design matrix on the volume grid: TLC recomputes the exact columns; the logged values are the library's
\* floats rounded to 4 decimals, compared after scaling numerator and denominator into 32-bit range
AbsI(x) == IF x < 0 THEN 0 - x ELSE x
HrfClauses(ev) ==
  LET x == HrfExpect(ev.i)  g == ev.got IN
  << Cl("enabled", \A c \in 1..Len(x.den) : x.den[c] > 0),
     Cl("ncols", Len(g.cols) = Len(x.num) /\ g.dof = x.dof /\ g.masklen = Len(x.num)),
     Cl("values", \A c \in 1..Len(x.num) :
            LET q == x.den[c] \div 20000 + 1  d == x.den[c] \div q IN
            \A j \in 1..ev.i.nvols :
               AbsI((x.num[c][j] \div q) * 10000 - g.cols[c][j] * d) <= 5 * d + 10000) >>
DfClauses(ev) == << Cl("enabled", ev.i.nr >= 1 /\ Range(ev.i.order) = 1..Len(ev.i.order)),
                    Cl("rows", ev.got = DfExpect(ev.i)) >>

Clauses(ev) == CASE ev.k = "bids" -> BidsClauses(ev)
                 [] ev.k = "meadows" -> MeadowsClauses(ev)
                 [] ev.k = "layout" -> LayoutClauses(ev)
                 [] ev.k = "hrf" -> HrfClauses(ev)
                 [] ev.k = "df" -> DfClauses(ev)
                 [] ev.k = "spm" -> SpmClauses(ev)
                 [] ev.k = "dm" -> DmClauses(ev)
                 [] ev.k = "mne" -> MneClauses(ev)
FirstFail(cs) == IF \A i \in 1..Len(cs) : cs[i].ok THEN 0
                 ELSE CHOOSE i \in 1..Len(cs) : ~cs[i].ok /\ \A j \in 1..(i - 1) : cs[j].ok

TInit == /\ tid \in 1..Len(Traces) /\ l = 1
         /\ sec = "trace" /\ stage = "" /\ inp = <<>> /\ out = <<>>
TStep == /\ l >= 1 /\ l <= Len(Traces[tid])
         /\ LET ev == Traces[tid][l]  cs == Clauses(ev)  f == FirstFail(cs) IN
            IF f = 0
            THEN /\ l' = l + 1
                 /\ (l = Len(Traces[tid]) => PrintT(ToJson([accept |-> tid])))
            ELSE /\ PrintT(ToJson([reject |-> tid, l |-> l, k |-> ev.k, clause |-> cs[f].name,
                                   enabled |-> cs[1].ok]))
                 /\ l' = 0
         /\ UNCHANGED <<tid, sec, stage, inp, out>>
TSpec == TInit /\ [][TStep]_<<vars, tid, l>>
=============================================================================
