------------------------- MODULE Trace_ResultSummary -------------------------
(***************************************************************************)
(* Implementation -> specification for X02.  harness/props/x02.py calls    *)
(* Result.summary(test_type) / str(result) on Result objects produced by   *)
(* the real evaluation routines, parses the printed table and logs, per    *)
(* call: cv_method, test type, name lengths, the numbers the public        *)
(* accessors return (get_means, get_sem, test_zero, test_noise; micro-     *)
(* units, NaN marker) and what the table showed (per row: padding, cell    *)
(* classes and permille values, line lengths; the rule length; which       *)
(* footer).  Every clause is re-derived from the logged INPUT with the     *)
(* operators of ResultSummary.tla.  A cell whose value sits exactly on a   *)
(* rounding tie is logged with tie = TRUE and only its class is compared.  *)
(***************************************************************************)
EXTENDS ResultSummary, IOUtils, Json
VARIABLES tid, l
Traces == JsonDeserialize(IOEnv.TRACE_FILE)

V(x) == x    \* the recorder logs NaN as the marker itself
Vals(seq) == [i \in DOMAIN seq |-> V(seq[i])]

CellOk(shown, exp) == /\ shown.cls = exp.cls
                      /\ (exp.cls = "num" /\ ~shown.tie => shown.txt = exp.txt)
RowOk(rec, i) ==
  LET e == Row(i, rec.lens, Vals(rec.means), Vals(rec.sems), Vals(rec.pz), Vals(rec.pn))
      r == rec.rows[i] IN
  /\ r.pad = e.pad
  /\ CellOk(r.mean, e.mean) /\ CellOk(r.sem, e.sem) /\ CellOk(r.pz, e.pz) /\ CellOk(r.pn, e.pn)
  /\ r.len = e.len
Failing(rec) ==
  (IF rec.n = Len(rec.rows) THEN {} ELSE {"RowCount"})
  \cup (IF rec.rule = RuleLen(NameCol(rec.lens)) THEN {} ELSE {"Rule"})
  \cup (IF rec.footer = Footer(rec.cv, rec.tt) THEN {} ELSE {"Footer"})
  \cup (IF rec.headn = rec.n /\ rec.headcv = rec.cv THEN {} ELSE {"Header"})
  \cup (IF rec.n = Len(rec.rows) /\ \A i \in 1..rec.n : RowOk(rec, i) THEN {} ELSE {"Row"})
EnabledEv(rec) == rec.cv \in CvMethods /\ rec.tt \in TestTypes /\ rec.n >= 1

TInit == /\ tid \in 1..Len(Traces) /\ l = 1
         /\ inp = [cv |-> "none"] /\ stage = "trace" /\ doc = <<>>
TStep == /\ l >= 1 /\ l <= Len(Traces[tid])
         /\ LET rec == Traces[tid][l] IN
            IF EnabledEv(rec) /\ Failing(rec) = {}
            THEN /\ l' = l + 1
                 /\ (l = Len(Traces[tid]) => PrintT(ToJson([accept |-> tid])))
            ELSE /\ PrintT(ToJson([reject |-> tid, l |-> l, enabled |-> EnabledEv(rec),
                                   clauses |-> IF EnabledEv(rec) THEN Failing(rec) ELSE {"Domain"}]))
                 /\ l' = 0
         /\ UNCHANGED <<tid, inp, stage, doc>>
TSpec == TInit /\ [][TStep]_<<inp, stage, doc, tid, l>>
=============================================================================
