--------------------------- MODULE Trace_Unbalanced ---------------------------
(***************************************************************************)
(* Implementation -> specification for Unbalanced (property C15).           *)
(* harness/unbalanced.py:record_design calls calc_rdm_unbalanced on random  *)
(* integer designs LARGER than the exhaustive grid (5-8 observations, 2-4   *)
(* channels, values 0..5, unbalanced repetitions, fold values, missing      *)
(* channels, random symmetric precisions) and logs the input, the returned  *)
(* condition labels, which entries are NaN and - for the kernels with an    *)
(* exact rational value - every entry as the fraction it has to be          *)
(* (limit_denominator; the recorder checks that the float is that fraction  *)
(* to 1e-9).  Here the definition Result is re-evaluated on the logged      *)
(* input: labels and NaN pattern must be equal for every method, entries    *)
(* must be EQUAL as rationals for the dot / quadratic kernels; for          *)
(* correlation / Poisson the pairs, factors, weights and statistics are     *)
(* printed and the kernel of the harness applies sqrt / log.  The theorems  *)
(* of Unbalanced are evaluated on every state reached this way.             *)
(***************************************************************************)
EXTENDS Unbalanced, IOUtils
VARIABLES tid, l
Traces == JsonDeserialize(IOEnv.TRACE_FILE)

EvInp(ev) == [dlab |-> ev.lab, nodesc |-> FALSE, idx |-> "none", ival |-> <<>>, prior |-> FALSE, lab |-> ev.lab, fold |-> ev.fold, usefold |-> ev.usefold, x |-> ev.x,
              valid |-> [o \in DOMAIN ev.valid |-> Range(ev.valid[o])], m |-> ev.m, w |-> ev.w, prec |-> ev.prec]
InDomain(ev) == /\ ev.m \in AllMethods /\ ev.w \in {"number", "equal"}
                /\ Len(ev.x) = Len(ev.lab) /\ Len(ev.valid) = Len(ev.lab)
                /\ (ev.usefold => Len(ev.fold) = Len(ev.lab))
                /\ Adm(EvInp(ev))
LabelsOk(ev, R) == ev.conds = R.conds
NanOk(ev, R) == ev.nan = R.nan
ValuesOk(ev, R) == ev.exact => (Exact(EvInp(ev)) /\ ev.rdm = R.rdm)

TInit == /\ tid \in 1..Len(Traces) /\ l = 1 /\ pc = "in" /\ out = <<>>
         /\ inp = [dlab |-> <<1, 2>>, nodesc |-> FALSE, idx |-> "none", ival |-> <<>>, prior |-> FALSE, lab |-> <<1, 2>>, fold |-> <<>>, usefold |-> FALSE, x |-> <<<<0>>, <<1>>>>, valid |-> <<{1}, {1}>>,
                   m |-> "euclidean", w |-> "number", prec |-> <<>>]
TStep == /\ l >= 1 /\ l <= Len(Traces[tid])
         /\ LET ev == Traces[tid][l]  R == Result(EvInp(ev)) IN
            IF InDomain(ev) /\ LabelsOk(ev, R) /\ NanOk(ev, R) /\ ValuesOk(ev, R)
            THEN /\ inp' = EvInp(ev) /\ out' = R /\ pc' = "done" /\ l' = l + 1
                 /\ (~ev.exact => PrintT(ToJson([fin |-> tid, l |-> l, out |-> R])))
                 /\ (l = Len(Traces[tid]) => PrintT(ToJson([accept |-> tid])))
            ELSE /\ PrintT(ToJson([reject |-> tid, l |-> l, enabled |-> InDomain(ev),
                                   labels |-> InDomain(ev) /\ LabelsOk(ev, R),
                                   nan |-> InDomain(ev) /\ LabelsOk(ev, R) /\ NanOk(ev, R),
                                   expected |-> IF InDomain(ev) THEN [conds |-> R.conds, nan |-> R.nan, rdm |-> R.rdm]
                                                ELSE <<>>]))
                 /\ l' = 0 /\ UNCHANGED <<inp, pc, out>>
         /\ UNCHANGED tid
TSpec == TInit /\ [][TStep]_<<vars, tid, l>>
=============================================================================
