------------------------------ MODULE Unbalanced ------------------------------
(***************************************************************************)
(* rsatoolbox.rdm.calc_rdm_unbalanced / calc_one_similarity (property C15) *)
(* as an exact definition over integers and rationals <<num, den>>.        *)
(*                                                                         *)
(* Input: observations o = 1..n with a condition label lab[o], an optional *)
(* fold value fold[o], small integer data x[o][c] and the set valid[o] of  *)
(* channels that are not missing (NaN) for o; a method, a weighting        *)
(* ("number" | "equal") and an optional integer precision matrix.          *)
(*                                                                         *)
(* Stages (cengine/similarity.pyx:calc, rdm/calc_unbalanced.py):           *)
(*   Pairs      which observation pairs are admissible for which slot:     *)
(*              slot self(k) gets the pairs inside condition k (a pair of  *)
(*              an observation with itself counts half and only without    *)
(*              cross-validation), slot cross(k,l) the pairs between k and *)
(*              l; with cross-validation (fold descriptor given, or method *)
(*              crossnobis / poisson_cv: then every observation is its own *)
(*              fold) pairs sharing a fold value are excluded; a pair needs*)
(*              at least one channel valid for both observations.          *)
(*   Kernel     Sim(a,b), Weight(a,b) over valid[a] \cap valid[b]:         *)
(*              dot product, quadratic form with the sub-block of the      *)
(*              precision, sufficient statistics of the Pearson r,         *)
(*              the channel-wise rate pairs of the Poisson KL.             *)
(*   Accumulate number: sum f*Sim / sum f*Weight ; equal: mean of          *)
(*              Sim/Weight with factors f; an empty slot is NaN.           *)
(*   Combine    rdm(k,l) = self(k) + self(l) - 2 cross(k,l); conditions in *)
(*              order of first appearance.                                 *)
(* descriptor=None: every observation is its own condition (inp.lab is the *)
(* EFFECTIVE labelling 1..n then; inp.dlab is what the dataset carries),   *)
(* whatever other observation descriptors - in particular one NAMED        *)
(* 'index' - the dataset has, and whatever calls were made on the dataset  *)
(* before (action Prior; no call changes its dataset: DatasetFrame).       *)
(* The dot / quadratic kernels give exact rationals; for correlation and   *)
(* Poisson the module fixes pairs, factors, weights and statistics, the    *)
(* sqrt / log step is the trusted kernel in harness/unbalanced.py.         *)
(*                                                                         *)
(* Theorems checked by TLC on the definitions (clause b is a fact about    *)
(* the DEFINITIONS): BalancedAnyReps, SingleObsStructure, CrossFoldBalanced*)
(* PoissonCoefficients, NaNChannelIsDeleted, NaNIffNoPair,                 *)
(* WeightingIrrelevantWhenComplete, CondOrder, PermInvariant-free checks.  *)
(* Every operator takes its sizes from the input record, so that           *)
(* Trace_Unbalanced re-evaluates the same definitions on recorded designs. *)
(***************************************************************************)
EXTENDS Integers, Sequences, FiniteSets, TLC, Functions, FiniteSetsExt, SequencesExt, Json

CONSTANTS
  NObs, NCh, NLab, NFold,
  Vals,        \* data grid (DataSrc = "grid")
  DataSrc,     \* "grid" | "cat"
  DataCat,     \* catalogue of data matrices (>= NObs rows, >= NCh columns)
  DataIds,
  Methods,     \* subset of the six methods
  Weightings,  \* subset of {"number", "equal"}
  PrecCat,     \* catalogue of symmetric integer precision matrices (>= NCh x NCh)
  PrecIds,     \* subset of 0..Len(PrecCat); 0 = none
  FoldModes,   \* subset of {"none", "given"}
  NanMode,     \* "none" | "chan" (whole channels missing) | "obs" (any valid sets)
  Design,      \* "any" | "single" (one observation per condition) | "foldbal" (equal cell counts)
  NoDescs,     \* subset of BOOLEAN: TRUE = the call is made with descriptor=None
  IdxKinds,    \* subset of {"none", "perm", "rep"}: the dataset already carries an obs descriptor NAMED 'index'
               \* (unique but permuted values / repeated values, e.g. a trial counter or merged sessions)
  Priors,      \* subset of BOOLEAN: TRUE = an earlier cross-validated call without fold descriptor was made
               \* on the SAME dataset object before this one (a two-step session)
  EmitMod

VARIABLES inp, pc, out
vars == <<inp, pc, out>>

AllMethods == {"euclidean", "correlation", "mahalanobis", "crossnobis", "poisson", "poisson_cv"}

(* ---------------- arithmetic ---------------------------------------------- *)
Abs(x) == IF x < 0 THEN -x ELSE x
RECURSIVE GCD(_, _)
GCD(x, y) == IF y = 0 THEN x ELSE GCD(y, x % y)
Undef == <<0, 0>>                                              \* NaN
RNorm(n, d) == IF d = 0 THEN Undef
               ELSE LET g == GCD(Abs(n), Abs(d))  s == IF d < 0 THEN -1 ELSE 1 IN
                    <<(s * n) \div g, (s * d) \div g>>
RAdd(p, q) == IF p = Undef \/ q = Undef THEN Undef ELSE RNorm(p[1] * q[2] + q[1] * p[2], p[2] * q[2])
RScale(p, k) == IF p = Undef THEN Undef ELSE RNorm(p[1] * k, p[2])
RDiv(p, q) == IF p = Undef \/ q = Undef THEN Undef ELSE RNorm(p[1] * q[2], p[2] * q[1])
Sum(f) == SumFunction(f)
SumOver(S, Op(_)) == Sum([e \in S |-> Op(e)])
RECURSIVE RSumSeq(_)
RSumSeq(s) == IF s = <<>> THEN <<0, 1>> ELSE RAdd(Head(s), RSumSeq(Tail(s)))
Sorted(S) == SetToSortSeq(S, <)
CLen(n) == (n * (n - 1)) \div 2

(* ---------------- structure of the input ---------------------------------- *)
ObsOf(i) == 1..Len(i.lab)
ChOf(i) == 1..Len(i.x[1])
\* labels in order of first appearance (get_unique_inverse)
FirstApp(lab) == LET pos == SelectSeq([o \in 1..Len(lab) |-> o], LAMBDA o : \A j \in 1..(o - 1) : lab[j] # lab[o])
                 IN [k \in 1..Len(pos) |-> lab[pos[k]]]
CondPairs(n) == LET S == {pq \in (1..n) \X (1..n) : pq[1] < pq[2]} IN
                SetToSortSeq(S, LAMBDA p, q : p[1] < q[1] \/ (p[1] = q[1] /\ p[2] < q[2]))
Members(i, k) == {o \in ObsOf(i) : i.lab[o] = k}
CV(i) == i.usefold \/ i.m \in {"crossnobis", "poisson_cv"}
\* folds: the fold descriptor if given; else (documented fallback "cv_descriptor not set, using index") an obs
\* descriptor NAMED 'index' the dataset already carries (with descriptor=None it is renumbered 0..n-1 first);
\* else every observation is its own fold
FoldOf(i, o) == IF i.usefold THEN i.fold[o]
                ELSE IF ~i.nodesc /\ i.ival # <<>> THEN i.ival[o] ELSE o
Kind(i) == CASE i.m = "euclidean" -> "dot"
             [] i.m = "correlation" -> "corr"
             [] i.m \in {"mahalanobis", "crossnobis"} -> (IF i.prec = <<>> THEN "dot" ELSE "quad")
             [] i.m \in {"poisson", "poisson_cv"} -> "pois"
Exact(i) == Kind(i) \in {"dot", "quad"}
Complete(i) == \A o \in ObsOf(i) : i.valid[o] = ChOf(i)

(* ---------------- per-pair kernels over the shared valid channels ---------- *)
VV(i, a, b) == i.valid[a] \cap i.valid[b]
W(i, a, b) == Cardinality(VV(i, a, b))
DotSim(i, a, b) == SumOver(VV(i, a, b), LAMBDA c : i.x[a][c] * i.x[b][c])
QuadSim(i, a, b) == LET V == VV(i, a, b) IN
                    SumOver(V \X V, LAMBDA cd : i.x[a][cd[1]] * i.prec[cd[1]][cd[2]] * i.x[b][cd[2]])
Sim(i, a, b) == IF Kind(i) = "quad" THEN QuadSim(i, a, b) ELSE DotSim(i, a, b)
\* Pearson r over the shared channels: r = ab / sqrt(aa * bb), kernel value r * n / 2, weight n
CorrStat(i, a, b) ==
  LET V == VV(i, a, b)  n == Cardinality(V)
      sx == SumOver(V, LAMBDA c : i.x[a][c])  sy == SumOver(V, LAMBDA c : i.x[b][c]) IN
  [ab |-> n * SumOver(V, LAMBDA c : i.x[a][c] * i.x[b][c]) - sx * sy,
   aa |-> n * SumOver(V, LAMBDA c : i.x[a][c] * i.x[a][c]) - sx * sx,
   bb |-> n * SumOver(V, LAMBDA c : i.x[b][c] * i.x[b][c]) - sy * sy, n |-> n]
\* Poisson: the raw count pairs on the shared channels (regularisation and log: kernel)
PoisStat(i, a, b) == LET vs == Sorted(VV(i, a, b)) IN [c \in 1..Len(vs) |-> <<i.x[a][vs[c]], i.x[b][vs[c]]>>]

(* ---------------- admissible pairs per slot -------------------------------- *)
Admissible(i, a, b) == /\ a <= b /\ W(i, a, b) > 0
                       /\ CV(i) => (a # b /\ FoldOf(i, a) # FoldOf(i, b))
SelfPairs(i, k) == {ab \in Members(i, k) \X Members(i, k) : Admissible(i, ab[1], ab[2])}
CrossPairs(i, k, l) == {ab \in ObsOf(i) \X ObsOf(i) :
                          /\ ab[1] < ab[2] /\ {i.lab[ab[1]], i.lab[ab[2]]} = {k, l} /\ Admissible(i, ab[1], ab[2])}
F2(ab) == IF ab[1] = ab[2] THEN 1 ELSE 2                       \* twice the factor of the pair
PairSeq(P) == SetToSortSeq(P, LAMBDA p, q : p[1] < q[1] \/ (p[1] = q[1] /\ p[2] < q[2]))

\* sum of the weights of a slot (what calc_one_similarity returns as its second value)
SlotWeight(i, P) == IF i.w = "number" THEN RNorm(SumOver(P, LAMBDA ab : F2(ab) * W(i, ab[1], ab[2])), 2)
                    ELSE RNorm(SumOver(P, LAMBDA ab : F2(ab)), 2)
\* exact value of a slot for the dot / quadratic kernels
SlotValue(i, P) ==
  IF P = {} THEN Undef
  ELSE IF i.w = "number"
  THEN RNorm(SumOver(P, LAMBDA ab : F2(ab) * Sim(i, ab[1], ab[2])), SumOver(P, LAMBDA ab : F2(ab) * W(i, ab[1], ab[2])))
  ELSE LET ps == PairSeq(P) IN
       RDiv(RSumSeq([j \in 1..Len(ps) |-> RNorm(F2(ps[j]) * Sim(i, ps[j][1], ps[j][2]), W(i, ps[j][1], ps[j][2]))]),
            <<SumOver(P, LAMBDA ab : F2(ab)), 1>>)
SlotRec(i, P) ==
  LET ps == PairSeq(P)  kd == Kind(i) IN
  [pairs |-> [j \in 1..Len(ps) |->
                [a |-> ps[j][1], b |-> ps[j][2], f2 |-> F2(ps[j]), w |-> W(i, ps[j][1], ps[j][2]),
                 st |-> CASE kd = "corr" -> CorrStat(i, ps[j][1], ps[j][2])
                          [] kd = "pois" -> PoisStat(i, ps[j][1], ps[j][2])
                          [] OTHER -> Sim(i, ps[j][1], ps[j][2])]],
   wsum |-> SlotWeight(i, P),
   val |-> IF Exact(i) THEN SlotValue(i, P) ELSE <<>>]

Result(i) ==
  LET conds == FirstApp(i.lab)  nc == Len(conds)  cp == CondPairs(nc) IN
  [conds |-> conds, kind |-> Kind(i), cv |-> CV(i),
   self |-> [k \in 1..nc |-> SlotRec(i, SelfPairs(i, conds[k]))],
   cross |-> [p \in 1..Len(cp) |-> SlotRec(i, CrossPairs(i, conds[cp[p][1]], conds[cp[p][2]]))],
   nan |-> [p \in 1..Len(cp) |-> \/ SelfPairs(i, conds[cp[p][1]]) = {} \/ SelfPairs(i, conds[cp[p][2]]) = {}
                                 \/ CrossPairs(i, conds[cp[p][1]], conds[cp[p][2]]) = {}],
   rdm |-> IF Exact(i)
           THEN [p \in 1..Len(cp) |->
                   RAdd(RAdd(SlotValue(i, SelfPairs(i, conds[cp[p][1]])), SlotValue(i, SelfPairs(i, conds[cp[p][2]]))),
                        RScale(SlotValue(i, CrossPairs(i, conds[cp[p][1]], conds[cp[p][2]])), -2))]
           ELSE <<>>]

(* ---------------- admissibility of an input (generator constraints) -------- *)
\* correlation: both vectors non-constant on the shared channels of every admissible pair (else 0/0);
\* Poisson: counts are non-negative
Adm(i) ==
  /\ Kind(i) = "corr" => \A a, b \in ObsOf(i) : (a <= b /\ W(i, a, b) > 0) =>
                             (CorrStat(i, a, b).aa > 0 /\ CorrStat(i, a, b).bb > 0)
  /\ Kind(i) = "pois" => \A o \in ObsOf(i) : \A c \in ChOf(i) : i.x[o][c] >= 0
  /\ Len(FirstApp(i.lab)) >= 2

FoldsUsed(i) == {i.fold[o] : o \in ObsOf(i)}
Cell(i, k, f) == {o \in Members(i, k) : i.fold[o] = f}
FoldBalanced(i) == /\ i.usefold /\ Cardinality(FoldsUsed(i)) >= 2
                   /\ \A k \in Range(i.lab) : \A f \in FoldsUsed(i) :
                         Cardinality(Cell(i, k, f)) = Cardinality(Cell(i, i.lab[1], i.fold[1]))
OnePerCell(i) == FoldBalanced(i) /\ Cardinality(Cell(i, i.lab[1], i.fold[1])) = 1
SingleObs(i) == \A k \in Range(i.lab) : Cardinality(Members(i, k)) = 1
DesignOk(i) == CASE Design = "single" -> SingleObs(i)
                 [] Design = "foldbal" -> FoldBalanced(i)
                 [] OTHER -> TRUE

\* the values of an existing 'index' obs descriptor: unique but permuted, or repeated (trial counter, merged sessions)
IdxSeq(kind, n) == CASE kind = "none" -> <<>>
                     [] kind = "perm" -> [o \in 1..n |-> IF n % 3 # 0 THEN (3 * (o - 1) + 1) % n ELSE n - o]
                     [] kind = "rep"  -> [o \in 1..n |-> (o - 1) % ((n + 1) \div 2)]

(* ---------------- behaviour ----------------------------------------------- *)
DataSet == IF DataSrc = "grid" THEN [1..NObs -> [1..NCh -> Vals]]
           ELSE {[o \in 1..NObs |-> [c \in 1..NCh |-> DataCat[d][o][c]]] : d \in DataIds}
ValidSets == CASE NanMode = "none" -> {[o \in 1..NObs |-> 1..NCh]}
               [] NanMode = "chan" -> {[o \in 1..NObs |-> S] : S \in (SUBSET (1..NCh)) \ {{}}}
               [] NanMode = "obs"  -> [1..NObs -> SUBSET (1..NCh)]
PrecOk(m, pid) == pid = 0 \/ m \in {"mahalanobis", "crossnobis"}
Init ==
  /\ pc = "in" /\ out = <<>>
  /\ \E dlab \in [1..NObs -> 1..NLab], m \in Methods, w \in Weightings, pid \in PrecIds, fm \in FoldModes :
     \E fold \in (IF fm = "given" THEN [1..NObs -> 1..NFold] ELSE {<<>>}) :
     \E x \in DataSet, valid \in ValidSets, nd \in NoDescs, ik \in IdxKinds, pr \in Priors :
        /\ PrecOk(m, pid)
        /\ inp = [dlab |-> dlab, nodesc |-> nd, idx |-> ik, ival |-> IdxSeq(ik, NObs), prior |-> pr,
                  lab |-> IF nd THEN [o \in 1..NObs |-> o] ELSE dlab, fold |-> fold, usefold |-> (fm = "given"), x |-> x, valid |-> valid, m |-> m, w |-> w,
                  prec |-> IF pid = 0 THEN <<>> ELSE [c \in 1..NCh |-> [d \in 1..NCh |-> PrecCat[pid][c][d]]]]
        /\ Adm(inp) /\ DesignOk(inp)
\* an earlier call on the same dataset object (cross-validated method with the condition descriptor, no fold
\* descriptor): it returns its own RDM and leaves the dataset - hence everything the next call sees - alone
Prior == /\ pc = "in" /\ inp.prior /\ pc' = "prior" /\ UNCHANGED <<inp, out>>
Compute == /\ (pc = "prior" \/ (pc = "in" /\ ~inp.prior))
           /\ out' = Result(inp) /\ pc' = "done" /\ UNCHANGED inp
Next == Prior \/ Compute
Spec == Init /\ [][Next]_vars
Done == pc = "done"

(* ---------------- balanced definitions (what calc_rdm estimates) ----------- *)
PrecAt(i, c, d) == IF i.prec = <<>> THEN (IF c = d THEN 1 ELSE 0) ELSE i.prec[c][d]
SumsOf(i, S) == [c \in ChOf(i) |-> SumOver(S, LAMBDA o : i.x[o][c])]
QForm(i, u, v) == SumOver(ChOf(i) \X ChOf(i), LAMBDA cd : u[cd[1]] * PrecAt(i, cd[1], cd[2]) * v[cd[2]])
\* (mean_k - mean_l)' N (mean_k - mean_l) / P
BalQuad(i, k, l) ==
  LET rk == Cardinality(Members(i, k))  rl == Cardinality(Members(i, l))
      sk == SumsOf(i, Members(i, k))  sl == SumsOf(i, Members(i, l))
      d == [c \in ChOf(i) |-> rl * sk[c] - rk * sl[c]] IN
  RNorm(QForm(i, d, d), rk * rk * rl * rl * Cardinality(ChOf(i)))
\* crossnobis: mean over ordered fold pairs f # g of (m_kf - m_lf)' N (m_kg - m_lg) / P, m_kf the fold means
BalCross(i, k, l) ==
  LET F == FoldsUsed(i)  M == Cardinality(F)  r == Cardinality(Cell(i, i.lab[1], i.fold[1]))
      d(f) == LET sk == SumsOf(i, Cell(i, k, f))  sl == SumsOf(i, Cell(i, l, f)) IN [c \in ChOf(i) |-> sk[c] - sl[c]] IN
  RNorm(SumOver({fg \in F \X F : fg[1] # fg[2]}, LAMBDA fg : QForm(i, d(fg[1]), d(fg[2]))),
        r * r * M * (M - 1) * Cardinality(ChOf(i)))

(* ---------------- theorems ------------------------------------------------- *)
CondsOf(i) == FirstApp(i.lab)
PairLab(i, p) == LET cp == CondPairs(Len(CondsOf(i))) IN <<CondsOf(i)[cp[p][1]], CondsOf(i)[cp[p][2]]>>

\* no call changes the dataset it is given
DatasetFrame == [][inp' = inp]_vars
\* descriptor=None: one observation per condition, conditions = observations in their order; neither an obs
\* descriptor named 'index' nor the condition labels nor an earlier call have any influence
NoDescIsSingle == (Done /\ inp.nodesc) =>
  /\ SingleObs(inp) /\ out.conds = [o \in ObsOf(inp) |-> o]
  /\ \A ik \in {"none", "perm", "rep"} : \A dl \in {inp.dlab, [o \in ObsOf(inp) |-> 1]} :
        Result([inp EXCEPT !.idx = ik, !.ival = IdxSeq(ik, Len(inp.lab)), !.dlab = dl, !.prior = FALSE]) = out
\* labels: every label once, in order of first appearance
CondOrder == Done =>
  LET c == out.conds IN
  /\ Range(c) = Range(inp.lab) /\ Cardinality(Range(c)) = Len(c)
  /\ \A k \in 1..(Len(c) - 1) :
        (CHOOSE o \in ObsOf(inp) : inp.lab[o] = c[k] /\ \A j \in 1..(o - 1) : inp.lab[j] # c[k])
      < (CHOOSE o \in ObsOf(inp) : inp.lab[o] = c[k + 1] /\ \A j \in 1..(o - 1) : inp.lab[j] # c[k + 1])

\* clause b, euclidean / mahalanobis, ANY repetition counts, complete data, no cross-validation
BalancedAnyReps == (Done /\ Exact(inp) /\ Complete(inp) /\ ~CV(inp)) =>
  \A p \in DOMAIN out.rdm : out.rdm[p] = BalQuad(inp, PairLab(inp, p)[1], PairLab(inp, p)[2])

\* clause b, one observation per condition: each self slot is the observation with itself (factor 1/2),
\* each cross slot the single pair; hence rdm = Sim(a,a)/W + Sim(b,b)/W - 2 Sim(a,b)/W, which is
\* 1 - r for the correlation statistics (r(a,a) = 1) and the symmetrised KL for Poisson (Sim(a,a) = 0)
SingleObsStructure == (Done /\ SingleObs(inp) /\ ~CV(inp) /\ Complete(inp)) =>
  /\ \A k \in DOMAIN out.self : /\ Len(out.self[k].pairs) = 1
                                /\ out.self[k].pairs[1].a = out.self[k].pairs[1].b /\ out.self[k].pairs[1].f2 = 1
                                /\ inp.lab[out.self[k].pairs[1].a] = out.conds[k]
                                /\ out.kind = "corr" => LET s == out.self[k].pairs[1].st IN s.ab = s.aa /\ s.aa = s.bb
                                /\ out.kind = "pois" => \A c \in DOMAIN out.self[k].pairs[1].st :
                                                           out.self[k].pairs[1].st[c][1] = out.self[k].pairs[1].st[c][2]
  /\ \A p \in DOMAIN out.cross : /\ Len(out.cross[p].pairs) = 1 /\ out.cross[p].pairs[1].f2 = 2
                                 /\ {inp.lab[out.cross[p].pairs[1].a], inp.lab[out.cross[p].pairs[1].b]}
                                      = {PairLab(inp, p)[1], PairLab(inp, p)[2]}
\* with cross-validation and one observation per condition there is no self pair: everything is NaN
SingleObsCvIsNaN == (Done /\ SingleObs(inp) /\ CV(inp)) => \A p \in DOMAIN out.nan : out.nan[p]

\* clause b, crossnobis-type kernels on fold-balanced designs (equal cell counts)
CrossFoldBalanced == (Done /\ Exact(inp) /\ Complete(inp) /\ FoldBalanced(inp)) =>
  \A p \in DOMAIN out.rdm : out.rdm[p] = BalCross(inp, PairLab(inp, p)[1], PairLab(inp, p)[2])

\* clause b, Poisson: both definitions are linear in T(o1,o2) = sum_c rate_o1[c] * log rate_o2[c]; their
\* coefficient functions over ordered observation pairs coincide (a fact independent of the data)
Ind(c) == IF c THEN 1 ELSE 0
UnbalCoefSlot(i, P, o1, o2) ==        \* coefficient of T(o1,o2) in a slot value, times 2 * P
  IF P = {} THEN Undef
  ELSE RNorm(SumOver(P, LAMBDA ab : F2(ab) * (Ind(o1 = ab[1] /\ o2 = ab[2]) + Ind(o1 = ab[2] /\ o2 = ab[1])
                                                - Ind(o1 = ab[1] /\ o2 = ab[1]) - Ind(o1 = ab[2] /\ o2 = ab[2]))),
             SumOver(P, LAMBDA ab : F2(ab)))
UnbalCoef(i, k, l, o1, o2) ==
  RAdd(RAdd(UnbalCoefSlot(i, SelfPairs(i, k), o1, o2), UnbalCoefSlot(i, SelfPairs(i, l), o1, o2)),
       RScale(UnbalCoefSlot(i, CrossPairs(i, k, l), o1, o2), -2))
\* balanced, times 2 * P as well
BalPoisCoef(i, k, l, o1, o2) ==
  LET a == CHOOSE o \in Members(i, k) : TRUE  b == CHOOSE o \in Members(i, l) : TRUE IN
  <<2 * (Ind(o1 = a /\ o2 = a) + Ind(o1 = b /\ o2 = b) - Ind(o1 = a /\ o2 = b) - Ind(o1 = b /\ o2 = a)), 1>>
BalPoisCvCoef(i, k, l, o1, o2) ==
  LET F == FoldsUsed(i)  M == Cardinality(F)
      ob(c, f) == CHOOSE o \in Cell(i, c, f) : TRUE IN
  RNorm(2 * SumOver({fg \in F \X F : fg[1] # fg[2]}, LAMBDA fg :
            Ind(o1 = ob(k, fg[1]) /\ o2 = ob(k, fg[2])) - Ind(o1 = ob(k, fg[1]) /\ o2 = ob(l, fg[2]))
          - Ind(o1 = ob(l, fg[1]) /\ o2 = ob(k, fg[2])) + Ind(o1 = ob(l, fg[1]) /\ o2 = ob(l, fg[2]))),
        M * (M - 1))
PoissonCoefficients == (Done /\ Kind(inp) = "pois" /\ Complete(inp)) =>
  /\ (SingleObs(inp) /\ ~CV(inp)) =>
        \A p \in DOMAIN out.cross : \A o1, o2 \in ObsOf(inp) :
           UnbalCoef(inp, PairLab(inp, p)[1], PairLab(inp, p)[2], o1, o2)
             = BalPoisCoef(inp, PairLab(inp, p)[1], PairLab(inp, p)[2], o1, o2)
  /\ OnePerCell(inp) =>
        \A p \in DOMAIN out.cross : \A o1, o2 \in ObsOf(inp) :
           UnbalCoef(inp, PairLab(inp, p)[1], PairLab(inp, p)[2], o1, o2)
             = BalPoisCvCoef(inp, PairLab(inp, p)[1], PairLab(inp, p)[2], o1, o2)

\* clause c: a channel that is missing for every observation has no effect - the result is the result of
\* the input with that channel (and the row and column of the precision) deleted
DelSeq(s, c) == [j \in 1..(Len(s) - 1) |-> IF j < c THEN s[j] ELSE s[j + 1]]
DelChannel(i, c) ==
  [i EXCEPT !.x = [o \in ObsOf(i) |-> DelSeq(i.x[o], c)],
            !.valid = [o \in ObsOf(i) |-> {IF d < c THEN d ELSE d - 1 : d \in i.valid[o] \ {c}}],
            !.prec = IF i.prec = <<>> THEN <<>> ELSE DelSeq([r \in ChOf(i) |-> DelSeq(i.prec[r], c)], c)]
NaNChannelIsDeleted == Done =>
  \A c \in ChOf(inp) : ((\A o \in ObsOf(inp) : c \notin inp.valid[o]) /\ Len(inp.x[1]) >= 2) =>
     Result(DelChannel(inp, c)) = out

\* clause c: an entry is NaN exactly when one of its three slots has no admissible pair
NaNIffNoPair == Done =>
  /\ \A p \in DOMAIN out.nan :
        out.nan[p] <=> \/ out.cross[p].pairs = <<>>
                       \/ \E k \in DOMAIN out.self : out.conds[k] \in {PairLab(inp, p)[1], PairLab(inp, p)[2]}
                                                     /\ out.self[k].pairs = <<>>
  /\ Exact(inp) => \A p \in DOMAIN out.rdm : (out.rdm[p] = Undef) <=> out.nan[p]
\* every admissible pair shares a channel; pairs of one fold never enter under cross-validation
PairsAdmissible == Done =>
  \A s \in Range(out.self) \cup Range(out.cross) : \A j \in DOMAIN s.pairs :
     /\ s.pairs[j].w > 0 /\ s.pairs[j].w = Cardinality(inp.valid[s.pairs[j].a] \cap inp.valid[s.pairs[j].b])
     /\ out.cv => (s.pairs[j].a # s.pairs[j].b /\ FoldOf(inp, s.pairs[j].a) # FoldOf(inp, s.pairs[j].b))

\* complete data: every pair has weight P, the two weightings give the same RDM
WeightingIrrelevantWhenComplete == (Done /\ Exact(inp) /\ Complete(inp)) =>
  Result([inp EXCEPT !.w = IF inp.w = "number" THEN "equal" ELSE "number"]).rdm = out.rdm
\* symmetric kernels: the RDM does not depend on the order of the observations inside a condition:
\* reversing the observation order leaves every entry unchanged (conditions are matched by label)
Rev(s) == [j \in 1..Len(s) |-> s[Len(s) + 1 - j]]
ReverseInvariant == (Done /\ Exact(inp)) =>
  LET j == [inp EXCEPT !.lab = Rev(inp.lab), !.x = Rev(inp.x), !.valid = Rev(inp.valid),
                       !.fold = IF inp.fold = <<>> THEN <<>> ELSE Rev(inp.fold),
                       !.ival = IF inp.ival = <<>> THEN <<>> ELSE Rev(inp.ival)]
      rj == Result(j)  cj == CondPairs(Len(rj.conds)) IN
  \A p \in DOMAIN out.rdm : \E q \in DOMAIN rj.rdm :
     /\ {rj.conds[cj[q][1]], rj.conds[cj[q][2]]} = {PairLab(inp, p)[1], PairLab(inp, p)[2]}
     /\ rj.rdm[q] = out.rdm[p]

(* ---------------- emission ------------------------------------------------- *)
Pick(n) == n = 1 \/ RandomElement(1..n) = 1
Emit == (Done /\ Pick(EmitMod)) =>
  PrintT(ToJson([dlab |-> inp.dlab, nodesc |-> inp.nodesc, idx |-> inp.idx, ival |-> inp.ival, prior |-> inp.prior,
                 lab |-> inp.lab, fold |-> inp.fold, usefold |-> inp.usefold, x |-> inp.x,
                 valid |-> [o \in ObsOf(inp) |-> Sorted(inp.valid[o])], m |-> inp.m, w |-> inp.w, prec |-> inp.prec,
                 out |-> out]))
=============================================================================
