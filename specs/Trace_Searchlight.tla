-------------------------- MODULE Trace_Searchlight --------------------------
(***************************************************************************)
(* Implementation -> specification for C19.  Calls of                      *)
(* rsatoolbox.util.searchlight._get_searchlight_neighbors and              *)
(* get_volume_searchlight on random (larger) masks, radii and thresholds   *)
(* are recorded with their return values (harness/searchlight.py:          *)
(* record_trace).  Every event must be explained by the definitions of     *)
(* Searchlight.tla, which TLC re-evaluates on the logged input:            *)
(*   nb  : the returned coordinates are exactly Neighbours(centre,r,shape),*)
(*         each once;                                                      *)
(*   vol : the returned centres are, as a set and each once, the linear    *)
(*         indices GoodCentres(shape, mask, r, t) (the property does not   *)
(*         fix their order) and neighbour list i is exactly the            *)
(*         searchlight of centre i, each voxel once.                       *)
(*   volraise : get_volume_searchlight raised; explained only when no      *)
(*         centre qualifies (the one unsupported class).                   *)
(* One behaviour per trace id; [accept |-> tid] is printed after the last  *)
(* event, [reject |-> tid, l |-> index, ...] at the first unexplained one. *)
(***************************************************************************)
EXTENDS Searchlight, IOUtils, TLCExt
VARIABLES tid, l
Traces == JsonDeserialize(IOEnv.TRACE_FILE)

NoDup(q) == Len(q) = Cardinality(ToSet(q))
ExpNeigh(e, k) == LinOf(e.shape, Neighbours(Unravel(e.shape, k), e.rad, e.shape))
ExpCentres(e) == GoodCentres(e.shape, ToSet(e.mask), e.rad, e.thr)
BadLists(e) == {i \in 1..Len(e.centres) : ~(ToSet(e.neigh[i]) = ExpNeigh(e, e.centres[i]) /\ NoDup(e.neigh[i]))}
Explains(e) ==
  IF e.op = "volraise" THEN ExpCentres(e) = <<>>      \* the call raised: explained only if NO centre qualifies
  ELSE IF e.op = "nb" THEN ToSet(e.out) = Neighbours(e.centre, e.rad, e.shape) /\ NoDup(e.out)
  ELSE /\ ToSet(e.centres) = ToSet(ExpCentres(e)) /\ NoDup(e.centres)
       /\ Len(e.neigh) = Len(e.centres)
       /\ BadLists(e) = {}
Diag(e) ==
  IF e.op = "volraise" THEN [op |-> "volraise", rad |-> e.rad, thr |-> e.thr, shape |-> e.shape,
                             expected_centres |-> ExpCentres(e)]
  ELSE IF e.op = "nb" THEN [op |-> "nb", centre |-> e.centre, rad |-> e.rad, shape |-> e.shape,
                       expected |-> SetToSortSeq(Neighbours(e.centre, e.rad, e.shape),
                                                 LAMBDA a, b : Ravel(e.shape, a) < Ravel(e.shape, b))]
  ELSE [op |-> "vol", rad |-> e.rad, thr |-> e.thr, shape |-> e.shape,
        centres_ok |-> (ToSet(e.centres) = ToSet(ExpCentres(e)) /\ NoDup(e.centres)), expected_centres |-> ExpCentres(e),
        bad_lists |-> IF Len(e.neigh) = Len(e.centres) THEN SortedSeq(BadLists(e)) ELSE <<0>>]

TInit == /\ tid \in 1..Len(Traces) /\ l = 1 /\ geo = Off /\ sch = Off
TStep == /\ l >= 1 /\ l <= Len(Traces[tid])
         /\ LET e == Traces[tid][l] IN
            IF Explains(e)
            THEN /\ l' = l + 1
                 /\ (l = Len(Traces[tid]) => PrintT(ToJson([accept |-> tid])))
            ELSE /\ PrintT(ToJson([reject |-> tid, l |-> l, diag |-> Diag(e)]))
                 /\ l' = 0
         /\ UNCHANGED <<tid, geo, sch>>
TSpec == TInit /\ [][TStep]_<<geo, sch, tid, l>>
=============================================================================
