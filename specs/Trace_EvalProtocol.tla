------------------------- MODULE Trace_EvalProtocol -------------------------
(***************************************************************************)
(* Implementation -> specification for EvalProtocol.                       *)
(*                                                                         *)
(* A trace is the event sequence recorded by harness/evalprotocol.py while *)
(* one evaluation routine runs under a real seed:                          *)
(*   begin   the configuration rc                                          *)
(*   draw    the outcome of the randint calls of one bootstrap sample      *)
(*   sets    the outcomes of the shuffles of the fold generator, per       *)
(*           variant object (empty without cross-validation)               *)
(*   fit     every fitter call of the repetition: model, decoded training  *)
(*           object (source rows, condition sequence), index list, the     *)
(*           method / pattern_descriptor keywords, other keywords          *)
(*   compare every call of evaluate.compare: model, decoded prediction     *)
(*           conditions, decoded data rows / conditions, the similarity    *)
(*           values (integers x 1e6), global call numbers                  *)
(*   ceiling the object(s) the noise-ceiling function was called with and  *)
(*           the two values it returned                                    *)
(*   result  Result.evaluations / noise_ceiling (x 1e6) and dof; for the   *)
(*           test-set routines the numbers of held-out groups per sample   *)
(* The trace must be explained by the protocol actions: Draw and MakeSets  *)
(* are taken with the logged outcomes, Fit / Compare / Ceiling must produce*)
(* exactly the logged objects, TooSmall / Predict / Store are silent; at   *)
(* the result event every stored cell must be the mean of the values of    *)
(* THE compare event of that cell (integer arithmetic within the rounding  *)
(* bound), NaN exactly for the cells the protocol marks NaN, the ceilings  *)
(* those of the ceiling events.  All invariants of EvalProtocol are        *)
(* evaluated in every state.                                               *)
(***************************************************************************)
EXTENDS EvalProtocol, IOUtils

VARIABLES tid, l,
          gfit,   \* the fit event of the current repetition
          got,    \* cell key -> <<sum of the logged similarity values, number of values>>
          gnc     \* noise-ceiling key -> logged ceiling record
tvars == <<tid, l, gfit, got, gnc>>
Traces == JsonDeserialize(IOEnv.TRACE_FILE)
T == Traces[tid]
NaNVal == 0 - 9999999

OkFolds(v) == SelectSeq([f \in DOMAIN sets[v] |-> f], LAMBDA f : ~FoldNaN(rc, sets[v][f]))
\* the (fold, model) of the k-th fitter / compare call of variant v: folds ascending, models ascending
FoldAt(v, k) == OkFolds(v)[((k - 1) \div rc.nM) + 1]
ModelAt(k) == ((k - 1) % rc.nM) + 1
NCalls(v) == Len(OkFolds(v)) * rc.nM

FitsOk(fits, th) ==
  /\ Len(fits) = NVar(rc)
  /\ \A v \in 1..NVar(rc) :
       IF rc.cv = "none" THEN fits[v] = <<>>
       ELSE /\ Len(fits[v]) = NCalls(v)
            /\ \A k \in 1..NCalls(v) : LET x == fits[v][k]  t == th[v][FoldAt(v, k)][ModelAt(k)] IN
                 /\ x.j = ModelAt(k) /\ x.rows = t.rows /\ x.conds = t.conds /\ x.pidx = t.pidx
                 \* every keyword argument of the fitter call: the routine's comparison method, the routine's
                 \* pattern descriptor, nothing else
                 /\ x.meth = t.meth /\ x.desc = t.desc /\ x.kw = <<>>

CmpsOk(cmps, pe) ==
  /\ Len(cmps) = NVar(rc)
  /\ \A v \in 1..NVar(rc) :
       /\ Len(cmps[v]) = NCalls(v)
       /\ \A k \in 1..NCalls(v) : LET x == cmps[v][k]  c == pe[v][FoldAt(v, k)][ModelAt(k)] IN
            /\ x.j = ModelAt(k) /\ x.pc = c.pred.conds /\ x.rows = c.data.rows /\ x.conds = c.data.conds
            /\ x.pok = 1 /\ Len(x.vals) = Len(c.data.rows)
            \* the parameters were fitted before they were used, by the fitter call of the same position
            /\ rc.cv # "none" => /\ gfit[v][k].n < x.n
                                 /\ k > 1 => cmps[v][k - 1].n < gfit[v][k].n

SameFolds(a, b) == /\ Len(a) = Len(b)
                   /\ \A f \in DOMAIN a : /\ a[f].ceR = b[f].ceR /\ a[f].ceP = b[f].ceP
                                          /\ a[f].teR = b[f].teR /\ a[f].teP = b[f].teP
NcsOk(ncs, pn) ==
  /\ Len(ncs) = NVar(rc)
  /\ StoresNc(rc) => \A v \in 1..NVar(rc) : LET x == ncs[v]  n == pn[v] IN
       /\ x.kind = n.kind /\ x.rows = n.rows /\ x.conds = n.conds
       /\ n.kind = "loo" => x.by = n.by
       /\ n.kind \in {"cv", "loofolds"} => SameFolds(x.folds, n.folds)

Sum(s) == FoldLeft(LAMBDA a, b : a + b, 0, s)
Abs(x) == IF x < 0 THEN 0 - x ELSE x

Reject(why, extra) == /\ PrintT(ToJson([reject |-> tid, l |-> l, why |-> why, extra |-> extra,
                                         routine |-> rc.routine, phase |-> phase]))
                      /\ l' = 0 /\ UNCHANGED <<tid, gfit, got, gnc>> /\ UNCHANGED evars /\ Frozen

TInit == /\ tid \in 1..Len(Traces) /\ l = 2
         /\ rc = Traces[tid][1].rc
         /\ phase = "start" /\ smp = 0 /\ draw = << <<>>, <<>> >> /\ sample = <<>> /\ rep = 0
         /\ sets = <<>> /\ theta = <<>> /\ pred = <<>> /\ pend = <<>> /\ pnc = <<>>
         /\ ev = EmptyF /\ nc = EmptyF /\ nst = [k \in AllKeys(rc) |-> 0]
         /\ agg = [done |-> FALSE, ok |-> {}, dof |-> 0] /\ log = <<>>
         /\ objs = Heap1 /\ hist = <<>> /\ folds = <<>> /\ stage = 0
         /\ fc = Case(1, "", "", "", 0, 0, FALSE, <<>>)
         /\ gfit = <<>> /\ got = EmptyF /\ gnc = EmptyF

Silent == \/ TooSmall \/ Predict \/ Store
SilentEnabled == \/ (phase = "drawn" /\ SmallSample(rc, draw)) \/ phase = "fit" \/ phase = "ceil"

\* the result event: cells, ceilings, dof
CellBad(k, stored) ==
  LET key == KeyAt(rc, k) IN
  IF IsNaN(ev[key]) THEN stored # NaNVal
  ELSE \/ stored = NaNVal
       \/ key \notin DOMAIN got
       \/ Abs(got[key][2] * stored - got[key][1]) > got[key][2] + 1
NcBad(k, st) ==
  LET key == NcKeyAt(rc, k) IN
  IF nc[key].kind = "nan" THEN st[1] # NaNVal \/ st[2] # NaNVal
  ELSE \/ key \notin DOMAIN gnc
       \/ IF nc[key].kind = "loofolds" THEN FALSE     \* per-fold values: compared by the harness
          ELSE Abs(st[1] - gnc[key].lo) > 1 \/ Abs(st[2] - gnc[key].hi) > 1

TStep ==
  /\ l >= 2 /\ l <= Len(T)
  /\ IF SilentEnabled THEN Silent /\ UNCHANGED tvars
     ELSE LET e == T[l] IN
       CASE e.e = "draw" ->
              IF phase \in {"start", "stored"} /\ smp < rc.N /\ DrawOk(rc, e.d)
              THEN Draw(e.d) /\ l' = l + 1 /\ UNCHANGED <<tid, gfit, got, gnc>>
              ELSE Reject("draw-not-admissible", e.d)
         [] e.e = "sets" ->
              IF phase \in {"drawn", "repdone"} /\ ~SmallSample(rc, draw) /\ rep < NRep(rc) /\ Len(e.pp) = NVar(rc)
                 /\ \A v \in 1..NVar(rc) : PermsOk(rc, sample[v], e.pp[v])
              THEN MakeSets(e.pp) /\ l' = l + 1 /\ UNCHANGED <<tid, gfit, got, gnc>>
              ELSE Reject("sets-not-admissible", e.pp)
         [] e.e = "fit" ->
              IF phase = "sets"
              THEN /\ Fit
                   /\ IF FitsOk(e.fits, theta')
                      THEN l' = l + 1 /\ gfit' = e.fits /\ UNCHANGED <<tid, got, gnc>>
                      ELSE /\ PrintT(ToJson([reject |-> tid, l |-> l, why |-> "fit", extra |-> theta',
                                             routine |-> rc.routine, phase |-> phase]))
                           /\ l' = 0 /\ UNCHANGED <<tid, gfit, got, gnc>>
              ELSE Reject("fit-out-of-order", 0)
         [] e.e = "compare" ->
              IF phase = "pred"
              THEN /\ Compare
                   /\ IF CmpsOk(e.cmps, pend')
                      THEN /\ l' = l + 1
                           /\ got' = got @@ [key \in {kk \in AllKeys(rc) : kk[1] = smp /\ kk[4] = rep /\ ~IsNaN(pend'[kk[5]][kk[3]][kk[2]])} |->
                                        LET v == key[5]
                                            k == CHOOSE kk \in 1..NCalls(v) : FoldAt(v, kk) = key[3] /\ ModelAt(kk) = key[2] IN
                                        <<Sum(e.cmps[v][k].vals), Len(e.cmps[v][k].vals)>>]
                           /\ UNCHANGED <<tid, gfit, gnc>>
                      ELSE /\ PrintT(ToJson([reject |-> tid, l |-> l, why |-> "compare", extra |-> pend',
                                             routine |-> rc.routine, phase |-> phase]))
                           /\ l' = 0 /\ UNCHANGED <<tid, gfit, got, gnc>>
              ELSE Reject("compare-out-of-order", 0)
         [] e.e = "ceiling" ->
              IF phase = "cmp"
              THEN /\ Ceiling
                   /\ IF NcsOk(e.ncs, pnc')
                      THEN /\ l' = l + 1
                           /\ gnc' = gnc @@ [key \in {kk \in NcKeys(rc) : kk[1] = smp /\ kk[2] = rep} |-> e.ncs[key[3]]]
                           /\ UNCHANGED <<tid, gfit, got>>
                      ELSE /\ PrintT(ToJson([reject |-> tid, l |-> l, why |-> "ceiling", extra |-> pnc',
                                             routine |-> rc.routine, phase |-> phase]))
                           /\ l' = 0 /\ UNCHANGED <<tid, gfit, got, gnc>>
              ELSE Reject("ceiling-out-of-order", 0)
         [] e.e = "result" ->
              IF phase = "stored" /\ smp = rc.N
              THEN /\ Aggregate
                   /\ LET badcells == {k \in 1..NKeys(rc) : CellBad(k, e.cells[k])}
                          badnc == IF StoresNc(rc) THEN {k \in 1..NNcKeys(rc) : NcBad(k, e.nc[k])} ELSE {}
                          dofbad == rc.routine \notin {"crossval", "testset"} /\ e.dof # DofOf(rc)
                          \* test-set routines also return the number of held-out groups per sample
                          ntestbad == rc.routine = "testset" /\
                                      (\/ Len(e.ntest) # rc.N
                                       \/ \E i \in 1..rc.N :
                                             \/ rc.bootR /\ e.ntest[i][1] # Len(TestGroupsR(rc, log[i].d))
                                             \/ rc.bootP /\ e.ntest[i][2] # Len(TestGroupsP(rc, log[i].d)))
                      IN /\ (dofbad => PrintT(ToJson([dofbad |-> tid, expected |-> DofOf(rc), logged |-> e.dof])))
                         /\ IF badcells = {} /\ badnc = {} /\ Len(e.cells) = NKeys(rc) /\ ~ntestbad
                            THEN PrintT(ToJson([accept |-> tid])) /\ l' = l + 1
                            ELSE /\ PrintT(ToJson([reject |-> tid, l |-> l,
                                                   why |-> IF badcells # {} THEN "stored" ELSE IF ntestbad THEN "ntest" ELSE "nc-stored",
                                                   extra |-> [cells |-> badcells, nc |-> badnc,
                                                              first |-> IF badcells # {}
                                                                        THEN LET k == CHOOSE kk \in badcells : \A k2 \in badcells : kk <= k2 IN
                                                                             [key |-> KeyAt(rc, k), stored |-> e.cells[k],
                                                                              got |-> IF KeyAt(rc, k) \in DOMAIN got THEN got[KeyAt(rc, k)] ELSE <<0, 0>>,
                                                                              nan |-> ev[KeyAt(rc, k)].nan]
                                                                        ELSE [key |-> <<>>, stored |-> 0, got |-> <<0, 0>>, nan |-> 0]],
                                                   routine |-> rc.routine, phase |-> phase]))
                                 /\ l' = 0
                   /\ UNCHANGED <<tid, gfit, got, gnc>>
              ELSE Reject("result-too-early", [phase |-> phase, smp |-> smp])
         [] OTHER -> Reject("unknown-event", e.e)

TSpec == TInit /\ [][TStep]_<<allvars, tvars>>
=============================================================================
