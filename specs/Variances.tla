------------------------------ MODULE Variances ------------------------------
(***************************************************************************)
(* C06 - reported uncertainties are coherent with the evaluations.         *)
(*                                                                         *)
(* Exact definitional oracle (integers and rationals <<num, den>>, den > 0;*)
(* <<0, 0>> is NaN) for                                                    *)
(*   rsatoolbox.util.inference_util.extract_variances / _correct_1d /      *)
(*   _dual_bootstrap, rsatoolbox.inference.Result.get_means, and the       *)
(*   covariance eval_fixed stores (cov(ddof=0)/n).                         *)
(*                                                                         *)
(* An input is a record with a field kind:                                 *)
(*  "var"   [shape, k, nc, cov, nr, np]  a stored covariance               *)
(*          shape 0 scalar (an integer), 1 vector (length M), 2 matrix     *)
(*          (M x M), 3 stack of three M x M matrices in the documented     *)
(*          order <<double, rdm, pattern>> bootstrap; M = k + 2 when the   *)
(*          last two rows/columns are the noise-ceiling bounds (nc = TRUE) *)
(*          else M = k; nr / np = n_rdm / n_pattern, 0 stands for None.    *)
(*  "means" [cv, d, k, ev]  an evaluation array of d dimensions            *)
(*          (samples x models x d-2 further axes) as nested sequences of   *)
(*          integers, NaN marks are the integer NaN; cv = 1 for            *)
(*          cv_method 'fixed' / 'crossvalidation', 2 for every other one.  *)
(*  "fixed" [k, n, base, who, hist]  per-subject evaluations of a fixed    *)
(*          evaluation (k models x n subjects); hist is a chain of shifts  *)
(*          added to every subject's evaluation of model who (a larger     *)
(*          effect at exactly the same variance).                          *)
(*                                                                         *)
(* Actions follow the stages of the code: Contrast (contrasts of every     *)
(* covariance layer / per-sample averages / cov(ddof=0)/n), Finish (the    *)
(* n/(n-1) correction, or the dual-bootstrap combination with its clamps,  *)
(* or the average over valid samples), PermuteModels and Shift.            *)
(*                                                                         *)
(* Theorems checked by TLC on the whole grid:                              *)
(*   DualBound        clause c of the property                             *)
(*   PsdNonNeg        variances of contrasts are >= 0 when the 2x2 minors  *)
(*                    involved are positive semi-definite                  *)
(*   IterEqFlat       iterated NaN-aware mean = flat NaN-aware mean when   *)
(*                    NaN marks are whole slices                           *)
(*   MeansAdmissible  generator constraint of the means grid               *)
(*   PermEquivariant  permuting the models permutes every output           *)
(*   ShiftKeepsVar    the chain changes the mean only                      *)
(* Emit prints every terminal state as a JSON test vector with the exact   *)
(* expected values (specification -> implementation).  Trace_Variances.tla *)
(* re-uses ExtractOut / MeansOf to validate recorded executions.           *)
(***************************************************************************)
EXTENDS Integers, Sequences, FiniteSets, TLC, Json

\* The three input constants are TUPLES of sets (one set per covariance shape / array depth): TLC
\* cannot hold values of different types in one set.
CONSTANTS VarInputs,    \* tuple of sets of [shape, k, nc, cov]
          Ns,           \* values of n_rdm / n_pattern, 0 = None
          MeanInputs,   \* tuple of sets of [cv, d, k, ev]
          FixedInputs,  \* tuple of sets of [k, n, base]
          ChainLen,     \* number of shifts in a monotonicity chain
          ShiftSteps,   \* set of positive shift increments
          DoPerm,       \* BOOLEAN: explore PermuteModels (switched off for the widest matrix grid)
          EmitMod       \* emit one terminal state in EmitMod (1 = all)

VARIABLES inp, stage, raw, out, prm
vars == <<inp, stage, raw, out, prm>>

NaN == 99
Min2(a, b) == IF a < b THEN a ELSE b
Max2(a, b) == IF a < b THEN b ELSE a
Abs(a) == IF a < 0 THEN -a ELSE a

(* ---------------- rationals <<num, den>> -------------------------------- *)
RECURSIVE GCD(_, _)
GCD(a, b) == IF b = 0 THEN a ELSE GCD(b, a % b)
RNaN == <<0, 0>>
IsNaN(r) == r[2] = 0
Norm(r) == IF r[2] = 0 THEN RNaN
           ELSE LET g == GCD(Abs(r[1]), r[2]) IN
                IF r[1] < 0 THEN <<-(Abs(r[1]) \div g), r[2] \div g>> ELSE <<r[1] \div g, r[2] \div g>>
RAdd(a, b) == Norm(<<a[1] * b[2] + b[1] * a[2], a[2] * b[2]>>)
RDivInt(a, n) == Norm(<<a[1], a[2] * n>>)
REq(a, b) == a[1] * b[2] = b[1] * a[2]          \* both denominators > 0
RLe(a, b) == a[1] * b[2] <= b[1] * a[2]
RNonNeg(a) == a[1] >= 0
RECURSIVE RSum(_)
RSum(s) == IF s = <<>> THEN <<0, 1>> ELSE RAdd(Head(s), RSum(Tail(s)))
RECURSIVE ISum(_)
ISum(s) == IF s = <<>> THEN 0 ELSE Head(s) + ISum(Tail(s))

(* ---------------- the library's pair order ------------------------------ *)
\* pairwise_contrast(arange(k)): one row per pair i < j, i outer loop, j inner loop
CLen(n) == (n * (n - 1)) \div 2
Cidx(n, p, q) == (p - 1) * n - ((p - 1) * p) \div 2 + (q - p)       \* 1 <= p < q <= n
PairAt(n, x) == CHOOSE pq \in (1..n) \X (1..n) : pq[1] < pq[2] /\ Cidx(n, pq[1], pq[2]) = x

(* ---------------- contrasts of one covariance matrix -------------------- *)
\* c : M x M integer matrix; first k rows are models; with nc the rows k+1, k+2 are the lower and
\* upper noise-ceiling bound.  Without nc the ceiling is taken as fixed: variance of (model - ceiling)
\* is the model variance, reported twice.
RawOf(c, k, nc) ==
  [mv  |-> [i \in 1..k |-> c[i][i]],
   dv  |-> [x \in 1..CLen(k) |-> LET p == PairAt(k, x) IN
                                  c[p[1]][p[1]] + c[p[2]][p[2]] - 2 * c[p[1]][p[2]]],
   ncv |-> [i \in 1..k |-> [q \in 1..2 |->
               IF nc THEN c[i][i] + c[k + q][k + q] - 2 * c[i][k + q] ELSE c[i][i]]]]

\* "for 1D arrays we assume a diagonal covariance is meant"
DiagMat(v) == [a \in 1..Len(v) |-> [b \in 1..Len(v) |-> IF a = b THEN v[a] ELSE 0]]
Layers(i) == CASE i.shape = 0 -> << DiagMat(<<i.cov>>) >>
               [] i.shape = 1 -> << DiagMat(i.cov) >>
               [] i.shape = 2 -> << i.cov >>
               [] i.shape = 3 -> i.cov
RawLayers(i) == LET ls == Layers(i) IN [l \in 1..Len(ls) |-> RawOf(ls[l], i.k, i.nc)]

(* ---------------- n/(n-1) for a single covariance ----------------------- *)
\* _correct_1d: only n_pattern -> n_pattern; only n_rdm -> n_rdm; both ("uncorrected dual
\* bootstrap") -> the smaller one; none -> no correction.
WhichN(nr, np) == IF nr # 0 /\ np # 0 THEN Min2(nr, np) ELSE IF np # 0 THEN np ELSE nr
Corr(x, n) == IF n = 0 THEN <<x, 1>> ELSE <<n * x, n - 1>>

(* ---------------- dual bootstrap combination ---------------------------- *)
\* v0, v1, v2: the same contrast in the double / rdm / pattern bootstrap.
\* Without both n: 2(v1+v2) - v0, clamped below by v1 and v2, then above by v0.
\* With both n:  nr/(nr-1) v1 + np/(np-1) v2 - nr np/((nr-1)(np-1)) (v0 - v1 - v2), clamped below by the
\* corrected single-factor variances, then above by v0.  Everything over D = (nr-1)(np-1).
Max3(a, b, c) == Max2(Max2(a, b), c)
Dual(v0, v1, v2, nr, np) ==
  IF nr = 0 \/ np = 0
  THEN << Min2(Max3(2 * (v1 + v2) - v0, v1, v2), v0), 1 >>
  ELSE LET D  == (nr - 1) * (np - 1)
           c1 == nr * (np - 1) * v1
           c2 == np * (nr - 1) * v2
           x  == c1 + c2 - nr * np * (v0 - v1 - v2)
       IN << Min2(Max3(x, c1, c2), v0 * D), D >>

\* the lower bounds named by the property: corrected single-factor variances
Single(v, n, both) == IF both THEN <<n * v, n - 1>> ELSE <<v, 1>>
BoundOk(r, v0, v1, v2, nr, np) ==
  LET both == nr # 0 /\ np # 0
      c1 == Single(v1, nr, both)  c2 == Single(v2, np, both)  top == <<v0, 1>> IN
  /\ RLe(r, top)
  /\ (RLe(c1, top) => RLe(c1, r))
  /\ (RLe(c2, top) => RLe(c2, r))

(* ---------------- Extract ------------------------------------------------ *)
NoMeans == <<>>
CorrectOut(rw, i) ==
  LET n == WhichN(i.nr, i.np)  r == rw[1] IN
  [mv  |-> [a \in 1..Len(r.mv) |-> Corr(r.mv[a], n)],
   dv  |-> [x \in 1..Len(r.dv) |-> Corr(r.dv[x], n)],
   ncv |-> [a \in 1..Len(r.ncv) |-> [q \in 1..2 |-> Corr(r.ncv[a][q], n)]],
   means |-> NoMeans, cov |-> <<>>]
CombineOut(rw, i) ==
  [mv  |-> [a \in 1..Len(rw[1].mv) |-> Dual(rw[1].mv[a], rw[2].mv[a], rw[3].mv[a], i.nr, i.np)],
   dv  |-> [x \in 1..Len(rw[1].dv) |-> Dual(rw[1].dv[x], rw[2].dv[x], rw[3].dv[x], i.nr, i.np)],
   ncv |-> [a \in 1..Len(rw[1].ncv) |-> [q \in 1..2 |->
              Dual(rw[1].ncv[a][q], rw[2].ncv[a][q], rw[3].ncv[a][q], i.nr, i.np)]],
   means |-> NoMeans, cov |-> <<>>]
ExtractFrom(rw, i) == IF i.shape = 3 THEN CombineOut(rw, i) ELSE CorrectOut(rw, i)
ExtractOut(i) == ExtractFrom(RawLayers(i), i)

(* ---------------- means -------------------------------------------------- *)
\* nanmean over the last axis, repeated: the mean of a tree of depth d
NanMeanSeq(s) == LET v == SelectSeq(s, LAMBDA r : ~IsNaN(r)) IN
                 IF v = <<>> THEN RNaN ELSE RDivInt(RSum(v), Len(v))
PropMeanSeq(s) == IF \E x \in 1..Len(s) : IsNaN(s[x]) THEN RNaN ELSE RDivInt(RSum(s), Len(s))
RECURSIVE TreeMean(_, _)
TreeMean(x, d) == IF d = 0 THEN (IF x = NaN THEN RNaN ELSE <<x, 1>>)
                  ELSE NanMeanSeq([c \in 1..Len(x) |-> TreeMean(x[c], d - 1)])
RECURSIVE Leaves(_, _)
Leaves(x, d) == IF d = 0 THEN <<x>>
                ELSE IF x = <<>> THEN <<>>
                ELSE Leaves(Head(x), d - 1) \o Leaves(Tail(x), d)
FlatMean(x, d) == NanMeanSeq([c \in 1..Len(Leaves(x, d)) |->
                     IF Leaves(x, d)[c] = NaN THEN RNaN ELSE <<Leaves(x, d)[c], 1>>])
NValid(x, d) == Len(SelectSeq(Leaves(x, d), LAMBDA v : v # NaN))
\* every node's children that hold any value hold equally many
RECURSIVE Balanced(_, _)
Balanced(x, d) == d = 0 \/
   /\ \A c \in 1..Len(x) : Balanced(x[c], d - 1)
   /\ \A c1 \in 1..Len(x) : \A c2 \in 1..Len(x) :
         (NValid(x[c1], d - 1) > 0 /\ NValid(x[c2], d - 1) > 0) => NValid(x[c1], d - 1) = NValid(x[c2], d - 1)

\* value of model m in sample s ("np.mean(evaluations[i, j]) is a valid evaluation")
PerSample(i) == [s \in 1..Len(i.ev) |-> [m \in 1..i.k |-> TreeMean(i.ev[s][m], i.d - 2)]]
\* cv = 1: one sample, NaN-aware mean over folds / subjects.
\* cv = 2: samples whose value is NaN (marked invalid by the evaluators, for all models at once)
\*         are left out, the others are averaged.
MeansFrom(ps, i) ==
  IF i.cv = 1 THEN [m \in 1..i.k |-> ps[1][m]]
  ELSE LET ok == SelectSeq([s \in 1..Len(ps) |-> s], LAMBDA s : ~IsNaN(ps[s][1])) IN
       [m \in 1..i.k |-> IF ok = <<>> THEN RNaN ELSE PropMeanSeq([x \in 1..Len(ok) |-> ps[ok[x]][m]])]
MeansOf(i) == MeansFrom(PerSample(i), i)
\* cv = 1 (fixed / crossvalidation): one sample, 3-d array; the mean is taken per model, so any NaN pattern
\* is inside the contract - a model without a single value has the mean NaN and leaves the others alone.
\* cv = 2: the NaN status of a sample's value must be the same for every model (what every evaluator writes).
Admissible(i) == LET ps == PerSample(i) IN
   IF i.cv = 1 THEN Len(i.ev) = 1 /\ i.d = 3
   ELSE \A s \in 1..Len(ps) : \A m \in 1..i.k : IsNaN(ps[s][m]) = IsNaN(ps[s][1])
MeansOutRec(ms) == [mv |-> <<>>, dv |-> <<>>, ncv |-> <<>>, means |-> ms, cov |-> <<>>]

(* ---------------- fixed evaluation ---------------------------------------- *)
\* eval_fixed stores cov(evaluations, ddof=0) / n and passes n_rdm = n, n_pattern = None, dof = n - 1.
\* With S_a = sum_s e[a][s], P_ab = sum_s e[a][s] e[b][s], Q_ab = n P_ab - S_a S_b:
\*   cov(ddof=0)_ab = Q_ab / n^2, stored = Q_ab / n^3, after n/(n-1): Q_ab / (n^2 (n-1)) = cov(ddof=1)/n.
EffEv(i) == [m \in 1..i.k |-> [s \in 1..i.n |-> i.base[m][s] + (IF m = i.who THEN ISum(i.hist) ELSE 0)]]
FixedQ(i) == LET e == EffEv(i) IN
   [a \in 1..i.k |-> [b \in 1..i.k |->
      i.n * ISum([s \in 1..i.n |-> e[a][s] * e[b][s]]) - ISum(e[a]) * ISum(e[b])]]
FixedFrom(q, i) ==
  LET r == RawOf(q, i.k, FALSE)  n == i.n  D == (n - 1) * n * n * n  e == EffEv(i) IN
  [mv  |-> [a \in 1..i.k |-> <<n * r.mv[a], D>>],
   dv  |-> [x \in 1..Len(r.dv) |-> <<n * r.dv[x], D>>],
   ncv |-> [a \in 1..i.k |-> [z \in 1..2 |-> <<n * r.ncv[a][z], D>>]],
   means |-> [a \in 1..i.k |-> <<ISum(e[a]), n>>],
   cov |-> [a \in 1..i.k |-> [b \in 1..i.k |-> <<q[a][b], n * n * n>>]]]

(* ---------------- permuting the models ------------------------------------ *)
Perms(k) == {p \in [1..k -> 1..k] : {p[a] : a \in 1..k} = 1..k}
IdPerm(k) == [a \in 1..k |-> a]
Ext(p, M) == [a \in 1..M |-> IF a <= Len(p) THEN p[a] ELSE a]     \* ceiling rows stay where they are
PermMat(c, e) == [a \in 1..Len(c) |-> [b \in 1..Len(c) |-> c[e[a]][e[b]]]]
PermInp(i, p) ==
  CASE i.kind = "var" ->
         LET M == IF i.nc THEN i.k + 2 ELSE i.k   e == Ext(p, M) IN
         [i EXCEPT !.cov = CASE i.shape = 0 -> i.cov
                             [] i.shape = 1 -> [a \in 1..M |-> i.cov[e[a]]]
                             [] i.shape = 2 -> PermMat(i.cov, e)
                             [] i.shape = 3 -> [l \in 1..3 |-> PermMat(i.cov[l], e)]]
    [] i.kind = "means" -> [i EXCEPT !.ev = [s \in 1..Len(i.ev) |-> [m \in 1..i.k |-> i.ev[s][p[m]]]]]
    [] i.kind = "fixed" -> [i EXCEPT !.base = [m \in 1..i.k |-> i.base[p[m]]]]
PermOut(o, p, k) ==
  [mv  |-> [a \in 1..Len(o.mv) |-> o.mv[p[a]]],
   dv  |-> [x \in 1..Len(o.dv) |-> LET pr == PairAt(k, x)  a == p[pr[1]]  b == p[pr[2]] IN
                                   o.dv[Cidx(k, Min2(a, b), Max2(a, b))]],
   ncv |-> [a \in 1..Len(o.ncv) |-> o.ncv[p[a]]],
   means |-> [a \in 1..Len(o.means) |-> o.means[p[a]]],
   cov |-> [a \in 1..Len(o.cov) |-> [b \in 1..Len(o.cov) |-> o.cov[p[a]][p[b]]]]]

(* ---------------- the stages ----------------------------------------------- *)
RawStage(i) == CASE i.kind = "var" -> RawLayers(i)
                 [] i.kind = "means" -> PerSample(i)
                 [] i.kind = "fixed" -> FixedQ(i)
OutStage(rw, i) == CASE i.kind = "var" -> ExtractFrom(rw, i)
                     [] i.kind = "means" -> MeansOutRec(MeansFrom(rw, i))
                     [] i.kind = "fixed" -> FixedFrom(rw, i)
Blank == [mv |-> <<>>, dv |-> <<>>, ncv |-> <<>>, means |-> <<>>, cov |-> <<>>]

Init ==
  /\ \/ \E g \in 1..Len(VarInputs) : \E c \in VarInputs[g] : \E a \in Ns : \E b \in Ns :
           inp = [kind |-> "var", shape |-> c.shape, k |-> c.k, nc |-> c.nc, cov |-> c.cov, nr |-> a, np |-> b]
     \/ \E g \in 1..Len(MeanInputs) : \E c \in MeanInputs[g] : inp = [kind |-> "means", cv |-> c.cv, d |-> c.d, k |-> c.k, ev |-> c.ev]
     \/ \E g \in 1..Len(FixedInputs) : \E c \in FixedInputs[g] : inp = [kind |-> "fixed", k |-> c.k, n |-> c.n, base |-> c.base, who |-> 0, hist |-> <<>>]
  /\ stage = "in" /\ raw = <<>> /\ out = Blank /\ prm = <<>>

Contrast == /\ stage = "in" /\ stage' = "raw" /\ raw' = RawStage(inp) /\ UNCHANGED <<inp, out, prm>>
Finish   == /\ stage = "raw" /\ stage' = "done" /\ out' = OutStage(raw, inp) /\ UNCHANGED <<inp, raw, prm>>
PermuteModels ==
  /\ DoPerm /\ stage = "done" /\ (inp.kind = "fixed" => inp.hist = <<>>)
  /\ \E p \in Perms(inp.k) \ {IdPerm(inp.k)} :
        /\ prm' = p /\ inp' = PermInp(inp, p)
        /\ raw' = RawStage(inp') /\ out' = OutStage(raw', inp') /\ stage' = "perm"
Shift ==
  /\ stage = "done" /\ inp.kind = "fixed" /\ Len(inp.hist) < ChainLen
  /\ \E w \in 1..inp.k : \E dl \in ShiftSteps :
        /\ (inp.who = 0 \/ inp.who = w)
        /\ inp' = [inp EXCEPT !.who = w, !.hist = Append(@, dl)]
        /\ raw' = RawStage(inp') /\ out' = OutStage(raw', inp') /\ stage' = "done" /\ UNCHANGED prm
Next == Contrast \/ Finish \/ PermuteModels \/ Shift
Spec == Init /\ [][Next]_vars

(* ---------------- theorems --------------------------------------------------- *)
\* clause c: for every contrast of a 3-stack, the combination never exceeds the two-factor
\* (double bootstrap) variance and never falls below a corrected single-factor variance that is
\* itself not above the two-factor variance.
DualBound ==
  (stage = "done" /\ inp.kind = "var" /\ inp.shape = 3) =>
     /\ \A a \in 1..Len(out.mv) : BoundOk(out.mv[a], raw[1].mv[a], raw[2].mv[a], raw[3].mv[a], inp.nr, inp.np)
     /\ \A x \in 1..Len(out.dv) : BoundOk(out.dv[x], raw[1].dv[x], raw[2].dv[x], raw[3].dv[x], inp.nr, inp.np)
     /\ \A a \in 1..Len(out.ncv) : \A q \in 1..2 :
           BoundOk(out.ncv[a][q], raw[1].ncv[a][q], raw[2].ncv[a][q], raw[3].ncv[a][q], inp.nr, inp.np)

Minor2(c, a, b) == c[a][a] >= 0 /\ c[b][b] >= 0 /\ c[a][a] * c[b][b] >= c[a][b] * c[a][b]
AllMinors(i, a, b) == \A l \in 1..Len(Layers(i)) : Minor2(Layers(i)[l], a, b)
\* is every 2x2 principal minor used by some contrast positive semi-definite (reported to the harness)
PsdInput(i) == LET M == IF i.nc THEN i.k + 2 ELSE i.k IN \A a \in 1..M : \A b \in 1..M : AllMinors(i, a, b)
PsdNonNeg ==
  (stage = "done" /\ inp.kind = "var") =>
     /\ \A a \in 1..inp.k : AllMinors(inp, a, a) => RNonNeg(out.mv[a])
     /\ \A x \in 1..Len(out.dv) : LET p == PairAt(inp.k, x) IN AllMinors(inp, p[1], p[2]) => RNonNeg(out.dv[x])
     /\ \A a \in 1..inp.k : \A q \in 1..2 :
           AllMinors(inp, a, IF inp.nc THEN inp.k + q ELSE a) => RNonNeg(out.ncv[a][q])
\* the variances of a fixed evaluation are sums of squares
FixedNonNeg == (stage = "done" /\ inp.kind = "fixed") =>
     /\ \A a \in 1..Len(out.mv) : RNonNeg(out.mv[a])
     /\ \A x \in 1..Len(out.dv) : RNonNeg(out.dv[x])

MeansAdmissible == inp.kind = "means" => Admissible(inp)
IterEqFlat == (stage = "done" /\ inp.kind = "means") =>
   \A s \in 1..Len(inp.ev) : \A m \in 1..inp.k :
      Balanced(inp.ev[s][m], inp.d - 2) =>
         LET a == TreeMean(inp.ev[s][m], inp.d - 2)  b == FlatMean(inp.ev[s][m], inp.d - 2) IN
         IF IsNaN(a) \/ IsNaN(b) THEN a = b ELSE REq(a, b)

ROutEq(a, b) == IF IsNaN(a) \/ IsNaN(b) THEN a = b ELSE REq(a, b)
OutEq(o1, o2) ==
  /\ Len(o1.mv) = Len(o2.mv) /\ \A a \in 1..Len(o1.mv) : ROutEq(o1.mv[a], o2.mv[a])
  /\ Len(o1.dv) = Len(o2.dv) /\ \A a \in 1..Len(o1.dv) : ROutEq(o1.dv[a], o2.dv[a])
  /\ Len(o1.ncv) = Len(o2.ncv) /\ \A a \in 1..Len(o1.ncv) : \A q \in 1..2 : ROutEq(o1.ncv[a][q], o2.ncv[a][q])
  /\ Len(o1.means) = Len(o2.means) /\ \A a \in 1..Len(o1.means) : ROutEq(o1.means[a], o2.means[a])
  /\ Len(o1.cov) = Len(o2.cov)
  /\ \A a \in 1..Len(o1.cov) : \A b \in 1..Len(o1.cov) : ROutEq(o1.cov[a][b], o2.cov[a][b])
\* clause f on the definition: the outputs for the permuted input are the permuted outputs
PermEquivariant == [][stage' = "perm" => OutEq(out', PermOut(out, prm', inp.k))]_vars
\* adding a constant to every subject's evaluation of one model changes that model's mean by the
\* constant and no variance at all
ShiftKeepsVar ==
  [][(stage = "done" /\ stage' = "done" /\ inp.kind = "fixed") =>
        /\ out'.mv = out.mv /\ out'.dv = out.dv /\ out'.ncv = out.ncv /\ out'.cov = out.cov
        /\ \A a \in 1..inp.k :
              out'.means[a][1] = out.means[a][1] +
                 (IF a = inp'.who THEN inp.n * inp'.hist[Len(inp'.hist)] ELSE 0)]_vars

(* ---------------- emission of test vectors (S -> I) -------------------------- *)
Terminal == stage = "done" /\ (inp.kind = "fixed" => Len(inp.hist) = ChainLen)
Emit == /\ (Terminal /\ (EmitMod = 1 \/ RandomElement(1..EmitMod) = 1)) =>
             PrintT(ToJson([inp |-> inp, exp |-> out,
                            psd |-> IF inp.kind = "var" THEN PsdInput(inp) ELSE TRUE]))
        \* witnesses that PermuteModels / PermEquivariant were exercised (counted by the harness)
        /\ (stage = "perm" /\ (inp.kind = "var" => inp.nr = 0 /\ inp.np = 0)) =>
             PrintT(ToJson([permuted |-> prm, kind |-> inp.kind]))
=============================================================================
