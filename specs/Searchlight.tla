----------------------------- MODULE Searchlight -----------------------------
(***************************************************************************)
(* Volume searchlights of rsatoolbox.util.searchlight (property C19).      *)
(*                                                                         *)
(* Integer geometry.  A voxel is a triple <<x,y,z>> of a volume of shape   *)
(* <<nx,ny,nz>> (0-based).  A radius is a rational <<rn,rd>> or the square *)
(* root of a rational <<k,m,1>>; voxel v is                                *)
(* in the searchlight of centre c iff d(c,v) < r, i.e. iff                 *)
(*        rd^2 * d2(c,v) < rn^2          (for r = m/2 : 4*d2 < m^2)        *)
(* - STRICTLY below the radius, only in-volume voxels.  Linear indices are *)
(* C-order ravel indices of the mask shape (numpy.ravel_multi_index).      *)
(*                                                                         *)
(* Accepted centres (get_volume_searchlight): the non-zero mask voxels in  *)
(* numpy.nonzero order (= ascending linear index) whose searchlight S      *)
(* satisfies |S cap mask| / |S| >= threshold (code: mask[S].mean() >=      *)
(* threshold; docstring "proportion of sphere voxels >= threshold"):       *)
(*        |S cap mask| * td >= tn * |S|.                                   *)
(* The denominator counts in-volume sphere voxels only (a sphere clipped   *)
(* by the volume boundary is NOT penalised).                               *)
(*                                                                         *)
(* Sub-models (selected by INIT/NEXT in the configuration):                *)
(*   Vol   all masks of small volumes x radii x thresholds, stages of the  *)
(*         code Scan -> Filter -> Ravel; theorems on the definition; Emit. *)
(*   Topo  structured mask topologies (holes, shells, disconnected slabs,  *)
(*         single voxels, checkerboards, balls) on larger volumes; the     *)
(*         stages / theorems / emission of Vol.                            *)
(*   Walk  random walks over masks, radii, thresholds for tlc -simulate;   *)
(*         WalkMonotone (a growing mask never loses a centre).             *)
(*   Nb    one centre of a volume: _get_searchlight_neighbors.             *)
(*   Big   a few large masks (to cross the chunking limit); Emit.          *)
(*   Chunk get_searchlight_RDMs as a loop over Chunks(n) writing per-centre*)
(*         results into the output array; ChunkedIsDirect.                 *)
(*   Sch   get_searchlight_RDMs -> Select (the object, a re-ordering or a  *)
(*         subset of it) -> evaluate_models_searchlight: Dispatch /        *)
(*         Complete(w) / Collect in every interleaving; ResultOrder.       *)
(***************************************************************************)
EXTENDS Integers, Sequences, FiniteSets, TLC, SequencesExt, FiniteSetsExt, Functions, Json

CONSTANTS Shapes,       \* Vol: set of shapes <<nx,ny,nz>> whose masks are ALL enumerated
          NbShapes,     \* Nb : set of shapes, every centre enumerated
          Radii,        \* set of radii <<num,den>>
          Thresholds,   \* set of thresholds <<num,den>>
          BigCases,     \* Big: set of <<shape, holeMod, radius, threshold>>
          NChunk,       \* number of chunks (100 in the code)
          ChunkLimit,   \* chunking applies iff n > ChunkLimit (1000 in the code)
          ChunkNs,      \* Chunk: numbers of centres to run the chunk loop for
          Workers,      \* Sch: number of workers
          Tasks,        \* Sch: number of tasks (= searchlight centres)
          CollectBy,    \* "index" (joblib's contract) | "completion" | "origindex" (negative controls)
          EmitMod       \* Vol: emit one terminal state in EmitMod

VARIABLES geo,          \* state of the geometric / chunking sub-models (a record)
          sch           \* state of the schedule sub-model (a record)
vars == <<geo, sch>>
Off == [off |-> TRUE]

(* ------------------------------ geometry -------------------------------- *)
Abs(a) == IF a < 0 THEN -a ELSE a
NVox(s) == s[1] * s[2] * s[3]
Vox(s) == (0..s[1]-1) \X (0..s[2]-1) \X (0..s[3]-1)
Ravel(s, v) == (v[1] * s[2] + v[2]) * s[3] + v[3]               \* numpy C order
Unravel(s, k) == <<k \div (s[2] * s[3]), (k \div s[3]) % s[2], k % s[3]>>
LinSet(s) == 0..NVox(s)-1
D2(a, b) == (a[1]-b[1])*(a[1]-b[1]) + (a[2]-b[2])*(a[2]-b[2]) + (a[3]-b[3])*(a[3]-b[3])
\* A radius is <<rn, rd>> (the rational rn/rd) or <<k, m, 1>> (the IRRATIONAL sqrt(k/m): the float a user gets
\* from numpy.sqrt; lattice points at squared distance exactly k/m are then at distance == radius and must be
\* excluded).  Rsq(r) = r^2 as <<num, den>>; all comparisons are made on squares, exactly.
Rsq(r) == IF Len(r) = 3 THEN <<r[1], r[2]>> ELSE <<r[1] * r[1], r[2] * r[2]>>
RadLeq(r1, r2) == Rsq(r1)[1] * Rsq(r2)[2] <= Rsq(r2)[1] * Rsq(r1)[2]         \* r1 <= r2
InSphere(c, v, r) == Rsq(r)[2] * D2(c, v) < Rsq(r)[1]            \* d < r, exact
Near(a, b, r) == Rsq(r)[2] * (a - b) * (a - b) < Rsq(r)[1]       \* |a-b| < r  (the code's pre-filter)

\* the definition
Neighbours(c, r, s) == {v \in Vox(s) : InSphere(c, v, r)}
\* the code: bounding box first, distance test on the box only
Box(c, r, s) == {x \in 0..s[1]-1 : Near(x, c[1], r)} \X {y \in 0..s[2]-1 : Near(y, c[2], r)}
                \X {z \in 0..s[3]-1 : Near(z, c[3], r)}
NeighboursCode(c, r, s) == {v \in Box(c, r, s) : InSphere(c, v, r)}
\* order in which the code lists them: meshgrid(x, y, z) with 'xy' indexing, ravelled: y slowest, z fastest
MeshKey(s, v) == (v[2] * s[1] + v[1]) * s[3] + v[3]
NbSeq(c, r, s) == SetToSortSeq(NeighboursCode(c, r, s), LAMBDA a, b : MeshKey(s, a) < MeshKey(s, b))
LinOf(s, S) == {Ravel(s, v) : v \in S}
SortedSeq(S) == SetToSortSeq(S, <)

\* in-mask fraction >= threshold   (mask = set of linear indices of the non-zero voxels)
InMask(s, mask, S) == Cardinality({v \in S : Ravel(s, v) \in mask})
GoodNb(s, mask, S, t) == InMask(s, mask, S) * t[2] >= t[1] * Cardinality(S)
Good(s, mask, c, r, t) == Ravel(s, c) \in mask /\ GoodNb(s, mask, NeighboursCode(c, r, s), t)
\* accepted centres as linear indices, in numpy.nonzero (ascending) order
GoodCentres(s, mask, r, t) == SortedSeq({k \in mask : Good(s, mask, Unravel(s, k), r, t)})

(* --------------------------- Vol: stages of the code -------------------- *)
VolInput(s, m, r, t) == [kind |-> "vol", shape |-> s, mask |-> m, rad |-> r, thr |-> t, stage |-> "input",
                         cand |-> <<>>, centres |-> <<>>, neigh |-> <<>>]
VolInit == /\ sch = Off
           /\ \E s \in Shapes : \E m \in SUBSET LinSet(s) : \E r \in Radii : \E t \in Thresholds :
                 geo = VolInput(s, m, r, t)
\* centers = zip(*nonzero(mask)); neighbours of every candidate (coordinates, code order)
Scan == /\ geo.stage = "input"
        /\ geo' = [geo EXCEPT !.stage = "scanned",
                     !.cand = LET cs == SortedSeq(geo.mask) IN
                              [i \in 1..Len(cs) |-> LET c == Unravel(geo.shape, cs[i]) IN
                                                    <<c, NbSeq(c, geo.rad, geo.shape)>>]]
\* keep the candidates with mask[neighbours].mean() >= threshold
Filter == /\ geo.stage = "scanned"
          /\ geo' = [geo EXCEPT !.stage = "filtered",
                       !.cand = SelectSeq(geo.cand, LAMBDA p : GoodNb(geo.shape, geo.mask, ToSet(p[2]), geo.thr))]
\* ravel_multi_index of centres and of every neighbour list
RavelOut == /\ geo.stage = "filtered"
            /\ geo' = [geo EXCEPT !.stage = "done",
                         !.centres = [i \in 1..Len(geo.cand) |-> Ravel(geo.shape, geo.cand[i][1])],
                         !.neigh = [i \in 1..Len(geo.cand) |->
                                      [j \in 1..Len(geo.cand[i][2]) |-> Ravel(geo.shape, geo.cand[i][2][j])]]]
VolNext == (Scan \/ Filter \/ RavelOut) /\ UNCHANGED sch
Done == geo.stage = "done"

(* theorems about the definition, checked by TLC in every terminal state *)
RavelBijective == (Done /\ geo.mask = LinSet(geo.shape)) => /\ \A k \in LinSet(geo.shape) : Ravel(geo.shape, Unravel(geo.shape, k)) = k
                          /\ \A v \in Vox(geo.shape) : Unravel(geo.shape, Ravel(geo.shape, v)) = v
PipelineIsDefinition ==       \* the staged computation equals the closed-form definition
  Done => /\ geo.centres = GoodCentres(geo.shape, geo.mask, geo.rad, geo.thr)
          /\ \A i \in 1..Len(geo.centres) :
               /\ ToSet(geo.neigh[i]) = LinOf(geo.shape, Neighbours(Unravel(geo.shape, geo.centres[i]), geo.rad, geo.shape))
               /\ Len(geo.neigh[i]) = Cardinality(ToSet(geo.neigh[i]))           \* no voxel twice
\* (the next four do not depend on the mask: evaluated once per shape/radius, in the full-mask state)
Full == Done /\ geo.mask = LinSet(geo.shape)
PrefilterSound ==             \* the bounding box never cuts a voxel of the sphere
  Full => \A c \in Vox(geo.shape) : NeighboursCode(c, geo.rad, geo.shape) = Neighbours(c, geo.rad, geo.shape)
SphereSymmetric == Full => \A c, v \in Vox(geo.shape) :
                             (v \in Neighbours(c, geo.rad, geo.shape)) <=> (c \in Neighbours(v, geo.rad, geo.shape))
CentreInOwnSphere == Full => \A c \in Vox(geo.shape) : geo.rad[1] > 0 => c \in Neighbours(c, geo.rad, geo.shape)
CentresOk == Done => /\ \A i \in 1..Len(geo.centres) : geo.centres[i] \in geo.mask /\ geo.centres[i] \in ToSet(geo.neigh[i])
                     /\ \A i \in 1..Len(geo.centres)-1 : geo.centres[i] < geo.centres[i+1]
ThresholdMonotone ==          \* a stricter threshold never accepts more centres; a full mask accepts every voxel
  Done => /\ \A t \in Thresholds : (t[1] * geo.thr[2] >= geo.thr[1] * t[2]) =>
               ToSet(GoodCentres(geo.shape, geo.mask, geo.rad, t)) \subseteq ToSet(geo.centres)
          /\ (geo.mask = LinSet(geo.shape) => ToSet(geo.centres) = LinSet(geo.shape))
RadiusMonotone == Full => \A r \in Radii : RadLeq(r, geo.rad) =>
                             \A c \in Vox(geo.shape) : Neighbours(c, r, geo.shape) \subseteq Neighbours(c, geo.rad, geo.shape)

EmitVol == (geo.kind = "vol" /\ Done /\ (EmitMod = 1 \/ RandomElement(1..EmitMod) = 1)) =>
   PrintT(ToJson([kind |-> "vol", shape |-> geo.shape, mask |-> SortedSeq(geo.mask), rad |-> geo.rad,
                  thr |-> geo.thr, centres |-> geo.centres, neigh |-> geo.neigh]))

(* --------------------------- Topo: structured masks of larger volumes ---- *)
\* Mask topologies on volumes too large for exhaustive enumeration; p varies position / size.  The stages,
\* theorems and emission are those of Vol (kind "vol").
Border(s, v) == \E a \in 1..3 : v[a] = 0 \/ v[a] = s[a] - 1
Mid(s) == <<s[1] \div 2, s[2] \div 2, s[3] \div 2>>
TopoKinds == 1..10
TopoMask(s, kind, p) ==
  LET N == NVox(s)  U(k) == Unravel(s, k) IN
  CASE kind = 1 -> LinSet(s)                                                    \* full volume (touches every border)
    [] kind = 2 -> LinSet(s) \ {(7 * p + 3) % N, (11 * p + N \div 2) % N}       \* one or two single-voxel holes
    [] kind = 3 -> {(5 * p + N \div 2) % N}                                     \* a single voxel
    [] kind = 4 -> {k \in LinSet(s) : U(k)[1] <= p % 2 \/ U(k)[1] = s[1] - 1}   \* two slabs at opposite faces
    [] kind = 5 -> {k \in LinSet(s) : Border(s, U(k))}                          \* hollow shell
    [] kind = 6 -> {k \in LinSet(s) : ~Border(s, U(k))}                         \* interior only (never touches the border)
    [] kind = 7 -> {k \in LinSet(s) : (U(k)[1] + U(k)[2] + U(k)[3] + p) % 2 = 0} \* checkerboard (all isolated)
    [] kind = 8 -> {k \in LinSet(s) : U(k)[3] <= p % s[3]}                       \* slab on one face
    [] kind = 9 -> {k \in LinSet(s) : (k * 7 + (k \div 5) * 3 + p) % (p + 3) # 0} \* pseudo-random holes
    [] OTHER    -> {k \in LinSet(s) : D2(U(k), Mid(s)) <= p + 1}                 \* a ball around the middle voxel
TopoInit == /\ sch = Off
            /\ \E s \in Shapes : \E kind \in TopoKinds : \E p \in 0..3 : \E r \in Radii : \E t \in Thresholds :
                  geo = VolInput(s, TopoMask(s, kind, p), r, t)

(* --------------------------- Walk: random walks over masks (tlc -simulate) - *)
\* A behaviour toggles mask voxels and changes radius / threshold; after every change Solve recomputes the
\* result from the closed-form definition.  For `tlc -simulate` on volumes with 2^48 masks.  Theorem along
\* the walk: adding a voxel to the mask never removes an accepted centre (WalkMonotone).
WalkInit == /\ sch = Off
            /\ \E s \in Shapes : \E r \in Radii : \E t \in Thresholds : \E full \in BOOLEAN :
                  geo = [kind |-> "walk", shape |-> s, mask |-> IF full THEN LinSet(s) ELSE {}, rad |-> r, thr |-> t,
                         stage |-> "dirty", centres |-> <<>>, neigh |-> <<>>, prev |-> <<>>, grew |-> FALSE]
Toggle(k) == /\ geo.stage = "done"
             /\ geo' = [geo EXCEPT !.stage = "dirty", !.prev = geo.centres, !.grew = k \notin geo.mask,
                          !.mask = IF k \in geo.mask THEN geo.mask \ {k} ELSE geo.mask \cup {k}]
Retune == /\ geo.stage = "done"
          /\ \E r \in Radii : \E t \in Thresholds :
               geo' = [geo EXCEPT !.stage = "dirty", !.rad = r, !.thr = t, !.grew = FALSE]
Solve == /\ geo.stage = "dirty"
         /\ geo' = [geo EXCEPT !.stage = "done",
                      !.centres = GoodCentres(geo.shape, geo.mask, geo.rad, geo.thr)]
WalkNext == ((\E k \in LinSet(geo.shape) : Toggle(k)) \/ Retune \/ Solve) /\ UNCHANGED sch
WalkMonotone == (geo.kind = "walk" /\ geo.stage = "done" /\ geo.grew) => ToSet(geo.prev) \subseteq ToSet(geo.centres)
WalkOk == (geo.kind = "walk" /\ geo.stage = "done") =>
             /\ ToSet(geo.centres) \subseteq geo.mask
             /\ (geo.thr[1] = 0 => ToSet(geo.centres) = geo.mask)            \* threshold 0 accepts every mask voxel
EmitWalk == (geo.kind = "walk" /\ geo.stage = "done" /\ geo.centres # <<>> /\ RandomElement(1..EmitMod) = 1) =>
   PrintT(ToJson([kind |-> "vol", shape |-> geo.shape, mask |-> SortedSeq(geo.mask), rad |-> geo.rad, thr |-> geo.thr,
                  centres |-> geo.centres,
                  neigh |-> [i \in 1..Len(geo.centres) |->
                               SortedSeq(LinOf(geo.shape, NeighboursCode(Unravel(geo.shape, geo.centres[i]),
                                                                        geo.rad, geo.shape)))]]))

(* --------------------------- Nb: one centre ------------------------------ *)
NbInit == /\ sch = Off
          /\ \E s \in NbShapes : \E c \in {v \in Vox(s) : Ravel(s, v) % EmitMod = 0} : \E r \in Radii :
               geo = [kind |-> "nb", shape |-> s, centre |-> c, rad |-> r, stage |-> "input", nb |-> <<>>]
\* (computed in Next, not in Init: TLC evaluates initial states on a single thread)
NbNext == /\ geo.stage = "input"
          /\ geo' = [geo EXCEPT !.stage = "done", !.nb = NbSeq(geo.centre, geo.rad, geo.shape)]
          /\ UNCHANGED sch
NbOk == (geo.kind = "nb" /\ geo.stage = "done") => /\ ToSet(geo.nb) = Neighbours(geo.centre, geo.rad, geo.shape)
                           /\ Len(geo.nb) = Cardinality(ToSet(geo.nb))
                           /\ (geo.rad[1] > 0 => geo.centre \in ToSet(geo.nb))
                           \* number of voxels of an unclipped sphere is bounded by the box
                           /\ Len(geo.nb) <= Cardinality(Box(geo.centre, geo.rad, geo.shape))
EmitNb == (geo.kind = "nb" /\ geo.stage = "done") =>
   PrintT(ToJson([kind |-> "nb", shape |-> geo.shape, centre |-> geo.centre, rad |-> geo.rad, nb |-> geo.nb]))

(* --------------------------- chunking ------------------------------------ *)
\* np.split(arange(n), linspace(0, n, NChunk+1, dtype=int)[1:-1]) : boundary k is floor(k*n/NChunk)
Bound(n, k) == (k * n) \div NChunk
Chunks(n) == [k \in 1..NChunk |-> [i \in 1..(Bound(n, k) - Bound(n, k-1)) |-> Bound(n, k-1) + i - 1]]
ChunkPartition(n) ==          \* the chunks partition 0..n-1 and keep the order
  /\ FlattenSeq(Chunks(n)) = [i \in 1..n |-> i - 1]
  /\ \A k \in 1..NChunk : Len(Chunks(n)[k]) \in {n \div NChunk, n \div NChunk + 1}
  /\ (n >= NChunk => \A k \in 1..NChunk : Len(Chunks(n)[k]) >= 1)

\* abstract per-centre result: the RDM of centre position i (0-based) is the token Res(i); 0 = never written
Res(i) == i + 1
ChunkInit == /\ sch = Off
             /\ \E n \in ChunkNs : geo = [kind |-> "chunk", n |-> n, k |-> 0, stage |-> "loop",
                                          out |-> [i \in 1..n |-> 0]]
\* unchunked branch: one calc_rdm call over all centres in order
Direct == /\ geo.stage = "loop" /\ geo.n <= ChunkLimit
          /\ geo' = [geo EXCEPT !.stage = "done", !.out = [i \in 1..geo.n |-> Res(i - 1)]]
\* chunked branch: RDM[chunk, :] = calc_rdm(datasets of the chunk) for one chunk after the other
OneChunk == /\ geo.stage = "loop" /\ geo.n > ChunkLimit /\ geo.k < NChunk
            /\ geo' = [geo EXCEPT !.k = geo.k + 1,
                         !.out = [i \in 1..geo.n |->
                                    \* position i-1 belongs to chunk k+1 iff lo <= i-1 < hi; it then receives the
                                    \* (i-1-lo+1)-th row of the chunk's result, which is the RDM of centre lo+(i-lo)-1
                                    LET lo == Bound(geo.n, geo.k)  hi == Bound(geo.n, geo.k + 1) IN
                                    IF lo <= i - 1 /\ i - 1 < hi THEN Res(lo + (i - lo) - 1) ELSE geo.out[i]]]
Finish == /\ geo.stage = "loop" /\ geo.n > ChunkLimit /\ geo.k = NChunk
          /\ geo' = [geo EXCEPT !.stage = "done"]
ChunkNext == (Direct \/ OneChunk \/ Finish) /\ UNCHANGED sch
ChunkedIsDirect ==            \* every centre gets exactly its own RDM, chunked or not
  (geo.kind = "chunk" /\ geo.stage = "done") => geo.out = [i \in 1..geo.n |-> Res(i - 1)]
ChunkProgress ==              \* after k chunks exactly the first Bound(n,k) centres are written
  (geo.kind = "chunk" /\ geo.stage = "loop" /\ geo.n > ChunkLimit) =>
     \A i \in 1..geo.n : geo.out[i] = IF i <= Bound(geo.n, geo.k) THEN Res(i - 1) ELSE 0
ChunkInv == (geo.kind = "chunk" /\ geo.stage = "done") => ChunkPartition(geo.n)

(* --------------------------- Big: large masks ---------------------------- *)
Hole(k, mod) == mod > 0 /\ ((k * 7 + (k \div 10) * 3 + (k \div 100) * 5) % mod = 0)
\* mod > 0: pseudo-random holes; mod = 0: full volume; mod < 0: only the first -mod voxels (exact centre counts)
BigMask(s, mod) == IF mod < 0 THEN {k \in LinSet(s) : k < -mod} ELSE {k \in LinSet(s) : ~Hole(k, mod)}
BigInit == /\ sch = Off
           /\ \E b \in BigCases : geo = [kind |-> "big", shape |-> b[1], mask |-> BigMask(b[1], b[2]), rad |-> b[3],
                                         thr |-> b[4], stage |-> "input", centres |-> <<>>, neigh |-> <<>>]
BigCentres == /\ geo.stage = "input"
              /\ geo' = [geo EXCEPT !.stage = "centres",
                           !.centres = GoodCentres(geo.shape, geo.mask, geo.rad, geo.thr)]
BigNeigh == /\ geo.stage = "centres"
            /\ geo' = [geo EXCEPT !.stage = "done",
                         !.neigh = [i \in 1..Len(geo.centres) |->
                                      SortedSeq(LinOf(geo.shape, NeighboursCode(Unravel(geo.shape, geo.centres[i]),
                                                                               geo.rad, geo.shape)))]]
BigNext == (BigCentres \/ BigNeigh) /\ UNCHANGED sch
BigOk == (geo.kind = "big" /\ Done) =>
            /\ \A i \in 1..Len(geo.centres) : geo.centres[i] \in ToSet(geo.neigh[i])
            /\ (Len(geo.centres) > ChunkLimit => ChunkPartition(Len(geo.centres)))
EmitBig == (geo.kind = "big" /\ Done) =>
   PrintT(ToJson([kind |-> "big", shape |-> geo.shape, mask |-> SortedSeq(geo.mask),
                  rad |-> geo.rad, thr |-> geo.thr, centres |-> geo.centres, neigh |-> geo.neigh,
                  chunked |-> Len(geo.centres) > ChunkLimit,
                  chunksizes |-> IF Len(geo.centres) > ChunkLimit
                                 THEN [k \in 1..NChunk |-> Len(Chunks(Len(geo.centres))[k])] ELSE <<>>]))

(* --------------------------- Sch: parallel evaluation -------------------- *)
\* evaluate_models_searchlight: Parallel(n_jobs)(delayed(eval)(models, rdm_i) for rdm_i in sl_RDM).
\* Tasks are submitted in centre order; a free worker takes the next one; workers complete in any
\* order; the caller collects.  Result of task i is the token Res(i).
W == 1..Workers
\* Multi-step shape: get_searchlight_RDMs produces one RDM per centre (original positions 1..Tasks, kept by every
\* RDMs object in its 'index' descriptor); the caller may pass evaluate_models_searchlight that object or a
\* SELECTION / RE-ORDERING of it (subset('voxel_index', roi), sl[[..]], sl[perm]).  obj = the object passed in,
\* as the sequence of original positions of its elements.  Task p evaluates the p-th element OF THE OBJECT PASSED.
IdSel == [i \in 1..Tasks |-> i]
Selections == {IdSel,                                                   \* the fresh object
               [i \in 1..Tasks |-> Tasks + 1 - i],                       \* reversed
               [i \in 1..Tasks |-> (i % Tasks) + 1],                     \* rotated
               SelectSeq(IdSel, LAMBDA i : i % 2 = 0 \/ Tasks = 1)}      \* a region of interest (proper subset)
NT == Len(sch.obj)
SchInit == /\ geo = Off
           /\ sch = [obj |-> <<>>, next |-> 1, run |-> [w \in W |-> 0], fin |-> <<>>, out |-> <<>>]
Select == /\ sch.obj = <<>>
          /\ \E sel \in Selections : sel # <<>> /\ sch' = [sch EXCEPT !.obj = sel]
Dispatch(w) == /\ sch.obj # <<>> /\ sch.run[w] = 0 /\ sch.next <= NT
               /\ sch' = [sch EXCEPT !.run[w] = sch.next, !.next = sch.next + 1]
Complete(w) == /\ sch.run[w] # 0
               /\ sch' = [sch EXCEPT !.run[w] = 0, !.fin = Append(sch.fin, sch.run[w])]
\* result of task p: "index" / "completion": the RDM of the p-th element of the object passed (original centre
\* obj[p]); "origindex" (negative control, the fault of looking elements up by their 'index' descriptor): the
\* element whose ORIGINAL position is p, an error (0) if the object has none
Collect == /\ sch.obj # <<>> /\ sch.next = NT + 1 /\ \A w \in W : sch.run[w] = 0 /\ sch.out = <<>>
           /\ sch' = [sch EXCEPT !.out =
                 IF CollectBy = "index" THEN [p \in 1..NT |-> Res(sch.obj[p])]
                 ELSE IF CollectBy = "completion" THEN [k \in 1..NT |-> Res(sch.obj[sch.fin[k]])]
                 ELSE [p \in 1..NT |-> IF \E q \in 1..NT : sch.obj[q] = p THEN Res(p) ELSE 0]]
SchNext == (Select \/ (\E w \in W : Dispatch(w) \/ Complete(w)) \/ Collect) /\ UNCHANGED geo
SchSpec == SchInit /\ [][SchNext]_vars /\ WF_vars(SchNext)
CentreOrder == [p \in 1..NT |-> Res(sch.obj[p])]
\* one result per element of the object passed in, in ITS order, each the evaluation of that element's RDM
ResultOrder == (sch # Off /\ sch.out # <<>>) => sch.out = CentreOrder
SchSane == sch # Off => /\ Len(sch.fin) + Cardinality({w \in W : sch.run[w] # 0}) = sch.next - 1
                        /\ \A w1, w2 \in W : (w1 # w2 /\ sch.run[w1] # 0) => sch.run[w1] # sch.run[w2]
                        /\ Len(sch.fin) = Cardinality(ToSet(sch.fin))       \* every task completes at most once
\* out-of-order completion really occurs in the model (otherwise ResultOrder would be vacuous): checked
\* by asking TLC for a counterexample to "completion order is always submission order"
CompletionInOrder == sch # Off => \A k \in 1..Len(sch.fin) : sch.fin[k] = k
Collected == <>(sch.out # <<>>)
=============================================================================
