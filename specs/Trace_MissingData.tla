-------------------------- MODULE Trace_MissingData --------------------------
(***************************************************************************)
(* Implementation -> specification for MissingData (property C13).          *)
(* Calls of rsatoolbox.rdm.compare on NaN-bearing integer RDMs - those made *)
(* INSIDE real pattern-bootstrap evaluations (eval_bootstrap_pattern with   *)
(* the module-level name rsatoolbox.inference.evaluate.compare wrapped) and *)
(* direct calls on stacks whose masks are common or differ - are recorded   *)
(* by harness/missing.py:record_session and re-evaluated here on inputs     *)
(* LARGER than the exhaustive grid.  For every event                        *)
(*   - the class of the mask family is computed by ClassOf;                 *)
(*   - a raised error is explained only by a family with differing masks,   *)
(*     a returned value only by an aligned one (Parse / Misaligned);        *)
(*   - the returned matrix must be explained by the MASKED definition       *)
(*     MStat (sums over the kept entries only): rational measures exactly,  *)
(*     measures ending in a square root by                                  *)
(*         (q-1)^2 * aa*bb <= K^2 * ab^2 <= (q+1)^2 * aa*bb                 *)
(*     with q = round(|value| * K), in multi-limb integer arithmetic;       *)
(*   - whitened calls: class, shape and pairing are decided here, the exact *)
(*     kept block of V and the vectors u, v are printed for the kernel.     *)
(* MaskedIsDeleted and ErrorIffDiffering are evaluated on every state       *)
(* reached this way.  One behaviour per trace id; acceptance is printed.    *)
(***************************************************************************)
EXTENDS MissingData, IOUtils
VARIABLES tid, l
Traces == JsonDeserialize(IOEnv.TRACE_FILE)
K == 1000000

(* naturals beyond 32 bits: little-endian limbs base 10^4 (the same device as Trace_Compare) *)
BB == 10000
RECURSIVE BigNorm(_)
BigNorm(x) == IF x # <<>> /\ x[Len(x)] = 0 THEN BigNorm(SubSeq(x, 1, Len(x) - 1)) ELSE x
Big(n) == BigNorm(<<n % BB, (n \div BB) % BB, n \div (BB * BB)>>)
RECURSIVE BigAddC(_, _, _)
BigAddC(x, y, c) ==
  IF x = <<>> /\ y = <<>> THEN (IF c = 0 THEN <<>> ELSE <<c>>)
  ELSE LET xd == IF x = <<>> THEN 0 ELSE Head(x)
           yd == IF y = <<>> THEN 0 ELSE Head(y)
           s == xd + yd + c IN
       <<s % BB>> \o BigAddC(IF x = <<>> THEN x ELSE Tail(x), IF y = <<>> THEN y ELSE Tail(y), s \div BB)
BigAdd(x, y) == BigAddC(x, y, 0)
RECURSIVE BigMulD(_, _, _)
BigMulD(x, d, c) == IF x = <<>> THEN (IF c = 0 THEN <<>> ELSE <<c>>)
                    ELSE LET p == Head(x) * d + c IN <<p % BB>> \o BigMulD(Tail(x), d, p \div BB)
Shift(z) == IF z = <<>> THEN z ELSE <<0>> \o z
RECURSIVE BigMul(_, _)
BigMul(x, y) == IF y = <<>> \/ x = <<>> THEN <<>>
                ELSE BigAdd(BigNorm(BigMulD(x, Head(y), 0)), Shift(BigMul(x, Tail(y))))
RECURSIVE BigLeqFrom(_, _, _)
BigLeqFrom(x, y, i) == IF i = 0 THEN TRUE ELSE IF x[i] # y[i] THEN x[i] < y[i] ELSE BigLeqFrom(x, y, i - 1)
BigLeq(x, y) == IF Len(x) # Len(y) THEN Len(x) < Len(y) ELSE BigLeqFrom(x, y, Len(x))
BigSq(n) == BigMul(Big(n), Big(n))
ASSUME \A x \in {0, 7, 9999, 10000, 46340} : \A y \in {0, 3, 10001, 46340} :
          /\ BigMul(Big(x), Big(y)) = Big(x * y) /\ BigAdd(Big(x), Big(y)) = Big(x + y)
          /\ BigLeq(Big(x), Big(y)) = (x <= y)

RootRelation(q, N, aa, bb) ==
  LET D == BigMul(Big(aa), Big(bb))
      K2N2 == BigMul(BigSq(K), BigSq(N))
      lo == IF q >= 1 THEN q - 1 ELSE 0 IN
  /\ BigLeq(BigMul(BigSq(lo), D), K2N2)
  /\ BigLeq(K2N2, BigMul(BigSq(q + 1), D))

Explains(m, st, o) ==
  IF m \in CovMethods THEN TRUE
  ELSE IF m \in {"tau-a", "rho-a"}
  THEN o.ok /\ o.q = C!Abs(st.ab) /\ o.sg = C!Sign(st.ab)
  ELSE /\ o.q <= K + 1
       /\ RootRelation(o.q, C!Abs(st.ab), st.aa, st.bb)
       /\ (o.q >= 2 => o.sg = C!Sign(st.ab))
       /\ (o.q <= 1 => o.sg \in {0, C!Sign(st.ab)})

MaskSets(ms) == [r \in DOMAIN ms |-> Range(ms[r])]
EvClass(ev) == ClassOf(MaskSets(ev.ma), MaskSets(ev.mb))
InDomain(ev) ==
  /\ ev.m \in C!AllMethods \ C!BuresMethods
  /\ \A i \in DOMAIN ev.a : Len(ev.a[i]) = LEN
  /\ \A j \in DOMAIN ev.b : Len(ev.b[j]) = LEN
  /\ Aligned(EvClass(ev)) =>
        /\ \A i \in DOMAIN ev.a : AdmMasked(ev.m, ev.a[i], Range(ev.ma[i]))
        /\ \A j \in DOMAIN ev.b : AdmMasked(ev.m, ev.b[j], Range(ev.mb[j]))
\* error <=> differing masks : the only outcomes Parse / Misaligned allow
OutcomeOk(ev) == ev.err <=> ~Aligned(EvClass(ev))
ShapeOk(ev) == ev.err \/ (/\ Len(ev.out) = Len(ev.a)
                          /\ \A i \in DOMAIN ev.a : Len(ev.out[i]) = Len(ev.b))
Masked(ev) == [i \in DOMAIN ev.a |-> [j \in DOMAIN ev.b |-> MStat(ev.m, ev.a[i], ev.b[j], Range(ev.ma[1]))]]
ValuesOk(ev) == ev.err \/ LET R == Masked(ev) IN
                          \A i \in DOMAIN ev.a : \A j \in DOMAIN ev.b : Explains(ev.m, R[i][j], ev.out[i][j])
EvInp(ev) == MkCompare(ev.a, ev.b, ev.a, ev.b, MaskSets(ev.ma), MaskSets(ev.mb), ev.m, 0, "free", <<>>)

TInit == /\ tid \in 1..Len(Traces) /\ l = 1
         /\ inp = MkCompare(<<>>, <<>>, <<>>, <<>>, <<>>, <<>>, "cosine", 0, "free", <<>>)
         /\ pc = "in" /\ out = NoOut

TStep == /\ l >= 1 /\ l <= Len(Traces[tid])
         /\ LET ev == Traces[tid][l] IN
            IF InDomain(ev) /\ OutcomeOk(ev) /\ ShapeOk(ev) /\ ValuesOk(ev)
            THEN /\ inp' = EvInp(ev)
                 /\ pc' = "done"
                 /\ out' = IF ev.err THEN [NoOut EXCEPT !.err = TRUE]
                           ELSE [err |-> FALSE, da |-> DeleteStack(ev.a, MaskSets(ev.ma)),
                                 db |-> DeleteStack(ev.b, MaskSets(ev.mb)),
                                 res |-> [i \in DOMAIN ev.a |-> [j \in DOMAIN ev.b |->
                                            C!Stat(ev.m, Delete(ev.a[i], Range(ev.ma[i])), Delete(ev.b[j], Range(ev.mb[j])))]]]
                 /\ l' = l + 1
                 /\ ((~ev.err /\ ev.m \in CovMethods) =>
                        PrintT(ToJson([cov |-> tid, l |-> l, V |-> VSub(ev.sg, Range(ev.ma[1])), uv |-> Masked(ev)])))
                 /\ (l = Len(Traces[tid]) => PrintT(ToJson([accept |-> tid])))
            ELSE /\ PrintT(ToJson([reject |-> tid, l |-> l, m |-> ev.m, cls |-> EvClass(ev),
                                   enabled |-> InDomain(ev),
                                   outcome |-> InDomain(ev) /\ OutcomeOk(ev),
                                   shape |-> InDomain(ev) /\ OutcomeOk(ev) /\ ShapeOk(ev),
                                   expected |-> IF InDomain(ev) /\ Aligned(EvClass(ev)) THEN Masked(ev) ELSE <<>>]))
                 /\ l' = 0 /\ UNCHANGED <<inp, pc, out>>
         /\ UNCHANGED tid
TSpec == TInit /\ [][TStep]_<<vars, tid, l>>
=============================================================================
