------------------------------ MODULE Transform ------------------------------
(***************************************************************************)
(* RDM transforms (rsatoolbox.rdm.transform: rank_transform,               *)
(* positive_transform, sqrt_transform, minmax_transform,                   *)
(* geotopological_transform, geodesic_transform, transform) as exact       *)
(* definitions over integers and rationals (C17 clauses a - g; clause h,   *)
(* the invariance of the measures, lives in Compare.tla).                  *)
(*                                                                         *)
(* A stack x is a sequence of condensed RDM vectors over NC conditions;    *)
(* a missing entry is the mark NaNv.  Every output entry is a rational     *)
(* <<num, den>>, with <<0, 0>> for NaN and <<1, 0>> for +infinity:         *)
(*   rank      doubled rank / 2 among the non-missing entries of the same  *)
(*             RDM; methods average, min, max, dense, ordinal              *)
(*   positive  max(x, 0)                                                   *)
(*   sqrt      stated by the relation out^2 = max(x, 0), out >= 0 : the    *)
(*             specification emits the square, the harness checks the      *)
(*             relation                                                    *)
(*   minmax    (x - min) / (max - min) per RDM                             *)
(*   geotopo   quantile thresholds by numpy's linear interpolation rule    *)
(*             (position q*(N-1) in the sorted values, as rationals) and   *)
(*             the three-branch map 0 | (x-lo)/(up-lo) | 1.  The           *)
(*             thresholds are taken over the values the transform is given *)
(*             (Pool): the property says "its two quantile thresholds"     *)
(*             without fixing per-RDM or per-stack; the per-stack reading  *)
(*             is the weaker demand and the one modelled (see notes)       *)
(*   geodesic  shortest-path length (Floyd-Warshall, exact) in the graph   *)
(*             on the conditions whose edge weights are the min-max        *)
(*             values, WITHOUT the maximal edges (weight 1) and WITH the   *)
(*             minimal ones (weight 0)                                     *)
(*   custom    the given function applied to the vectors                   *)
(* Ghost state: the measure-name class of the source and whether the       *)
(* result must carry an updated name; descriptors are copied (checked by   *)
(* projection in the harness).                                             *)
(*                                                                         *)
(* Init picks an admissible (stack, transform) pair, Apply computes the    *)
(* result; the theorems below are invariants of the result states; Emit    *)
(* prints every result state as a test vector.                             *)
(***************************************************************************)
EXTENDS Integers, Sequences, FiniteSets, TLC, Functions, FiniteSetsExt, SequencesExt, Json

CONSTANTS NC,          \* number of conditions
          Stacks,      \* the set of stacks (sequences of vectors) explored
          Transforms,  \* set of transform records [n, m, q]
          MeasClasses, \* subset of {"none", "plain", "sqeuclid", "ranked"}
          NaNv,        \* the mark of a missing entry (far outside every value that can arise)
          MaxChain,    \* transforms applied in sequence (1 = a single transform)
          ChainTransforms,  \* the transforms that may follow another one
          GenMode,     \* TRUE: the stack is not drawn from Stacks but built entry by entry by GenStep
                       \* (random walks of `tlc -simulate` over stacks far too many to enumerate)
          GenNR, GenVals,   \* ... with 1..GenNR RDMs over these values
          EmitMod

\* x is the INPUT OF THE CURRENT STEP in integer representation: the true values are x / sc  (sc = 1 and
\* x = src for the first transform); src is the stack the chain started from, chain the transforms
\* applied before tr, prev the input of the previous step
VARIABLES x, sc, src, chain, prev, tr, meas, pc, out, nr, nanok
vars == <<x, sc, src, chain, prev, tr, meas, pc, out, nr, nanok>>

T(n, m, q) == [n |-> n, m |-> m, q |-> q]
NaNR == <<0, 0>>
InfR == <<1, 0>>
INF == 1000000
Abs(v) == IF v < 0 THEN -v ELSE v
Min2(p, q) == IF p < q THEN p ELSE q
Max2(p, q) == IF p < q THEN q ELSE p
IsNaN(v) == v = NaNv
CLen(n) == (n * (n - 1)) \div 2
L == CLen(NC)
Cidx(n, p, q) == (p - 1) * n - ((p - 1) * p) \div 2 + (q - p)
CidxU(p, q) == Cidx(NC, Min2(p, q), Max2(p, q))

Present(v) == {k \in 1..Len(v) : ~IsNaN(v[k])}
HasNaN(v) == Present(v) # 1..Len(v)
VMin(v) == Min({v[k] : k \in Present(v)})
VMax(v) == Max({v[k] : k \in Present(v)})
IsConstant(v) == VMin(v) = VMax(v)

(* ---------------- rank --------------------------------------------------- *)
\* doubled ranks among the non-missing entries
RankAt(v, k, method) ==
  LET P == Present(v)
      less == Cardinality({j \in P : v[j] < v[k]})
      eq == Cardinality({j \in P : v[j] = v[k]})
      eqBefore == Cardinality({j \in P : v[j] = v[k] /\ j < k})
      distinctLess == Cardinality({v[j] : j \in {i \in P : v[i] < v[k]}}) IN
  CASE method = "average" -> 2 * less + eq + 1
    [] method = "min"     -> 2 * (less + 1)
    [] method = "max"     -> 2 * (less + eq)
    [] method = "dense"   -> 2 * (distinctLess + 1)
    [] method = "ordinal" -> 2 * (less + eqBefore + 1)
RankVec(v, method) == [k \in 1..Len(v) |-> IF IsNaN(v[k]) THEN NaNR ELSE <<RankAt(v, k, method), 2>>]

(* ---------------- element-wise maps -------------------------------------- *)
Pos(v) == IF v < 0 THEN 0 ELSE v
\* (c is the scale of the integer representation: the true value of entry v is v / c)
PosVec(v, c) == [k \in 1..Len(v) |-> IF IsNaN(v[k]) THEN NaNR ELSE <<Pos(v[k]), c>>]
\* custom functions: 1: 2x+1   2: x^2   3: -x   4: the vector reversed (not element-wise)
CustomVec(v, f, c) ==
  [k \in 1..Len(v) |->
     LET e == IF f = 4 THEN v[Len(v) + 1 - k] ELSE v[k] IN
     IF IsNaN(e) THEN NaNR
     ELSE CASE f = 1 -> <<2 * e + c, c>> [] f = 2 -> <<e * e, c * c>> [] f = 3 -> <<-e, c>> [] f = 4 -> <<e, c>>]

(* ---------------- minmax ------------------------------------------------- *)
MinMaxVec(v) == LET lo == VMin(v)  d == VMax(v) - VMin(v) IN [k \in 1..Len(v) |-> <<v[k] - lo, d>>]

(* ---------------- geo-topological ---------------------------------------- *)
Pool(s) == FlattenSeq(s)                      \* the values the transform is given
Sorted(s) == SortSeq(s, LAMBDA p, q : p < q)
\* numpy.quantile(values, qn/qd), linear interpolation: <<numerator, qd>>
Quantile(vals, qn, qd) ==
  LET s == Sorted(vals)  n == Len(s)
      pos == qn * (n - 1)  lo == pos \div qd  rem == pos % qd IN
  IF rem = 0 THEN <<qd * s[lo + 1], qd>>
  ELSE <<qd * s[lo + 1] + rem * (s[lo + 2] - s[lo + 1]), qd>>
\* q = <<ln, ld, un, ud>> : low = ln/ld, up = un/ud
GeoLo(s, q) == Quantile(Pool(s), q[1], q[2])
GeoUp(s, q) == Quantile(Pool(s), q[3], q[4])
\* up-threshold minus low-threshold, times the two denominators
GeoSpan(s, q) == GeoUp(s, q)[1] * q[2] - GeoLo(s, q)[1] * q[4]
GeoVec(v, lo, up) ==
  LET span == up[1] * lo[2] - lo[1] * up[2] IN
  [k \in 1..Len(v) |->
     IF v[k] * lo[2] < lo[1] THEN <<0, 1>>
     ELSE IF v[k] * up[2] > up[1] THEN <<1, 1>>
     ELSE <<(v[k] * lo[2] - lo[1]) * up[2], span>>]        \* (span > 0 here: see Admissible)
\* no entry sits on the common threshold when the two thresholds coincide (l = u: a step function,
\* undefined exactly at the threshold)
OffThreshold(s, q) == LET lo == GeoLo(s, q) IN \A i \in 1..Len(s) : \A k \in 1..Len(s[i]) : s[i][k] * lo[2] # lo[1]

(* ---------------- geodesic ----------------------------------------------- *)
\* edge weights: numerators of the min-max values; the common denominator is max - min
W(v, i, j) == v[CidxU(i, j)] - VMin(v)
\* keepZero = TRUE is the definition; FALSE drops the zero-weight edges too: NOT the definition,
\* only used to give one known deviation of the implementation its own violation key
Edge(v, i, j, keepZero) == LET w == W(v, i, j)  d == VMax(v) - VMin(v) IN
                           IF w < d /\ (keepZero \/ w > 0) THEN w ELSE INF
\* Floyd-Warshall; Force turns the lazily evaluated function constructors of TLC into tuples so that
\* every relaxation step is computed once
Force(f) == f \o <<>>
FWStep(d, k) == Force([i \in 1..NC |-> Force([j \in 1..NC |-> Min2(d[i][j], Min2(INF, d[i][k] + d[k][j]))])])
RECURSIVE FW(_, _, _)
FW(v, k, keepZero) ==
  IF k = 0 THEN Force([i \in 1..NC |-> Force([j \in 1..NC |-> IF i = j THEN 0 ELSE Edge(v, i, j, keepZero)])])
  ELSE FWStep(FW(v, k - 1, keepZero), k)
\* the definition FW has to meet: the minimum over all simple paths of kept edges
SimplePaths(p, q) == {s \in UNION {[1..n -> (1..NC) \ {p, q}] : n \in 0..(NC - 2)} :
                        \A i, j \in DOMAIN s : i # j => s[i] # s[j]}
PathLen(v, p, q, s) == LET nodes == <<p>> \o s \o <<q>> IN
                       Min2(INF, SumFunction([i \in 1..(Len(nodes) - 1) |-> Edge(v, nodes[i], nodes[i + 1], TRUE)]))
Pairs == [k \in 1..L |-> CHOOSE pq \in (1..NC) \X (1..NC) : pq[1] < pq[2] /\ Cidx(NC, pq[1], pq[2]) = k]
GeodesicVec(v, keepZero) ==
  LET d == FW(v, NC, keepZero)  den == VMax(v) - VMin(v) IN
  [k \in 1..L |-> IF d[Pairs[k][1]][Pairs[k][2]] >= INF THEN InfR ELSE <<d[Pairs[k][1]][Pairs[k][2]], den>>]

(* ---------------- the transforms ----------------------------------------- *)
Apply(t, s, c) ==
  CASE t.n = "rank"     -> [i \in 1..Len(s) |-> RankVec(s[i], t.m)]
    [] t.n = "positive" -> [i \in 1..Len(s) |-> PosVec(s[i], c)]
    [] t.n = "sqrt"     -> [i \in 1..Len(s) |-> PosVec(s[i], c)]       \* the SQUARE of the result
    [] t.n = "custom"   -> [i \in 1..Len(s) |-> CustomVec(s[i], t.q[1], c)]
    [] t.n = "minmax"   -> [i \in 1..Len(s) |-> MinMaxVec(s[i])]
    [] t.n = "geotopo"  -> LET lo == GeoLo(s, t.q)  up == GeoUp(s, t.q) IN [i \in 1..Len(s) |-> GeoVec(s[i], lo, up)]
    [] t.n = "geodesic" -> [i \in 1..Len(s) |-> GeodesicVec(s[i], TRUE)]

\* admissible domain (nothing more is demanded of the implementation):
\* NaN marks only for rank and the element-wise maps; minmax / geodesic per RDM non-constant;
\* geotopo: the two thresholds differ, or they coincide and no entry sits on the threshold
Admissible(t, s) ==
  CASE t.n \in {"rank", "positive", "sqrt", "custom"} -> TRUE
    [] t.n \in {"minmax", "geodesic"} -> \A i \in 1..Len(s) : ~HasNaN(s[i]) /\ ~IsConstant(s[i])
    [] t.n = "geotopo" -> /\ \A i \in 1..Len(s) : ~HasNaN(s[i])
                          /\ (GeoSpan(s, t.q) > 0 \/ (GeoSpan(s, t.q) = 0 /\ OffThreshold(s, t.q)))

\* the name of the dissimilarity measure must be updated (a rank transform of ranks is already named)
MustRename(t, mc) == ~(t.n = "rank" /\ mc = "ranked")

\* the measure-name class is spread over the inputs (a fixed function of the stack) instead of
\* multiplying the state space
MeasPick(s) == LET h == SumFunction([i \in 1..Len(s) |-> SumFunction([k \in 1..Len(s[i]) |-> Abs(s[i][k]) * k])])
                   ms == SetToSeq(MeasClasses) IN ms[(h % Len(ms)) + 1]
(* ---------------- chains: the result of a step as the integer input of the next one -------- *)
RECURSIVE GCDt(_, _)
GCDt(p, q) == IF q = 0 THEN p ELSE GCDt(q, p % q)
LCM(p, q) == (p \div GCDt(p, q)) * q
RECURSIVE LCMSet(_)
LCMSet(S) == IF S = {} THEN 1 ELSE LET e == CHOOSE e \in S : TRUE IN LCM(e, LCMSet(S \ {e}))
Finite(o) == \A i \in 1..Len(o) : \A k \in 1..Len(o[i]) : o[i][k] # InfR
\* a further transform can follow unless the result holds +inf, or is stated only through its square
Continuable(t, o) == t.n # "sqrt" /\ Finite(o)
Dens(o) == {o[i][k][2] : i \in 1..Len(o), k \in 1..L} \ {0}
RECURSIVE GCDSet(_)
GCDSet(S) == IF S = {} THEN 0 ELSE LET e == CHOOSE e \in S : TRUE IN GCDt(e, GCDSet(S \ {e}))
\* common denominator, then the common factor of all numerators and the denominator is divided out so
\* that the integers stay small along a chain
ToInt(o) == LET d0 == LCMSet(Dens(o))
                num(i, k) == o[i][k][1] * (d0 \div o[i][k][2])
                g == GCDSet({Abs(num(p[1], p[2])) : p \in {q \in (1..Len(o)) \X (1..L) : o[q[1]][q[2]] # NaNR}} \cup {d0}) IN
            [y |-> [i \in 1..Len(o) |-> [k \in 1..Len(o[i]) |->
                      IF o[i][k] = NaNR THEN NaNv ELSE num(i, k) \div g]],
             d |-> d0 \div g]
\* (32-bit integers: the theorems multiply numerators with denominators)
Small(r) == r.d <= 300 /\ \A i \in 1..Len(r.y) : \A k \in 1..Len(r.y[i]) : IsNaN(r.y[i][k]) \/ Abs(r.y[i][k]) <= 300

NoTr == T("none", "", <<>>)
NoPrev == [x |-> <<>>, sc |-> 1]
Init == /\ sc = 1 /\ chain = <<>> /\ prev = NoPrev /\ tr = NoTr /\ out = <<>>
        /\ IF GenMode
           THEN /\ x = <<<<>>>> /\ src = <<>> /\ nr \in 1..GenNR /\ nanok \in BOOLEAN
                /\ meas = "plain" /\ pc = "gen"
           ELSE /\ x \in Stacks /\ src = x /\ nr = Len(x) /\ nanok = TRUE
                /\ meas = MeasPick(x) /\ pc = "in"

\* generator: one more entry; a new RDM when the current one is complete; hand over when all are
GenStep == /\ pc = "gen"
           /\ \E v \in (IF nanok THEN GenVals \cup {NaNv} ELSE GenVals) :
                LET row == Append(x[Len(x)], v)
                    xs == [x EXCEPT ![Len(x)] = row] IN
                IF Len(row) < L THEN x' = xs /\ UNCHANGED <<src, pc, meas>>
                ELSE IF Len(x) < nr THEN x' = Append(xs, <<>>) /\ UNCHANGED <<src, pc, meas>>
                ELSE x' = xs /\ src' = xs /\ pc' = "in" /\ meas' = MeasPick(xs)
           /\ UNCHANGED <<sc, chain, prev, tr, out, nr, nanok>>

Do == /\ pc = "in"
      /\ \E t \in Transforms :
           /\ Admissible(t, x)
           /\ tr' = t /\ out' = Apply(t, x, sc) /\ pc' = "out"
      /\ UNCHANGED <<x, sc, src, chain, prev, meas, nr, nanok>>

Chain == /\ pc = "out" /\ Len(chain) + 1 < MaxChain /\ Continuable(tr, out)
         /\ \E t \in ChainTransforms :
              LET r == ToInt(out) IN
              /\ Small(r) /\ Admissible(t, r.y)
              \* a rank step only after steps whose float evaluation keeps exact ties exact (not after the
              \* interpolated thresholds of geotopo or the path sums of geodesic)
              /\ (t.n = "rank" => \A j \in 1..(Len(chain) + 1) :
                       Append(chain, tr)[j].n \in {"rank", "positive", "custom", "minmax"})
              /\ x' = r.y /\ sc' = r.d /\ prev' = [x |-> x, sc |-> sc]
              /\ chain' = Append(chain, tr) /\ tr' = t /\ out' = Apply(t, r.y, r.d)
         /\ UNCHANGED <<src, meas, pc, nr, nanok>>
Next == GenStep \/ Do \/ Chain
Spec == Init /\ [][Next]_vars

(* ---------------- theorems ------------------------------------------------ *)
Done == pc = "out"
RLess(p, q) == p[1] * q[2] < q[1] * p[2]            \* for positive denominators
REq(p, q) == p[1] * q[2] = q[1] * p[2]
IsNum(p) == p[2] > 0
Rows == 1..Len(x)
Idx == 1..L

ShapeKept == Done => Len(out) = Len(x) /\ \A i \in Rows : Len(out[i]) = Len(x[i])

\* NaN in exactly the NaN positions (rank, element-wise maps)
NaNKept == (Done /\ tr.n \in {"rank", "positive", "sqrt"}) =>
   \A i \in Rows : \A k \in Idx : (out[i][k] = NaNR) <=> IsNaN(x[i][k])

\* ranks: order-preserving, ties share a rank (ordinal: broken by position), average ranks sum to
\* m(m+1)/2, min <= average <= max, dense ranks are 1..#distinct, ordinal ranks are a permutation
RankTheorems == (Done /\ tr.n = "rank") =>
   \A i \in Rows :
     LET v == x[i]  P == Present(v)  m == Cardinality(P)  r == [k \in P |-> out[i][k][1]] IN
     /\ \A k, l \in P : v[k] < v[l] => r[k] < r[l]
     /\ tr.m # "ordinal" => \A k, l \in P : v[k] = v[l] => r[k] = r[l]
     /\ tr.m = "ordinal" => /\ {r[k] : k \in P} = {2 * j : j \in 1..m}
                            /\ \A k, l \in P : (v[k] = v[l] /\ k < l) => r[k] < r[l]
     /\ tr.m = "average" => /\ SumFunction(r) = m * (m + 1)
                            /\ \A k \in P : /\ RankAt(v, k, "min") <= r[k] /\ r[k] <= RankAt(v, k, "max")
                                            /\ 2 * r[k] = RankAt(v, k, "min") + RankAt(v, k, "max")
     /\ tr.m = "dense" => {r[k] : k \in P} = {2 * j : j \in 1..Cardinality({v[k] : k \in P})}
     /\ \A k \in P : r[k] >= 2 /\ r[k] <= 2 * m
\* ranking is idempotent (ranks of the doubled ranks are the ranks)
RankIdempotent == (Done /\ tr.n = "rank") =>
   \A i \in Rows : LET r == [k \in Idx |-> IF out[i][k] = NaNR THEN NaNv ELSE out[i][k][1]] IN
                   RankVec(r, tr.m) = out[i]

PositiveTheorems == (Done /\ tr.n \in {"positive", "sqrt"}) =>
   \A i \in Rows : \A k \in Present(x[i]) :
      /\ out[i][k][1] >= 0 /\ out[i][k][1] >= x[i][k]
      /\ (x[i][k] >= 0 => out[i][k][1] = x[i][k])
      /\ \A l \in Present(x[i]) : x[i][k] <= x[i][l] => out[i][k][1] <= out[i][l][1]

\* minmax: increasing, affine, onto [0, 1] with both ends attained
MinMaxTheorems == (Done /\ tr.n = "minmax") =>
   \A i \in Rows :
     /\ \E k \in Idx : out[i][k][1] = 0
     /\ \E k \in Idx : out[i][k][1] = out[i][k][2]
     /\ \A k \in Idx : IsNum(out[i][k]) /\ out[i][k][1] >= 0 /\ out[i][k][1] <= out[i][k][2]
     /\ \A k, l \in Idx : (x[i][k] < x[i][l]) <=> RLess(out[i][k], out[i][l])
     /\ \A k, l, p, q \in Idx :          \* affine: difference quotients agree
          (out[i][k][1] - out[i][l][1]) * (x[i][p] - x[i][q]) = (out[i][p][1] - out[i][q][1]) * (x[i][k] - x[i][l])

\* geo-topological: values in [0,1], non-decreasing in x across the whole stack, 0 below the low
\* threshold, 1 above the up threshold; with quantiles (0, 1) on one RDM it is the minmax transform
GeoTheorems == (Done /\ tr.n = "geotopo") =>
   LET lo == GeoLo(x, tr.q)  up == GeoUp(x, tr.q) IN
   /\ \A i \in Rows : \A k \in Idx :
        /\ IsNum(out[i][k]) /\ out[i][k][1] >= 0 /\ out[i][k][1] <= out[i][k][2]
        /\ (x[i][k] * lo[2] <= lo[1]) => out[i][k][1] = 0
        /\ (x[i][k] * up[2] >= up[1]) => out[i][k][1] = out[i][k][2]
        /\ \A j \in Rows : \A l \in Idx : x[i][k] <= x[j][l] => ~RLess(out[j][l], out[i][k])
   /\ (Len(x) = 1 /\ tr.q = <<0, 1, 1, 1>>) => \A k \in Idx : REq(out[1][k], MinMaxVec(x[1])[k])

\* geodesic: a metric closure - never longer than a kept direct edge, triangle inequality; it IS the
\* minimum over all simple paths of kept edges; the closest pair (weight 0) stays at distance 0
GeodesicTheorems == (Done /\ tr.n = "geodesic") =>
   \A i \in Rows : \A d \in {FW(x[i], NC, TRUE)} :      \* (singleton: d is evaluated once)
     LET v == x[i] IN
     /\ \A p, q \in 1..NC : d[p][q] = d[q][p] /\ d[p][q] >= 0 /\ (p = q => d[p][q] = 0)
     /\ \A p, q \in 1..NC : p # q => d[p][q] <= Edge(v, p, q, TRUE)
     /\ \A p, q, r \in 1..NC : d[p][q] <= Min2(INF, d[p][r] + d[r][q])
     /\ \A p, q \in 1..NC : p # q => d[p][q] = Min({PathLen(v, p, q, s) : s \in SimplePaths(p, q)})
     /\ \A p, q \in 1..NC : (p # q /\ W(v, p, q) = 0) => d[p][q] = 0       \* the closest pair stays at 0
     /\ \A k \in Idx : out[i][k] # NaNR

CustomTheorems == (Done /\ tr.n = "custom") =>
   \A i \in Rows : \A k \in Idx :
      LET s == IF tr.q[1] = 4 THEN x[i][L + 1 - k] ELSE x[i][k] IN
      IF IsNaN(s) THEN out[i][k] = NaNR ELSE out[i][k][2] > 0

\* C17 h inside a chain: ranking after a strictly increasing step (minmax: affine per RDM; the custom
\* function 2x+1) gives the ranks of the input of that step
RankAfterIncreasing ==
   (Done /\ tr.n = "rank" /\ chain # <<>> /\ (chain[Len(chain)].n = "minmax"
                                               \/ (chain[Len(chain)].n = "custom" /\ chain[Len(chain)].q = <<1>>))) =>
   out = Apply(tr, prev.x, prev.sc)
\* the integer representation is faithful: x / sc are the values the previous step produced
ChainFaithful == (Done /\ chain # <<>>) =>
   LET po == Apply(chain[Len(chain)], prev.x, prev.sc) IN
   \A i \in Rows : \A k \in Idx :
      IF po[i][k] = NaNR THEN IsNaN(x[i][k]) ELSE ~IsNaN(x[i][k]) /\ x[i][k] * po[i][k][2] = po[i][k][1] * sc

(* ---------------- emission ------------------------------------------------ *)
Pick(n) == n = 1 \/ RandomElement(1..n) = 1
Emit == (Done /\ Pick(EmitMod)) =>
   PrintT(ToJson([x |-> src, tr |-> tr, chain |-> Append(chain, tr), meas |-> meas,
                  rename |-> MustRename(tr, meas), out |-> out,
                  nz |-> IF tr.n = "geodesic" THEN [i \in 1..Len(x) |-> GeodesicVec(x[i], FALSE)] ELSE <<>>]))
=============================================================================
