------------------------------- MODULE Alias -------------------------------
(***************************************************************************)
(* Property C12 as a state machine over a heap of tracked value objects.   *)
(*                                                                         *)
(* A world holds tracked objects (named), pairwise disjoint at the start.  *)
(* ver[x] is the abstract content version of tracked object x; rver[c] the *)
(* version of component c of the last result.  An experiment is            *)
(*     Produce(p) ; [ MutateResult(c, m) | MutateSource(a, m) ]            *)
(* Value semantics (the property):                                         *)
(*   Produce      changes no tracked object (arguments bit for bit equal), *)
(*   MutateResult changes only that result component,                      *)
(*   MutateSource changes only that tracked object - in particular not the *)
(*                result that was produced from it.                        *)
(* Frame is the action property; TLC enumerates every applicable           *)
(* (producer, mutator, side, target) schedule of the catalogue, which the  *)
(* harness discovered by introspection and handed over as JSON.            *)
(***************************************************************************)
EXTENDS Integers, Sequences, FiniteSets, TLC, Json, IOUtils

Catalogue == JsonDeserialize(IOEnv.CATALOGUE_FILE)
\* Catalogue[i] = [name, class : "producer" | "accessor", args : Seq(tracked name),
\*                 comps : Seq(kind of result component)]
Tracked == JsonDeserialize(IOEnv.TRACKED_FILE)     \* Seq of [name, kind]

VARIABLES phase, exp, ver, rver
vars == <<phase, exp, ver, rver>>

Mutators == {"reorder", "sort_by", "sort_same", "append", "array_write", "ds_sort_by"}
Applicable(m, kind) ==
  CASE m \in {"reorder", "sort_by", "sort_same", "append"} -> kind = "RDMs"
    [] m = "ds_sort_by" -> kind \in {"Dataset", "TemporalDataset"}
    [] m = "array_write" -> kind \in {"RDMs", "Dataset", "TemporalDataset", "ndarray"}
    [] OTHER -> FALSE

TrackedNames == {Tracked[i].name : i \in DOMAIN Tracked}
KindOf(n) == (CHOOSE i \in DOMAIN Tracked : Tracked[i].name = n)
KindOfName(n) == Tracked[KindOf(n)].kind
NoExp == [p |-> 0, side |-> "", target |-> "", comp |-> 0, mut |-> ""]

Init == /\ phase = "init" /\ exp = NoExp
        /\ ver = [n \in TrackedNames |-> 0] /\ rver = <<>>

Produce(p) ==
  /\ phase = "init" /\ phase' = "produced"
  /\ exp' = [NoExp EXCEPT !.p = p]
  /\ rver' = [c \in DOMAIN Catalogue[p].comps |-> 0]
  /\ UNCHANGED ver                              \* arguments are not modified

MutateResult(c, m) ==
  /\ phase = "produced" /\ phase' = "mutated" /\ Catalogue[exp.p].class = "producer"
  /\ c \in DOMAIN rver /\ Applicable(m, Catalogue[exp.p].comps[c])
  /\ exp' = [exp EXCEPT !.side = "result", !.comp = c, !.mut = m]
  /\ rver' = [rver EXCEPT ![c] = 1]
  /\ UNCHANGED ver                              \* the sources do not see it

MutateSource(a, m) ==
  /\ phase = "produced" /\ phase' = "mutated" /\ Catalogue[exp.p].class = "producer"
  /\ \E k \in DOMAIN Catalogue[exp.p].args : Catalogue[exp.p].args[k] = a
  /\ Applicable(m, KindOfName(a))
  /\ exp' = [exp EXCEPT !.side = "source", !.target = a, !.mut = m]
  /\ ver' = [ver EXCEPT ![a] = 1]
  /\ UNCHANGED rver                             \* the result does not see it

Next == \/ \E p \in DOMAIN Catalogue : Produce(p)
        \/ \E c \in 1..8 : \E m \in Mutators : MutateResult(c, m)
        \/ \E a \in TrackedNames : \E m \in Mutators : MutateSource(a, m)
Spec == Init /\ [][Next]_vars

\* the property: a step changes nothing but its own target
Frame == [][ /\ (phase' = "produced" => ver' = ver)
             /\ (phase' = "mutated" /\ exp'.side = "result" =>
                    ver' = ver /\ \A c \in DOMAIN rver : c # exp'.comp => rver'[c] = rver[c])
             /\ (phase' = "mutated" /\ exp'.side = "source" =>
                    rver' = rver /\ \A n \in TrackedNames : n # exp'.target => ver'[n] = ver[n]) ]_vars

Emit == (phase = "produced" \/ phase = "mutated") =>
           PrintT(ToJson([p |-> exp.p, name |-> Catalogue[exp.p].name, side |-> exp.side,
                          target |-> exp.target, comp |-> exp.comp, mut |-> exp.mut]))
=============================================================================
