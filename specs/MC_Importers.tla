---------------------------- MODULE MC_Importers ----------------------------
(* Constants of the model-checking configurations of Importers (cfg files cannot hold tuples). *)
EXTENDS Importers
\* value words; two per entity; task value 5 is the key word "run", desc value 2 the key word "sub"
BidsValsM == [sub |-> {21, 22}, ses |-> {23, 24}, task |-> {25, 5}, run |-> {27, 28}, space |-> {29, 30},
              desc |-> {31, 2}, suffix |-> {33, 34}, ext |-> {<<39>>, <<39, 40>>},
              derivative |-> {35, 36}, modality |-> {37, 38}]
\* one value per entity (thorough-tier companion runs use the full table)
BidsValsS == [sub |-> {21}, ses |-> {23}, task |-> {5}, run |-> {27}, space |-> {29},
              desc |-> {2}, suffix |-> {33}, ext |-> {<<39, 40>>}, derivative |-> {35}, modality |-> {37}]
DescArgsM == {41, 42}
SufArgsM == {43, 44}
NumWordsM == {303, 312}
PetWordsM == {401, 402}
AdjWordsM == {501, 502}
TaskWordsM == {601, 602}
ExpWordsM == {701}
VerWordsM == {801, 812}
StructWordsM == {901, 902}
\* three values for the entities that vary most in real data sets (thorough tier)
BidsValsL == [sub |-> {21, 22, 3}, ses |-> {23, 24, 46}, task |-> {25, 5}, run |-> {27, 28, 47},
              space |-> {29, 30, 48}, desc |-> {31, 2, 42}, suffix |-> {33, 34}, ext |-> {<<39>>, <<39, 40>>},
              derivative |-> {35, 36, 1}, modality |-> {37, 38}]
MneCodesM == {11, 12}
MneCodesL == {11, 12, 7}
\* words the fmriprep helpers hard-code, and the values of the data-set model
DsM == [bold |-> 33, mask |-> 34, nii |-> 39, gz |-> 40, preproc |-> 31, brain |-> 42, confounds |-> 41,
        timeseries |-> 43, aparcaseg |-> 45, dseg |-> 44, p1 |-> 35, p2 |-> 36, sp1 |-> 29, sp2 |-> 30,
        sub1 |-> 21, sub2 |-> 22, ses1 |-> 23, ses2 |-> 24, t1 |-> 25, t2 |-> 5, r1 |-> 27, r2 |-> 28, func |-> 37]
AllSections == {"bids", "meadows", "mne", "dm", "spm"}
=============================================================================
