---------------------------- MODULE MC_Importers ----------------------------
(* Constants of the model-checking configurations of Importers (cfg files cannot hold tuples). *)
EXTENDS Importers
\* value words; two per entity; task value 5 is the key word "run", desc value 2 the key word "sub"
BidsValsM == [sub |-> {21, 22}, ses |-> {23, 24}, task |-> {25, 5}, run |-> {27, 28}, space |-> {29, 30},
              desc |-> {31, 2}, suffix |-> {33, 34}, ext |-> {<<39>>, <<39, 40>>},
              derivative |-> {35, 36}, modality |-> {37, 38}]
\* one value per entity (thorough-tier companion runs use the full table)
BidsValsS == [sub |-> {21}, ses |-> {23}, task |-> {5}, run |-> {27}, space |-> {29},
              desc |-> {2}, suffix |-> {33}, ext |-> {<<39, 40>>}, derivative |-> {35}, modality |-> {37}]
DescArgsM == {41, 42}
SufArgsM == {43, 44}
NumWordsM == {303, 312}
PetWordsM == {401, 402}
AdjWordsM == {501, 502}
TaskWordsM == {601, 602}
ExpWordsM == {701}
VerWordsM == {801, 812}
StructWordsM == {901, 902}
AllSections == {"bids", "meadows", "mne", "dm", "spm"}
=============================================================================
