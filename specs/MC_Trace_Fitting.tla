------------------------------ MODULE MC_Trace_Fitting -------------------------
EXTENDS Trace_Fitting
NanPairsNone == {}
NoOps == {}
\* 3 conditions (entries 12 13 23): two basis RDMs
Cat3 == << << <<1, 2, 3>>, <<3, 1, 1>> >>,
           << <<1, 1, 0>>, <<0, 1, 2>> >> >>
\* 4 conditions (entries 12 13 14 23 24 34): two and three basis RDMs, full rank also after centring
Cat4 == << << <<1, 2, 3, 1, 2, 1>>, <<3, 1, 0, 2, 0, 1>> >>,
           << <<1, 2, 3, 1, 2, 1>>, <<3, 1, 0, 2, 0, 1>>, <<0, 1, 1, 3, 2, 2>> >>,
           << <<1, 0, 0, 1, 2, 3>>, <<0, 2, 1, 1, 0, 1>>, <<2, 2, 0, 0, 1, 1>> >> >>
Cat4K3 == << << <<1, 2, 3, 1, 2, 1>>, <<3, 1, 0, 2, 0, 1>>, <<0, 1, 1, 3, 2, 2>> >> >>
\* paths of 4 and 5 unrelated RDMs for interpolation models (4 conditions): segment qualities are not unimodal
\* along the path for most data, the best segment is often the last one
CatI4 == << << <<3, 0, 0, 1, 0, 2>>, <<0, 3, 1, 0, 2, 0>>, <<1, 1, 3, 0, 0, 2>>, <<0, 2, 0, 3, 1, 1>> >>,
            << <<3, 0, 0, 1, 0, 2>>, <<0, 3, 1, 0, 2, 0>>, <<2, 0, 1, 1, 3, 0>>, <<0, 2, 0, 3, 1, 1>>, <<1, 1, 3, 0, 0, 2>> >> >>
Pat3 == {<<0, 1, 2>>, <<0, 0, 1, 2>>, <<2, 0, 1, 1>>, <<0, 0, 1, 1, 2>>}
Pat4 == {<<0, 1, 2, 3>>, <<0, 1, 2>>, <<1, 2, 3>>, <<0, 1, 3>>, <<0, 0, 1, 2, 3>>, <<0, 1, 1, 2, 3, 3>>,
         <<3, 1, 0, 2>>, <<0, 0, 1, 2>>, <<2, 1, 3, 3>>}
Pat4Few == {<<0, 1, 2, 3>>, <<1, 2, 3>>, <<0, 0, 1, 2, 3>>, <<2, 1, 3, 3>>}
FitKindsA == {<<"fit_regress_nn", "corr">>, <<"fit_regress_nn", "corr_cov">>, <<"fit_regress", "corr">>, <<"fit_regress", "cosine">>,
              <<"fit_regress_nn", "cosine">>, <<"fit_regress", "cosine_cov">>, <<"fit_select", "cosine">>, <<"fit_interpolate", "corr">>}
NoKinds == {}
R1 == {1}
R12 == {1, 2}
R2 == {2}
R3 == {3}
R23 == {2, 3}
R123 == {1, 2, 3}
=============================================================================
