---------------------------- MODULE MC_Variances ----------------------------
(***************************************************************************)
(* Input grids for Variances.tla (TLC configurations cannot hold tuples or *)
(* negative numbers, so the grids are defined here and selected with       *)
(* CONST <- Def in the generated configuration).  TLC evaluates every      *)
(* zero-arity constant definition at start-up: the grids therefore depend  *)
(* on the constant Level so that only the selected tier is built.          *)
(***************************************************************************)
EXTENDS Variances

CONSTANT Level      \* 1 = quick grids, 2 = thorough grids, 3 = all 3 x 3 matrices over -2..3, 0 = none

(* ---------------- symmetric integer matrices ----------------------------- *)
OffIdx(M) == {ij \in (1..M) \X (1..M) : ij[1] < ij[2]}
Sym(M, dg, of) == [i \in 1..M |-> [j \in 1..M |-> IF i = j THEN dg[i] ELSE of[<<Min2(i, j), Max2(i, j)>>]]]
AllSym(M, DV, OV) == {Sym(M, dg, of) : dg \in [1..M -> DV], of \in [OffIdx(M) -> OV]}
\* model block m (k x k), cross covariances x[<<model, bound>>], ceiling block nb = <<var low, cov, var up>>
NcSym(k, MS, XV, NB) ==
  {[i \in 1..(k + 2) |-> [j \in 1..(k + 2) |->
      IF i <= k /\ j <= k THEN m[i][j]
      ELSE IF i <= k THEN x[<<i, j - k>>]
      ELSE IF j <= k THEN x[<<j, i - k>>]
      ELSE nb[(i - k) + (j - k) - 1]]] : m \in MS, x \in [(1..k) \X (1..2) -> XV], nb \in NB}

VarRec(s, k, nc, c) == [shape |-> s, k |-> k, nc |-> nc, cov |-> c]
Scalars(V) == {VarRec(0, 1, FALSE, v) : v \in V}
Vectors(k, nc, V) == {VarRec(1, k, nc, v) : v \in [1..(IF nc THEN k + 2 ELSE k) -> V]}
Matrices(k, MS) == {VarRec(2, k, FALSE, c) : c \in MS}
NcMatrices(k, MS, XV, NB) == {VarRec(2, k, TRUE, c) : c \in NcSym(k, MS, XV, NB)}
\* every ordered triple: "ordered" stacks (double bootstrap largest) as well as mis-ordered ones
Stacks(k, nc, CS) == {VarRec(3, k, nc, <<a, b, c>>) : a \in CS, b \in CS, c \in CS}
\* the dual-bootstrap combination of three scalars = 3-stack of 1 x 1 covariances
Triples(V) == {VarRec(3, 1, FALSE, << << <<a>> >>, << <<b>> >>, << <<c>> >> >>) : a \in V, b \in V, c \in V}

NB3 == {<<2, 1, 3>>, <<1, -1, 4>>, <<3, 2, 2>>}
Cat3 == { << <<4, 1, -1>>, <<1, 3, 2>>, <<-1, 2, 5>> >>,
          << <<2, 0, 1>>, <<0, 1, -1>>, <<1, -1, 3>> >>,
          << <<1, 2, 0>>, <<2, 1, -2>>, <<0, -2, 2>> >>,
          << <<6, 2, 1>>, <<2, 5, -1>>, <<1, -1, 7>> >>,
          << <<3, 0, 0>>, <<0, 2, 0>>, <<0, 0, 1>> >> }
NcCat2 == { << <<4, 1, 2, 1>>, <<1, 3, 0, 2>>, <<2, 0, 5, 3>>, <<1, 2, 3, 6>> >>,
            << <<2, -1, 1, 0>>, <<-1, 2, 0, 1>>, <<1, 0, 3, 1>>, <<0, 1, 1, 4>> >>,
            << <<1, 0, 2, -1>>, <<0, 2, 1, 3>>, <<2, 1, 2, 0>>, <<-1, 3, 0, 1>> >>,
            << <<7, 3, 2, 4>>, <<3, 8, 1, 5>>, <<2, 1, 9, 6>>, <<4, 5, 6, 12>> >>,
            << <<3, 1, 1, 0>>, <<1, 2, 1, 0>>, <<1, 1, 4, 2>>, <<0, 0, 2, 5>> >> }
NcCat3 == { << <<4, 1, -1, 2, 0>>, <<1, 3, 2, 1, 1>>, <<-1, 2, 5, 0, 3>>, <<2, 1, 0, 6, 2>>, <<0, 1, 3, 2, 7>> >>,
            << <<2, 0, 1, 1, 2>>, <<0, 1, -1, 0, 1>>, <<1, -1, 3, 2, 0>>, <<1, 0, 2, 2, 1>>, <<2, 1, 0, 1, 3>> >>,
            << <<1, 2, 0, 3, 1>>, <<2, 1, -2, 0, 2>>, <<0, -2, 2, 1, 0>>, <<3, 0, 1, 1, -1>>, <<1, 2, 0, -1, 2>> >>,
            << <<9, 2, 1, 3, 2>>, <<2, 8, -1, 1, 4>>, <<1, -1, 7, 2, 2>>, <<3, 1, 2, 10, 5>>, <<2, 4, 2, 5, 11>> >> }

\* A tuple of sets, one per family (never a union of big sets: TLC's \cup is quadratic, and constant
\* definitions are evaluated once per worker).  All members of one set have the same type.
VarGrid ==
  IF Level = 1 THEN
   << Scalars(-2..5),
      Vectors(2, FALSE, -1..3), Vectors(3, FALSE, {-1, 0, 2, 3}),
      Vectors(2, TRUE, {-1, 0, 2, 3}), Vectors(3, TRUE, {0, 1, 3}),
      Matrices(2, AllSym(2, 0..3, -2..2)), Matrices(3, AllSym(3, {0, 1, 3}, {-1, 0, 2})),
      NcMatrices(2, AllSym(2, {1, 3}, {-1, 0, 2}), {-1, 2}, NB3),
      NcMatrices(3, Cat3, {-1, 2}, {<<2, 1, 3>>, <<1, -1, 4>>}),
      Triples(-2..6), Stacks(2, FALSE, AllSym(2, {1, 3}, {-1, 2})),
      Stacks(2, TRUE, NcCat2), Stacks(3, FALSE, Cat3), Stacks(3, TRUE, NcCat3) >>
  ELSE IF Level = 2 THEN
   << Scalars(-3..8),
      Vectors(2, FALSE, -2..5), Vectors(3, FALSE, -2..4), Vectors(4, FALSE, {-1, 0, 2, 3}),
      Vectors(2, TRUE, -1..4), Vectors(3, TRUE, {-1, 0, 2, 3}),
      Matrices(2, AllSym(2, -1..4, -3..3)), Matrices(3, AllSym(3, {0, 1, 3}, -2..2)),
      Matrices(4, AllSym(4, {1, 3}, {-1, 2})),
      NcMatrices(2, AllSym(2, 0..3, -1..2), {-1, 2}, NB3),
      NcMatrices(3, AllSym(3, {1, 3}, {-1, 2}), {-1, 2}, {<<2, 1, 3>>}),
      Triples(-4..12), Stacks(2, FALSE, AllSym(2, {0, 1, 3}, {-2, 1})),
      Stacks(2, TRUE, NcCat2 \cup NcSym(2, {<< <<2, -1>>, <<-1, 5>> >>}, {0, 3}, {<<2, 1, 3>>})),
      Stacks(3, FALSE, Cat3 \cup AllSym(3, {2}, {-1, 1})),
      Stacks(3, TRUE, NcCat3) >>
  ELSE IF Level = 3 THEN      \* every symmetric 3 x 3 matrix with entries -2..3 (46 656)
   << Matrices(3, AllSym(3, -2..3, -2..3)) >>
  ELSE <<>>

(* ---------------- evaluation arrays with NaN marks ------------------------ *)
\* a mask is a set of patterns; 0 is a wildcard.  <<s, 0, 0, 0>> marks sample s as invalid (all models),
\* <<s, 0, f, 0>> a fold of a sample (all models), <<s, m, f, g>> a single entry.
Hit(msk, s, m, f, g) == \E t \in msk : /\ (t[1] = 0 \/ t[1] = s) /\ (t[2] = 0 \/ t[2] = m)
                                       /\ (t[3] = 0 \/ t[3] = f) /\ (t[4] = 0 \/ t[4] = g)
Arr2(S, k, V) == [1..S -> [1..k -> V]]
Arr3(S, k, F, V) == [1..S -> [1..k -> [1..F -> V]]]
Mask2(ev, msk) == [s \in DOMAIN ev |-> [m \in DOMAIN ev[s] |-> IF Hit(msk, s, m, 0, 0) THEN NaN ELSE ev[s][m]]]
Mask3(ev, msk) == [s \in DOMAIN ev |-> [m \in DOMAIN ev[s] |-> [f \in DOMAIN ev[s][m] |->
                      IF Hit(msk, s, m, f, 0) THEN NaN ELSE ev[s][m][f]]]]
Gen4(S, k, A, B, F(_, _, _, _)) == [s \in 1..S |-> [m \in 1..k |-> [a \in 1..A |-> [b \in 1..B |-> F(s, m, a, b)]]]]
Mask4(ev, msk) == [s \in DOMAIN ev |-> [m \in DOMAIN ev[s] |-> [a \in DOMAIN ev[s][m] |->
                      [b \in DOMAIN ev[s][m][a] |-> IF Hit(msk, s, m, a, b) THEN NaN ELSE ev[s][m][a][b]]]]]
MeanRec(cv, d, k, ev) == [cv |-> cv, d |-> d, k |-> k, ev |-> ev]

SampleMasks3 == {{}, {<<1, 0, 0, 0>>}, {<<2, 0, 0, 0>>, <<3, 0, 0, 0>>}, {<<1, 0, 0, 0>>, <<2, 0, 0, 0>>, <<3, 0, 0, 0>>}}
Masks3D == {{}, {<<1, 0, 0, 0>>}, {<<2, 0, 0, 0>>}, {<<1, 0, 1, 0>>}, {<<1, 0, 2, 0>>, <<2, 0, 1, 0>>},
            {<<1, 1, 1, 0>>}, {<<2, 2, 2, 0>>, <<1, 0, 1, 0>>}, {<<1, 0, 0, 0>>, <<2, 0, 0, 0>>}}
MasksFixed == {{}, {<<1, 0, 1, 0>>}, {<<1, 1, 2, 0>>}, {<<1, 0, 3, 0>>, <<1, 2, 1, 0>>}}
\* fixed / crossvalidation results in which one model has no value at all (constant model RDM under corr, a
\* fitter failing in every fold) - in EVERY model position, alone and together with other NaN marks
MasksNanModel == {{<<1, 1, 0, 0>>}, {<<1, 2, 0, 0>>}, {<<1, 3, 0, 0>>},
                  {<<1, 1, 0, 0>>, <<1, 0, 2, 0>>}, {<<1, 2, 0, 0>>, <<1, 1, 1, 0>>}, {<<1, 3, 0, 0>>, <<1, 0, 1, 0>>},
                  {<<1, 1, 0, 0>>, <<1, 2, 0, 0>>}}
Masks4D == {{}, {<<1, 0, 0, 0>>}, {<<2, 0, 1, 0>>}, {<<1, 0, 2, 1>>}, {<<1, 1, 1, 2>>},
            {<<1, 1, 1, 2>>, <<2, 2, 2, 1>>, <<2, 0, 1, 1>>}, {<<2, 0, 0, 0>>, <<1, 0, 1, 0>>, <<1, 2, 2, 2>>},
            {<<1, 0, 1, 1>>, <<1, 0, 2, 0>>}, {<<3, 0, 0, 0>>, <<1, 0, 1, 2>>}, {<<1, 0, 0, 0>>, <<2, 0, 0, 0>>, <<3, 0, 0, 0>>}}
G1(s, m, a, b) == 8 * s + 4 * m - 3 * a + b - 9
G2(s, m, a, b) == ((s * 7 + m * 5 + a * 3 + b * 11) % 9) - 4
G3(s, m, a, b) == (s - 2) * (m + a) + b * b - 3

MeanGrid ==
  IF Level = 1 \/ Level = 2 THEN
   << {MeanRec(2, 2, 2, Mask2(ev, msk)) : ev \in Arr2(3, 2, {-1, 0, 2}), msk \in SampleMasks3},
      {MeanRec(2, 2, 3, Mask2(ev, msk)) : ev \in Arr2(2, 3, {-1, 2}), msk \in {{}, {<<1, 0, 0, 0>>}, {<<2, 0, 0, 0>>}}},
      {MeanRec(2, 3, 2, Mask3(ev, msk)) : ev \in Arr3(2, 2, 2, {-1, 2}), msk \in Masks3D},
      {MeanRec(1, 3, 2, Mask3(ev, msk)) : ev \in Arr3(1, 2, 3, {-1, 2}), msk \in MasksFixed},
      {MeanRec(1, 3, 2, Mask3(ev, msk)) : ev \in Arr3(1, 2, 2, {-1, 2}), msk \in MasksNanModel},
      {MeanRec(1, 3, 3, Mask3(ev, msk)) : ev \in Arr3(1, 3, 2, {-1, 2}), msk \in MasksNanModel},
      {MeanRec(2, 4, 2, Mask4(Gen4(3, 2, 2, 2, G1), msk)) : msk \in Masks4D},
      {MeanRec(2, 4, 3, Mask4(Gen4(3, 3, 2, 2, G2), msk)) : msk \in Masks4D},
      {MeanRec(2, 4, 2, Mask4(Gen4(3, 2, 2, 3, G3), msk)) : msk \in Masks4D},
      \* NaN-free bootstrap arrays over {0, 1}: two models tie exactly in a subset of the samples, with every
      \* split of the others into wins and losses (bootstrap pair test: ties leave the denominator)
      {MeanRec(2, 2, 2, ev) : ev \in Arr2(5, 2, {0, 1})},
      {MeanRec(2, 2, 3, ev) : ev \in Arr2(3, 3, {0, 1})} >>
   \o (IF Level = 1 THEN <<>> ELSE
   << {MeanRec(2, 2, 2, Mask2(ev, msk)) : ev \in Arr2(3, 2, {-2, 0, 1, 3}), msk \in SampleMasks3},
      {MeanRec(2, 3, 2, Mask3(ev, msk)) : ev \in Arr3(2, 2, 2, {-1, 0, 3}), msk \in Masks3D},
      {MeanRec(1, 3, 2, Mask3(ev, msk)) : ev \in Arr3(1, 2, 3, {-1, 0, 2, 5}), msk \in MasksFixed},
      {MeanRec(1, 3, 3, Mask3(ev, msk)) : ev \in Arr3(1, 3, 3, {-1, 2}), msk \in MasksFixed},
      {MeanRec(2, 4, 3, Mask4(Gen4(3, 3, 3, 2, G1), msk)) : msk \in Masks4D},
      {MeanRec(2, 4, 2, Mask4(Gen4(3, 2, 2, 2, G3), msk)) :
          msk \in SUBSET {<<1, 0, 0, 0>>, <<2, 0, 1, 0>>, <<1, 0, 2, 1>>, <<3, 1, 1, 2>>, <<2, 2, 2, 1>>, <<3, 0, 2, 0>>}} >>)
  ELSE <<>>

(* ---------------- per-subject evaluations of a fixed evaluation ------------ *)
FixRec(k, n, b) == [k |-> k, n |-> n, base |-> b]
Rows4 == {<<1, 2, 0, -1>>, <<0, 3, 1, 1>>, <<2, 2, -1, 0>>, <<1, 0, 0, 2>>}
Rows2 == {<<-1, 0>>, <<0, 2>>, <<2, 2>>, <<1, -1>>}
Rows3 == {<<-1, 0, 2>>, <<0, 0, 2>>, <<2, -1, -1>>, <<1, 1, 1>>, <<0, 2, 1>>, <<-1, -1, 0>>}
FixedGrid ==
  IF Level = 1 \/ Level = 2 THEN
   << {FixRec(1, 3, b) : b \in [1..1 -> Rows3]}, {FixRec(2, 2, b) : b \in [1..2 -> Rows2]},
      {FixRec(2, 3, b) : b \in [1..2 -> Rows3]}, {FixRec(3, 4, b) : b \in [1..3 -> Rows4]} >>
   \o (IF Level = 1 THEN <<>> ELSE
   << {FixRec(2, 3, <<a, b>>) : a \in [1..3 -> {-1, 0, 2}], b \in Rows3},
      {FixRec(2, 5, b) : b \in [1..2 -> {<<0, 1, 2, 3, 5>>, <<2, -1, 0, 4, 1>>, <<1, 1, 1, 2, 1>>,
                                         <<-2, 0, 3, 1, 1>>, <<3, 3, 0, 0, 2>>}]},
      {FixRec(3, 3, b) : b \in [1..3 -> Rows3]},
      {FixRec(4, 4, b) : b \in [1..4 -> Rows4 \ {<<1, 0, 0, 2>>}]} >>)
  ELSE <<>>
=============================================================================
