---------------------------- MODULE MC_Simulation ----------------------------
(* constants that a TLC configuration file cannot express *)
EXTENDS Simulation
\* planar 3 x 3 lattice (ranks 0..2), binary hypercube (ranks up to 4), a small 4-d set for 5 conditions
GridA == {<<a, b, 0, 0>> : a \in 0..2, b \in 0..2}
GridB == {<<a, b, c, d>> : a \in 0..1, b \in 0..1, c \in 0..1, d \in 0..1}
GridC == {<<0,0,0,0>>, <<1,0,0,0>>, <<0,1,0,0>>, <<0,0,1,0>>, <<0,0,0,1>>, <<1,1,0,0>>, <<0,0,1,1>>, <<1,1,1,1>>}
GridQ == {<<0,0,0,0>>, <<1,0,0,0>>, <<0,1,0,0>>, <<0,0,1,0>>, <<1,1,0,1>>}   \* quick tier, 5 conditions
GridL == {<<a, 0, 0, 0>> : a \in 0..4}                         \* collinear models (rank 1)
N130 == 1..130                                                  \* design sweep
Offs == {0, 1, 2, 3, 4, 5}                                      \* n_channel = n_cond .. 2 n_cond (off <= n)
OffsNeg == {-1, 0, 1, 2, 3, 4, 5}                               \* with the negative control n_cond - 1
OffsFew == {-1, 0, 1, 5}
Sig3 == {<<1, 2>>, <<1, 1>>, <<5, 2>>}
Roots == {<<1, 2>>, <<3, 2>>, <<2, 1>>, <<1, 3>>}               \* noise variances 1/4, 9/4, 4, 1/9
Cat == {
  << <<0,0,0,0>>, <<1,2,0,0>> >>,
  << <<0,0,0,0>>, <<1,0,0,0>>, <<2,0,0,0>> >>,                  \* collinear
  << <<0,0,0,0>>, <<2,0,0,0>>, <<0,1,0,0>> >>,                  \* right triangle
  << <<1,1,0,0>>, <<1,1,0,0>>, <<0,2,0,0>> >>,                  \* coincident pair
  << <<0,0,0,0>>, <<1,0,0,0>>, <<0,1,0,0>>, <<0,0,1,0>> >>,     \* rank 3
  << <<0,0,0,0>>, <<2,0,0,0>>, <<2,2,0,0>>, <<0,2,0,0>> >>,     \* square
  << <<1,1,0,0>>, <<0,0,0,0>>, <<2,2,0,0>>, <<0,2,0,0>>, <<2,0,0,0>> >>,    \* first condition at the centroid
  << <<0,0,0,0>>, <<1,0,0,0>>, <<0,1,0,0>>, <<0,0,1,0>>, <<0,0,0,1>> >>,    \* simplex, rank 4
  << <<0,1,0,0>>, <<2,2,0,0>>, <<1,0,0,0>>, <<2,1,0,0>>, <<0,2,0,0>> >>     \* planar, generic order
}
\* models whose second-moment matrix has a singular leading minor before its rank is exhausted
CatEarly == {
  << <<0,0,0,0>>, <<0,0,0,0>>, <<1,0,0,0>>, <<2,1,0,0>>, <<0,2,0,0>> >>,    \* conditions 1 and 2 coincide
  << <<0,0,0,0>>, <<1,0,0,0>>, <<2,0,0,0>>, <<0,1,0,0>>, <<1,1,1,0>> >>     \* 1,2,3 collinear, 5 leaves the plane
}
CatAll == Cat \cup CatEarly
=============================================================================
