---------------------------- MODULE MC_Trace_NoiseCeiling -------------------------
EXTENDS Trace_NoiseCeiling
NanPairsNone == {}
NoOps == {}
NoGens == {}
GensRdm == {"loo_rdm", "k_fold_rdm", "of_k_rdm"}
GensNested == {"k_fold"}
GensRdmNested == {"loo_rdm", "k_fold_rdm", "of_k_rdm", "k_fold"}
GensRandom == {"random"}
GensAll == {"loo_rdm", "k_fold_rdm", "of_k_rdm", "k_fold", "random"}
MOpt == {"cosine", "corr", "rho-a"}
MAll == {"cosine", "corr", "rho-a", "cosine_cov", "corr_cov"}
MOne == {"cosine"}
MaskNone == {{}}
\* 4 conditions, 6 entries (12 13 14 23 24 34): entries missing from all RDMs
Mask4a == {{1, 6}, {2, 3, 5}}          \* 4 resp. 3 entries left
Mask4b == {{4}, {1, 6}}                \* 5 resp. 4 entries left
BySubj == {"subj"}
ByGrp == {"grp"}
ByBoth == {"subj", "grp"}
\* x |-> (a x + b) / c : identity, halving, tripling, two affine maps
XfAll == {<<1, 0, 1>>, <<1, 0, 2>>, <<3, 0, 1>>, <<1, 5, 2>>, <<3, 1, 1>>}
XfFew == {<<1, 0, 1>>, <<1, 0, 2>>, <<3, 1, 1>>}
XfNone == {}
AnyBy == {}
ByFew == {<<"subj", "index">>, <<"grp", "cond">>, <<"index", "cond">>}
Var1 == {1}
Var13 == {1, 3}
Var123 == {1, 2, 3}
=============================================================================
