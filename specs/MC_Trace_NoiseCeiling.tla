---------------------------- MODULE MC_Trace_NoiseCeiling -------------------------
EXTENDS Trace_NoiseCeiling
NanPairsNone == {}
NoOps == {}
NoGens == {}
GensRdm == {"loo_rdm", "k_fold_rdm", "of_k_rdm"}
GensNested == {"k_fold"}
GensRdmNested == {"loo_rdm", "k_fold_rdm", "of_k_rdm", "k_fold"}
GensRandom == {"random"}
GensAll == {"loo_rdm", "k_fold_rdm", "of_k_rdm", "k_fold", "random"}
MOpt == {"cosine", "corr", "rho-a"}
MAll == {"cosine", "corr", "rho-a", "cosine_cov", "corr_cov"}
MOne == {"cosine"}
MPool == {"euclid", "neg_riem_dist", "cosine", "corr", "cosine_cov", "corr_cov", "spearman", "rho-a", "kendall",
          "tau-b", "tau-a"}
MaskNone == {{}}
\* 4 conditions, 6 entries (12 13 14 23 24 34): entries missing from all RDMs
Mask4a == {{1, 6}, {2, 3, 5}}          \* 4 resp. 3 entries left
Mask4b == {{4}}                        \* 5 entries left
Mask4ab == {{1, 6}, {2, 3, 5}, {4}}
BySubj == {"subj"}
ByGrp == {"grp"}
ByBoth == {"subj", "grp"}
\* x |-> (a x + b) / c : identity, halving, tripling, two affine maps
XfAll == {<<1, 0, 1, 0>>, <<1, 0, 2, 0>>, <<3, 0, 1, 0>>, <<1, 5, 2, 0>>, <<3, 1, 1, 0>>}
XfFew == {<<1, 0, 1, 0>>, <<1, 0, 2, 0>>, <<3, 1, 1, 0>>}
\* extreme factors (fourth component = decimal exponent): 1e-26 (MEG, T^2), 1e-13, 1e+12, one RDM or all of them
XfExtreme == {<<1, 0, 1, 0>>, <<1, 0, 1, -26>>, <<1, 0, 1, -13>>, <<1, 0, 1, 12>>, <<3, 1, 1, -26>>}
XfExtreme3 == {<<1, 0, 1, 0>>, <<1, 0, 1, -26>>, <<3, 1, 1, 12>>}
XfNone == {}
AnyBy == {}
ByFew == {<<"subj", "index">>, <<"grp", "cond">>, <<"index", "cond">>}
ByTwo == {<<"subj", "cond">>, <<"grp", "index">>}
Id3 == <<1, 2, 3>>
Rev3 == <<3, 2, 1>>
Id4 == <<1, 2, 3, 4>>
Rev4 == <<4, 3, 2, 1>>
Rot4 == <<2, 3, 4, 1>>
NoCat == {}
\* 3 RDMs x 4 conditions: test sets of one RDM at 3 of the 4 conditions (two draws), every RDM left out at all
\* conditions (= the leave-one-out protocol), two RDMs tested at 3 conditions
CvCat34 == {Case(1, "random", "subj", "index", 1, 3, TRUE, << <<Id3, Id4>>, <<Rev3, Rev4>> >>),
            Case(1, "random", "subj", "cond", 1, 3, TRUE, << <<Rev3, Rot4>>, <<Id3, Id4>> >>),
            Case(1, "k_fold", "subj", "index", 3, 1, FALSE, <<Id3, Id4, Id4, Id4>>),
            Case(1, "loo_rdm", "subj", "", 0, 0, FALSE, <<>>),
            Case(1, "random", "subj", "index", 2, 3, TRUE, << <<Id3, Rot4>>, <<Rev3, Id4>> >>),
            \* test folds of UNEQUAL size (RDMs {1,3} / {2}): the bound is the mean of the per-fold means
            Case(1, "k_fold", "subj", "index", 2, 1, FALSE, <<Id3, Id4, Id4>>)}
Var1 == {1}
Var13 == {1, 3}
Var123 == {1, 2, 3}
=============================================================================
