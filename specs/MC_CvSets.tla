------------------------------ MODULE MC_CvSets ------------------------------
EXTENDS CvSets
NanPairsA == {<<2, 1, 3>>}
NoOps == {}
GensSimple == {"loo_pattern", "loo_rdm", "k_fold_pattern", "k_fold_rdm", "of_k_pattern", "of_k_rdm"}
GensNested == {"k_fold"}
GensRandom == {"random"}
=============================================================================
