------------------------ MODULE MC_Trace_EvalProtocol ------------------------
EXTENDS Trace_EvalProtocol
NanPairsNone == {}
NoOps == {}
NoGens == {}
NoConfigs == {}
=============================================================================
