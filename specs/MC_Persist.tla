----------------------------- MODULE MC_Persist -----------------------------
EXTENDS Persist
\* kind assignments of the three catalogue contents (TLC cfg files cannot hold tuples)
KA_small == {<<"RDMs", "RDMs", "Dataset">>}
KA_quick == {<<"RDMs", "RDMs", "Dataset">>, <<"Dataset", "TemporalDataset", "Result">>,
             <<"Result", "ModelFixed", "ModelWeighted">>, <<"ModelSelect", "ModelInterpolate", "RDMs">>}
KA_all == KA_quick \cup
          {<<"TemporalDataset", "TemporalDataset", "RDMs">>, <<"Result", "Result", "Dataset">>,
           <<"ModelWeighted", "ModelSelect", "ModelFixed">>, <<"ModelInterpolate", "Dataset", "Dataset">>}
FsOps == {"fs"}
StreamOps == {"stream"}
AllOps == {"fs", "stream"}
AllModes == {"path", "pathlib", "fresh", "kept"}
NoKept == {"path", "pathlib", "fresh"}
Names == {"path", "pathlib"}
PathFresh == {"path", "fresh"}
=============================================================================
