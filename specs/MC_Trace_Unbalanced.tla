-------------------------- MODULE MC_Trace_Unbalanced --------------------------
EXTENDS Trace_Unbalanced
DataCatDef == <<>>
PrecCatDef == <<>>
=============================================================================
