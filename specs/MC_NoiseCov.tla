---------------------------- MODULE MC_NoiseCov ----------------------------
(* Model-checking wrapper of NoiseCov: value sets that a cfg file cannot express. *)
EXTENDS NoiseCov
Vals01 == {0, 1}
ValsPM1 == {-1, 0, 1}
ValsPM2 == {-2, -1, 0, 1, 2}
ValsPM3 == {-3, -2, -1, 0, 1, 2, 3}
=============================================================================
