CONSTANTS
  NR = 3
  NC = 3
  MaxObj = 3
  MaxRows = 4
  MaxPats = 4
  Depth = 2
  NanPairs <- NanPairsA
  ArgLevel = 2
  Ops <- AllOps
INIT Init
NEXT Next
INVARIANT Shape
INVARIANT Assoc
INVARIANT CondensedOk
INVARIANT MaskIsSel
PROPERTY Frame
CHECK_DEADLOCK FALSE
