---------------------------- MODULE Trace_Persist ----------------------------
(***************************************************************************)
(* Implementation -> specification: save/load histories recorded from the  *)
(* real library in a scratch directory (harness/persist.py:record_history) *)
(* are checked against the actions of Persist.  For every recorded call the*)
(* event must be Enabled (inside the contract), and the OBSERVED outcome    *)
(* (Ok / Refused), the observed file system (per path: exists, format      *)
(* sniffed from the magic bytes, which catalogue object the file holds     *)
(* exactly) and the observed identity of a loaded object must equal what   *)
(* the specification computes.  All invariants of Persist are evaluated in *)
(* every state.  One behaviour per trace id; acceptance is printed.        *)
(***************************************************************************)
EXTENDS Persist, IOUtils, TLCExt
VARIABLES tid, l
Traces == JsonDeserialize(IOEnv.TRACE_FILE)

Outcome(e) == IF e.op = "save" THEN SaveResult(kinds, fs, mem, e).out ELSE "Ok"
FsAfter(e) == IF e.op = "save" THEN [fs EXCEPT ![e.p] = SaveResult(kinds, fs, mem, e).file] ELSE fs
ResOf(e) == IF e.op = "load" THEN Owner(kinds, fs[e.p]) ELSE IF e.op = "sload" THEN StreamRead(strm) ELSE 0

TInit == /\ tid \in 1..Len(Traces) /\ l = 1
         /\ kinds = Traces[tid].kinds
         /\ fs = [p \in Paths |-> Absent]
         /\ mem = [o \in Objs |-> Cells(kinds, o)]
         /\ loaded = 0 /\ held = {} /\ hist = <<>>
         /\ strm = [items |-> <<>>, pos |-> 0]

TStep == /\ l >= 1 /\ l <= Len(Traces[tid].steps)
         /\ LET rec == Traces[tid].steps[l]  e == rec.ev
                en == Enabled(fs, loaded, held, strm, e)
                okOut == en /\ rec.out = Outcome(e)
                okFs == en /\ rec.post = View(kinds, FsAfter(e))
                okRes == en /\ rec.res = ResOf(e)
                okMem == rec.memok = 1
                okStream == en /\ rec.spost = StreamAfter(strm, e)
            IN IF okOut /\ okFs /\ okRes /\ okMem /\ okStream
               THEN /\ Step(e) /\ l' = l + 1
                    /\ (l = Len(Traces[tid].steps) => PrintT(ToJson([accept |-> tid])))
               ELSE /\ PrintT(ToJson([reject |-> tid, l |-> l, ev |-> e, enabled |-> en,
                                      clause |-> IF ~en THEN "enabled" ELSE IF ~okOut THEN "outcome"
                                                 ELSE IF ~okFs THEN "fs" ELSE IF ~okRes THEN "loaded"
                                                 ELSE IF ~okMem THEN "mem" ELSE "stream",
                                      expected |-> IF en THEN [out |-> Outcome(e), post |-> View(kinds, FsAfter(e)),
                                                               res |-> ResOf(e), spost |-> StreamAfter(strm, e)]
                                                   ELSE [out |-> "", post |-> View(kinds, fs), res |-> 0, spost |-> strm]]))
                    /\ UNCHANGED <<fs, mem, loaded, held, kinds, strm, hist>> /\ l' = 0
         /\ UNCHANGED tid
TSpec == TInit /\ [][TStep]_<<fs, mem, loaded, held, kinds, strm, hist, tid, l>>
=============================================================================
