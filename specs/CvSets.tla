------------------------------- MODULE CvSets -------------------------------
(***************************************************************************)
(* Cross-validation set generators (rsatoolbox.inference.crossvalsets) on  *)
(* the labelled objects of RdmsStore.  A case fixes the source object, the *)
(* generator, its grouping descriptors, k / n values and the outcome of    *)
(* every np.random.shuffle the generator performs; Folds(case) is the list *)
(* of (train, test, ceil, train indices, test indices) the generator must  *)
(* return, built with the container operations of RdmsStore exactly as the *)
(* code composes them.  The clauses of C05 are invariants over that list.  *)
(***************************************************************************)
EXTENDS RdmsStore

VARIABLES fc,     \* the case under consideration (gen = "" until chosen)
          folds,  \* Folds(fc), computed once per state
          stage   \* 0: source and generator chosen; 1: case complete

CONSTANTS Gens,   \* generator names enabled in this configuration
          PermLevel, \* 2: every shuffle outcome; 1: identity, reversal, one rotation; 0: identity, reversal
          KMax       \* cap on k / n in the nested and random generators (keeps big-object runs small)

(* ---------------- source objects: plain, with bootstrap copies ---------- *)
SrcOb(v) == CASE v = 1 -> Source
              [] v = 2 -> SubsamplePats(Source, "cond", <<1, 1>> \o [k \in 1..(NC - 1) |-> k + 1])   \* condition 1 twice
              [] v = 3 -> SubsampleRows(Source, "subj", <<1, 1>> \o [k \in 1..(NR - 1) |-> k + 1])   \* RDM 1 twice

Ident(n) == [k \in 1..n |-> k]
PermsL(n) == IF PermLevel >= 2 THEN Perms(n)
             ELSE {p \in Perms(n) : p = Ident(n) \/ p = [k \in 1..n |-> n + 1 - k]
                                     \/ (PermLevel = 1 /\ p = [k \in 1..n |-> (k % n) + 1])}

\* positions (1-based) of test fold i (0-based) among n shuffled groups split into k folds:
\* floor(n/k) consecutive ones plus, for the first n mod k folds, one taken from the end
TestPos(n, k, i) == [j \in 1..(n \div k) |-> i * (n \div k) + j] \o (IF i < n % k THEN <<n - i>> ELSE <<>>)
Complement(n, s) == SelectSeq(Ident(n), LAMBDA j : j \notin Range(s))

NoObj == Null
Fold(train, test, ceil, hasCeil, trainIdx, testIdx) ==
  [train |-> train, test |-> test, ceil |-> ceil, hasCeil |-> hasCeil,
   trainIdx |-> trainIdx, testIdx |-> testIdx]

KFoldPattern(src, byP, k, perm) ==
  LET sel == Pick(Groups(PDesc(src, byP)), perm)  n == Len(sel) IN
  [f \in 1..k |->
     LET tpos == TestPos(n, k, f - 1)
         rpos == IF k <= 1 THEN tpos ELSE Complement(n, tpos)
         tv == Pick(sel, tpos)  rv == Pick(sel, rpos) IN
     Fold(SubsetPats(src, byP, Range(rv)), SubsetPats(src, byP, Range(tv)), NoObj, FALSE, rv, tv)]

KFoldRdm(src, byR, k, perm) ==
  LET sel == Pick(Groups(RDesc(src, byR)), perm)  n == Len(sel) IN
  [f \in 1..k |->
     LET tpos == TestPos(n, k, f - 1)
         rpos == Complement(n, tpos)
         tr == SubsampleRows(src, byR, Pick(sel, rpos)) IN
     Fold(tr, SubsampleRows(src, byR, Pick(sel, tpos)), tr, TRUE, Iota(Len(src.pats)), Iota(Len(src.pats)))]

RECURSIVE Flat(_)
Flat(ss) == IF ss = <<>> THEN <<>> ELSE Head(ss) \o Flat(Tail(ss))

KFold(src, byR, byP, kR, kP, permR, permsP) ==
  LET sel == Pick(Groups(RDesc(src, byR)), permR)  n == Len(sel) IN
  Flat([g \in 1..kR |->
     LET tpos == TestPos(n, kR, g - 1)
         rpos == IF kR <= 1 THEN tpos ELSE Complement(n, tpos)
         rtest == SubsampleRows(src, byR, Pick(sel, tpos))
         rtrain == SubsampleRows(src, byR, Pick(sel, rpos))
         inner == KFoldPattern(rtrain, byP, kP, permsP[g]) IN
     [j \in 1..kP |->
        Fold(inner[j].train, SubsetPats(rtest, byP, Range(inner[j].testIdx)), inner[j].test, TRUE,
             inner[j].trainIdx, inner[j].testIdx)]])

LooPattern(src, byP) ==
  LET g == Groups(PDesc(src, byP)) IN
  [f \in 1..Len(g) |->
     LET rv == SelectSeq(g, LAMBDA v : v # g[f])
         t == SubsetPats(src, byP, {g[f]}) IN
     Fold(SubsetPats(src, byP, Range(rv)), t, t, TRUE, rv, <<g[f]>>)]

LooRdm(src, byR) ==
  LET g == Groups(RDesc(src, byR))  all == Iota(Len(src.pats)) IN
  IF Len(g) > 1
  THEN [f \in 1..Len(g) |->
          LET tr == SubsetRows(src, byR, Range(g) \ {g[f]}) IN
          Fold(tr, SubsetRows(src, byR, {g[f]}), tr, TRUE, all, all)]
  ELSE <<Fold(src, src, src, TRUE, all, all)>>

\* sets_random: every iteration shuffles the (already shuffled) group arrays again
RECURSIVE RandomSets(_, _, _, _, _, _, _, _)
RandomSets(src, byR, byP, nR, nP, selR, selP, perms) ==
  IF perms = <<>> THEN <<>>
  ELSE LET sR == Pick(selR, perms[1][1])  sP == Pick(selP, perms[1][2])
           gR == Len(sR)  gP == Len(sP)
           tR == IF nR = 0 THEN sR ELSE SubSeq(sR, 1, nR)
           rR == IF nR = 0 THEN sR ELSE SubSeq(sR, nR + 1, gR)
           tP == IF nP = 0 THEN sP ELSE SubSeq(sP, 1, nP)
           rP == IF nP = 0 THEN sP ELSE SubSeq(sP, nP + 1, gP)
           rtest == SubsampleRows(src, byR, tR)
           rtrain == SubsampleRows(src, byR, rR) IN
       <<Fold(SubsetPats(rtrain, byP, Range(rP)), SubsetPats(rtest, byP, Range(tP)),
              SubsetPats(rtrain, byP, Range(tP)), TRUE, rP, tP)>>
       \o RandomSets(src, byR, byP, nR, nP, sR, sP, Tail(perms))

Folds(c) ==
  LET src == SrcOb(c.src) IN
  CASE c.gen = "loo_pattern" -> LooPattern(src, c.byP)
    [] c.gen = "loo_rdm" -> LooRdm(src, c.byR)
    [] c.gen = "k_fold_pattern" -> KFoldPattern(src, c.byP, c.kP, c.perms[1])
    [] c.gen = "k_fold_rdm" -> KFoldRdm(src, c.byR, c.kR, c.perms[1])
    [] c.gen = "of_k_pattern" -> KFoldPattern(src, c.byP, Len(Groups(PDesc(src, c.byP))) \div c.kP, c.perms[1])
    [] c.gen = "of_k_rdm" -> KFoldRdm(src, c.byR, Len(Groups(RDesc(src, c.byR))) \div c.kR, c.perms[1])
    [] c.gen = "k_fold" -> KFold(src, c.byR, c.byP, c.kR, c.kP, c.perms[1], Tail(c.perms))
    [] c.gen = "random" -> RandomSets(src, c.byR, c.byP, c.kR, c.kP, Groups(RDesc(src, c.byR)),
                                      Groups(PDesc(src, c.byP)), c.perms)

(* ---------------- the cases ---------------------------------------------- *)
Case(src, gen, byR, byP, kR, kP, rnd, perms) ==
  [src |-> src, gen |-> gen, byR |-> byR, byP |-> byP, kR |-> kR, kP |-> kP, rnd |-> rnd, perms |-> perms]
RBy == {"index", "subj", "grp"}
PBy == {"index", "cond", "cat"}
GR(v, by) == Len(Groups(RDesc(SrcOb(v), by)))
GP(v, by) == Len(Groups(PDesc(SrcOb(v), by)))
\* shuffle outcomes: identity only when random = FALSE
PermChoices(n, rnd) == IF rnd THEN PermsL(n) ELSE {Ident(n)}

CasesOf(v) ==
  (
    (IF "loo_pattern" \in Gens THEN {Case(v, "loo_pattern", "", byP, 0, 0, FALSE, <<>>) : byP \in PBy} ELSE {})
    \cup (IF "loo_rdm" \in Gens THEN {Case(v, "loo_rdm", byR, "", 0, 0, FALSE, <<>>) : byR \in RBy} ELSE {})
    \cup (IF "k_fold_pattern" \in Gens
          THEN UNION {UNION {UNION {{Case(v, "k_fold_pattern", "", byP, 0, k, rnd, <<p>>) : p \in PermChoices(GP(v, byP), rnd)}
                                    : rnd \in BOOLEAN} : k \in 1..GP(v, byP)} : byP \in PBy} ELSE {})
    \cup (IF "k_fold_rdm" \in Gens
          THEN UNION {UNION {UNION {{Case(v, "k_fold_rdm", byR, "", k, 0, rnd, <<p>>) : p \in PermChoices(GR(v, byR), rnd)}
                                    : rnd \in BOOLEAN} : k \in 2..GR(v, byR)} : byR \in RBy} ELSE {})
    \cup (IF "of_k_pattern" \in Gens
          THEN UNION {UNION {UNION {{Case(v, "of_k_pattern", "", byP, 0, k, rnd, <<p>>) : p \in PermChoices(GP(v, byP), rnd)}
                                    : rnd \in BOOLEAN} : k \in 1..(GP(v, byP) \div 2)} : byP \in PBy} ELSE {})
    \cup (IF "of_k_rdm" \in Gens
          THEN UNION {UNION {UNION {{Case(v, "of_k_rdm", byR, "", k, 0, rnd, <<p>>) : p \in PermChoices(GR(v, byR), rnd)}
                                    : rnd \in BOOLEAN} : k \in 1..(GR(v, byR) \div 2)} : byR \in RBy} ELSE {})
    \cup (IF "k_fold" \in Gens
          THEN UNION {UNION {UNION {UNION {UNION {
                 {Case(v, "k_fold", byR, byP, kR, kP, rnd, <<pr>> \o pp) :
                      pr \in PermChoices(GR(v, byR), rnd), pp \in [1..kR -> PermChoices(GP(v, byP), rnd)]}
                 : rnd \in BOOLEAN} : kP \in 1..Min2(KMax, GP(v, byP))} : kR \in 1..Min2(KMax, GR(v, byR))} : byP \in PBy} : byR \in RBy}
          ELSE {})
    \cup (IF "random" \in Gens
          THEN UNION {UNION {UNION {UNION {
                 {Case(v, "random", byR, byP, nR, nP, TRUE, pp) :
                      pp \in [1..2 -> PermsL(GR(v, byR)) \X PermsL(GP(v, byP))]}
                 : nP \in 0..Min2(KMax, GP(v, byP) - 1)} : nR \in 0..Min2(KMax, GR(v, byR) - 1)} : byP \in PBy} : byR \in RBy}
          ELSE {}))

\* two stages so that TLC's workers share the enumeration: Init picks source and generator,
\* the single step picks descriptors, k / n and shuffle outcomes and computes the folds
CInit == /\ objs = [o \in 1..MaxObj |-> IF o = 1 THEN Source ELSE Null] /\ hist = <<>>
         /\ fc \in {Case(v, g, "", "", 0, 0, FALSE, <<>>) : v \in 1..3, g \in Gens}
         /\ folds = <<>> /\ stage = 0
CNext == /\ stage = 0 /\ stage' = 1
         /\ fc' \in {c \in CasesOf(fc.src) : c.gen = fc.gen}
         /\ folds' = Folds(fc')
         /\ UNCHANGED <<objs, hist>>
Chosen == stage = 1

(* ---------------- the clauses of C05 as invariants ------------------------ *)
SplitsP(c) == c.gen \in {"loo_pattern"} \/ (c.gen \in {"k_fold_pattern", "k_fold"} /\ c.kP > 1)
              \/ (c.gen = "of_k_pattern" /\ GP(c.src, c.byP) \div c.kP > 1) \/ (c.gen = "random" /\ c.kP > 0)
SplitsR(c) == (c.gen = "loo_rdm" /\ GR(c.src, c.byR) > 1) \/ c.gen \in {"k_fold_rdm", "of_k_rdm"}
              \/ (c.gen = "k_fold" /\ c.kR > 1) \/ (c.gen = "random" /\ c.kR > 0)
UsesP(c) == c.byP # ""
UsesR(c) == c.byR # ""

\* a: test groups disjoint from training groups on every axis that is split
Disjoint == Chosen => LET c == fc IN \A f \in DOMAIN folds : LET F == folds[f] IN
   /\ SplitsP(c) => Range(PDesc(F.test, c.byP)) \cap Range(PDesc(F.train, c.byP)) = {}
   /\ SplitsR(c) => Range(RDesc(F.test, c.byR)) \cap Range(RDesc(F.train, c.byR)) = {}

\* b: all members and bootstrap copies of a group are on the same side
WholeGroups == Chosen => LET c == fc  src == SrcOb(c.src) IN \A f \in DOMAIN folds : LET F == folds[f] IN
   /\ UsesP(c) => \A v \in Range(PDesc(src, c.byP)) : \A ob \in {F.train, F.test} :
                     Count(PDesc(ob, c.byP), v) \in {0, Count(PDesc(src, c.byP), v)}
   /\ UsesR(c) => \A v \in Range(RDesc(src, c.byR)) : \A ob \in {F.train, F.test} :
                     Count(RDesc(ob, c.byR), v) \in {0, Count(RDesc(src, c.byR), v)}

NoAxis == -7
\* c: exhaustive schemes put every group (pair of groups) in exactly one test fold; sizes differ <= 1
Exhaustive == Chosen => LET c == fc  src == SrcOb(c.src)  FF == folds IN
   c.gen \in {"loo_pattern", "loo_rdm", "k_fold_pattern", "k_fold_rdm", "of_k_pattern", "of_k_rdm", "k_fold"} =>
     LET gp == IF UsesP(c) /\ SplitsP(c) THEN Range(PDesc(src, c.byP)) ELSE {NoAxis}
         gr == IF UsesR(c) /\ SplitsR(c) THEN Range(RDesc(src, c.byR)) ELSE {NoAxis}
         InTest(F, a, b) == (a = NoAxis \/ a \in Range(RDesc(F.test, c.byR))) /\ (b = NoAxis \/ b \in Range(PDesc(F.test, c.byP)))
         NTest(F) == Cardinality({<<a, b>> \in gr \X gp : InTest(F, a, b)})
     IN /\ \A a \in gr : \A b \in gp : Cardinality({f \in DOMAIN FF : InTest(FF[f], a, b)}) = 1
        /\ (c.gen # "k_fold" =>
              \A f1 \in DOMAIN FF : \A f2 \in DOMAIN FF : NTest(FF[f1]) - NTest(FF[f2]) \in {-1, 0, 1})

\* d: the objects hold exactly the advertised RDMs and conditions; ceiling sets = training RDMs at test conditions
Advertised == Chosen => LET c == fc  src == SrcOb(c.src) IN \A f \in DOMAIN folds : LET F == folds[f] IN
   /\ AssocOk(F.train) /\ AssocOk(F.test) /\ ShapeOk(F.train) /\ ShapeOk(F.test)
   /\ UsesP(c) => /\ Range(PDesc(F.test, c.byP)) = Range(F.testIdx)
                  /\ Range(PDesc(F.train, c.byP)) = Range(F.trainIdx)
   /\ ~UsesP(c) => F.test.pats = src.pats /\ F.train.pats = src.pats
   /\ ~UsesR(c) => F.test.rows = src.rows /\ F.train.rows = src.rows
   /\ F.hasCeil => /\ AssocOk(F.ceil) /\ F.ceil.rows = F.train.rows /\ F.ceil.pats = F.test.pats

\* e/f: no entry of a training object involves a test-group condition or a test-group RDM
NoLeak == Chosen => LET c == fc IN \A f \in DOMAIN folds : LET F == folds[f] IN
   /\ SplitsP(c) => \A k \in DOMAIN F.train.pats : PDesc(F.train, c.byP)[k] \notin Range(PDesc(F.test, c.byP))
   /\ SplitsR(c) => \A k \in DOMAIN F.train.rows : RDesc(F.train, c.byR)[k] \notin Range(RDesc(F.test, c.byR))

Strip(ob) == [rows |-> ob.rows, pats |-> ob.pats, ridx |-> ob.ridx, pidx |-> ob.pidx, pinv |-> ob.pinv,
              meas |-> ob.meas, pcat |-> ob.pcat, pdem |-> ob.pdem, vec |-> ob.vec]
EmitCase == Chosen => PrintT(ToJson([case |-> fc,
                           folds |-> [f \in DOMAIN folds |->
                              LET F == folds[f] IN
                              [train |-> Strip(F.train), test |-> Strip(F.test), ceil |-> Strip(F.ceil),
                               hasCeil |-> F.hasCeil, trainIdx |-> F.trainIdx, testIdx |-> F.testIdx]]]))
=============================================================================
