------------------------------- MODULE Persist -------------------------------
(***************************************************************************)
(* Saving and loading rsatoolbox objects (property C16).                   *)
(*                                                                         *)
(* A small file system  fs : Path -> File  over NPath paths, a catalogue of*)
(* in-memory objects (abstract content ids, each of a kind: RDMs, Dataset, *)
(* TemporalDataset, ModelFixed, ModelWeighted, ModelSelect,                *)
(* ModelInterpolate, Result) and the two public operations                 *)
(*                                                                         *)
(*    Save(obj, path, fmt, overwrite, mode)   outcome Ok | Refused         *)
(*    Load(path, fmt, mode)                   returns an object            *)
(*                                                                         *)
(* where fmt is "hdf5" or "pkl" and mode says how the target is given:     *)
(*   "path"   a file name (str);                                           *)
(*   "pathlib" the same file name as a pathlib.Path: exactly the semantics *)
(*            of a str path (refuse-or-replace), for save and for load;    *)
(*   "fresh"  an open binary file object on the path, opened for this one  *)
(*            call (positioned at 0, not truncated) and closed afterwards; *)
(*   "kept"   an open file object on the path that stays open (and is      *)
(*            re-used by later "kept" saves on that path) until Close.     *)
(*                                                                         *)
(* A file is a set of CELLS <<key, owner>>: the top-level keys of the      *)
(* dictionary form (obj.to_dict()) of the object that wrote them, plus one *)
(* cell "own" standing for the object-specific nested keys (descriptor     *)
(* names).  This granularity is what makes "replace" different from        *)
(* "merge": the HDF5 writer opens its target in APPEND mode (h5py mode 'a')*)
(* so it ADDS keys to whatever is there.  Save is modelled in the stages of*)
(* the code:                                                               *)
(*   1. to_dict           a new top-level dict over the object's members   *)
(*   2. remove_file       only if overwrite: a path is unlinked, an open   *)
(*                        file object is truncated to length 0             *)
(*   3. the writer        hdf5: a str target that exists is REFUSED        *)
(*                        (ValueError, nothing written); otherwise the keys*)
(*                        are added to the target;  pkl: a str target is   *)
(*                        opened 'wb' (truncating), the (version-stamped)  *)
(*                        dict is pickled into the target.                 *)
(* and the C16 clauses are stated INDEPENDENTLY of these stages over the   *)
(* history (LoadReturnsLastSaved, RefusedLeavesFsUnchanged,                *)
(* OverwriteIsReplaceNotMerge, SaveLeavesObjectUnchanged, FrameOtherPath,  *)
(* RefusalExactly), so TLC checks that guard + remove + append-mode write  *)
(* together implement "replace or refuse".  The constant Design selects the*)
(* code's design ("code") or a deliberately broken one; the broken ones    *)
(* exist only to show that the invariants can fail (non-vacuity).          *)
(*                                                                         *)
(* Admissibility (Enabled): the property promises refusal only for PATHS;  *)
(* what a file OBJECT positioned in existing content does without overwrite*)
(* is not specified (pickle documents stream semantics: a second dump is   *)
(* appended; h5py merges or raises), so a handle save without overwrite is *)
(* enabled only on an absent/empty file.  While a "kept" handle is open on *)
(* a path, only that handle writes to the path.                            *)
(***************************************************************************)
EXTENDS Integers, Sequences, FiniteSets, TLC, Json

CONSTANTS NPath,           \* paths are 1..NPath
          NObj,            \* catalogue content ids are 1..NObj
          KindAssignments, \* set of functions 1..NObj -> Kinds, one is chosen in Init
          Depth,           \* length of the enumerated histories
          EmitMod,         \* emit one history in EmitMod (1 = all)
          Modes,           \* subset of {"path", "pathlib", "fresh", "kept"} used in this configuration
          Ops,             \* event families enumerated: subset of {"fs", "stream"}
          Design           \* "code" or a broken design (see Broken below)

VARIABLES fs,      \* Path -> File
          mem,     \* content id -> cells of the in-memory object (its dictionary form)
          loaded,  \* content id of the object returned by the last Load (0 = none)
          held,    \* set of paths on which a kept handle is open
          kinds,   \* the kind assignment of this behaviour
          strm,    \* ONE open binary stream used for pickle: [items, pos] (see "pickle streams" below)
          hist
vars == <<fs, mem, loaded, held, kinds, strm, hist>>

Paths == 1..NPath
Objs == 1..NObj
Fmts == {"hdf5", "pkl"}
Kinds == {"RDMs", "Dataset", "TemporalDataset", "ModelFixed", "ModelWeighted", "ModelSelect",
          "ModelInterpolate", "Result"}
Broken == {"no_remove",        \* overwrite does not remove / truncate the old file
           "no_guard",         \* the hdf5 writer does not refuse an existing path
           "guard_str_only",   \* ... refuses only a str, not a pathlib.Path naming the same file
           "refusal_cleans_up",\* a refused save deletes the existing file
           "pkl_refuses",      \* the pkl writer refuses an existing path like hdf5 does
           "load_rewinds",     \* the pkl reader rewinds a passed file object before it unpickles
           "writer_marks"}     \* the pkl version stamp is put into the object's own dict

(* top-level keys of the dictionary form, as written by <class>.to_dict() *)
KindKeys(k) ==
  CASE k = "RDMs" -> {"dissimilarities", "descriptors", "rdm_descriptors", "pattern_descriptors",
                      "dissimilarity_measure"}
    [] k = "Dataset" -> {"measurements", "descriptors", "obs_descriptors", "channel_descriptors", "type"}
    [] k = "TemporalDataset" -> {"measurements", "descriptors", "obs_descriptors", "channel_descriptors",
                                 "time_descriptors", "type"}
    [] k \in {"ModelFixed", "ModelWeighted", "ModelSelect", "ModelInterpolate"} -> {"rdm", "name", "type"}
    [] k = "Result" -> {"evaluations", "dof", "variances", "noise_ceiling", "method", "cv_method",
                        "n_rdm", "n_pattern", "models"}
KindTable == [k \in Kinds |-> KindKeys(k)]

OwnKey(o) == "own" \o ToString(o)      \* the object-specific nested keys (descriptor names) differ per object
Cells(kk, o) == {<<key, o>> : key \in KindKeys(kk[o]) \cup {OwnKey(o)}}
KeysOf(cells) == {c[1] : c \in cells}

Absent == [ex |-> FALSE, fmt |-> "", cells |-> {}]
Empty  == [ex |-> TRUE,  fmt |-> "", cells |-> {}]
HasContent(f) == f.ex /\ f.cells # {}

\* the content id a file holds EXACTLY: 0 nothing, -1 a mixture / fragment
Owner(kk, f) == IF f.cells = {} THEN 0
                ELSE IF \E o \in Objs : f.cells = Cells(kk, o)
                     THEN CHOOSE o \in Objs : f.cells = Cells(kk, o)
                     ELSE -1
View(kk, f) == [p \in Paths |-> [fmt |-> f[p].fmt, own |-> Owner(kk, f[p]), ex |-> IF f[p].ex THEN 1 ELSE 0]]

IsPath(mode) == mode \in {"path", "pathlib"}     \* the target is a file NAME (str or pathlib.Path)

(* ------------------------------ events ---------------------------------- *)
\* src = 0: catalogue object o ; src = 1: the object returned by the last Load (content o)
Ev(op, o, src, p, fmt, ow, mode) ==
  [op |-> op, o |-> o, src |-> src, p |-> p, fmt |-> fmt, ow |-> ow, mode |-> mode]

(* ------------------------------ pickle streams -------------------------- *)
(* A file object is a STREAM with one position.  pickle.dump writes one     *)
(* pickle at the position, pickle.load reads one pickle from the position   *)
(* and leaves the position behind it: several objects saved one after the   *)
(* other through ONE handle are read back one after the other, in order.    *)
(* strm.items is the sequence of content ids in the stream, strm.pos the    *)
(* number of items before the position.  "ssave" (save(handle, 'pkl'))      *)
(* appends at the end, or with overwrite truncates first; "sseek" is the    *)
(* caller's handle.seek(0); "sload" (load_*(handle, 'pkl')) returns the item*)
(* at the position.  Writing into the middle of a stream is not specified   *)
(* (not enabled).                                                           *)
IsStream(op) == op \in {"ssave", "sload", "sseek"}
StreamAfter(st, e) ==
  CASE e.op = "ssave" -> IF e.ow = 1 /\ Design # "no_remove" THEN [items |-> <<e.o>>, pos |-> 1]
                         ELSE [items |-> Append(st.items, e.o), pos |-> Len(st.items) + 1]
    [] e.op = "sseek" -> [st EXCEPT !.pos = 0]
    [] e.op = "sload" -> IF Design = "load_rewinds" THEN [st EXCEPT !.pos = 1] ELSE [st EXCEPT !.pos = @ + 1]
    [] OTHER -> st
StreamRead(st) == IF Design = "load_rewinds" THEN st.items[1] ELSE st.items[st.pos + 1]

Enabled(f, ld, hd, st, e) ==
  /\ (IsStream(e.op) \/ e.p \in Paths)
  /\ CASE e.op = "ssave" ->
            /\ e.o \in Objs /\ e.ow \in {0, 1} /\ e.src \in {0, 1} /\ (e.src = 1 => ld = e.o)
            /\ (e.ow = 1 \/ st.pos = Len(st.items))
       [] e.op = "sload" -> st.pos < Len(st.items)
       [] e.op = "sseek" -> st.items # <<>>
       [] e.op = "save" ->
            /\ e.o \in Objs /\ e.fmt \in Fmts /\ e.ow \in {0, 1} /\ e.mode \in Modes /\ e.src \in {0, 1}
            /\ (e.src = 1 => ld = e.o)
            /\ (e.mode = "kept" \/ e.p \notin hd)
            /\ (~IsPath(e.mode) => (e.ow = 1 \/ ~HasContent(f[e.p])))
       [] e.op = "load" ->
            /\ e.mode \in (Modes \ {"kept"}) /\ HasContent(f[e.p]) /\ f[e.p].fmt = e.fmt
       [] e.op = "close" -> e.p \in hd
       [] OTHER -> FALSE

(* ------------------------------ Save in stages -------------------------- *)
\* stage 0 (caller): opening a file object on an absent path creates an empty file
Opened(file, e) == IF ~IsPath(e.mode) /\ ~file.ex THEN Empty ELSE file
\* stage 2: util.file_io.remove_file, only with overwrite
Removed(file, e) ==
  IF e.ow = 0 \/ Design = "no_remove" THEN file
  ELSE IF IsPath(e.mode) THEN Absent ELSE Empty
\* stage 3: the writers.  Result: [out, file]
WriteHdf5(file, e, cells) ==
  IF IsPath(e.mode) /\ file.ex /\ Design # "no_guard" /\ ~(Design = "guard_str_only" /\ e.mode = "pathlib")
  THEN [out |-> "Refused", file |-> IF Design = "refusal_cleans_up" THEN Absent ELSE file]   \* ValueError('File already exists!')
  ELSE IF KeysOf(file.cells) \cap KeysOf(cells) # {}
       THEN [out |-> "Error", file |-> file]                  \* h5py: name already exists
       ELSE [out |-> "Ok", file |-> [ex |-> TRUE, fmt |-> "hdf5", cells |-> file.cells \cup cells]]
WritePkl(file, e, cells) ==
  IF Design = "pkl_refuses" /\ IsPath(e.mode) /\ file.ex THEN [out |-> "Refused", file |-> file]
  ELSE IF IsPath(e.mode) THEN [out |-> "Ok", file |-> [ex |-> TRUE, fmt |-> "pkl", cells |-> cells]]  \* open(.., 'wb')
  ELSE IF file.cells = {} THEN [out |-> "Ok", file |-> [ex |-> TRUE, fmt |-> "pkl", cells |-> cells]]
  ELSE [out |-> "Ok", file |-> [ex |-> TRUE, fmt |-> "pkl", cells |-> file.cells \cup cells]]        \* written into old content
SaveResult(kk, f, m, e) ==
  LET dict == m[e.o]                                  \* stage 1: to_dict (new top-level dict)
      f0 == Opened(f[e.p], e)
      f1 == Removed(f0, e)
  IN IF e.fmt = "hdf5" THEN WriteHdf5(f1, e, dict) ELSE WritePkl(f1, e, dict)
\* the in-memory object after the call: the pkl writer stamps the NEW dict, not the object
MemAfter(m, e) == IF Design = "writer_marks" /\ e.fmt = "pkl"
                  THEN [m EXCEPT ![e.o] = @ \cup {<<"rsatoolbox_version", e.o>>}] ELSE m

Init == /\ kinds \in KindAssignments
        /\ fs = [p \in Paths |-> Absent]
        /\ mem = [o \in Objs |-> Cells(kinds, o)]
        /\ loaded = 0 /\ held = {} /\ hist = <<>>
        /\ strm = [items |-> <<>>, pos |-> 0]

Rec(e, out, res, f, ld, st) == [ev |-> e, out |-> out, res |-> res, post |-> View(kinds, f), loaded |-> ld,
                                spost |-> st]

Step(e) ==
  /\ Enabled(fs, loaded, held, strm, e)
  /\ UNCHANGED kinds
  /\ strm' = StreamAfter(strm, e)
  /\ CASE e.op = "ssave" ->
            /\ mem' = MemAfter(mem, [e EXCEPT !.fmt = "pkl"])
            /\ UNCHANGED <<fs, held, loaded>>
            /\ hist' = Append(hist, Rec(e, "Ok", 0, fs, loaded, strm'))
       [] e.op = "sload" ->
            /\ loaded' = StreamRead(strm)
            /\ UNCHANGED <<fs, mem, held>>
            /\ hist' = Append(hist, Rec(e, "Ok", loaded', fs, loaded', strm'))
       [] e.op = "sseek" ->
            /\ UNCHANGED <<fs, mem, held, loaded>>
            /\ hist' = Append(hist, Rec(e, "Ok", 0, fs, loaded, strm'))
       [] e.op = "save" ->
            LET r == SaveResult(kinds, fs, mem, e) IN
            /\ fs' = [fs EXCEPT ![e.p] = r.file]
            /\ mem' = MemAfter(mem, e)
            /\ held' = IF e.mode = "kept" THEN held \cup {e.p} ELSE held
            /\ UNCHANGED loaded
            /\ hist' = Append(hist, Rec(e, r.out, 0, fs', loaded, strm'))
       [] e.op = "load" ->
            LET res == Owner(kinds, fs[e.p]) IN
            /\ loaded' = res
            /\ UNCHANGED <<fs, mem, held>>
            /\ hist' = Append(hist, Rec(e, "Ok", res, fs, res, strm'))
       [] e.op = "close" ->
            /\ held' = held \ {e.p}
            /\ UNCHANGED <<fs, mem, loaded>>
            /\ hist' = Append(hist, Rec(e, "Ok", 0, fs, loaded, strm'))

FsEvents ==
  {Ev("save", o, 0, p, fmt, ow, mode) : o \in Objs, p \in Paths, fmt \in Fmts, ow \in {0, 1}, mode \in Modes}
  \cup {Ev("save", loaded, 1, p, fmt, ow, mode) : p \in Paths, fmt \in Fmts, ow \in {0, 1}, mode \in Modes}
  \cup {Ev("load", 0, 0, p, fmt, 0, mode) : p \in Paths, fmt \in Fmts, mode \in Modes \ {"kept"}}
  \cup {Ev("close", 0, 0, p, "", 0, "") : p \in Paths}
StreamEvents ==
  {Ev("ssave", o, 0, 0, "pkl", ow, "stream") : o \in Objs, ow \in {0, 1}}
  \cup {Ev("ssave", loaded, 1, 0, "pkl", ow, "stream") : ow \in {0, 1}}
  \cup {Ev("sload", 0, 0, 0, "pkl", 0, "stream"), Ev("sseek", 0, 0, 0, "pkl", 0, "stream")}
Events == (IF "fs" \in Ops THEN FsEvents ELSE {}) \cup (IF "stream" \in Ops THEN StreamEvents ELSE {})

Next == Len(hist) < Depth /\ \E e \in Events : Step(e)
Spec == Init /\ [][Next]_vars

(* ------------------------------ properties ------------------------------ *)
TypeOK == /\ \A p \in Paths : fs[p].fmt \in Fmts \cup {""} /\ fs[p].cells \subseteq (STRING \X Objs)
          /\ loaded \in Objs \cup {0, -1} /\ held \subseteq Paths

\* --- pickle streams, stated over the history only ---
\* indices of the entries among the first n that satisfy Test
Idx(n, Test(_)) == SelectSeq([k \in 1..n |-> k], LAMBDA k : Test(hist[k]))
LastIdx(n, Test(_)) == LET s == Idx(n, Test) IN IF s = <<>> THEN 0 ELSE s[Len(s)]
\* the objects written to the stream up to entry n: since (and including) the last overwriting save
Written(n) ==
  LET t == LastIdx(n, LAMBDA h : h.ev.op = "ssave" /\ h.ev.ow = 1)
      w == SelectSeq([k \in 1..n |-> k], LAMBDA k : k >= t /\ k >= 1 /\ hist[k].ev.op = "ssave")
  IN [k \in 1..Len(w) |-> hist[w[k]].ev.o]
\* the k-th load after the caller's rewind returns the k-th object written: saved back to back, read back in order
StreamReadsInOrder ==
  \A i \in 1..Len(hist) : hist[i].ev.op = "sload" =>
     LET j == LastIdx(i - 1, LAMBDA h : h.ev.op \in {"sseek", "ssave"})
         k == Len(SelectSeq([m \in 1..i |-> m], LAMBDA m : m > j /\ hist[m].ev.op = "sload"))
     IN /\ j > 0 /\ hist[j].ev.op = "sseek"
        /\ k <= Len(Written(i)) /\ hist[i].res = Written(i)[k]
StreamHoldsWrites == strm.items = Written(Len(hist))
StreamFrame ==
  \A i \in 1..Len(hist) :
     /\ (~IsStream(hist[i].ev.op)) => hist[i].spost = (IF i = 1 THEN [items |-> <<>>, pos |-> 0] ELSE hist[i - 1].spost)
     /\ IsStream(hist[i].ev.op) => hist[i].post = (IF i = 1 THEN View(kinds, [p \in Paths |-> Absent]) ELSE hist[i - 1].post)

IsSaveOk(h) == h.ev.op = "save" /\ h.out = "Ok"
\* content id of the last successful save to path p among the first n history entries (0 = none)
RECURSIVE LastSaved(_, _)
LastSaved(n, p) == IF n = 0 THEN 0
                   ELSE IF IsSaveOk(hist[n]) /\ hist[n].ev.p = p THEN hist[n].ev.o
                   ELSE LastSaved(n - 1, p)
PostBefore(i) == IF i = 1 THEN [p \in Paths |-> [fmt |-> "", own |-> 0, ex |-> 0]] ELSE hist[i - 1].post

\* a load returns exactly the content of the last successful save to that path
LoadReturnsLastSaved ==
  \A i \in 1..Len(hist) : hist[i].ev.op = "load" =>
     /\ hist[i].res = LastSaved(i - 1, hist[i].ev.p) /\ hist[i].res \in Objs
\* every path holds exactly the last successfully saved object, in the format of that save
FileHoldsLastSaved ==
  \A p \in Paths : Owner(kinds, fs[p]) = LastSaved(Len(hist), p)
\* the only outcomes are Ok and Refused; refused exactly for: hdf5, str path, exists, no overwrite
RefusalExactly ==
  \A i \in 1..Len(hist) : hist[i].ev.op = "save" =>
     LET e == hist[i].ev IN
     /\ hist[i].out \in {"Ok", "Refused"}
     /\ hist[i].out = "Refused" <=>
          (e.fmt = "hdf5" /\ IsPath(e.mode) /\ e.ow = 0 /\ PostBefore(i)[e.p].ex = 1)
RefusedLeavesFsUnchanged ==
  \A i \in 1..Len(hist) : hist[i].out = "Refused" => hist[i].post = PostBefore(i)
\* after a successful save the file holds exactly the new object: no leftover key of an old one
OverwriteIsReplaceNotMerge ==
  \A i \in 1..Len(hist) : IsSaveOk(hist[i]) =>
     /\ hist[i].post[hist[i].ev.p].own = hist[i].ev.o
     /\ hist[i].post[hist[i].ev.p].fmt = hist[i].ev.fmt
FrameOtherPath ==
  \A i \in 1..Len(hist) : \A q \in Paths : (q # hist[i].ev.p \/ hist[i].ev.op # "save") =>
     hist[i].post[q] = PostBefore(i)[q]
SaveLeavesObjectUnchanged == mem = [o \in Objs |-> Cells(kinds, o)]
\* the stage model itself: the append-mode writer never meets old content
NoMerge == \A p \in Paths : Owner(kinds, fs[p]) # -1

(* ------------------------------ emission -------------------------------- *)
ASSUME PrintT(ToJson([kindtable |-> KindTable]))
Emit == (Len(hist) = Depth /\ (EmitMod = 1 \/ RandomElement(1..EmitMod) = 1))
          => PrintT(ToJson([kinds |-> kinds, hist |-> hist]))
=============================================================================
