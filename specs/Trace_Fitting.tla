---------------------------- MODULE Trace_Fitting ----------------------------
(***************************************************************************)
(* Implementation -> specification for Fitting: fit calls recorded by      *)
(* harness/fitting.py:record_trace (recording fitters inside crossval, and *)
(* fits on bootstrap samples) on data whose entries are tied to source     *)
(* tokens.  Every event is one call of a fitter:                            *)
(*   rows   the source RDM of every data row the fitter received           *)
(*   pidx   the pattern indices it was given                                *)
(*   tok    the source token of every data entry it received (-1 = NaN,    *)
(*          -2 = a value that does not belong to the entry its labels name)*)
(*   theta  the returned parameters * 10^4 (selection: the index)          *)
(*   s9     the training score of theta * 10^9, comps: competitors with    *)
(*          their scores, both by the implementation's compare.            *)
(* Checked per event, reusing RestrOb of Fitting (= RdmsStore!SubsamplePats)*)
(*   f  tok = the training RDMs at exactly the selected conditions, every   *)
(*      condition with its multiplicity in pidx                             *)
(*   a-d  no logged competitor scores above theta (within the tolerance)    *)
(*   b,d,e  constraints: theta >= 0 (non-negative / interpolation), unit    *)
(*      norm (regression), adjacent convex pair (interpolation), index      *)
(*      within range (selection).                                            *)
(* Sessions with hdr.fitter = "family" record rsatoolbox.model.ModelFamily: *)
(* member index -> subset of component models must be FamilyList(n)[i].     *)
(* One behaviour per trace id; acceptance is printed.                       *)
(***************************************************************************)
EXTENDS Fitting, IOUtils
VARIABLES tid, l
Traces == JsonDeserialize(IOEnv.TRACE_FILE)
K4 == 10000
Hdr == Traces[tid].hdr
Evs == Traces[tid].ev

TInit == /\ tid \in 1..Len(Traces) /\ l = 1
         /\ objs = [o \in 1..MaxObj |-> IF o = 1 THEN Source ELSE Null] /\ hist = <<>>
         /\ bid = 1 /\ train = <<>> /\ pidx = <<>> /\ pc = "trace" /\ comp = <<>> /\ th2 = <<>> /\ cc = 0 /\ fits = <<>>

ExpectedTok(e) == LET ob == RestrOb(e.pidx) IN [r \in 1..Len(e.rows) |-> ob.vec[e.rows[r]]]
SumSq(t) == SumS([k \in 1..Len(t) |-> t[k] * t[k]])
Support(t) == {k \in 1..Len(t) : t[k] # 0}
\* sessions of the family driver: hdr.fitter = "family"; an event logs, for family index e.i of e.n component models,
\* the subset the library lists for it and the component ids read off the member's RDM rows (tokens)
WhyFam(e) == IF e.subset # FamilyList(e.n)[e.i] THEN "family-index"
             ELSE IF e.rows # e.subset \/ e.nparam # Len(e.subset) THEN "family-member" ELSE ""
\* sessions of fits on ONE model object (hdr.fitter = "session", hdr.basis = the integer basis RDMs, hdr.mfp / hdr.dfp =
\* fingerprints of the model's RDMs and of the data before the first fit): after every fit the fingerprints are the same
\* and predict(theta) for the logged integer theta is still Predict(theta, ORIGINAL basis) (action Fit leaves the model alone)
\* Predict of Fitting for a logged basis of any number of conditions
PredictB(th, B) == [k \in 1..Len(B[1]) |-> SumS([j \in 1..Len(B) |-> th[j] * B[j][k]])]
WhySess(e) == IF e.mfp # Hdr.mfp THEN "model-modified"
              ELSE IF e.dfp # Hdr.dfp THEN "data-modified"
              ELSE IF e.pred # PredictB(e.th, Hdr.basis) THEN "prediction-after-fit"
              ELSE IF ~e.same THEN "fit-depends-on-history" ELSE ""
Why(e) ==
  LET th == e.theta  kk == Hdr.K  f == Hdr.fitter IN
  IF f = "family" THEN WhyFam(e)
  ELSE IF f = "session" THEN WhySess(e)
  ELSE IF e.tok # ExpectedTok(e) THEN "data-entries"
  ELSE IF \E i \in 1..Len(e.comps) : e.comps[i].s9 > e.s9 + Hdr.tol9 THEN "beaten"
  ELSE IF f = "fit_select" THEN (IF th[1] >= 0 /\ th[1] < kk THEN "" ELSE "index-range")
  ELSE IF Len(th) # kk THEN "shape"
  ELSE IF f \in {"fit_regress_nn", "fit_interpolate"} /\ \E k \in 1..kk : th[k] < 0 THEN "negative-weight"
  ELSE IF f \in {"fit_regress", "fit_regress_nn"} /\ SumSq(th) # 0
          /\ ~(SumSq(th) - K4 * K4 <= 3 * K4 /\ K4 * K4 - SumSq(th) <= 3 * K4) THEN "not-unit-norm"
  ELSE IF f = "fit_interpolate"
          /\ ~(/\ SumS(th) - K4 <= kk /\ K4 - SumS(th) <= kk
               /\ \A a \in Support(th) : \A b \in Support(th) : a - b \in {-1, 0, 1}) THEN "not-adjacent-convex"
  ELSE ""

TStep == /\ l >= 1 /\ l <= Len(Evs)
         /\ LET e == Evs[l] IN
            IF Why(e) = ""
            THEN /\ l' = l + 1 /\ (l = Len(Evs) => PrintT(ToJson([accept |-> tid])))
            ELSE /\ PrintT(ToJson([reject |-> tid, l |-> l, why |-> Why(e),
                                   expected |-> IF Hdr.fitter = "family" THEN FamilyList(e.n)[e.i]
                                                ELSE IF Hdr.fitter = "session" THEN PredictB(e.th, Hdr.basis) ELSE ExpectedTok(e)]))
                 /\ l' = 0
         /\ UNCHANGED <<objs, hist, bid, train, pidx, pc, comp, th2, cc, fits, tid>>
TSpec == TInit /\ [][TStep]_<<objs, hist, bid, train, pidx, pc, comp, th2, cc, fits, tid, l>>
=============================================================================
