------------------------- MODULE Trace_PlotDecisions -------------------------
(***************************************************************************)
(* Implementation -> specification for X01.  harness/plotdecisions.py      *)
(* plots Results produced by the real eval_fixed / eval_bootstrap_rdm /    *)
(* eval_bootstrap_pattern / eval_bootstrap (and numpy-generated fixed      *)
(* evaluations) with random options and records                            *)
(*   op "bars": the options (alpha as <<num, den>>, mpt, sort, style), what *)
(*       the Result's public accessors report - means (x 10^6), the three  *)
(*       families of p-values of Result.test_all (floor(p x 10^5); the     *)
(*       recorder drops an event with a p-value closer than 2 x 10^-5 to a *)
(*       threshold), SEM, mean noise ceiling - and the DECISIONS read back *)
(*       from the returned Axes: bar order (tick labels), bar tops, error  *)
(*       bars, markers above 0 / below the ceiling, ceiling box, and the   *)
(*       elements of the upper panel for the chosen style;                 *)
(*   op "grid": show_rdm options and the observed grid of panels.          *)
(* Every event is re-decided here from the logged inputs with the operators*)
(* of PlotDecisions.tla (Orders, ThrOf, SigOf, MarksOf, LayOf, Covered,    *)
(* GridOut) and compared.  One behaviour per trace id; every event that    *)
(* cannot be explained prints the failing clauses; acceptance is printed   *)
(* if all events of the trace were explained.                              *)
(***************************************************************************)
EXTENDS PlotDecisions, IOUtils
VARIABLES tid, l, bad
Traces == JsonDeserialize(IOEnv.TRACE_FILE)

PS == 100000
SeqSet(s) == {s[n] : n \in 1..Len(s)}
Near(a, b) == Abs(a - b) <= 1

\* ---- the decisions for a bars event, in drawn order o
P(x) == <<x, PS>>
Alpha(rec) == <<rec.alpha[1], rec.alpha[2]>>
PvD(rec, o) == [pair |-> [x \in 1..rec.k |-> [y \in 1..rec.k |-> IF x = y THEN <<1, 1>> ELSE P(rec.pp[o[x]][o[y]])]],
                zero |-> [x \in 1..rec.k |-> P(rec.pz[o[x]])],
                nc   |-> [x \in 1..rec.k |-> P(rec.pn[o[x]])]]
SigD(rec, o) == LET p == PvD(rec, o) IN SigOf(p.pair, rec.k, ThrOf(p.pair, rec.k, Alpha(rec), rec.mpt))
PerfD(rec, o) == [x \in 1..rec.k |-> <<rec.perf[o[x]], 1>>]
LayD(rec, o) == LayOf(SigD(rec, o), PerfD(rec, o), rec.k, rec.sort)

\* (recorded sequences are tuples: compared element by element, never as a whole with a function of the specification)
OrderOk(rec) ==
  /\ Len(rec.ord) = rec.k /\ {rec.ord[a] : a \in 1..rec.k} = 1..rec.k
  /\ (rec.sort = 0 => \A a \in 1..rec.k : rec.ord[a] = a)
  /\ (rec.sort # 0 => SortedBy([m \in 1..rec.k |-> <<rec.perf[m], 1>>], rec.ord, rec.sort))
PairsOk(rec) ==
  LET o == rec.ord  k == rec.k  sg == SigD(rec, o)  ly == LayD(rec, o) IN
  CASE rec.style = "nili"    -> SeqSet(rec.segs) = ly.nili /\ Len(rec.segs) = Cardinality(ly.nili)
    [] rec.style = "nili2"   -> SeqSet(rec.segs) = ly.nili2 /\ Len(rec.segs) = Cardinality(ly.nili2)
    [] rec.style = "golan"   -> /\ Len(rec.wings) = Len(ly.golan)
                                /\ \A n \in 1..Len(rec.wings) : /\ rec.wings[n].a = ly.golan[n].a
                                                                 /\ SeqSet(rec.wings[n].f) = ly.golan[n].f
                                                                 /\ Len(rec.wings[n].f) = Cardinality(ly.golan[n].f)
    [] rec.style = "cliques" -> {SeqSet(c) : c \in SeqSet(rec.cliques)} = ly.cliques /\ Len(rec.cliques) = Cardinality(ly.cliques)
    [] rec.style = "arrows"  -> Covered(rec.elems, k) = SigPairs(sg, k)
    [] OTHER                 -> rec.segs = <<>> /\ rec.wings = <<>> /\ rec.cliques = <<>> /\ rec.elems = <<>>
Holds(c, rec) ==
  LET o == rec.ord  k == rec.k  mk == MarksOf(PvD(rec, o), k, Alpha(rec)) IN
  CASE c = "height"   -> Len(rec.h) = k /\ \A x \in 1..k : Near(rec.h[x], rec.perf[o[x]])
    [] c = "errorbar" -> Len(rec.err) = k /\ \A x \in 1..k : Near(rec.err[x], rec.sem[o[x]])
    [] c = "ceiling"  -> Len(rec.ceil) = 1 /\ Near(rec.ceil[1][1], rec.ceilexp[1]) /\ Near(rec.ceil[1][2], rec.ceilexp[2])
    [] c = "zero"     -> SeqSet(rec.zero) = (IF rec.zon = 1 THEN mk.zero ELSE {}) /\ Len(rec.zero) = Cardinality(SeqSet(rec.zero))
    [] c = "nc"       -> SeqSet(rec.nc) = (IF rec.non = 1 THEN mk.nc ELSE {}) /\ Len(rec.nc) = Cardinality(SeqSet(rec.nc))
    [] c = "pairs"    -> PairsOk(rec)
BarsFailing(rec) ==
  IF rec.raised # "" THEN {"raised"}
  ELSE IF rec.unreadable # "" THEN {"unreadable"}
  ELSE IF ~OrderOk(rec) THEN {"order"}
  ELSE {c \in {"height", "errorbar", "ceiling", "zero", "nc", "pairs"} : ~Holds(c, rec)} \cup (IF rec.frame = 1 THEN {} ELSE {"frame"})
\* diagnostics: the marked pairs in MODEL order (defined whatever was drawn), and for arrows what is missing / not allowed
BarsDiag(rec) ==
  LET id == IdPerm(rec.k)  sg == SigD(rec, id) IN
  [nsig |-> Cardinality(SigPairs(sg, rec.k)), npair |-> NTests(rec.k), sigmodel |-> SigPairs(sg, rec.k),
   missing |-> IF rec.style = "arrows" /\ rec.raised = "" /\ rec.unreadable = "" /\ OrderOk(rec)
               THEN SigPairs(SigD(rec, rec.ord), rec.k) \ Covered(rec.elems, rec.k) ELSE {},
   extra   |-> IF rec.style = "arrows" /\ rec.raised = "" /\ rec.unreadable = "" /\ OrderOk(rec)
               THEN Covered(rec.elems, rec.k) \ SigPairs(SigD(rec, rec.ord), rec.k) ELSE {}]

GridRec(rec) == [n |-> rec.n, nrow |-> rec.nrow, ncol |-> rec.ncol, cb |-> rec.cb]
GridFailing(rec) ==
  LET g == GridRec(rec)  e == GridOut(g) IN
  IF rec.raised # "" THEN {"raised"} ELSE
  (IF e.shape = rec.shape THEN {} ELSE {"shape"})
  \cup (IF e.shape = rec.shape /\ ~(Len(rec.cells) = e.shape[1] * e.shape[2] /\ \A p \in 1..Len(rec.cells) : rec.cells[p] = e.cells[p])
        THEN {"cells"} ELSE {})
  \cup (IF e.bars = rec.bars THEN {} ELSE {"colorbars"})

\* the recorder must stay inside the domain of the specification
EnabledEv(rec) ==
  IF rec.op = "bars" THEN rec.k >= 2 /\ rec.alpha[1] > 0 /\ rec.alpha[2] >= rec.alpha[1] /\ rec.mpt \in 0..2 /\ rec.sort \in 0..2
                          /\ Len(rec.perf) = rec.k /\ Len(rec.pp) = rec.k /\ Len(rec.pz) = rec.k /\ Len(rec.pn) = rec.k
  ELSE rec.op = "grid" /\ GridFits(GridRec(rec))
Failing(rec) == IF rec.op = "bars" THEN BarsFailing(rec) ELSE GridFailing(rec)

TInit == /\ tid \in 1..Len(Traces) /\ l = 1 /\ bad = FALSE
         /\ inp = 0 /\ stage = "trace" /\ perf = None /\ ord = None /\ pv = None /\ thr = None /\ sig = None
         /\ marks = None /\ lay = None
TStep == /\ l >= 1 /\ l <= Len(Traces[tid])
         /\ LET rec == Traces[tid][l]
                en == EnabledEv(rec)
                fl == IF en THEN Failing(rec) ELSE {"not-enabled"}
            IN /\ (fl # {} => PrintT(ToJson([reject |-> tid, l |-> l, op |-> rec.op, enabled |-> en, clauses |-> fl,
                                             diag |-> IF en /\ rec.op = "bars" THEN BarsDiag(rec) ELSE [none |-> 0]])))
               /\ bad' = (bad \/ fl # {})
               /\ l' = l + 1
               /\ ((l = Len(Traces[tid]) /\ ~bad') => PrintT(ToJson([accept |-> tid])))
         /\ UNCHANGED <<tid, inp, stage, perf, ord, pv, thr, sig, marks, lay>>
TSpec == TInit /\ [][TStep]_<<inp, stage, perf, ord, pv, thr, sig, marks, lay, tid, l, bad>>
=============================================================================
