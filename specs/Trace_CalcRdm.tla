---------------------------- MODULE Trace_CalcRdm ----------------------------
(***************************************************************************)
(* Implementation -> specification for C01 / C02.                          *)
(*                                                                         *)
(* harness/calcrdm.py:record_trace runs rsatoolbox on integer-grid inputs  *)
(* that are LARGER than the exhaustively enumerated domain and logs, per   *)
(* call, the abstract input (labels, data, method, options - the same      *)
(* record shape as CalcRdm!inp) and what the library returned: the labels  *)
(* per row and every value as an exact normalised rational <<num, den>>    *)
(* (<<sgn, num, den>> of r^2 for correlation, <<0,0>> for NaN; the         *)
(* irrational poisson values stay on the Python side as floats).           *)
(*                                                                         *)
(* One behaviour per trace id: inp is bound to the logged input, the       *)
(* pipeline actions of CalcRdm recompute the definition stage by stage     *)
(* (every theorem of CalcRdm is evaluated in every state), and when the    *)
(* terminal stage is reached the logged output must be explained by `out`: *)
(* keyed by label where a condition descriptor was given (the order of     *)
(* conditions is free, the returned labels describe it), positionally      *)
(* otherwise.  A verdict line is printed per trace.                        *)
(***************************************************************************)
EXTENDS CalcRdm, IOUtils, TLCExt
VARIABLES tid
Traces == JsonDeserialize(IOEnv.TRACE_FILE)

\* JSON has no sets: the bins of a movie arrive as arrays of time indices
Bind(lg) == IF lg.mode = "movie"
            THEN [lg EXCEPT !.bins = [b \in 1..Len(lg.bins) |-> Range(lg.bins[b])]]
            ELSE lg

\* does the specification's result o explain the logged result lg ?
LabelsOk(o, lg) ==
  /\ Len(lg.lab) = Len(o.lab)
  /\ IF inp.useDesc THEN Range(lg.lab) = Range(o.lab) /\ Cardinality(Range(lg.lab)) = Len(lg.lab)
                    ELSE lg.lab = o.lab
RowOf(o, lg, p) == IF inp.useDesc THEN IndexOf(o.lab, lg.lab[p]) ELSE p
Exact == /\ inp.method \in {"euclidean", "mahalanobis", "correlation", "crossnobis"}
         /\ inp.unbal => inp.method # "correlation"      \* (unbalanced correlation: pairwise, irrational)
ValuesOk(o, lg) ==
  /\ Len(lg.rdms) = Len(o.rdms)
  /\ Exact => \A r \in 1..Len(o.rdms) :
       LET n == Len(o.lab) IN
       /\ Len(lg.rdms[r]) = CLen(n)
       /\ \A p \in 1..n : \A q \in 1..n : p < q =>
            lg.rdms[r][Cidx(n, p, q)] = MatAt(o.rdms[r].vec, n, RowOf(o, lg, p), RowOf(o, lg, q))
TimeOk(o, lg) == inp.mode = "movie" => lg.time = o.time
FirstBad(o, lg) ==      \* diagnostics: the first (rdm, p, q) whose value is not explained
  IF ~Exact \/ ~LabelsOk(o, lg) \/ Len(lg.rdms) # Len(o.rdms) THEN <<0, 0, 0>>
  ELSE LET n == Len(o.lab)
           B == {x \in (1..Len(o.rdms)) \X (1..n) \X (1..n) :
                   x[2] < x[3] /\ (Len(lg.rdms[x[1]]) # CLen(n) \/
                   lg.rdms[x[1]][Cidx(n, x[2], x[3])] # MatAt(o.rdms[x[1]].vec, n, RowOf(o, lg, x[2]), RowOf(o, lg, x[3])))}
       IN IF B = {} THEN <<0, 0, 0>> ELSE CHOOSE x \in B : TRUE

Verdict(o) ==
  LET lg == Traces[tid].out IN
  IF LabelsOk(o, lg) /\ ValuesOk(o, lg) /\ TimeOk(o, lg)
  THEN PrintT(ToJson([accept |-> tid,
                      \* what the Python side needs to finish the irrational (log) step
                      lab |-> o.lab,
                      rates |-> IF Exact THEN <<>> ELSE [r \in 1..Len(o.rdms) |-> o.rdms[r].rates],
                      pairs |-> [r \in 1..Len(o.rdms) |-> o.rdms[r].pairs]]))
  ELSE PrintT(ToJson([reject |-> tid, labels_ok |-> LabelsOk(o, lg), time_ok |-> TimeOk(o, lg),
                      first_bad |-> FirstBad(o, lg), expected |-> o]))

TInit == /\ tid \in 1..Len(Traces)
         /\ inp = Bind(Traces[tid].inp)
         /\ stage = "init" /\ means = <<>> /\ kern = <<>> /\ built = <<>> /\ srt = <<>> /\ out = <<>>
         /\ contrib = <<>>
Pipeline == \/ Average
            \/ \E m \in {"euclidean", "correlation", "mahalanobis", "poisson"} : Kernel(m)
            \/ Build \/ SortAlpha \/ PartialCv \/ PartialUnbalanced \/ Single \/ ListBranch \/ Movie
            \/ DefaultFolds \/ ExplicitFolds \/ SortByCond \/ FoldMeans \/ PairProducts
            \/ AverageFoldPairs \/ BuildCv
TNext == /\ Pipeline /\ UNCHANGED tid
         /\ (stage' = "done" => Verdict(out'))
\* recorded inputs must be inside the contract the specification states (else the recorder is wrong)
Admissible == (stage = "init" /\ inp.mode = "cv") =>
                 IF inp.foldsrc = "default" THEN DefaultAdmissible(inp.lab)
                 ELSE FoldBalanced(inp.lab, inp.fold)
=============================================================================
