--------------------------- MODULE Trace_NoiseCov ---------------------------
(***************************************************************************)
(* Implementation -> specification.  harness/noisecov.py:record_trace      *)
(* builds (larger) integer designs, calls the public estimators of         *)
(* rsatoolbox.data.noise and logs, per call and per list element, the      *)
(* returned matrix as scaled integers: num = round(out * dofS) for 'full'  *)
(* and 'diag' (dofS = the dof the recorder believes applies; integral = 1  *)
(* iff every out*dofS is within the stated error bound of an integer).     *)
(* This module re-runs the staged actions of NoiseCov on the logged INPUT  *)
(* (Resid, CrossProd, Dof, Full recomputed by TLC) and every logged event  *)
(* must be explained:  dofS = dof[k],  integral,  num = xp[k] (full) or its*)
(* diagonal (diag); for the measurement-based estimator on a single        *)
(* Dataset the tensor route (TensorXProd / TensorDof) must explain it too. *)
(* Shrinkage events carry the recovered intensity as lamQ/Q and            *)
(* num = round(out * dofS * Q [* P]); they must satisfy the convex-        *)
(* combination relation for that single intensity within the quantisation  *)
(* bound, with 0 <= lamQ <= Q.   One behaviour per trace id.               *)
(***************************************************************************)
EXTENDS NoiseCov, IOUtils, TLCExt
VARIABLES tid, l
Traces == JsonDeserialize(IOEnv.TRACE_FILE)
tvars == <<inp, pc, res, xp, dof, full, tid, l>>

Abs(a) == IF a < 0 THEN -a ELSE a
InputOK(i) == /\ i.P >= 1 /\ Len(i.blocks) >= 1 /\ Len(i.dofv) = Len(i.blocks)
              /\ \A k \in 1..Len(i.blocks) : WellFormed(i.blocks[k], i.P) /\ DofAdmissible(i.blocks[k], i.dofopt)
              /\ (i.dofopt # 0 => \A k \in 1..Len(i.blocks) : i.dofv[k] >= 1)

TInit == /\ tid \in 1..Len(Traces) /\ l = 1
         /\ inp = Traces[tid].inp
         /\ pc = "init" /\ Blank

\* clauses, one per logged field
DofClause(e) == e.dofS = dof[e.k]
RouteClause(e) == (e.est = 2 /\ inp.form = 4) =>
                     /\ Balanced(inp.blocks[e.k])
                     /\ TensorXProd(inp.blocks[e.k], inp.P) = xp[e.k]
                     /\ (inp.dofopt = 0 => TensorDof(inp.blocks[e.k]) = e.dofS)
IntClause(e) == e.integral = 1
ExpectNum(e) ==
  LET P == inp.P  m == xp[e.k]  tr == Trace(m, P) IN
  CASE e.meth = 1 -> m
    [] e.meth = 2 -> [i \in 1..P |-> [j \in 1..P |-> IF i = j THEN m[i][j] ELSE 0]]
    [] e.meth = 3 -> [i \in 1..P |-> [j \in 1..P |->
                         (IF i = j THEN e.lamQ * tr ELSE 0) + (e.Q - e.lamQ) * P * m[i][j]]]
    [] e.meth = 4 -> [i \in 1..P |-> [j \in 1..P |->
                         IF i = j THEN e.Q * m[i][j] ELSE (e.Q - e.lamQ) * m[i][j]]]
\* twice the admissible deviation of a logged entry
Slack2(e, i, j) ==
  LET P == inp.P  m == xp[e.k]  tr == Trace(m, P) IN
  CASE e.meth \in {1, 2} -> 0
    [] e.meth = 3 -> Abs((IF i = j THEN tr ELSE 0) - P * m[i][j]) + 2
    [] e.meth = 4 -> IF i = j THEN 2 ELSE Abs(m[i][j]) + 2
LamClause(e) == e.meth \in {3, 4} => (e.Q >= 1 /\ e.lamQ >= 0 /\ e.lamQ <= e.Q)
ValClause(e) == /\ Len(e.num) = inp.P
                /\ \A i, j \in 1..inp.P : 2 * Abs(e.num[i][j] - ExpectNum(e)[i][j]) <= Slack2(e, i, j)
Explained(e) == DofClause(e) /\ RouteClause(e) /\ IntClause(e) /\ LamClause(e) /\ ValClause(e)
FirstFail(e) == CASE ~DofClause(e) -> "dof" [] ~RouteClause(e) -> "route" [] ~IntClause(e) -> "integral"
                  [] ~LamClause(e) -> "lambda" [] OTHER -> "value"

TBad == /\ pc = "init" /\ ~InputOK(inp)
        /\ PrintT(ToJson([reject |-> tid, l |-> 0, enabled |-> FALSE, clause |-> "input"]))
        /\ pc' = "rejected" /\ UNCHANGED <<inp, res, xp, dof, full, tid, l>>
TCompute == /\ pc # "done" /\ (pc = "init" => InputOK(inp))
            /\ (Resid \/ CrossProd \/ Dof \/ Full) /\ UNCHANGED <<tid, l>>
TStep == /\ pc = "done" /\ l >= 1 /\ l <= Len(Traces[tid].calls)
         /\ LET e == Traces[tid].calls[l] IN
            IF e.k \in 1..NB /\ Explained(e)
            THEN /\ l' = l + 1
                 /\ (l = Len(Traces[tid].calls) => PrintT(ToJson([accept |-> tid])))
            ELSE /\ PrintT(ToJson([reject |-> tid, l |-> l, enabled |-> TRUE,
                                   clause |-> IF e.k \in 1..NB THEN FirstFail(e) ELSE "k",
                                   est |-> e.est, meth |-> e.meth, k |-> e.k,
                                   dof |-> dof, logged_dof |-> e.dofS,
                                   expected |-> IF e.k \in 1..NB THEN ExpectNum(e) ELSE <<>>]))
                 /\ l' = 0
         /\ UNCHANGED <<inp, pc, res, xp, dof, full, tid>>
TSpec == TInit /\ [][TBad \/ TCompute \/ TStep]_tvars
=============================================================================
