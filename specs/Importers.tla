------------------------------ MODULE Importers ------------------------------
(***************************************************************************)
(* Importers of rsatoolbox.io (property C20): what the structure encoded   *)
(* in external names and files is, stated independently of the code.       *)
(*                                                                         *)
(* Strings are sequences of integer ATOMS: a positive integer is a WORD    *)
(* (a maximal run of characters without separator; the harness owns the    *)
(* table word id -> text), a negative integer is one of the four separator *)
(* characters  /  _  -  .   The harness turns an atom sequence into a      *)
(* string by plain concatenation and lexes strings returned by the library *)
(* back into atoms, so Format / Parse below work at the level of the       *)
(* characters that matter (splitting is done HERE, not in the harness).    *)
(* Key words ("sub", "derivatives", ...) have fixed ids; value words may   *)
(* collide with them (task-run, desc-sub), the grammar is positional.      *)
(*                                                                         *)
(* Sections (one small pipeline each; Init picks an input, the actions     *)
(* follow the stages, invariants state the laws, Emit prints test vectors):*)
(*  bids    : entities <-> relative path, look-ups              (C20 a, b) *)
(*  meadows : file-name grammar, contents -> RDMs, sorting      (C20 c)    *)
(*  mne     : epochs -> temporal dataset                        (C20 d)    *)
(*  dm      : design-matrix structure                           (C20 e)    *)
(*  spm     : per-run projection  Y - X0 (X0' Y), exact         (C20 f)    *)
(*  layout  : histories of look-ups on ONE layout object        (C20 b)    *)
(*  hrf     : design matrix for events on the volume grid, EXACT (C20 e)   *)
(*  dataset : a derivative data set on disk, find_fmriprep_runs (C20 b)    *)
(*  df      : RDMs -> long table rows (io.pandas)               (export)   *)
(***************************************************************************)
EXTENDS Integers, Sequences, FiniteSets, TLC, SequencesExt, Functions, Json, ImportersHrf

CONSTANTS Sections,   \* subset of {"bids", "layout", "meadows", "mne", "dm", "spm"}
          BidsVals,   \* record: entity name -> set of value words (ext: set of word sequences)
          DescArgs,   \* desc words passed to the sibling look-ups
          SufArgs,    \* suffix words passed to the sibling look-ups
          EmitMod,    \* emit one in EmitMod of the cases outside the implementation's contract
          StimSizes,  \* Meadows: numbers of stimuli
          MaxRdm,     \* Meadows: max participants / multi-arrangement tasks per file
          VolSet,     \* design matrix: volume counts
          SpmMaxRuns, \* SPM: max number of runs
          SpmPats,    \* SPM: data patterns
          SpmEmitMod, \* SPM: emit one in SpmEmitMod run structures
          LayoutDepth,   \* layout: length of the enumerated look-up histories on ONE layout object
          LayoutEmitMod, \* layout: emit one in LayoutEmitMod histories
          MaxCond,       \* dm / hrf: max number of trial types
          MneCodes,      \* mne: event codes
          Ds             \* dataset: record of the words the fmriprep helpers hard-code (see MC_Importers)

VARIABLES sec, stage, inp, out
vars == <<sec, stage, inp, out>>

(* ======================= atoms, splitting, joining ======================= *)
SLASH == -1
USC   == -2
DASH  == -3
DOT   == -4

WDERIV == 1   WSUB == 2   WSES == 3   WTASK == 4   WRUN == 5   WSPACE == 6   WDESC == 7
WJSON == 8    WTSV == 9   WEVENTS == 10   WMAT == 11   WMEADOWS == 12   WV == 13   WEPO == 14   WFIF == 15

RECURSIVE Join(_, _)
Join(ps, sep) == IF ps = <<>> THEN <<>>
                 ELSE IF Len(ps) = 1 THEN ps[1]
                 ELSE ps[1] \o <<sep>> \o Join(Tail(ps), sep)

FirstPos(s, sep) == SelectInSeq(s, LAMBDA x : x = sep)      \* first index or 0 (Java override)
RECURSIVE SplitAt(_, _)
SplitAt(s, sep) == LET i == FirstPos(s, sep) IN
                   IF i = 0 THEN <<s>>
                   ELSE <<SubSeq(s, 1, i - 1)>> \o SplitAt(SubSeq(s, i + 1, Len(s)), sep)
Opt(c, x) == IF c THEN <<x>> ELSE <<>>
Kv(k, w) == <<k, DASH, w>>
IsKv(seg, k) == Len(seg) = 3 /\ seg[1] = k /\ seg[2] = DASH
Words(s) == SelectSeq(s, LAMBDA x : x > 0)

(* ============================== (a) BIDS ================================= *)
(* An entity record: 0 = absent, otherwise the value word; ext is a        *)
(* sequence of words (<<>> absent; "nii.gz" = two words).                  *)
Fields == {"sub", "ses", "task", "run", "space", "desc", "suffix", "ext", "derivative", "modality"}
Entities == [sub : BidsVals.sub \cup {0}, ses : BidsVals.ses \cup {0}, task : BidsVals.task \cup {0},
             run : BidsVals.run \cup {0}, space : BidsVals.space \cup {0}, desc : BidsVals.desc \cup {0},
             suffix : BidsVals.suffix \cup {0}, ext : BidsVals.ext \cup {<<>>},
             derivative : BidsVals.derivative \cup {0}, modality : BidsVals.modality \cup {0}]
NoEnt == [sub |-> 0, ses |-> 0, task |-> 0, run |-> 0, space |-> 0, desc |-> 0, suffix |-> 0,
          ext |-> <<>>, derivative |-> 0, modality |-> 0]

\* what the implementation's contract covers: a data file of a subject inside a datatype directory
Valid(e) == e.sub # 0 /\ e.suffix # 0 /\ e.ext # <<>> /\ e.modality # 0

\* key-value segments of the file name in the order BIDS prescribes
KvSegs(e) == Opt(e.sub # 0, Kv(WSUB, e.sub)) \o Opt(e.ses # 0, Kv(WSES, e.ses))
             \o Opt(e.task # 0, Kv(WTASK, e.task)) \o Opt(e.run # 0, Kv(WRUN, e.run))
             \o Opt(e.space # 0, Kv(WSPACE, e.space)) \o Opt(e.desc # 0, Kv(WDESC, e.desc))
NameSegs(e) == KvSegs(e) \o Opt(e.suffix # 0, <<e.suffix>>)
ExtAtoms(x) == IF x = <<>> THEN <<>> ELSE <<DOT>> \o Join([i \in 1..Len(x) |-> <<x[i]>>], DOT)
FName(e) == Join(NameSegs(e), USC) \o ExtAtoms(e.ext)
Dirs(e) == (IF e.derivative # 0 THEN << <<WDERIV>>, <<e.derivative>> >> ELSE <<>>)
           \o Opt(e.sub # 0, Kv(WSUB, e.sub)) \o Opt(e.ses # 0, Kv(WSES, e.ses))
           \o Opt(e.modality # 0, <<e.modality>>)
Format(e) == Join(Dirs(e) \o <<FName(e)>>, SLASH)

\* decomposition of a path into its lexical parts (used by Parse, WellFormed and LookupPath)
Decomp(p) ==
  LET comps == SplitAt(p, SLASH)
      hasDer == Len(comps) >= 3 /\ comps[1] = <<WDERIV>> /\ Len(comps[2]) = 1
      rest == IF hasDer THEN SubSeq(comps, 3, Len(comps)) ELSE comps
      fname == rest[Len(rest)]
      dot == FirstPos(fname, DOT)
      stem == IF dot = 0 THEN fname ELSE SubSeq(fname, 1, dot - 1)
      segs == IF stem = <<>> THEN <<>> ELSE SplitAt(stem, USC)
      hasSuf == segs # <<>> /\ Len(segs[Len(segs)]) = 1
  IN [der |-> IF hasDer THEN comps[2][1] ELSE 0,
      dirs |-> SubSeq(rest, 1, Len(rest) - 1),
      kvs |-> IF hasSuf THEN SubSeq(segs, 1, Len(segs) - 1) ELSE segs,
      suffix |-> IF hasSuf THEN segs[Len(segs)][1] ELSE 0,
      ext |-> IF dot = 0 THEN <<>> ELSE Words(SubSeq(fname, dot + 1, Len(fname)))]
Recomp(d) ==
  Join((IF d.der # 0 THEN << <<WDERIV>>, <<d.der>> >> ELSE <<>>) \o d.dirs
       \o << Join(d.kvs \o Opt(d.suffix # 0, <<d.suffix>>), USC) \o ExtAtoms(d.ext) >>, SLASH)

FindKv(segs, k) == LET hit == SelectSeq(segs, LAMBDA s : IsKv(s, k)) IN
                   IF hit = <<>> THEN 0 ELSE hit[1][3]
Parse(p) ==
  LET d == Decomp(p)
      mods == SelectSeq(d.dirs, LAMBDA x : Len(x) = 1)
  IN [sub |-> FindKv(d.kvs, WSUB), ses |-> FindKv(d.kvs, WSES), task |-> FindKv(d.kvs, WTASK),
      run |-> FindKv(d.kvs, WRUN), space |-> FindKv(d.kvs, WSPACE), desc |-> FindKv(d.kvs, WDESC),
      suffix |-> d.suffix, ext |-> d.ext, derivative |-> d.der,
      modality |-> IF mods = <<>> THEN 0 ELSE mods[1][1]]

\* the grammar as a recogniser, written without Format
KeyRank(k) == CASE k = WSUB -> 1 [] k = WSES -> 2 [] k = WTASK -> 3 [] k = WRUN -> 4
                [] k = WSPACE -> 5 [] k = WDESC -> 6 [] OTHER -> 99
DirKind(x) == IF IsKv(x, WSUB) THEN 1 ELSE IF IsKv(x, WSES) THEN 2 ELSE IF Len(x) = 1 THEN 3 ELSE 99
Increasing(s) == \A i \in 1..Len(s) : s[i] < 99 /\ (i > 1 => s[i - 1] < s[i])
WellFormed(p) ==
  LET d == Decomp(p)
      dk == [i \in 1..Len(d.dirs) |-> DirKind(d.dirs[i])]
      sk == [i \in 1..Len(d.kvs) |-> IF Len(d.kvs[i]) = 3 /\ d.kvs[i][2] = DASH
                                      THEN KeyRank(d.kvs[i][1]) ELSE 99]
      dirVal(k) == FindKv(d.dirs, k)
  IN /\ Increasing(dk) /\ Increasing(sk)
     /\ dirVal(WSUB) = FindKv(d.kvs, WSUB) /\ dirVal(WSES) = FindKv(d.kvs, WSES)
     /\ \A i \in 1..Len(p) : p[i] = SLASH => (i > 1 /\ p[i - 1] # SLASH)   \* no empty directory names

\* damaged variants of a well-formed path: adjacent segments swapped, a directory dropped or swapped
SwapAt(s, i) == [k \in 1..Len(s) |-> IF k = i THEN s[i + 1] ELSE IF k = i + 1 THEN s[i] ELSE s[k]]
DropAt(s, i) == SubSeq(s, 1, i - 1) \o SubSeq(s, i + 1, Len(s))
Mutants(e) ==
  LET ns == NameSegs(e)  ds == Dirs(e)
      mk(d2, n2) == Join(d2 \o <<Join(n2, USC) \o ExtAtoms(e.ext)>>, SLASH)
  IN {mk(ds, SwapAt(ns, i)) : i \in 1..(Len(ns) - 1)}
     \cup {mk(DropAt(ds, i), ns) : i \in 1..Len(ds)}
     \cup {mk(SwapAt(ds, i), ns) : i \in 1..(Len(ds) - 1)}

(* ---- look-ups: on entities (what they are asked to change) and on paths -- *)
LookKinds == {"meta", "events", "tsib", "msib", "key"}
Named(kind) == CASE kind = "meta" -> {"ext"}
                 [] kind = "events" -> {"derivative", "space", "desc", "suffix", "ext"}
                 [] kind = "tsib" -> {"desc", "suffix", "ext", "space"}
                 [] kind = "msib" -> {"desc", "suffix"}
                 [] kind = "key" -> Fields \ {"derivative", "desc", "suffix"}
LookEnabled(kind, e) == Valid(e) /\ (kind = "key" => e.desc # 0)
LookupEnt(kind, e, d, s) ==
  CASE kind = "meta" -> [e EXCEPT !.ext = <<WJSON>>]
    [] kind = "events" -> [e EXCEPT !.derivative = 0, !.space = 0, !.desc = 0,
                                    !.suffix = WEVENTS, !.ext = <<WTSV>>]
    [] kind = "tsib" -> [e EXCEPT !.desc = d, !.suffix = s, !.ext = <<WTSV>>, !.space = 0]
    [] kind = "msib" -> [e EXCEPT !.desc = d, !.suffix = s]
    [] kind = "key" -> [NoEnt EXCEPT !.derivative = e.derivative, !.desc = e.desc,
                                     !.suffix = e.suffix, !.ext = <<WTSV>>]
\* the same look-ups described as edits of the path text
DropKey(segs, k) == SelectSeq(segs, LAMBDA x : ~IsKv(x, k))
LookupPath(kind, p, d, s) ==
  LET c == Decomp(p) IN
  CASE kind = "meta" -> Recomp([c EXCEPT !.ext = <<WJSON>>])
    [] kind = "events" -> Recomp([c EXCEPT !.der = 0, !.kvs = DropKey(DropKey(c.kvs, WSPACE), WDESC),
                                           !.suffix = WEVENTS, !.ext = <<WTSV>>])
    [] kind = "tsib" -> Recomp([c EXCEPT !.kvs = DropKey(DropKey(c.kvs, WSPACE), WDESC) \o <<Kv(WDESC, d)>>,
                                         !.suffix = s, !.ext = <<WTSV>>])
    [] kind = "msib" -> Recomp([c EXCEPT !.kvs = DropKey(c.kvs, WDESC) \o <<Kv(WDESC, d)>>, !.suffix = s])
    [] kind = "key" -> Recomp([c EXCEPT !.dirs = <<>>, !.kvs = SelectSeq(c.kvs, LAMBDA x : IsKv(x, WDESC)),
                                        !.ext = <<WTSV>>])
Field(e, f) == CASE f = "sub" -> <<e.sub>> [] f = "ses" -> <<e.ses>> [] f = "task" -> <<e.task>>
                 [] f = "run" -> <<e.run>> [] f = "space" -> <<e.space>> [] f = "desc" -> <<e.desc>>
                 [] f = "suffix" -> <<e.suffix>> [] f = "ext" -> e.ext
                 [] f = "derivative" -> <<e.derivative>> [] f = "modality" -> <<e.modality>>

\* file-name entities the MNE reader extracts (descriptors_from_bids_filename)
NameDescs(e) == [sub |-> e.sub, run |-> e.run, task |-> e.task]

LookArgs == {<<d, s>> : d \in DescArgs, s \in SufArgs}
LookList(e) ==            \* the look-ups emitted for replay (two argument pairs per sibling kind)
  LET a1 == CHOOSE a \in LookArgs : \A b \in LookArgs : a[1] <= b[1] /\ (a[1] = b[1] => a[2] <= b[2])
      a2 == CHOOSE a \in LookArgs : \A b \in LookArgs : a[1] >= b[1] /\ (a[1] = b[1] => a[2] >= b[2])
      one(kind, a) == [kind |-> kind, d |-> a[1], s |-> a[2],
                       ent |-> LookupEnt(kind, e, a[1], a[2]),
                       path |-> Format(LookupEnt(kind, e, a[1], a[2]))]
  IN <<one("meta", <<0, 0>>), one("events", <<0, 0>>), one("tsib", a1), one("tsib", a2),
       one("msib", a1), one("msib", a2)>> \o Opt(e.desc # 0, one("key", <<0, 0>>))

(* ---- a layout object used for MANY look-ups ------------------------------ *)
(* A BidsLayout is created once per data set and then asked for siblings of  *)
(* many files.  The specification's layout has no memory: the answer to a    *)
(* look-up is a function of the base file and the look-up alone, whatever    *)
(* was asked before.  Histories of look-ups over a family of files that      *)
(* differ from each other in ONE entity are enumerated and replayed on one   *)
(* real layout object (and one real file object per family member).          *)
FirstOf(S) == CHOOSE x \in S : \A y \in S : x <= y
LastOf(S) == CHOOSE x \in S : \A y \in S : x >= y
ExtFirst == CHOOSE x \in BidsVals.ext : \A y \in BidsVals.ext : Len(x) <= Len(y)
ExtLast == CHOOSE x \in BidsVals.ext : \A y \in BidsVals.ext : Len(x) >= Len(y)
Base0 == [sub |-> FirstOf(BidsVals.sub), ses |-> FirstOf(BidsVals.ses), task |-> FirstOf(BidsVals.task),
          run |-> FirstOf(BidsVals.run), space |-> FirstOf(BidsVals.space), desc |-> FirstOf(BidsVals.desc),
          suffix |-> FirstOf(BidsVals.suffix), ext |-> ExtFirst,
          derivative |-> FirstOf(BidsVals.derivative), modality |-> FirstOf(BidsVals.modality)]
Family ==                  \* the base file and every file that differs from it in exactly one entity
  <<Base0,
    [Base0 EXCEPT !.sub = LastOf(BidsVals.sub)], [Base0 EXCEPT !.ses = LastOf(BidsVals.ses)],
    [Base0 EXCEPT !.task = LastOf(BidsVals.task)], [Base0 EXCEPT !.run = LastOf(BidsVals.run)],
    [Base0 EXCEPT !.space = LastOf(BidsVals.space)], [Base0 EXCEPT !.desc = LastOf(BidsVals.desc)],
    [Base0 EXCEPT !.suffix = LastOf(BidsVals.suffix)], [Base0 EXCEPT !.ext = ExtLast],
    [Base0 EXCEPT !.derivative = LastOf(BidsVals.derivative)],
    [Base0 EXCEPT !.modality = LastOf(BidsVals.modality)],
    [Base0 EXCEPT !.ses = 0], [Base0 EXCEPT !.task = 0], [Base0 EXCEPT !.run = 0],
    [Base0 EXCEPT !.space = 0], [Base0 EXCEPT !.desc = 0], [Base0 EXCEPT !.derivative = 0],
    \* ... and four files that differ in two entities at once
    [Base0 EXCEPT !.space = LastOf(BidsVals.space), !.desc = LastOf(BidsVals.desc)],
    [Base0 EXCEPT !.run = LastOf(BidsVals.run), !.space = 0],
    [Base0 EXCEPT !.ses = 0, !.run = 0],
    [Base0 EXCEPT !.derivative = LastOf(BidsVals.derivative), !.space = LastOf(BidsVals.space)]>>
LayoutArg == CHOOSE a \in LookArgs : \A b \in LookArgs : a[1] <= b[1] /\ (a[1] = b[1] => a[2] <= b[2])
\* the answer of a (memoryless) layout
Answer(files, f, kind, d, s) == LookupEnt(kind, files[f], d, s)
LayoutStepRec(files, f, kind) ==
  LET a == IF kind \in {"tsib", "msib"} THEN LayoutArg ELSE <<0, 0>>
      r == Answer(files, f, kind, a[1], a[2]) IN
  [f |-> f, kind |-> kind, d |-> a[1], s |-> a[2], ent |-> r, path |-> Format(r)]

(* ============================ (c) Meadows ================================ *)
CONSTANTS NumWords,     \* words that consist of digits only (value = word - NumBase)
          PetWords,     \* words that are in the petname list
          AdjWords,     \* first halves of participant nicknames
          TaskWords,    \* plain task names (not digits, second half never a petname)
          ExpWords, VerWords, StructWords
NumBase == 300
NumVal(w) == w - NumBase
IsNumSeg(seg) == Len(seg) = 1 /\ seg[1] \in NumWords
IsPetSeg(seg) == Len(seg) = 3 /\ seg[2] = DASH /\ seg[3] \in PetWords

\* name descriptor: shape in {"1p1t","1pmt","mp1t"}; part = participant nickname atoms or <<>>;
\* tidx = number word or 0; tname = task-name atoms or <<>>
FormatName(d) ==
  Join(<< <<WMEADOWS>>, <<d.exp>>, <<WV>>, <<d.ver>> >>
       \o (CASE d.shape = "1p1t" -> <<d.part, <<d.tidx>>>>
             [] d.shape = "1pmt" -> <<d.part>>
             [] d.shape = "mp1t" -> <<d.tname>>)
       \o << <<d.struct>> >>, USC) \o <<DOT, d.ft>>
ParseName(a) ==
  LET dot == FirstPos(a, DOT)
      segs == SplitAt(SubSeq(a, 1, dot - 1), USC)
      n == Len(segs)
      pen == segs[n - 1]
      common == [exp |-> segs[2][1], ver |-> segs[4][1], struct |-> segs[n][1], ft |-> a[dot + 1]]
  IN IF IsNumSeg(pen)
     THEN common @@ [shape |-> "1p1t", part |-> segs[n - 2], tidx |-> pen[1], tname |-> <<>>]
     ELSE IF IsPetSeg(pen)
     THEN common @@ [shape |-> "1pmt", part |-> pen, tidx |-> 0, tname |-> <<>>]
     ELSE common @@ [shape |-> "mp1t", part |-> <<>>, tidx |-> 0, tname |-> pen]

Nicknames == {<<a, DASH, p>> : a \in AdjWords, p \in PetWords}
TaskNames == {<<t>> : t \in TaskWords} \cup {<<t, DASH, u>> : t \in TaskWords, u \in TaskWords}
NameDescsM ==
  {[shape |-> "1p1t", exp |-> x, ver |-> v, struct |-> st, ft |-> ft, part |-> p, tidx |-> k, tname |-> <<>>]
      : x \in ExpWords, v \in VerWords, st \in StructWords, ft \in {WMAT, WJSON}, p \in Nicknames, k \in NumWords}
  \cup {[shape |-> "1pmt", exp |-> x, ver |-> v, struct |-> st, ft |-> ft, part |-> p, tidx |-> 0, tname |-> <<>>]
      : x \in ExpWords, v \in VerWords, st \in StructWords, ft \in {WMAT, WJSON}, p \in Nicknames}
  \cup {[shape |-> "mp1t", exp |-> x, ver |-> v, struct |-> st, ft |-> ft, part |-> <<>>, tidx |-> 0, tname |-> t]
      : x \in ExpWords, v \in VerWords, st \in StructWords, ft \in {WMAT, WJSON}, t \in TaskNames}
\* shapes the loaders accept (the others raise documented "not supported" errors)
Loadable(d) == \/ d.ft = WMAT /\ d.shape \in {"1p1t", "mp1t"}
               \/ d.ft = WJSON /\ d.shape = "1pmt"

(* ---- contents: token-valued RDMs over stimuli in file order ------------- *)
Min2(a, b) == IF a < b THEN a ELSE b
Max2(a, b) == IF a < b THEN b ELSE a
Tok(r, i, j) == 100 * r + 10 * Min2(i, j) + Max2(i, j)
CLen(n) == (n * (n - 1)) \div 2
Cidx(n, p, q) == (p - 1) * n - ((p - 1) * p) \div 2 + (q - p)
PairAt(n, k) == CHOOSE pq \in (1..n) \X (1..n) : pq[1] < pq[2] /\ Cidx(n, pq[1], pq[2]) = k
\* the vector a file holds for RDM r when its stimuli are listed in `order` (stimulus id = alphabetical rank)
FileVec(r, order) == LET n == Len(order) IN
  [k \in 1..CLen(n) |-> Tok(r, order[PairAt(n, k)[1]], order[PairAt(n, k)[2]])]
MatAt(v, n, p, q) == IF p = q THEN 0 ELSE v[Cidx(n, Min2(p, q), Max2(p, q))]
Reorder(v, n, sel) == [k \in 1..CLen(n) |-> MatAt(v, n, sel[PairAt(n, k)[1]], sel[PairAt(n, k)[2]])]
\* positions of the file order sorted by stimulus rank (alphabetical sort)
SortPos(order) == SortSeq([k \in 1..Len(order) |-> k], LAMBDA a, b : order[a] < order[b])
Pick(s, sel) == [k \in 1..Len(sel) |-> s[sel[k]]]
Perms(n) == {p \in [1..n -> 1..n] : Range(p) = 1..n}

\* expected RDMs object: conds (stimulus ids by position), vec per RDM
Loaded(vecs, order, sort) ==
  IF sort = 0 THEN [conds |-> order, vec |-> vecs]
  ELSE LET sp == SortPos(order) IN
       [conds |-> Pick(order, sp), vec |-> [r \in 1..Len(vecs) |-> Reorder(vecs[r], Len(order), sp)]]
AssocRow(r, conds, v) == LET n == Len(conds) IN
  \A p \in 1..n : \A q \in 1..n : p < q => v[Cidx(n, p, q)] = Tok(r, conds[p], conds[q])
AssocOk(L) == \A k \in 1..Len(L.vec) : AssocRow(L.rows[k], L.conds, L.vec[k])

\* json files: a list of tasks.  0 = any other task type; 1 = multi-arrangement task listing the stimuli
\* in the file's (first task's) order; 2 = the same stimuli listed in reverse order; 3 = another stimulus
\* set (last stimulus replaced by a new one).  The first multi-arrangement task is of kind 1.
TaskLayouts == {l \in UNION {[1..k -> 0..3] : k \in 1..(MaxRdm + 1)} :
                  /\ Cardinality({i \in 1..Len(l) : l[i] # 0}) \in 1..MaxRdm
                  /\ \A i \in 1..Len(l) : (l[i] # 0 /\ \A j \in 1..(i - 1) : l[j] = 0) => l[i] = 1}
MaPos(l) == SelectSeq([k \in 1..Len(l) |-> k], LAMBDA k : l[k] # 0)
\* which multi-arrangement tasks (by index among them) end up in the RDMs object.  A task with another
\* stimulus set can never share the stimulus list; a task that lists the same stimuli in another order is
\* either left out ("skip", what the loader documents: it warns) or brought into the common order ("align").
Included(l, mode) == SelectSeq([k \in 1..Len(MaPos(l)) |-> k],
                               LAMBDA k : l[MaPos(l)[k]] = 1 \/ (mode = "align" /\ l[MaPos(l)[k]] = 2))
TaskOrder(order, kind) == CASE kind = 2 -> Reverse(order)
                            [] kind = 3 -> [k \in 1..Len(order) |-> IF k = Len(order) THEN Len(order) + 1 ELSE order[k]]
                            [] OTHER -> order
\* participants of a multi-participant file, in the order of the file's variables
PartLists == {pl \in UNION {[1..k -> 1..MaxRdm] : k \in 1..MaxRdm} : Cardinality(Range(pl)) = Len(pl)}

\* what the file holds for RDM r: its own stimulus list and vector.  In a multi-participant file every
\* participant has an own stimulus list; pvar = 1 lists the second participant's stimuli in reverse order.
FileOrder(i, d, r) == IF d.shape = "1pmt" THEN TaskOrder(i.order, i.layout[MaPos(i.layout)[r]])
                      ELSE IF i.pvar = 1 /\ r = 2 THEN Reverse(i.order) ELSE i.order
\* order of the variables of a multi-participant .mat file: the stimulus lists are stored in the order of
\* i.parts, the vectors in the order i.uperm (a permutation), either after them or woven between them.
\* Variables are NAMED after the participant, so their order carries no meaning.
VarOrder(i) ==
  LET k == Len(i.parts)
      sv == [r \in 1..k |-> [v |-> "stimuli", r |-> r]]
      uv == [r \in 1..k |-> [v |-> "rdmutv", r |-> i.uperm[r]]] IN
  IF i.weave = 0 THEN uv \o sv
  ELSE [j \in 1..(2 * k) |-> IF j % 2 = 1 THEN sv[(j + 1) \div 2] ELSE uv[j \div 2]]
MeadowsExpectM(d, i, mode) ==
  LET nf == CASE d.shape = "1p1t" -> 1 [] d.shape = "mp1t" -> Len(i.parts) [] OTHER -> Len(MaPos(i.layout))
      \* source RDMs (participants / multi-arrangement tasks of the file) that make up the rows
      rows == IF d.shape = "1pmt" THEN Included(i.layout, mode) ELSE [r \in 1..nf |-> r]
      nr == Len(rows)
      \* the RDMs object has ONE stimulus list (the first one of the file, or the sorted one); every value
      \* is the dissimilarity of the two stimuli its position names, whatever order the file listed them in
      \* i.dup = 1: stimuli 1 and 2 have the same name once the file extension is stripped ("a.png", "a.jpg"):
      \* the LABELS coincide, the stimuli (and their dissimilarities) do not.  Sorting is by label; the two
      \* equal labels may come out in either order, the values follow THEIR stimulus (vec / vecswap)
      lab(id) == IF i.dup = 1 /\ id = 2 THEN 1 ELSE id
      srt(rev) == SortSeq([k \in 1..Len(i.order) |-> k],
                          LAMBDA a, b : lab(i.order[a]) < lab(i.order[b])
                                        \/ (lab(i.order[a]) = lab(i.order[b]) /\ (IF rev THEN a > b ELSE a < b)))
      LL(rev) == IF i.sort = 0 THEN [conds |-> i.order, vec |-> [k \in 1..nr |-> FileVec(rows[k], i.order)]]
                 ELSE [conds |-> Pick(i.order, srt(rev)),
                       vec |-> [k \in 1..nr |-> Reorder(FileVec(rows[k], i.order), Len(i.order), srt(rev))]]
      L == LL(FALSE)
  IN [conds |-> L.conds, vec |-> L.vec, rows |-> rows, condswap |-> LL(TRUE).conds, vecswap |-> LL(TRUE).vec,
      labels |-> [k \in 1..Len(L.conds) |-> lab(L.conds[k])],
      exp |-> d.exp, ver |-> d.ver, struct |-> d.struct, shape |-> d.shape, ft |-> d.ft,
      file |-> [r \in 1..nf |-> [order |-> FileOrder(i, d, r), vec |-> FileVec(r, FileOrder(i, d, r))]],
      participant |-> CASE d.shape = "mp1t" -> <<>> [] OTHER -> [r \in 1..nr |-> d.part],
      plist |-> IF d.shape = "mp1t" THEN i.parts ELSE <<>>,
      varorder |-> IF d.shape = "mp1t" THEN VarOrder(i) ELSE <<>>,
      task |-> CASE d.shape = "mp1t" -> [r \in 1..nr |-> d.tname] [] OTHER -> <<>>,
      tpos |-> IF d.shape = "1pmt" THEN [k \in 1..nr |-> MaPos(i.layout)[rows[k]]] ELSE <<>>,   \* 1-based
      task_index |-> CASE d.shape = "1p1t" -> <<NumVal(d.tidx)>>
                       [] d.shape = "1pmt" -> [k \in 1..nr |-> MaPos(i.layout)[rows[k]] - 1]
                       [] OTHER -> <<>>]
\* the rows / values / task descriptors under the other admissible treatment of reordered tasks
AltOf(d, i) == LET x == MeadowsExpectM(d, i, "align") IN
               [rows |-> x.rows, vec |-> x.vec, vecswap |-> x.vecswap, tpos |-> x.tpos, task_index |-> x.task_index,
                participant |-> x.participant]
MeadowsExpectN(d, i) == MeadowsExpectM(d, i, "skip") @@ [alt |-> AltOf(d, i)]
MeadowsExpect(i) == MeadowsExpectN(ParseName(FormatName(i.name)), i)

(* ============================== (d) MNE ================================== *)
\* epochs: nE x nC x nT token data, event codes, channel ids, sampling frequency, first sample
MneTok(e, c, t) == 100 * e + 10 * c + t
MneExpect(i) ==
  [meas |-> [e \in 1..i.ne |-> [c \in 1..i.nc |-> [t \in 1..i.nt |-> MneTok(e, c, t)]]],
   event |-> i.codes, name |-> [c \in 1..i.nc |-> c],
   time |-> [t \in 1..i.nt |-> <<t - 1 - i.first, i.sfreq>>],       \* rational seconds
   fname |-> IF i.name = NoEnt THEN <<>> ELSE FName(i.name),
   descs |-> NameDescs(i.name)]

\* names of epochs files: BIDS-style key-value segments, suffix "epo", extension "fif"; read_epochs adds the
\* file name and the sub / run / task entities of the name to the dataset descriptors
MneNames == {[NoEnt EXCEPT !.sub = a, !.ses = b, !.task = c, !.run = d, !.suffix = WEPO, !.ext = <<WFIF>>] :
               a \in {0, FirstOf(BidsVals.sub)}, b \in {0, FirstOf(BidsVals.ses)},
               c \in {0, LastOf(BidsVals.task)}, d \in {0, FirstOf(BidsVals.run)}}

(* ========================== (e) design matrix ============================ *)
\* conditions in order of first appearance in the event table
RECURSIVE FirstSeen(_, _)
FirstSeen(ev, seen) == IF ev = <<>> THEN <<>>
                       ELSE IF Head(ev) \in seen THEN FirstSeen(Tail(ev), seen)
                       ELSE <<Head(ev)>> \o FirstSeen(Tail(ev), seen \cup {Head(ev)})
\* i.nan = set of confound columns (1..nconf) that contain n/a values: such columns are dropped
DmExpect(i) ==
  LET cc == FirstSeen(i.ev, {})  nc == Len(cc)
      kept == SelectSeq([j \in 1..i.nconf |-> j], LAMBDA j : j \notin i.nan)
      ncols == nc + Len(kept) IN
  [ncols |-> ncols, colcond |-> cc, confkept |-> kept,
   mask |-> [k \in 1..ncols |-> IF k <= nc THEN 1 ELSE 0],
   dof |-> i.nvols - ncols]
NanSets(n) == IF n = 0 THEN {{}} ELSE {{}, {1}, {n}, 1..n}
SurjSeqs(nc) == {s \in UNION {[1..k -> 1..nc] : k \in nc..(nc + 1)} : Range(s) = 1..nc}

(* ============================= (f) SPM =================================== *)
\* integer orthogonal bases: the Householder reflection of v scaled by d = v.v :
\*   B = d I - 2 v v'   has  B'B = d^2 I ;  X0 = B[:, cols] / d  is orthonormal (exact rationals)
Dot(a, b) == FoldFunction(LAMBDA x, acc : x + acc, 0, [k \in 1..Len(a) |-> a[k] * b[k]])
House(v) == [t \in 1..Len(v) |-> [j \in 1..Len(v) |-> (IF t = j THEN Dot(v, v) ELSE 0) - 2 * v[t] * v[j]]]
ColOf(M, j) == [t \in 1..Len(M) |-> M[t][j]]
\* a run: [n scans, d, B (n x k integer, the chosen columns)]
MkRun(v, cols) == [n |-> Len(v), d |-> Dot(v, v),
                   B |-> [t \in 1..Len(v) |-> [j \in 1..Len(cols) |-> House(v)[t][cols[j]]]]]
Orthonormal(run) == LET k == Len(run.B[1]) IN
  \A a \in 1..k : \A b \in 1..k : Dot(ColOf(run.B, a), ColOf(run.B, b)) = (IF a = b THEN run.d * run.d ELSE 0)
\* numerators over d^2 of  Yr - X0 (X0' Yr)
FilterRun(Yr, run) ==
  LET k == Len(run.B[1])  P == Len(Yr[1])
      c == [j \in 1..k |-> [p \in 1..P |-> Dot(ColOf(run.B, j), ColOf(Yr, p))]]      \* B' Yr
  IN [t \in 1..run.n |-> [p \in 1..P |->
        run.d * run.d * Yr[t][p] - Dot(run.B[t], [j \in 1..k |-> c[j][p]])]]
RECURSIVE Offsets(_, _)
Offsets(runs, acc) == IF runs = <<>> THEN <<>> ELSE <<acc>> \o Offsets(Tail(runs), acc + Head(runs).n)
RowsOf(Y, off, n) == [t \in 1..n |-> Y[off + t]]
\* per row: <<numerators, denominator>>
Filter(Y, runs) ==
  LET off == Offsets(runs, 0)
      parts == [r \in 1..Len(runs) |-> FilterRun(RowsOf(Y, off[r], runs[r].n), runs[r])]
      runOf(t) == CHOOSE r \in 1..Len(runs) : off[r] < t /\ t <= off[r] + runs[r].n
  IN [t \in 1..Len(Y) |-> [num |-> parts[runOf(t)][t - off[runOf(t)]], den |-> runs[runOf(t)].d * runs[runOf(t)].d]]
SpmVecs == [n \in 2..4 |-> CASE n = 2 -> {<<1, 2>>, <<1, 1>>}
                             [] n = 3 -> {<<1, 1, 1>>, <<1, 2, 0>>}
                             [] n = 4 -> {<<1, 1, 1, 1>>, <<1, 0, 2, 0>>}]
SpmCols == {<<1>>, <<2>>, <<2, 1>>}
SpmRuns == {MkRun(v, c) : v \in UNION {SpmVecs[n] : n \in 2..4}, c \in SpmCols}
SpmY(T, P, pat) == [t \in 1..T |-> [p \in 1..P |->
                      CASE pat = 1 -> 10 * t + p
                        [] pat = 2 -> ((t * t + 3 * p) % 7) - 3
                        [] OTHER -> IF (t + p) % 3 = 0 THEN t ELSE 0 - p]]
SumN(runs) == FoldFunction(LAMBDA x, acc : x + acc, 0, [k \in 1..Len(runs) |-> runs[k].n])

(* ================= (e') design matrix on the volume grid, exact ========== *)
(* make_design_matrix convolves the HRF (100 ms grid) with a box of the median event duration, samples *)
(* the result every TR, and adds one copy per event, shifted to the event's onset.  When TR is a      *)
(* multiple of 100 ms and the onsets are multiples of TR no interpolation is involved, so the matrix  *)
(* is an exact function of the table:                                                                 *)
(*    K[k]      = sum_{i < B} Hrf[k s - i]            s = TR / 100 ms,  B = duration / 100 ms          *)
(*    raw[j][c] = sum over events (c, m) of K[j - m]   (0 <= j - m < L)                                *)
(*    dm[j][c]  = (n raw[j][c] - sum_j raw[j][c]) / (n (max_j raw - min_j raw))                        *)
(* (the division by the kernel's maximum cancels in the range normalisation).                         *)
HrfAt(x) == IF x >= 0 /\ x < Len(HrfTable) THEN HrfTable[x + 1] ELSE 0
SumTo(f, n) == FoldFunction(LAMBDA x, acc : x + acc, 0, [k \in 1..n |-> f[k]])
KernelLen(s, B) == LET tmax == (Len(HrfTable) + B - 2) \div 10 IN (10 * tmax + s - 1) \div s
Kernel(s, B) == [k \in 1..KernelLen(s, B) |-> SumTo([i \in 1..B |-> HrfAt((k - 1) * s - (i - 1))], B)] \o <<>>
\* one event (condition c, onset at volume m, 0-based) : its column
Single(K, nv, m) == [j \in 1..nv |-> IF j - 1 - m >= 0 /\ j - 1 - m < Len(K) THEN K[j - m] ELSE 0]
CondsOf(ev) == FirstSeen([k \in 1..Len(ev) |-> ev[k][1]], {})
HrfRaw(i) ==
  LET K == Kernel(i.s, i.B)  cc == CondsOf(i.ev) IN
  [c \in 1..Len(cc) |->
     LET mine == SelectSeq(i.ev, LAMBDA e : e[1] = cc[c])
         cols == [k \in 1..Len(mine) |-> Single(K, i.nvols, mine[k][2]) \o <<>>] IN
     [j \in 1..i.nvols |-> SumTo([k \in 1..Len(mine) |-> cols[k][j]], Len(mine))] \o <<>>] \o <<>>
MaxOf(v) == CHOOSE x \in Range(v) : \A y \in Range(v) : x >= y
MinOfSeq(v) == CHOOSE x \in Range(v) : \A y \in Range(v) : x <= y
HrfExpect(i) ==
  LET raw == HrfRaw(i)  n == i.nvols IN
  [colcond |-> CondsOf(i.ev), raw |-> raw,
   num |-> [c \in 1..Len(raw) |-> [j \in 1..n |-> n * raw[c][j] - SumTo(raw[c], n)]],
   den |-> [c \in 1..Len(raw) |-> n * (MaxOf(raw[c]) - MinOfSeq(raw[c]))],
   dof |-> n - Len(raw)]
\* onset patterns (volume indices): spread out / all events at once / consecutive with the last one on the
\* last but one volume / spread, plus a further event of the first condition after the end of the scan
Onsets(p, len, nv) == [k \in 1..len |->
   CASE p = 1 -> 2 * k - 1
     [] p = 2 -> 2
     [] p = 3 -> IF k = len THEN nv - 2 ELSE k - 1
     [] p = 5 -> IF k = 1 THEN 0 - 2 ELSE 2 * k - 1     \* the first event starts two volumes BEFORE the scan:
                                                        \* the part of its response after time 0 still counts
     [] OTHER -> 2 * k - 1]
HrfEvents(cs, p, nv) == [k \in 1..Len(cs) |-> <<cs[k], Onsets(p, Len(cs), nv)[k]>>]
                        \o (IF p = 4 THEN << <<cs[1], nv + 3>> >> ELSE <<>>)

(* ===================== (b'') a derivative data set on disk =============== *)
(* The files of a small study: per subject / session / task / run a raw bold file with events and       *)
(* sidecar, its fmriprep derivatives in two spaces (bold + sidecar, brain mask, parcellation), one      *)
(* confounds table, and a second pipeline with one bold file.  find_fmriprep_runs /                     *)
(* find_mri_derivative_files must return exactly the files of the pipeline with the asked desc (and     *)
(* task); every run found must find ITS events, sidecar, confounds, mask and parcellation files.        *)
DsFile(sub, ses, task, run, space, desc, suffix, ext, der) ==
  [sub |-> sub, ses |-> ses, task |-> task, run |-> run, space |-> space, desc |-> desc, suffix |-> suffix,
   ext |-> ext, derivative |-> der, modality |-> Ds.func]
NiiGz == <<Ds.nii, Ds.gz>>
DsFiles(i) ==
  UNION {
    {DsFile(su, se, ta, ru, 0, 0, Ds.bold, NiiGz, 0), DsFile(su, se, ta, ru, 0, 0, Ds.bold, <<WJSON>>, 0),
     DsFile(su, se, ta, ru, 0, 0, WEVENTS, <<WTSV>>, 0),
     DsFile(su, se, ta, ru, 0, Ds.confounds, Ds.timeseries, <<WTSV>>, Ds.p1),
     DsFile(su, se, ta, ru, Ds.sp1, Ds.preproc, Ds.bold, NiiGz, Ds.p2)}
    \cup UNION {{DsFile(su, se, ta, ru, sp, Ds.preproc, Ds.bold, NiiGz, Ds.p1),
                 DsFile(su, se, ta, ru, sp, Ds.preproc, Ds.bold, <<WJSON>>, Ds.p1),
                 DsFile(su, se, ta, ru, sp, Ds.brain, Ds.mask, NiiGz, Ds.p1),
                 DsFile(su, se, ta, ru, sp, Ds.aparcaseg, Ds.dseg, NiiGz, Ds.p1)} : sp \in {Ds.sp1, Ds.sp2}}
    : su \in Range(i.subs), se \in Range(i.sess), ta \in Range(i.tasks), ru \in Range(i.runs)}
\* the query: pipeline, desc (and suffix, 0 = any: the helper asks for "preproc_bold"), tasks (<<>> = all)
DsMatch(e, q) == /\ e.derivative = q.der /\ e.desc = q.desc /\ (q.suffix = 0 \/ e.suffix = q.suffix)
                 /\ e.ext # <<WJSON>> /\ (q.tasks = <<>> \/ e.task \in Range(q.tasks))
DsFound(i) == {e \in DsFiles(i) : DsMatch(e, i.q)}
\* descriptors of a run: the sub, ses, run and task entities of the file that are present
RunDescs(e) == [sub |-> e.sub, ses |-> e.ses, run |-> e.run, task |-> e.task]
DsRun(e) == [ent |-> e, path |-> Format(e), descs |-> RunDescs(e),
             events |-> Format(LookupEnt("events", e, 0, 0)), meta |-> Format(LookupEnt("meta", e, 0, 0)),
             confounds |-> Format(LookupEnt("tsib", e, Ds.confounds, Ds.timeseries)),
             mask |-> Format(LookupEnt("msib", e, Ds.brain, Ds.mask)),
             parc |-> Format(LookupEnt("msib", e, Ds.aparcaseg, Ds.dseg)),
             key |-> Format(LookupEnt("key", LookupEnt("msib", e, Ds.aparcaseg, Ds.dseg), 0, 0))]
DsExpect(i) == [files |-> {Format(e) : e \in DsFiles(i)}, found |-> {DsRun(e) : e \in DsFound(i)}]
DsQueries == {[der |-> d, desc |-> x[1], suffix |-> x[2], tasks |-> t] :
                d \in {Ds.p1, Ds.p2}, x \in {<<Ds.preproc, Ds.bold>>, <<Ds.preproc, 0>>, <<Ds.brain, Ds.mask>>},
                t \in {<<>>, <<Ds.t1>>, <<Ds.t2, Ds.t1>>}}

(* ========================= (g) RDMs -> long table ======================== *)
\* rdms_to_df: one row per (RDM, pair), RDMs stacked; index descriptors renamed rdm_index / pattern_index_k
DfExpect(i) == LET n == Len(i.order)  m == CLen(n) IN
  [q \in 1..(i.nr * m) |->
     LET r == (q - 1) \div m + 1  pq == PairAt(n, ((q - 1) % m) + 1) IN
     [dis |-> Tok(r, i.order[pq[1]], i.order[pq[2]]), rdm |-> r - 1, p1 |-> pq[1] - 1, p2 |-> pq[2] - 1,
      c1 |-> i.order[pq[1]], c2 |-> i.order[pq[2]]]]

(* ============================ state machine ============================== *)
InitBids == /\ sec = "bids" /\ stage = "input" /\ inp \in Entities /\ out = <<>>
\* the name grammar is varied in full with one small content, the contents in full with one name per
\* (shape, file type): the two do not interact
MinOf(S) == CHOOSE x \in S : \A y \in S : x <= y
CoreName(nm) == /\ nm.ver = MinOf(VerWords) /\ nm.struct = MinOf(StructWords) /\ nm.exp = MinOf(ExpWords)
                /\ (nm.part # <<>> => nm.part = <<MinOf(AdjWords), DASH, MinOf(PetWords)>>)
                /\ (nm.tidx # 0 => nm.tidx = MinOf(NumWords))
                /\ (nm.tname # <<>> => nm.tname = <<MinOf(TaskWords)>>)
InitMeadows ==
  /\ sec = "meadows" /\ stage = "input" /\ out = <<>>
  /\ \E nm \in NameDescsM, sort \in {0, 1} :
      \/ /\ CoreName(nm)
         /\ \E n \in StimSizes : \E order \in Perms(n) :
            \E parts \in (IF nm.shape = "mp1t" THEN PartLists ELSE {<<>>}),
               layout \in (IF nm.shape = "1pmt" THEN TaskLayouts ELSE {<<>>}) :
            \E pvar \in (IF nm.shape = "mp1t" /\ Len(parts) >= 2 THEN {0, 1} ELSE {0}),
               uperm \in (IF nm.shape = "mp1t" THEN Perms(Len(parts)) ELSE {<<>>}),
               weave \in (IF nm.shape = "mp1t" /\ Len(parts) >= 2 THEN {0, 1} ELSE {0}) :
            \E dup \in (IF n <= 4 THEN {0, 1} ELSE {0}) :        \* (5 stimuli: 120 orders, plain names only)
            inp = [name |-> nm, order |-> order, sort |-> sort, parts |-> parts, layout |-> layout, pvar |-> pvar,
                   uperm |-> uperm, weave |-> weave, dup |-> dup]
      \/ /\ ~CoreName(nm)
         /\ inp = [name |-> nm, order |-> <<3, 1, 2>>, sort |-> sort,
                   parts |-> IF nm.shape = "mp1t" THEN <<2, 1>> ELSE <<>>,
                   layout |-> IF nm.shape = "1pmt" THEN <<0, 1, 1>> ELSE <<>>, pvar |-> 0,
                   uperm |-> IF nm.shape = "mp1t" THEN <<2, 1>> ELSE <<>>, weave |-> 0, dup |-> 0]
\* all shapes with an anonymous epochs object, all file names with one small shape
InitMne == /\ sec = "mne" /\ stage = "input" /\ out = <<>>
           /\ \/ \E ne \in 1..3, nc \in 1..3, nt \in 1..3, sf \in {20, 100, 256, 2048}, first \in {0, 2} :
                   \E codes \in [1..ne -> MneCodes] :
                   inp = [ne |-> ne, nc |-> nc, nt |-> nt, sfreq |-> sf, first |-> first, codes |-> codes,
                          name |-> NoEnt]
              \/ \E nm \in MneNames :
                   inp = [ne |-> 2, nc |-> 2, nt |-> 3, sfreq |-> 20, first |-> 2,
                          codes |-> <<LastOf(MneCodes), FirstOf(MneCodes)>>, name |-> nm]
InitDm == /\ sec = "dm" /\ stage = "input" /\ out = <<>>
          /\ \E nc \in 1..MaxCond, tr \in 1..3, nv \in VolSet, nconf \in 0..3 : \E ev \in SurjSeqs(nc) :
               \E nan \in NanSets(nconf) :
               inp = [ev |-> ev, tr |-> tr, nvols |-> nv, nconf |-> nconf, nan |-> nan]
InitSpm == /\ sec = "spm" /\ stage = "input" /\ out = <<>>
           /\ \E k \in 1..SpmMaxRuns, P \in 1..2, pat \in SpmPats : \E runs \in [1..k -> SpmRuns] :
                inp = [runs |-> runs, Y |-> SpmY(SumN(runs), P, pat)]
InitHrf == /\ sec = "hrf" /\ stage = "input" /\ out = <<>>
           /\ \E nc \in 1..MaxCond, s \in {10, 20, 25}, B \in {5, 10, 20}, nv \in VolSet, p \in 1..5 :
                \E cs \in SurjSeqs(nc) :
                inp = [s |-> s, B |-> B, nvols |-> nv, pat |-> p, ev |-> HrfEvents(cs, p, nv)]
InitDataset == /\ sec = "dataset" /\ stage = "input" /\ out = <<>>
               /\ \E subs \in {<<Ds.sub1>>, <<Ds.sub2, Ds.sub1>>}, sess \in {<<0>>, <<Ds.ses1, Ds.ses2>>},
                     tasks \in {<<Ds.t1>>, <<Ds.t1, Ds.t2>>}, runs \in {<<0>>, <<Ds.r1, Ds.r2>>}, q \in DsQueries :
                    inp = [subs |-> subs, sess |-> sess, tasks |-> tasks, runs |-> runs, q |-> q]
InitDf == /\ sec = "df" /\ stage = "input" /\ out = <<>>
          /\ \E nr \in 1..MaxRdm, n \in StimSizes : \E order \in Perms(n) : inp = [nr |-> nr, order |-> order]
InitLayout == /\ sec = "layout" /\ stage = "open" /\ inp = Family /\ out = <<>>
Init == \/ ("bids" \in Sections /\ InitBids) \/ ("meadows" \in Sections /\ InitMeadows)
        \/ ("layout" \in Sections /\ InitLayout)
        \/ ("mne" \in Sections /\ InitMne) \/ ("dm" \in Sections /\ InitDm)
        \/ ("spm" \in Sections /\ InitSpm) \/ ("hrf" \in Sections /\ InitHrf)
        \/ ("dataset" \in Sections /\ InitDataset) \/ ("df" \in Sections /\ InitDf)

BidsFormat == /\ sec = "bids" /\ stage = "input" /\ stage' = "formatted"
              /\ out' = [path |-> Format(inp)] /\ UNCHANGED <<sec, inp>>
BidsParse == /\ sec = "bids" /\ stage = "formatted" /\ stage' = "parsed"
             /\ out' = [path |-> out.path, ent |-> Parse(out.path)] /\ UNCHANGED <<sec, inp>>
BidsLookup == /\ sec = "bids" /\ stage = "parsed" /\ Valid(inp) /\ stage' = "done"
              /\ out' = [path |-> out.path, ent |-> out.ent, looks |-> LookList(out.ent)]
              /\ UNCHANGED <<sec, inp>>
BidsReject == /\ sec = "bids" /\ stage = "parsed" /\ ~Valid(inp) /\ stage' = "done"
              /\ out' = [path |-> out.path, ent |-> out.ent, looks |-> <<>>] /\ UNCHANGED <<sec, inp>>
MeadowsName == /\ sec = "meadows" /\ stage = "input" /\ stage' = "named"
               /\ out' = [fname |-> FormatName(inp.name)] /\ UNCHANGED <<sec, inp>>
MeadowsLoad == /\ sec = "meadows" /\ stage = "named" /\ stage' = "done"
               /\ out' = [fname |-> out.fname, loadable |-> Loadable(ParseName(out.fname)),
                          expect |-> MeadowsExpect(inp)]
               /\ UNCHANGED <<sec, inp>>
MneMap == /\ sec = "mne" /\ stage = "input" /\ stage' = "done" /\ out' = MneExpect(inp) /\ UNCHANGED <<sec, inp>>
DmBuild == /\ sec = "dm" /\ stage = "input" /\ stage' = "done" /\ out' = DmExpect(inp) /\ UNCHANGED <<sec, inp>>
SpmFilter == /\ sec = "spm" /\ stage = "input" /\ stage' = "done"
             /\ out' = Filter(inp.Y, inp.runs) /\ UNCHANGED <<sec, inp>>
HrfBuild == /\ sec = "hrf" /\ stage = "input" /\ stage' = "done" /\ out' = HrfExpect(inp) /\ UNCHANGED <<sec, inp>>
DatasetFind == /\ sec = "dataset" /\ stage = "input" /\ stage' = "done" /\ out' = DsExpect(inp)
               /\ UNCHANGED <<sec, inp>>
DfRows == /\ sec = "df" /\ stage = "input" /\ stage' = "done" /\ out' = DfExpect(inp) /\ UNCHANGED <<sec, inp>>
LayoutLookup == /\ sec = "layout" /\ Len(out) < LayoutDepth
                /\ \E f \in 1..Len(inp), kind \in LookKinds :
                     /\ LookEnabled(kind, inp[f])
                     /\ out' = Append(out, LayoutStepRec(inp, f, kind))
                /\ UNCHANGED <<sec, stage, inp>>
Next == LayoutLookup \/ BidsFormat \/ BidsParse \/ BidsLookup \/ BidsReject \/ MeadowsName \/ MeadowsLoad
        \/ MneMap \/ DmBuild \/ SpmFilter \/ HrfBuild \/ DatasetFind \/ DfRows
Spec == Init /\ [][Next]_vars

(* ======================= laws checked on the model ======================= *)
\* a: parse o format = id on ALL presence combinations; format o parse = id exactly on well-formed paths
ParseFormat == (sec = "bids" /\ stage = "parsed") => out.ent = inp
FormatParse == (sec = "bids" /\ stage = "parsed") =>
   /\ WellFormed(out.path) /\ Format(Parse(out.path)) = out.path /\ Recomp(Decomp(out.path)) = out.path
   /\ \A m \in Mutants(inp) : WellFormed(m) <=> (Format(Parse(m)) = m)
\* b: a look-up changes exactly the entities it names, and the path edit agrees with the entity edit
LookupFrame == (sec = "bids" /\ stage = "parsed" /\ Valid(inp)) =>
   \A kind \in LookKinds : LookEnabled(kind, inp) =>
    \A a \in (IF kind \in {"tsib", "msib"} THEN LookArgs ELSE {<<0, 0>>}) :
      LET r == LookupEnt(kind, inp, a[1], a[2]) IN
      /\ \A f \in Fields \ Named(kind) : Field(r, f) = Field(inp, f)
      /\ LookupPath(kind, out.path, a[1], a[2]) = Format(r)
      /\ Parse(Format(r)) = r
      /\ (kind # "key" => Valid(r))
\* b (histories): at EVERY step of every history the answer is the one a fresh layout would give for that
\* base file: it differs from the base only in the entities the look-up names, whatever was asked before
LayoutFrame == sec = "layout" =>
   \A k \in 1..Len(out) :
      LET st == out[k]  base == inp[st.f] IN
      /\ st.ent = LookupEnt(st.kind, base, st.d, st.s)
      /\ \A fld \in Fields \ Named(st.kind) : Field(st.ent, fld) = Field(base, fld)
      /\ st.path = LookupPath(st.kind, Format(base), st.d, st.s)
      /\ \A j \in 1..Len(out) : (out[j].f = st.f /\ out[j].kind = st.kind) => out[j].path = st.path
\* c: name grammar is unambiguous; sorting keeps every value with its two stimuli
NameRoundTrip == (sec = "meadows" /\ stage = "named") => ParseName(out.fname) = inp.name
MeadowsAssoc == (sec = "meadows" /\ stage = "done") =>
   /\ AssocOk([conds |-> out.expect.conds, vec |-> out.expect.vec, rows |-> out.expect.rows])
   /\ AssocOk([conds |-> out.expect.conds, vec |-> out.expect.alt.vec, rows |-> out.expect.alt.rows])
   /\ Len(out.expect.vec) >= 1 /\ Range(out.expect.rows) \subseteq Range(out.expect.alt.rows)
   /\ (inp.sort = 1 => \A k \in 1..(Len(inp.order) - 1) : out.expect.labels[k] <= out.expect.labels[k + 1])
   /\ (inp.sort = 1 /\ inp.dup = 0 => \A k \in 1..Len(inp.order) : out.expect.conds[k] = k)
   /\ AssocOk([conds |-> out.expect.condswap, vec |-> out.expect.vecswap, rows |-> out.expect.rows])
   /\ (inp.dup = 0 => out.expect.vecswap = out.expect.vec)
   /\ (inp.sort = 0 => out.expect.conds = inp.order)
   /\ \A k \in 1..Len(out.expect.alt.vec) :                               \* a permutation of the file's values
        Range(out.expect.alt.vec[k]) = Range(out.expect.file[out.expect.alt.rows[k]].vec)
   /\ (out.expect.shape = "mp1t" =>                                        \* every variable is written once
         \A r \in 1..Len(inp.parts) : \A v \in {"stimuli", "rdmutv"} :
            Cardinality({j \in 1..Len(out.expect.varorder) :
                           out.expect.varorder[j] = [v |-> v, r |-> r]}) = 1)
   /\ \A r \in 1..Len(out.expect.file) :                                   \* the file itself is token-consistent
        AssocRow(r, out.expect.file[r].order, out.expect.file[r].vec)
\* d, e: structural
MneShape == (sec = "mne" /\ stage = "done") =>
   /\ Len(out.meas) = inp.ne /\ Len(out.event) = inp.ne /\ Len(out.name) = inp.nc /\ Len(out.time) = inp.nt
   /\ \A e1 \in 1..inp.ne : \A e2 \in 1..inp.ne : e1 # e2 => out.meas[e1] # out.meas[e2]
DmShape == (sec = "dm" /\ stage = "done") =>
   /\ Len(out.mask) = out.ncols /\ out.dof + out.ncols = inp.nvols
   /\ Cardinality({k \in 1..out.ncols : out.mask[k] = 1}) = Cardinality(Range(inp.ev))
   /\ Range(out.colcond) = Range(inp.ev) /\ Len(out.colcond) = Cardinality(Range(inp.ev))
   /\ \A k \in 1..out.ncols : out.mask[k] = 1 <=> k <= Len(out.colcond)
   /\ out.ncols = Len(out.colcond) + Len(out.confkept)
   /\ Range(out.confkept) = (1..inp.nconf) \ inp.nan
\* e': exact design matrix: nothing before a condition's first onset; the events superpose; an event's column
\* is the kernel shifted to its onset; columns are centred and range-normalised; kernel starts at 0
HrfLaws == (sec = "hrf" /\ stage = "done") =>
   LET K == Kernel(inp.s, inp.B)  n == inp.nvols IN
   /\ K[1] = 0 /\ Len(K) = KernelLen(inp.s, inp.B) /\ MaxOf(K) > 0
   /\ Len(out.raw) = Len(out.colcond) /\ Range(out.colcond) = {inp.ev[k][1] : k \in 1..Len(inp.ev)}
   /\ \A c \in 1..Len(out.raw) :
        LET mine == SelectSeq(inp.ev, LAMBDA e : e[1] = out.colcond[c])
            first == MinOfSeq([k \in 1..Len(mine) |-> mine[k][2]]) IN
        /\ \A j \in 1..n : (j - 1 <= first) => out.raw[c][j] = 0
        /\ \A j \in 1..n : out.raw[c][j] = SumTo([k \in 1..Len(mine) |-> Single(K, n, mine[k][2])[j]], Len(mine))
        /\ SumTo(out.num[c], n) = 0
        /\ (out.den[c] # 0 => MaxOf(out.num[c]) - MinOfSeq(out.num[c]) = out.den[c])
   /\ out.dof + Len(out.raw) = n
\* b'': what is found is exactly what was asked for, and every run's companions are files of the data set
DatasetLaws == (sec = "dataset" /\ stage = "done") =>
   /\ \A r \in out.found : /\ r.path \in out.files /\ r.ent.derivative = inp.q.der /\ r.ent.desc = inp.q.desc
                            /\ Parse(r.path) = r.ent
                            /\ (r.ent.derivative = Ds.p1 /\ r.ent.suffix = Ds.bold =>
                                  {r.events, r.meta, r.confounds, r.mask, r.parc} \subseteq out.files)
   /\ \A e \in DsFiles(inp) : (Format(e) \in {r.path : r \in out.found}) <=> DsMatch(e, inp.q)
   /\ Cardinality(out.files) = Cardinality(DsFiles(inp))                  \* paths are distinct
\* g: every (RDM, pair) is one row; the row's value is the dissimilarity of the two conditions it names
DfLaws == (sec = "df" /\ stage = "done") =>
   /\ Len(out) = inp.nr * CLen(Len(inp.order))
   /\ \A q \in 1..Len(out) : out[q].dis = Tok(out[q].rdm + 1, out[q].c1, out[q].c2) /\ out[q].p1 < out[q].p2
   /\ Cardinality({<<out[q].rdm, out[q].p1, out[q].p2>> : q \in 1..Len(out)}) = Len(out)
\* f: the bases are orthonormal; the result has no component left in its run's regressors; filtering
\*    again changes nothing; a run's result depends on that run's rows and basis only
SpmLaws == (sec = "spm" /\ stage = "done") =>
   LET runs == inp.runs  off == Offsets(runs, 0) IN
   \A r \in 1..Len(runs) :
      LET F == [t \in 1..runs[r].n |-> out[off[r] + t].num]  d2 == runs[r].d * runs[r].d IN
      /\ Orthonormal(runs[r])
      /\ \A j \in 1..Len(runs[r].B[1]) : \A p \in 1..Len(inp.Y[1]) : Dot(ColOf(runs[r].B, j), ColOf(F, p)) = 0
      /\ FilterRun(F, runs[r]) = [t \in 1..runs[r].n |-> [p \in 1..Len(inp.Y[1]) |-> d2 * F[t][p]]]
      /\ F = FilterRun(RowsOf(inp.Y, off[r], runs[r].n), runs[r])
      /\ \A t \in 1..runs[r].n : out[off[r] + t].den = d2

(* ====================== emission of test vectors ========================= *)
\* (takes an argument so that TLC does not pre-evaluate it once as a constant)
Sampled(x) == EmitMod = 1 \/ RandomElement(1..EmitMod) = 1
Emit ==
  (sec = "layout" /\ Len(out) = LayoutDepth) =>
     ((LayoutEmitMod = 1 \/ RandomElement(1..LayoutEmitMod) = 1) =>
        PrintT(ToJson([sec |-> "layout", files |-> inp, paths |-> [f \in 1..Len(inp) |-> Format(inp[f])],
                       hist |-> out])))
EmitDone ==
  stage = "done" =>
    CASE sec = "bids" -> ((Valid(inp) \/ Sampled(stage)) =>
            PrintT(ToJson([sec |-> "bids", e |-> inp, valid |-> Valid(inp), path |-> out.path,
                           looks |-> out.looks, nd |-> NameDescs(inp), fname |-> FName(inp)])))
      [] sec = "meadows" -> ((out.loadable \/ Sampled(stage)) =>
            PrintT(ToJson([sec |-> "meadows", i |-> inp, fname |-> out.fname, loadable |-> out.loadable,
                           expect |-> out.expect])))
      [] sec = "mne" -> PrintT(ToJson([sec |-> "mne", i |-> inp, expect |-> out]))
      [] sec = "dm" -> PrintT(ToJson([sec |-> "dm", i |-> inp, expect |-> out]))
      [] sec = "hrf" -> PrintT(ToJson([sec |-> "hrf", i |-> inp,
                                       expect |-> [colcond |-> out.colcond, num |-> out.num, den |-> out.den,
                                                   dof |-> out.dof]]))
      [] sec = "dataset" -> PrintT(ToJson([sec |-> "dataset", i |-> inp, expect |-> out]))
      [] sec = "df" -> PrintT(ToJson([sec |-> "df", i |-> inp, expect |-> out]))
      [] sec = "spm" -> ((SpmEmitMod = 1 \/ RandomElement(1..SpmEmitMod) = 1) => PrintT(ToJson([sec |-> "spm", i |-> inp, expect |-> out])))
      [] OTHER -> TRUE
=============================================================================
