--------------------------- MODULE Trace_DataStore ---------------------------
(***************************************************************************)
(* Implementation -> specification: histories recorded from real Dataset / *)
(* TemporalDataset objects (harness/datastore.py:random_trace) are checked *)
(* against the actions of DataStore.  A trace is [src, events]; every      *)
(* event must be Enabled (inside the documented contract), the observable  *)
(* projection of the heap logged after the call must equal                 *)
(* Obs(Apply(objs, e)) slot by slot, everything else the call returned     *)
(* must equal OutObs(objs, e), and the step must satisfy every clause of   *)
(* ClauseOk.  Shape, CellAssoc and DescAttached are evaluated in every     *)
(* state.  One behaviour per trace id; acceptance is printed.              *)
(***************************************************************************)
EXTENDS DataStore, IOUtils, TLCExt
VARIABLES tid, l
Traces == JsonDeserialize(IOEnv.TRACE_FILE)

ObsHeap(h) == [o \in 1..MaxObj |-> Obs(h[o])]
FieldDiff(a, b) ==      \* name of the first field in which two observable projections differ
  IF a.kind # b.kind THEN "kind"
  ELSE IF a.od # b.od THEN "od" ELSE IF a.cd # b.cd THEN "cd" ELSE IF a.td # b.td THEN "td"
  ELSE IF a.dd # b.dd THEN "dd" ELSE IF a.val # b.val THEN "val" ELSE ""
BadSlots(h, logged) == {o \in 1..MaxObj : Obs(h[o]) # logged[o]}

TInit == /\ tid \in 1..Len(Traces) /\ l = 1
         /\ src = Traces[tid].src
         /\ objs = [o \in 1..MaxObj |-> IF o = 1 THEN Source(src) ELSE Null]
         /\ hist = <<>>

TStep == /\ l >= 1 /\ l <= Len(Traces[tid].events)
         /\ LET rec == Traces[tid].events[l]  e == rec.ev
                en == Enabled(objs, e)
                nxt == Apply(objs, e) IN
            IF en /\ ObsHeap(nxt) = rec.post /\ OutObs(objs, e) = rec.out /\ ClauseOk(objs, e, nxt)
            THEN /\ objs' = nxt /\ l' = l + 1
                 /\ (l = Len(Traces[tid].events) => PrintT(ToJson([accept |-> tid])))
            ELSE /\ PrintT(ToJson([reject |-> tid, l |-> l, ev |-> e, enabled |-> en,
                                   slot |-> IF en /\ BadSlots(nxt, rec.post) # {}
                                            THEN CHOOSE o \in BadSlots(nxt, rec.post) : TRUE ELSE 0,
                                   field |-> IF en /\ BadSlots(nxt, rec.post) # {}
                                             THEN LET o == CHOOSE o \in BadSlots(nxt, rec.post) : TRUE
                                                  IN FieldDiff(Obs(nxt[o]), rec.post[o])
                                             ELSE IF en /\ OutObs(objs, e) # rec.out THEN "out"
                                             ELSE IF en THEN "clause" ELSE "",
                                   expected |-> IF en /\ BadSlots(nxt, rec.post) # {}
                                                THEN Obs(nxt[CHOOSE o \in BadSlots(nxt, rec.post) : TRUE])
                                                ELSE IF en THEN OutObs(objs, e) ELSE <<>>]))
                 /\ objs' = objs /\ l' = 0
         /\ UNCHANGED <<tid, hist, src>>
TSpec == TInit /\ [][TStep]_<<objs, hist, src, tid, l>>
=============================================================================
