------------------------------ MODULE DataStore ------------------------------
(***************************************************************************)
(* Labelled measurement containers (rsatoolbox.data.Dataset and            *)
(* TemporalDataset) and every public structural operation on them, as a    *)
(* heap of value objects.                                                  *)
(*                                                                         *)
(* An object is a record                                                   *)
(*   kind  : "N" (free slot) | "F" (Dataset) | "T" (TemporalDataset)       *)
(*   rows  : sequence of row labels  <<o, tl>>  (source observation id and *)
(*           the time label absorbed by time_as_observations, else NoT)    *)
(*   cols  : sequence of column labels <<c, tl>> (source channel id and the*)
(*           time label absorbed by time_as_channels, else NoT)            *)
(*   tims  : sequence of time labels (<<NoT>> for a flat Dataset)          *)
(*   okeys, ckeys, tkeys : names of the observation / channel / time       *)
(*           descriptors the object carries                                *)
(*   dd    : dataset-level descriptors (split_* write the split value      *)
(*           there, merge_datasets promotes varying ones to observation    *)
(*           descriptors, from_df demotes constant columns to them)        *)
(*   val   : STORED cells val[row][col][time], exact rationals <<num,den>>,*)
(*           computed by every operation the way the code computes them    *)
(*           (index selection, concatenation, reshape, means).             *)
(* A time label is [w, d, b, ph]: weight w[t]/d of every SOURCE time point *)
(* (a source slice has one weight 1; a bin is the average of its members), *)
(* b the requested bin (the 'bins' descriptor) and ph the 'phase' value.   *)
(* The numeric time descriptors 'time' and 'lat' are functions of w and d  *)
(* (TimeQ, LatQ), so a bin's numeric descriptors are means by construction.*)
(* rows/cols/tims are ghost labels: every user descriptor is a fixed       *)
(* function of them (RowVal, ColVal, TLVal), so "keeps its descriptor      *)
(* values" is "the descriptor columns read off the real object equal the   *)
(* columns computed from the labels".  Cells are self-describing tokens    *)
(*   Cell(o,c,tl) = 101 o + 10 c + sum_t w[t] 2^(t-1) / d                  *)
(* (sum-distinct time code: different bins of source points have different *)
(* values).  CellAssoc is the core of C11: the stored cell at (row, col,   *)
(* time) is the token of exactly these three labels.                       *)
(* Every operation is Enabled(h,e) (documented contract only) / Apply(h,e);*)
(* Out(h,e) is what a value-returning operation hands back besides heap    *)
(* objects (all parts of a split, group means).  The clauses of C11 are    *)
(* stated declaratively in ClauseOk and checked on every transition.       *)
(***************************************************************************)
EXTENDS Integers, Sequences, FiniteSets, TLC, SequencesExt, Functions, Json

CONSTANTS Sources,   \* set of encoded sources kind*10000 + NO*100 + NC*10 + NT
                     \*   kind 1 = Dataset, 2 = TemporalDataset ('time' only), 3 = TemporalDataset ('time','phase'),
                     \*   4 = Dataset and 5 = TemporalDataset ('time') that also carry 'flag' and 'mark' (missing values),
                     \*   6 = TemporalDataset ('time', 'lat', 'phase')
          MaxObj,    \* heap slots
          MaxRows, MaxCols, MaxTims,   \* growth guards
          MaxDen,    \* cap on the denominator of bin weights (nested binning)
          BinLen,    \* longest list of bins enumerated
          Depth,     \* length of the enumerated histories
          Ops,       \* operation names enabled in this configuration
          ArgLevel,  \* 2 = full argument domains, 1 = trimmed
          EmitMod,   \* emit one behaviour in EmitMod (1 = all)
          EmitObs    \* 1: emitted post-states also carry the observable projection Obs(ob)

VARIABLES src, objs, hist
vars == <<src, objs, hist>>

(* ---------------- exact rationals <<num, den>>, num >= 0, den > 0 -------- *)
RECURSIVE GCD(_, _)
GCD(a, b) == IF b = 0 THEN a ELSE GCD(b, a % b)
Norm(n, d) == LET g == GCD(n, d) IN <<n \div g, d \div g>>
QAdd(x, y) == Norm(x[1] * y[2] + y[1] * x[2], x[2] * y[2])
RECURSIVE QSumTo(_, _)
QSumTo(s, i) == IF i = 0 THEN <<0, 1>> ELSE QAdd(QSumTo(s, i - 1), s[i])
QMean(s) == LET t == QSumTo(s, Len(s)) IN Norm(t[1], t[2] * Len(s))
RECURSIVE SumTo(_, _)
SumTo(s, i) == IF i = 0 THEN 0 ELSE s[i] + SumTo(s, i - 1)
RECURSIVE ProdTo(_, _)
ProdTo(s, i) == IF i = 0 THEN 1 ELSE s[i] * ProdTo(s, i - 1)
RECURSIVE GcdTo(_, _)
GcdTo(s, i) == IF i = 0 THEN 0 ELSE GCD(s[i], GcdTo(s, i - 1))

(* ---------------- user descriptors as functions of the source ids -------- *)
Cond(o)  == 1 + (o % 2)           \* 'cond'  : 2,1,2,1,...   duplicates, not sorted
Sess(o)  == (o + 1) \div 2        \* 'sess'  : 1,1,2,2,...
Roi(c)   == 1 + (c % 2)           \* 'roi'   : 2,1,2
Phase(t) == 1 + (t % 2)           \* 'phase' : 2,1,2,1      a LABEL (string-valued in every flavour)
Lat(t)   == (t - 2) * (t - 2)     \* 'lat'   : 1,0,1,4      a second NUMERIC time descriptor, duplicates
\* observation descriptors with MISSING entries (None / NaN in the real object), sources of kind 4, 5:
Missing == -1
Flag(o)  == IF o % 2 = 0 THEN 1 ELSE Missing           \* 'flag' : -,1,-,1   one distinct value besides missing
Mark(o)  == IF o % 3 = 0 THEN Missing ELSE o % 3       \* 'mark' : 1,2,-,1   two distinct values besides missing
MissKeys == {"flag", "mark"}

OKeysAll == {"obs", "cond", "sess", "time", "lat", "phase", "bins", "flag", "mark"}
CKeysAll == {"chan", "roi", "time", "lat", "phase", "bins"}
TKeysAll == {"time", "lat", "phase", "bins"}
RatKey(k) == k \in {"time", "lat"}        \* numeric time descriptors: rational values, averaged by bin_time
DKeys    == OKeysAll \cup CKeysAll
IntKey(k) == k \in {"obs", "cond", "sess", "chan", "roi", "phase", "flag", "mark"}
Absent(k) == IF IntKey(k) THEN 0 ELSE <<>>
NoDD == [k \in DKeys |-> Absent(k)]

(* ---------------- time labels ------------------------------------------- *)
NoT == [w |-> <<>>, d |-> 0, b |-> <<>>, ph |-> 0]
SrcTL(t, nt, kind) == [w |-> [u \in 1..nt |-> IF u = t THEN 1 ELSE 0], d |-> 1, b |-> <<>>,
                       ph |-> IF kind \in {3, 6} THEN Phase(t) ELSE 0]
TimeQ(tl)   == Norm(SumTo([t \in 1..Len(tl.w) |-> tl.w[t] * t], Len(tl.w)), tl.d)          \* 'time' value
TimeTok(tl) == Norm(SumTo([t \in 1..Len(tl.w) |-> tl.w[t] * 2^(t - 1)], Len(tl.w)), tl.d)  \* token part
LatQ(tl)    == Norm(SumTo([t \in 1..Len(tl.w) |-> tl.w[t] * Lat(t)], Len(tl.w)), tl.d)      \* 'lat' value
TLVal(tl, k) == IF tl = NoT THEN Absent(k)
                ELSE CASE k = "time" -> TimeQ(tl) [] k = "lat" -> LatQ(tl) [] k = "phase" -> tl.ph [] k = "bins" -> tl.b
\* the token of (observation o, channel c, time label tl)
Cell(o, c, tl) == IF tl = NoT THEN <<101 * o + 10 * c, 1>>
                  ELSE LET q == TimeTok(tl) IN Norm((101 * o + 10 * c) * q[2] + q[1], q[2])
\* the one time label of a cell: a flat object has it on the row or on the column (or nowhere)
CellTL(row, col, tl) == IF tl # NoT THEN tl ELSE IF row[2] # NoT THEN row[2] ELSE col[2]

(* ---------------- objects ------------------------------------------------ *)
Null == [kind |-> "N", rows |-> <<>>, cols |-> <<>>, tims |-> <<>>, okeys |-> {}, ckeys |-> {},
         tkeys |-> {}, dd |-> NoDD, val |-> <<>>]
Live(h, o) == h[o].kind # "N"
LiveSet(h) == {o \in 1..MaxObj : Live(h, o)}
FreeSlot(h) == CHOOSE o \in 1..MaxObj : ~Live(h, o) /\ \A o2 \in 1..MaxObj : ~Live(h, o2) => o <= o2
HasFree(h) == \E o \in 1..MaxObj : ~Live(h, o)

SrcKind(s) == s \div 10000
SrcNO(s) == (s \div 100) % 100
SrcNC(s) == (s \div 10) % 10
SrcFlat(s) == SrcKind(s) \in {1, 4}
SrcNT(s) == IF SrcFlat(s) THEN 1 ELSE s % 10
Source(s) ==
  LET kind == SrcKind(s)  no == SrcNO(s)  nc == SrcNC(s)  nt == SrcNT(s)
      tims == IF SrcFlat(s) THEN <<NoT>> ELSE [t \in 1..nt |-> SrcTL(t, nt, kind)] IN
  [kind |-> IF SrcFlat(s) THEN "F" ELSE "T",
   rows |-> [o \in 1..no |-> <<o, NoT>>], cols |-> [c \in 1..nc |-> <<c, NoT>>], tims |-> tims,
   okeys |-> {"obs", "cond", "sess"} \cup (IF kind \in {4, 5} THEN MissKeys ELSE {}), ckeys |-> {"chan", "roi"},
   tkeys |-> IF SrcFlat(s) THEN {} ELSE IF kind = 3 THEN {"time", "phase"}
             ELSE IF kind = 6 THEN {"time", "lat", "phase"} ELSE {"time"},
   dd |-> NoDD,
   val |-> [o \in 1..no |-> [c \in 1..nc |-> [t \in 1..nt |-> Cell(o, c, tims[t])]]]]

(* ---------------- descriptor columns ------------------------------------- *)
RowVal(row, k) == CASE k = "obs" -> row[1] [] k = "cond" -> Cond(row[1]) [] k = "sess" -> Sess(row[1])
                    [] k = "flag" -> Flag(row[1]) [] k = "mark" -> Mark(row[1])
                    [] OTHER -> TLVal(row[2], k)
ColVal(col, k) == CASE k = "chan" -> col[1] [] k = "roi" -> Roi(col[1]) [] OTHER -> TLVal(col[2], k)
ODesc(ob, k) == [i \in 1..Len(ob.rows) |-> RowVal(ob.rows[i], k)]
CDesc(ob, k) == [i \in 1..Len(ob.cols) |-> ColVal(ob.cols[i], k)]
TDesc(ob, k) == [i \in 1..Len(ob.tims) |-> TLVal(ob.tims[i], k)]

ValLt(k, a, b) == IF RatKey(k) THEN a[1] * b[2] < b[1] * a[2] ELSE a < b
ValLe(k, a, b) == IF RatKey(k) THEN a[1] * b[2] <= b[1] * a[2] ELSE a <= b
NoDup(s) == Cardinality(Range(s)) = Len(s)
Const(s) == Cardinality(Range(s)) = 1
Iota(n) == [k \in 1..n |-> k]
Pick(s, sel) == [k \in 1..Len(sel) |-> s[sel[k]]]
Matching(col, vs) == SelectSeq(Iota(Len(col)), LAMBDA k : col[k] \in vs)
\* unique values in order of first appearance (get_unique_unsorted / get_unique_inverse)
FirstPos(s) == SelectSeq(Iota(Len(s)), LAMBDA i : \A j \in 1..(i - 1) : s[j] # s[i])
Uniq(s) == Pick(s, FirstPos(s))
PartsSel(col) == LET u == Uniq(col) IN [i \in 1..Len(u) |-> Matching(col, {u[i]})]
StableArgsort(col, k) == SortSeq(Iota(Len(col)),
                                 LAMBDA a, b : ValLt(k, col[a], col[b]) \/ (col[a] = col[b] /\ a < b))
RECURSIVE Flat(_)
Flat(ss) == IF ss = <<>> THEN <<>> ELSE Head(ss) \o Flat(Tail(ss))

SelRows(ob, sel) == [ob EXCEPT !.rows = Pick(ob.rows, sel), !.val = Pick(ob.val, sel)]
SelCols(ob, sel) == [ob EXCEPT !.cols = Pick(ob.cols, sel),
                               !.val = [r \in 1..Len(ob.rows) |-> Pick(ob.val[r], sel)]]
SelTims(ob, sel) == [ob EXCEPT !.tims = Pick(ob.tims, sel),
                               !.val = [r \in 1..Len(ob.rows) |-> [c \in 1..Len(ob.cols) |-> Pick(ob.val[r][c], sel)]]]

(* ---------------- splits and merge --------------------------------------- *)
\* Dataset.split_obs also writes the split value into the dataset descriptors; TemporalDataset's does not
SplitObsParts(ob, by) ==
  LET col == ODesc(ob, by)  ps == PartsSel(col)  u == Uniq(col) IN
  [i \in 1..Len(ps) |-> LET p == SelRows(ob, ps[i]) IN
                        IF ob.kind = "F" THEN [p EXCEPT !.dd[by] = u[i]] ELSE p]
SplitChanParts(ob, by) ==
  LET col == CDesc(ob, by)  ps == PartsSel(col)  u == Uniq(col) IN
  [i \in 1..Len(ps) |-> [SelCols(ob, ps[i]) EXCEPT !.dd[by] = u[i]]]
SplitTimeParts(ob, by) ==
  LET ps == PartsSel(TDesc(ob, by)) IN [i \in 1..Len(ps) |-> SelTims(ob, ps[i])]

\* merge_datasets: rows concatenated; observation descriptors all sets share; dataset descriptors
\* all sets share stay if equal and become observation descriptors if they vary
MergeList(ps) ==
  LET n == Len(ps)  first == ps[1]
      shared == {k \in DKeys : \A i \in 1..n : ps[i].dd[k] # Absent(k)}
      same == {k \in shared : \A i \in 1..n : ps[i].dd[k] = first.dd[k]}
      common == {k \in OKeysAll : \A i \in 1..n : k \in ps[i].okeys} IN
  [first EXCEPT !.rows = Flat([i \in 1..n |-> ps[i].rows]),
                !.val = Flat([i \in 1..n |-> ps[i].val]),
                !.okeys = common \cup (shared \ same),
                !.dd = [k \in DKeys |-> IF k \in same THEN first.dd[k] ELSE Absent(k)]]
Odds(s) == Pick(s, SelectSeq(Iota(Len(s)), LAMBDA i : i % 2 = 1))
Evens(s) == Pick(s, SelectSeq(Iota(Len(s)), LAMBDA i : i % 2 = 0))
OddEven(ob, by) == LET ps == SplitObsParts(ob, by) IN <<MergeList(Odds(ps)), MergeList(Evens(ps))>>
NestedOddEven(ob, l1, l2) ==
  LET p1 == SplitObsParts(ob, l1)
      oe == [i \in 1..Len(p1) |-> OddEven(p1[i], l2)] IN
  <<MergeList([i \in 1..Len(p1) |-> oe[i][1]]), MergeList([i \in 1..Len(p1) |-> oe[i][2]])>>

(* ---------------- time binning -------------------------------------------- *)
\* bin_time(by, bins): by is a NUMERIC time descriptor ('time' or 'lat'); bin k holds the time slices
\* whose `by` value is one of bins[k] (np.isin: membership, not a range - bins may interleave, skip
\* samples, differ in size, leave time points out, overlap).  Every numeric time descriptor of a new
\* slice is the mean over the members (all of them follow from the averaged weights), a label
\* ('phase') takes the value of the FIRST member, 'bins' records the requested bin.
BinMembers(ob, by, bin) == Matching(TDesc(ob, by), Range(bin))       \* np.isin(desc[by], bins[k])
BinTL(ob, by, bin) ==
  LET m == BinMembers(ob, by, bin)  k == Len(m)  nt == Len(ob.tims[m[1]].w)
      D == ProdTo([j \in 1..k |-> ob.tims[m[j]].d], k)
      w == [t \in 1..nt |-> SumTo([j \in 1..k |-> ob.tims[m[j]].w[t] * (D \div ob.tims[m[j]].d)], k)]
      g == GCD(GcdTo(w, nt), k * D) IN
  [w |-> [t \in 1..nt |-> w[t] \div g], d |-> (k * D) \div g, b |-> bin, ph |-> ob.tims[m[1]].ph]
BinTime(ob, by, bins) ==
  [ob EXCEPT !.tims = [k \in 1..Len(bins) |-> BinTL(ob, by, bins[k])],
             !.tkeys = ob.tkeys \cup {"bins"},
             !.val = [r \in 1..Len(ob.rows) |-> [c \in 1..Len(ob.cols) |-> [k \in 1..Len(bins) |->
                        LET m == BinMembers(ob, by, bins[k]) IN
                        QMean([j \in 1..Len(m) |-> ob.val[r][c][m[j]]])]]]]

(* ---------------- temporal -> flat ---------------------------------------- *)
\* for every time point in turn, all observations
TimeAsObs(ob) ==
  LET nr == Len(ob.rows)  nt == Len(ob.tims) IN
  [ob EXCEPT !.kind = "F",
             !.rows = [i \in 1..(nr * nt) |-> <<ob.rows[((i - 1) % nr) + 1][1], ob.tims[((i - 1) \div nr) + 1]>>],
             !.tims = <<NoT>>, !.okeys = ob.okeys \cup ob.tkeys, !.tkeys = {},
             !.val = [i \in 1..(nr * nt) |-> [c \in 1..Len(ob.cols) |->
                         <<ob.val[((i - 1) % nr) + 1][c][((i - 1) \div nr) + 1]>>]]]
\* reshape(n_obs, -1): channel-major, time-minor
TimeAsChan(ob) ==
  LET nc == Len(ob.cols)  nt == Len(ob.tims) IN
  [ob EXCEPT !.kind = "F",
             !.cols = [j \in 1..(nc * nt) |-> <<ob.cols[((j - 1) \div nt) + 1][1], ob.tims[((j - 1) % nt) + 1]>>],
             !.tims = <<NoT>>, !.ckeys = ob.ckeys \cup ob.tkeys, !.tkeys = {},
             !.val = [r \in 1..Len(ob.rows) |-> [j \in 1..(nc * nt) |->
                         <<ob.val[r][((j - 1) \div nt) + 1][((j - 1) % nt) + 1]>>]]]

\* to_df(channel_descriptor = by) ; from_df: columns constant over the rows become dataset
\* descriptors, only the channel descriptor used for the column names survives
DfRoundTrip(ob, by) ==
  LET demoted == {k \in ob.okeys : Const(ODesc(ob, k))} IN
  [ob EXCEPT !.okeys = {k \in ob.okeys : ob.dd[k] = Absent(k)} \ demoted,
             !.ckeys = {by},
             !.dd = [k \in DKeys |-> IF ob.dd[k] # Absent(k) THEN ob.dd[k]
                                     ELSE IF k \in demoted THEN ODesc(ob, k)[1] ELSE Absent(k)]]

(* ---------------- the operations ----------------------------------------- *)
\* event record; o2 = index of the returned part to keep / second operand; unused fields 0 / "" / <<>>
Ev(op, o, o2, by, by2, vals) == [op |-> op, o |-> o, o2 |-> o2, by |-> by, by2 |-> by2, vals |-> vals]

Producer(op) == op \in {"split_obs", "split_channel", "split_time", "split_merge", "subset_obs",
                        "subset_channel", "subset_time", "merge", "odd_even", "nested_odd_even",
                        "bin_time", "time_as_observations", "time_as_channels", "df", "copy",
                        "saveload", "dict"}
InPlace(op) == op \in {"sort_by"}
Observer(op) == op \in {"average_by", "tensor", "average"}

\* all the objects a value-returning operation hands back (heap keeps the one selected by o2)
Parts(h, e) ==
  LET ob == h[e.o] IN
  CASE e.op = "split_obs" -> SplitObsParts(ob, e.by)
    [] e.op = "split_channel" -> SplitChanParts(ob, e.by)
    [] e.op = "split_time" -> SplitTimeParts(ob, e.by)
    [] e.op = "odd_even" -> OddEven(ob, e.by)
    [] e.op = "nested_odd_even" -> NestedOddEven(ob, e.by, e.by2)
    [] OTHER -> <<>>
MultiPart(op) == op \in {"split_obs", "split_channel", "split_time", "odd_even", "nested_odd_even"}

Enabled(h, e) ==
  /\ e.op \in Ops
  /\ e.o \in 1..MaxObj /\ Live(h, e.o)
  /\ Producer(e.op) => HasFree(h)
  /\ LET ob == h[e.o]  nr == Len(ob.rows)  nc == Len(ob.cols)  nt == Len(ob.tims) IN
     CASE e.op = "split_obs" -> e.by \in ob.okeys \ MissKeys /\ e.o2 \in 1..Len(PartsSel(ODesc(ob, e.by)))
       [] e.op = "split_channel" -> e.by \in ob.ckeys /\ e.o2 \in 1..Len(PartsSel(CDesc(ob, e.by)))
       [] e.op = "split_time" -> ob.kind = "T" /\ e.by \in ob.tkeys /\ e.o2 \in 1..Len(PartsSel(TDesc(ob, e.by)))
       [] e.op = "split_merge" -> e.by \in ob.okeys \ MissKeys          \* merge_datasets(ds.split_obs(by))
       [] e.op = "subset_obs" ->       \* a value or list of values, at least one of them present
            /\ e.by \in ob.okeys /\ e.vals # <<>> /\ Matching(ODesc(ob, e.by), Range(e.vals)) # <<>>
            /\ (e.by \in MissKeys => Missing \notin Range(e.vals))    \* one cannot ask for "missing"
       [] e.op = "subset_channel" ->
            e.by \in ob.ckeys /\ e.vals # <<>> /\ Matching(CDesc(ob, e.by), Range(e.vals)) # <<>>
       [] e.op = "subset_time" ->      \* vals = <<t_from, t_to>> on an ordered descriptor
            /\ ob.kind = "T" /\ e.by \in ob.tkeys \cap {"time", "lat", "phase"} /\ Len(e.vals) = 2
            /\ \E i \in 1..nt : ValLe(e.by, e.vals[1], TDesc(ob, e.by)[i]) /\ ValLe(e.by, TDesc(ob, e.by)[i], e.vals[2])
       [] e.op = "sort_by" -> e.by \in ob.okeys \ ({"bins"} \cup MissKeys)
       [] e.op = "merge" ->            \* same type, identical channel and time descriptors
            /\ e.o2 \in 1..MaxObj /\ Live(h, e.o2)
            /\ h[e.o2].kind = ob.kind /\ h[e.o2].cols = ob.cols /\ h[e.o2].tims = ob.tims
            /\ h[e.o2].ckeys = ob.ckeys /\ h[e.o2].tkeys = ob.tkeys
            /\ nr + Len(h[e.o2].rows) <= MaxRows
            \* a missing value at the dataset level (from_df of an all-missing column) is NaN in one
            \* flavour and None in the other, and NaN is not equal to itself: not explored
            /\ \A k \in MissKeys : ob.dd[k] # Missing /\ h[e.o2].dd[k] # Missing
       [] e.op = "odd_even" ->         \* at least two values, else one half is empty
            e.by \in ob.okeys \ MissKeys /\ e.o2 \in {1, 2} /\ Len(PartsSel(ODesc(ob, e.by))) >= 2
       [] e.op = "nested_odd_even" ->
            /\ e.by \in ob.okeys \ MissKeys /\ e.by2 \in ob.okeys \ MissKeys /\ e.o2 \in {1, 2}
            /\ \A p \in Range(SplitObsParts(ob, e.by)) : Len(PartsSel(ODesc(p, e.by2))) >= 2
       [] e.op = "bin_time" ->         \* on a numeric time descriptor; no empty bin
            /\ ob.kind = "T" /\ e.by \in ob.tkeys /\ RatKey(e.by)
            /\ e.vals # <<>> /\ Len(e.vals) <= MaxTims
            /\ \A k \in 1..Len(e.vals) : e.vals[k] # <<>> /\ BinMembers(ob, e.by, e.vals[k]) # <<>>
            /\ \A k \in 1..Len(e.vals) : BinTL(ob, e.by, e.vals[k]).d <= MaxDen
       [] e.op = "time_as_observations" ->   \* by names the time axis: one time point per value
            /\ ob.kind = "T" /\ e.by \in ob.tkeys /\ NoDup(TDesc(ob, e.by)) /\ nr * nt <= MaxRows
       [] e.op = "time_as_channels" -> ob.kind = "T" /\ nc * nt <= MaxCols
       [] e.op = "df" ->               \* columns named by a duplicate-free channel descriptor
            ob.kind = "F" /\ e.by \in ob.ckeys /\ NoDup(CDesc(ob, e.by))
       [] e.op = "average_by" -> ob.kind = "F" /\ e.by \in ob.okeys \ MissKeys
       [] e.op = "tensor" ->           \* get_measurements_tensor: equally many observations per value
            /\ ob.kind = "F" /\ e.by \in ob.okeys \ MissKeys
            /\ \A p \in Range(PartsSel(ODesc(ob, e.by))) : Len(p) = Len(PartsSel(ODesc(ob, e.by))[1])
       [] e.op \in {"copy", "saveload", "dict", "drop", "average"} -> TRUE
       [] OTHER -> FALSE
  /\ e.op = "drop" => Cardinality(LiveSet(h)) >= 2

\* the object an operation produces / the new value of its in-place target
Result(h, e) ==
  LET ob == h[e.o] IN
  CASE MultiPart(e.op) -> Parts(h, e)[e.o2]
    [] e.op = "split_merge" -> MergeList(SplitObsParts(ob, e.by))
    [] e.op = "subset_obs" -> SelRows(ob, Matching(ODesc(ob, e.by), Range(e.vals)))
    [] e.op = "subset_channel" -> SelCols(ob, Matching(CDesc(ob, e.by), Range(e.vals)))
    [] e.op = "subset_time" ->
         LET col == TDesc(ob, e.by) IN
         SelTims(ob, SelectSeq(Iota(Len(col)), LAMBDA i : ValLe(e.by, e.vals[1], col[i]) /\ ValLe(e.by, col[i], e.vals[2])))
    [] e.op = "sort_by" -> SelRows(ob, StableArgsort(ODesc(ob, e.by), e.by))
    [] e.op = "merge" -> MergeList(<<ob, h[e.o2]>>)
    [] e.op = "bin_time" -> BinTime(ob, e.by, e.vals)
    [] e.op = "time_as_observations" -> TimeAsObs(ob)
    [] e.op = "time_as_channels" -> TimeAsChan(ob)
    [] e.op = "df" -> DfRoundTrip(ob, e.by)
    [] OTHER -> ob                 \* copy, saveload, dict

Apply(h, e) ==
  IF e.op = "drop" THEN [h EXCEPT ![e.o] = Null]
  ELSE IF Observer(e.op) THEN h
  ELSE IF Producer(e.op) THEN [h EXCEPT ![FreeSlot(h)] = Result(h, e)]
  ELSE [h EXCEPT ![e.o] = Result(h, e)]

\* per-label group means (average_dataset_by) and the tensor view
AvgOut(ob, by) ==
  LET col == ODesc(ob, by)  u == Uniq(col)  ps == PartsSel(col) IN
  [g \in 1..Len(u) |-> [label |-> u[g], n |-> Len(ps[g]),
                        mean |-> [c \in 1..Len(ob.cols) |-> QMean([j \in 1..Len(ps[g]) |-> ob.val[ps[g][j]][c][1]])]]]
\* average_dataset: the mean over all observations, per channel (and time slice)
AverageOut(ob) ==
  [c \in 1..Len(ob.cols) |-> [k \in 1..Len(ob.tims) |-> QMean([r \in 1..Len(ob.rows) |-> ob.val[r][c][k]])]]
TensorOut(ob, by) ==
  LET col == ODesc(ob, by)  u == Uniq(col)  ps == PartsSel(col) IN
  [g \in 1..Len(u) |-> [label |-> u[g],
                        cells |-> [c \in 1..Len(ob.cols) |-> [j \in 1..Len(ps[g]) |-> ob.val[ps[g][j]][c][1]]]]]

(* ---------------- projections --------------------------------------------- *)
\* compact JSON form of the ghost labels (NoT -> 0, free slot -> 0, only present dataset descriptors)
TLj(tl) == IF tl = NoT THEN 0 ELSE <<tl.w, tl.d, tl.b, tl.ph>>
Strip(ob) == IF ob.kind = "N" THEN 0 ELSE
             [kind |-> ob.kind,
              rows |-> [i \in 1..Len(ob.rows) |-> <<ob.rows[i][1], TLj(ob.rows[i][2])>>],
              cols |-> [i \in 1..Len(ob.cols) |-> <<ob.cols[i][1], TLj(ob.cols[i][2])>>],
              tims |-> [i \in 1..Len(ob.tims) |-> TLj(ob.tims[i])],
              okeys |-> ob.okeys, ckeys |-> ob.ckeys, tkeys |-> ob.tkeys,
              dd |-> [i \in 1..Cardinality({k \in DKeys : ob.dd[k] # Absent(k)}) |->
                        LET k == SetToSeq({k \in DKeys : ob.dd[k] # Absent(k)})[i] IN <<k, ob.dd[k]>>]]
\* what can be read off a real object: descriptor columns (<<>> = descriptor absent), dataset
\* descriptors and the cells
Obs(ob) == [kind |-> ob.kind,
            od |-> [k \in OKeysAll |-> IF k \in ob.okeys THEN ODesc(ob, k) ELSE <<>>],
            cd |-> [k \in CKeysAll |-> IF k \in ob.ckeys THEN CDesc(ob, k) ELSE <<>>],
            td |-> [k \in TKeysAll |-> IF k \in ob.tkeys THEN TDesc(ob, k) ELSE <<>>],
            dd |-> ob.dd, val |-> ob.val]
OutOf(h, e) ==
  IF MultiPart(e.op) THEN LET ps == Parts(h, e) IN [i \in 1..Len(ps) |-> Strip(ps[i])]
  ELSE IF e.op = "average_by" THEN AvgOut(h[e.o], e.by)
  ELSE IF e.op = "tensor" THEN TensorOut(h[e.o], e.by)
  ELSE IF e.op = "average" THEN AverageOut(h[e.o])
  ELSE <<>>
OutObs(h, e) ==
  IF MultiPart(e.op) THEN LET ps == Parts(h, e) IN [i \in 1..Len(ps) |-> Obs(ps[i])]
  ELSE OutOf(h, e)

(* ---------------- argument domains for enumeration ------------------------ *)
SeqsUpTo(S, n) == UNION {[1..k -> S] : k \in 1..n}
\* trimmed domain: two single values, one pair in non-ascending order, one repeated value
Trim(S) == IF Cardinality(S) >= 2
           THEN LET a == CHOOSE x \in S : TRUE
                    b == CHOOSE x \in S \ {a} : TRUE
                IN {<<a>>, <<b>>, <<b, a>>, <<a, a>>}
           ELSE {<<x>> : x \in S}
ValSeqs(S, n) == IF ArgLevel >= 2 THEN SeqsUpTo(S, n) ELSE Trim(S)
\* values of a column, plus (full domains, integer keys) one value that occurs nowhere
ArgVals(col, k) == Range(col) \cup (IF ArgLevel >= 2 /\ IntKey(k) THEN {99} ELSE {})
SortedVals(S, k) == SetToSortSeq(S, LAMBDA a, b : ValLt(k, a, b))
\* bins: ascending lists of existing time values
BinSets(ob, by) == {SortedVals(T, by) : T \in SUBSET Range(TDesc(ob, by)) \ {{}}}
BinArgs(ob, by) ==
  LET tv == SortedVals(Range(TDesc(ob, by)), by)  m == Len(tv) IN
  IF ArgLevel >= 2 THEN SeqsUpTo(BinSets(ob, by), BinLen)
       \cup {[k \in 1..m |-> <<tv[m + 1 - k]>>]}                       \* singletons, reversed
  ELSE {<<tv>>, [k \in 1..m |-> <<tv[m + 1 - k]>>]}
       \cup (IF m >= 2 THEN {<<<<tv[1], tv[2]>>, <<tv[m]>>>>} ELSE {})  \* unequal sizes (overlap if m = 2)
       \cup (IF m >= 3 THEN {<<<<tv[1], tv[3]>>, <<tv[2]>>>>,            \* interleaved
                             <<<<tv[1], tv[m]>>>>} ELSE {})              \* skips samples, leaves some out
       \cup (IF m >= 4 THEN {<<<<tv[1], tv[3]>>, <<tv[2], tv[4]>>>>} ELSE {})
TimeRanges(ob, by) ==
  LET V == Range(TDesc(ob, by)) IN
  IF ArgLevel >= 2 THEN {<<a, b>> : a \in V, b \in V}
  ELSE LET s == SortedVals(V, by) IN {<<s[1], s[1]>>, <<s[Len(s)], s[Len(s)]>>, <<s[1], s[(Len(s) + 1) \div 2]>>}
MaxParts == 4

ObjEvents(h, o, f) ==
  LET ob == h[o] IN
  CASE f = "split" -> {Ev(op, o, k, by, "", <<>>) : op \in {"split_obs", "split_channel", "split_time"},
                                                   by \in DKeys, k \in 1..(IF ArgLevel >= 2 THEN MaxParts ELSE 2)}
    [] f = "splitmerge" -> {Ev("split_merge", o, 0, by, "", <<>>) : by \in ob.okeys}
    [] f = "subobs" -> UNION {{Ev("subset_obs", o, 0, by, "", v) : v \in ValSeqs(ArgVals(ODesc(ob, by), by), 2)} : by \in ob.okeys}
    [] f = "subchan" -> UNION {{Ev("subset_channel", o, 0, by, "", v) : v \in ValSeqs(ArgVals(CDesc(ob, by), by), 2)} : by \in ob.ckeys}
    [] f = "subtime" -> UNION {{Ev("subset_time", o, 0, by, "", v) : v \in TimeRanges(ob, by)} : by \in ob.tkeys \cap {"time", "lat", "phase"}}
    [] f = "sort" -> {Ev("sort_by", o, 0, by, "", <<>>) : by \in ob.okeys}
    [] f = "merge" -> {Ev("merge", o, o2, "", "", <<>>) : o2 \in LiveSet(h)}
    [] f = "oddeven" -> {Ev("odd_even", o, k, by, "", <<>>) : by \in ob.okeys, k \in {1, 2}}
    [] f = "nested" -> {Ev("nested_odd_even", o, k, b[1], b[2], <<>>) : b \in ob.okeys \X ob.okeys, k \in {1, 2}}
    [] f = "bin" -> IF ob.kind = "T"
                    THEN UNION {{Ev("bin_time", o, 0, by, "", b) : b \in BinArgs(ob, by)} : by \in {k \in ob.tkeys : RatKey(k)}}
                    ELSE {}
    [] f = "conv" -> {Ev("time_as_observations", o, 0, by, "", <<>>) : by \in ob.tkeys}
                     \cup {Ev("time_as_channels", o, 0, "", "", <<>>)}
    [] f = "byops" -> {Ev("df", o, 0, by, "", <<>>) : by \in ob.ckeys}
                      \cup {Ev(op, o, 0, by, "", <<>>) : op \in {"average_by", "tensor"}, by \in ob.okeys}
    [] f = "plain" -> {Ev(op, o, 0, "", "", <<>>) : op \in {"copy", "saveload", "dict", "drop", "average"}}
Families == {"split", "splitmerge", "subobs", "subchan", "subtime", "sort", "merge", "oddeven",
             "nested", "bin", "conv", "byops", "plain"}

Init == /\ src \in Sources
        /\ objs = [o \in 1..MaxObj |-> IF o = 1 THEN Source(src) ELSE Null]
        /\ hist = <<>>

Step(e) == /\ Enabled(objs, e)
           /\ objs' = Apply(objs, e)
           /\ hist' = Append(hist, [ev |-> e,
                                    post |-> [o \in 1..MaxObj |-> Strip(objs'[o])],
                                    out |-> OutOf(objs, e),
                                    obs |-> IF EmitObs = 1 THEN [o \in 1..MaxObj |-> Obs(objs'[o])] ELSE <<>>,
                                    outobs |-> IF EmitObs = 1 THEN OutObs(objs, e) ELSE <<>>])
           /\ src' = src

Next == /\ Len(hist) < Depth
        /\ \E o \in LiveSet(objs) : \E f \in Families : \E e \in ObjEvents(objs, o, f) : Step(e)

Spec == Init /\ [][Next]_vars

(* ---------------- invariants ---------------------------------------------- *)
ShapeOk(ob) ==
  /\ Len(ob.rows) >= 1 /\ Len(ob.cols) >= 1 /\ Len(ob.tims) >= 1
  /\ Len(ob.val) = Len(ob.rows)
  /\ \A r \in 1..Len(ob.rows) : /\ Len(ob.val[r]) = Len(ob.cols)
                                /\ \A c \in 1..Len(ob.cols) : Len(ob.val[r][c]) = Len(ob.tims)
  /\ (ob.kind = "F") => (ob.tims = <<NoT>> /\ ob.tkeys = {})
  /\ (ob.kind = "T") => (\A k \in 1..Len(ob.tims) : ob.tims[k] # NoT) /\ "time" \in ob.tkeys
Shape == \A o \in LiveSet(objs) : ShapeOk(objs[o])

\* clause a: the stored cell is the token of the observation of its row, the channel of its column
\* and the (one) time label among row / column / time slice
CellAssocOk(ob) ==
  \A r \in 1..Len(ob.rows) : \A c \in 1..Len(ob.cols) : \A k \in 1..Len(ob.tims) :
     /\ ob.val[r][c][k] = Cell(ob.rows[r][1], ob.cols[c][1], CellTL(ob.rows[r], ob.cols[c], ob.tims[k]))
     /\ Cardinality({x \in {1, 2, 3} : <<ob.rows[r][2], ob.cols[c][2], ob.tims[k]>>[x] # NoT}) <= 1
CellAssoc == \A o \in LiveSet(objs) : CellAssocOk(objs[o])

\* every descriptor the object carries has a value for every row / column / time slice, time
\* labels are proper weightings, and dataset-level descriptors agree with the rows they describe
TLOk(tl) == tl = NoT \/ (tl.d >= 1 /\ SumTo(tl.w, Len(tl.w)) = tl.d /\ \A t \in 1..Len(tl.w) : tl.w[t] >= 0)
DescAttachedOk(ob) ==
  /\ \A k \in ob.okeys : \A i \in 1..Len(ob.rows) : RowVal(ob.rows[i], k) # Absent(k) \/ k = "bins"
  /\ \A k \in ob.ckeys : \A i \in 1..Len(ob.cols) : ColVal(ob.cols[i], k) # Absent(k) \/ k = "bins"
  /\ \A k \in ob.tkeys : \A i \in 1..Len(ob.tims) : TLVal(ob.tims[i], k) # Absent(k)
  /\ \A i \in 1..Len(ob.rows) : TLOk(ob.rows[i][2])
  /\ \A i \in 1..Len(ob.cols) : TLOk(ob.cols[i][2])
  /\ \A i \in 1..Len(ob.tims) : TLOk(ob.tims[i])
  /\ \A k \in OKeysAll : (ob.dd[k] # Absent(k) /\ (k \in ob.okeys \/ k \in {"obs", "cond", "sess", "flag", "mark"})) =>
        \A i \in 1..Len(ob.rows) : RowVal(ob.rows[i], k) = ob.dd[k]
  /\ \A k \in CKeysAll \ OKeysAll : ob.dd[k] # Absent(k) =>
        \A i \in 1..Len(ob.cols) : ColVal(ob.cols[i], k) = ob.dd[k]
DescAttached == \A o \in LiveSet(objs) : DescAttachedOk(objs[o])

(* ---------------- the clauses of C11 as properties of one step ------------- *)
BagOf(s) == [x \in Range(s) |-> Cardinality({i \in 1..Len(s) : s[i] = x})]
RowItems(ob) == [i \in 1..Len(ob.rows) |-> <<ob.rows[i], ob.val[i]>>]
\* every cell with its three labels, as a multiset
CellBag(ob) == BagOf(Flat(Flat([r \in 1..Len(ob.rows) |-> [c \in 1..Len(ob.cols) |-> [k \in 1..Len(ob.tims) |->
                  <<ob.rows[r][1], ob.cols[c][1], CellTL(ob.rows[r], ob.cols[c], ob.tims[k]), ob.val[r][c][k]>>]]])))
IsSubseqAt(sel, n) == /\ \A i \in 1..Len(sel) : sel[i] \in 1..n
                      /\ \A i \in 1..(Len(sel) - 1) : sel[i] < sel[i + 1]
\* sels is an ordered partition of 1..n into non-empty ascending selections
IsPartition(sels, n) ==
  /\ \A i \in 1..Len(sels) : sels[i] # <<>> /\ IsSubseqAt(sels[i], n)
  /\ \A i \in 1..Len(sels) : \A j \in 1..Len(sels) : i # j => Range(sels[i]) \cap Range(sels[j]) = {}
  /\ UNION {Range(sels[i]) : i \in 1..Len(sels)} = 1..n
\* the labels of part p are those of the items of `all` at positions sel, in that order
AxisOf(ob, ax) == CASE ax = 1 -> ob.rows [] ax = 2 -> ob.cols [] ax = 3 -> ob.tims
SamePartOnAxis(ob, p, ax, sel) ==
  /\ AxisOf(p, ax) = Pick(AxisOf(ob, ax), sel)
  /\ \A a \in {1, 2, 3} \ {ax} : AxisOf(p, a) = AxisOf(ob, a)
  /\ p.val = CASE ax = 1 -> Pick(ob.val, sel)
               [] ax = 2 -> [r \in 1..Len(ob.rows) |-> Pick(ob.val[r], sel)]
               [] ax = 3 -> [r \in 1..Len(ob.rows) |-> [c \in 1..Len(ob.cols) |-> Pick(ob.val[r][c], sel)]]
  /\ p.okeys = ob.okeys /\ p.ckeys = ob.ckeys /\ p.tkeys = ob.tkeys /\ p.kind = ob.kind

ClauseOk(h, e, h2) ==
  LET ob == h[e.o]
      target == IF Producer(e.op) THEN FreeSlot(h) ELSE e.o
      res == h2[target] IN
  \* Frame: only the target / new object changes
  /\ \A o \in 1..MaxObj : o # target => h2[o] = h[o]
  /\ Observer(e.op) => h2 = h
  \* SplitIsPartition: the parts are the groups of equal descriptor value, in order of first
  \* appearance, each in original order, together every item exactly once
  /\ e.op \in {"split_obs", "split_channel", "split_time"} =>
       LET ax == CASE e.op = "split_obs" -> 1 [] e.op = "split_channel" -> 2 [] OTHER -> 3
           col == CASE ax = 1 -> ODesc(ob, e.by) [] ax = 2 -> CDesc(ob, e.by) [] OTHER -> TDesc(ob, e.by)
           ps == Parts(h, e) IN
       \E sels \in {PartsSel(col)} :
          /\ Len(sels) = Len(ps) /\ IsPartition(sels, Len(col))
          /\ \A i \in 1..Len(ps) : SamePartOnAxis(ob, ps[i], ax, sels[i]) /\ Const(Pick(col, sels[i]))
          /\ \A i \in 1..Len(ps) : \A j \in 1..Len(ps) : i < j =>
                col[sels[i][1]] # col[sels[j][1]] /\ sels[i][1] < sels[j][1]
  \* MergeOfSplit: merging the parts returns the original rows as a multiset, descriptors kept
  /\ e.op \in {"split_merge", "split_obs"} =>
       LET m == MergeList(SplitObsParts(ob, e.by)) IN
       /\ BagOf(RowItems(m)) = BagOf(RowItems(ob))
       /\ m.cols = ob.cols /\ m.tims = ob.tims /\ ob.okeys \subseteq m.okeys
       /\ m.ckeys = ob.ckeys /\ m.tkeys = ob.tkeys /\ m.kind = ob.kind
  /\ e.op \in {"odd_even", "nested_odd_even"} =>
       LET ps == Parts(h, e) IN
       /\ BagOf(RowItems(ps[1]) \o RowItems(ps[2])) = BagOf(RowItems(ob))
       /\ \A i \in {1, 2} : ps[i].cols = ob.cols /\ ps[i].tims = ob.tims /\ ob.okeys \subseteq ps[i].okeys
       \* no value of the splitting descriptor is on both sides
       /\ LET by == IF e.op = "odd_even" THEN e.by ELSE e.by2 IN
          e.op = "odd_even" => Range(ODesc(ps[1], by)) \cap Range(ODesc(ps[2], by)) = {}
  /\ e.op = "merge" => /\ RowItems(res) = RowItems(ob) \o RowItems(h[e.o2])
                       /\ res.cols = ob.cols /\ res.tims = ob.tims
  \* SubsetOrder: exactly the matching items, in original order
  /\ e.op \in {"subset_obs", "subset_channel", "subset_time"} =>
       LET ax == CASE e.op = "subset_obs" -> 1 [] e.op = "subset_channel" -> 2 [] OTHER -> 3
           col == CASE ax = 1 -> ODesc(ob, e.by) [] ax = 2 -> CDesc(ob, e.by) [] OTHER -> TDesc(ob, e.by)
           match(i) == IF ax = 3 THEN ValLe(e.by, e.vals[1], col[i]) /\ ValLe(e.by, col[i], e.vals[2])
                       ELSE col[i] \in Range(e.vals)
           sel == SelectSeq(Iota(Len(col)), match) IN
       /\ IsSubseqAt(sel, Len(col)) /\ Range(sel) = {i \in 1..Len(col) : match(i)}
       /\ SamePartOnAxis(ob, res, ax, sel) /\ res.dd = ob.dd
  \* StableSort: a permutation of the rows, keys non-decreasing, equal keys keep their order
  /\ e.op = "sort_by" =>
       LET col == ODesc(ob, e.by)  p == StableArgsort(col, e.by)  n == Len(col) IN
       /\ Len(p) = n /\ Range(p) = 1..n
       /\ \A i \in 1..(n - 1) : ValLe(e.by, col[p[i]], col[p[i + 1]])
       /\ \A i \in 1..(n - 1) : col[p[i]] = col[p[i + 1]] => p[i] < p[i + 1]
       /\ SamePartOnAxis(ob, res, 1, p) /\ res.dd = ob.dd
  \* BinMeans: each new time slice is the mean over exactly the slices whose `by` value is in the
  \* bin (membership: a slice between two members of the bin does not belong to it); so is every
  \* numeric time descriptor; a label takes the value of the first member; nothing else changes
  /\ e.op = "bin_time" =>
       /\ Len(res.tims) = Len(e.vals) /\ res.rows = ob.rows /\ res.cols = ob.cols
       /\ res.okeys = ob.okeys /\ res.ckeys = ob.ckeys /\ res.dd = ob.dd /\ res.kind = ob.kind
       /\ res.tkeys = ob.tkeys \cup {"bins"}
       /\ \A k \in 1..Len(e.vals) :
            LET M == {j \in 1..Len(ob.tims) : TDesc(ob, e.by)[j] \in Range(e.vals[k])}
                ms == SetToSortSeq(M, LAMBDA x, y : x < y) IN
            /\ M # {}
            /\ \A r \in 1..Len(ob.rows) : \A c \in 1..Len(ob.cols) :
                 res.val[r][c][k] = QMean([j \in 1..Len(ms) |-> ob.val[r][c][ms[j]]])
            /\ \A key \in {x \in ob.tkeys : RatKey(x)} :
                 TLVal(res.tims[k], key) = QMean([j \in 1..Len(ms) |-> TDesc(ob, key)[ms[j]]])
            /\ "phase" \in ob.tkeys => res.tims[k].ph = ob.tims[ms[1]].ph
            /\ res.tims[k].b = e.vals[k]
  \* ConversionBijection: every cell survives with its observation, channel and time label, for
  \* every shape (also 1 observation / 1 channel / 1 time point)
  /\ e.op \in {"time_as_observations", "time_as_channels", "df", "copy", "saveload", "dict"} =>
       CellBag(res) = CellBag(ob)
  /\ e.op = "time_as_observations" =>
       /\ Len(res.rows) = Len(ob.rows) * Len(ob.tims) /\ res.cols = ob.cols /\ res.kind = "F"
       /\ ob.okeys \cup ob.tkeys \subseteq res.okeys
  /\ e.op = "time_as_channels" =>
       /\ Len(res.cols) = Len(ob.cols) * Len(ob.tims) /\ res.rows = ob.rows /\ res.kind = "F"
       /\ ob.ckeys \cup ob.tkeys \subseteq res.ckeys
  /\ e.op = "df" => /\ res.rows = ob.rows /\ res.cols = ob.cols /\ res.val = ob.val
                    \* from_df: a column becomes a dataset descriptor only if it is constant over ALL
                    \* rows - a partly missing column stays an observation descriptor
                    /\ \A k \in ob.okeys : (k \notin res.okeys) =>
                          (ob.dd[k] # Absent(k) \/ \A i \in 1..Len(ob.rows) : RowVal(ob.rows[i], k) = RowVal(ob.rows[1], k))
                    \* every observation descriptor value is still there, per row or for the whole set
                    /\ \A k \in ob.okeys : k \in res.okeys \/ (res.dd[k] # Absent(k) /\ \A i \in 1..Len(ob.rows) : RowVal(ob.rows[i], k) = res.dd[k])
  /\ e.op \in {"copy", "saveload", "dict"} => res = ob
  \* AverageGroups: one mean per label, over exactly the rows carrying it
  /\ e.op = "average_by" =>
       LET out == AvgOut(ob, e.by)  col == ODesc(ob, e.by) IN
       /\ {out[g].label : g \in 1..Len(out)} = Range(col) /\ NoDup([g \in 1..Len(out) |-> out[g].label])
       /\ \A g \in 1..Len(out) :
            LET ms == SetToSortSeq({i \in 1..Len(col) : col[i] = out[g].label}, LAMBDA x, y : x < y) IN
            /\ out[g].n = Len(ms)
            /\ \A c \in 1..Len(ob.cols) : out[g].mean[c] = QMean([j \in 1..Len(ms) |-> ob.val[ms[j]][c][1]])

StepProps == [][LET e == hist'[Len(hist')].ev IN ClauseOk(objs, e, objs')]_vars

(* ---------------- emission of behaviours for replay (S -> I) --------------- *)
Emit == (Len(hist) = Depth /\ (EmitMod = 1 \/ RandomElement(1..EmitMod) = 1))
           => PrintT(ToJson([src |-> src, hist |-> hist]))
=============================================================================
