--------------------------- MODULE MC_EvalProtocol ---------------------------
(* Named configuration sets for EvalProtocol (cfg files cannot hold records). *)
EXTENDS EvalProtocol
NanPairsNone == {}
NoOps == {}
NoGens == {}

Cfg(routine, bootR, bootP, cv, nCv, n, kR, kP, byR, byP, bootNc, nM, plR, plP) ==
  [routine |-> routine, bootR |-> bootR, bootP |-> bootP, cv |-> cv, nCv |-> nCv, N |-> n, kR |-> kR, kP |-> kP,
   byR |-> byR, byP |-> byP, bootNc |-> bootNc, nM |-> nM, plR |-> plR, plP |-> plP,
   method |-> "M"]        \* "M" = the comparison method the routine is called with (bound by the driver)

RBys == {"index", "subj", "grp"}
PBys == {"index", "cond", "cat"}
Types == {<<TRUE, TRUE>>, <<TRUE, FALSE>>, <<FALSE, TRUE>>}

FixedS(nm) == {Cfg("fixed", FALSE, FALSE, "none", 1, 1, 1, 1, "index", "index", TRUE, nm, 9, 9)}
\* eval_fixed on a RESAMPLED stack: the data handed to eval_fixed are bootstrap_sample_rdm(data, byR) (= subsample
\* with repeated values), so RDMs -- and values of the library-managed 'index' descriptor -- occur several times;
\* descriptors with one member per group only (the table has one column per RDM of the stack)
FixedBootS(nm) == {Cfg("fixed", TRUE, FALSE, "none", 1, 1, 1, 1, byR, "index", TRUE, nm, 9, 9) : byR \in {"index", "subj"}}
\* eval_bootstrap (both axes) / eval_bootstrap_rdm / eval_bootstrap_pattern
BootS(n, nm, types, rbys, pbys) ==
  {Cfg("boot", bt[1], bt[2], "none", 1, n, 1, 1, byR, IF bt[2] THEN byP ELSE "index", bnc, nm, 9, 9) :
     bt \in types, byR \in rbys, byP \in pbys, bnc \in BOOLEAN}
\* crossval on sets made by sets_k_fold / sets_k_fold_pattern
CrossvalS(cv, kr, kp, nm, plr, plp, rbys, pbys) ==
  {Cfg("crossval", FALSE, FALSE, cv, 1, 1, kr, kp, byR, byP, TRUE, nm, plr, plp) : byR \in rbys, byP \in pbys}
BootCvS(n, ncv, kr, kp, nm, plr, plp, types, rbys, pbys) ==
  {Cfg("bootcv", bt[1], bt[2], "kfold", ncv, n, kr, kp, byR, byP, TRUE, nm, plr, plp) : bt \in types, byR \in rbys, byP \in pbys}
DualS(n, ncv, kr, kp, nm, plr, plp, rbys, pbys) ==
  {Cfg("dual", TRUE, TRUE, "kfold", ncv, n, kr, kp, byR, byP, TRUE, nm, plr, plp) : byR \in rbys, byP \in pbys}
DualRandS(n, ncv, nr, np, nm, plr, plp, types, rbys, pbys) ==
  {Cfg("dualrand", bt[1], bt[2], "random", ncv, n, nr, np, byR, byP, TRUE, nm, plr, plp) : bt \in types, byR \in rbys, byP \in pbys}

\* bootstrap_testset / _rdm / _pattern (the RDM-only routine always uses the 'index' pattern descriptor)
TestsetS(n, nm, types, rbys, pbys) ==
  {Cfg("testset", bt[1], bt[2], "testset", 1, n, 1, 1, IF bt[1] THEN byR ELSE "index", IF bt[2] THEN byP ELSE "index",
       TRUE, nm, 9, 9) : bt \in types, byR \in rbys, byP \in pbys}

(* ---- quick tier ---- *)
\* NR = 3, NC = 4, trimmed draws: every routine, unique and grouping descriptors, N = 2 for the plain bootstraps
QuickA == FixedS(3) \cup FixedBootS(3)
          \cup BootS(2, 3, Types, RBys, {"index", "cond"})
          \cup BootCvS(1, 2, 2, 1, 3, 1, 9, Types, {"subj", "grp"}, {"cond"})
          \cup DualS(1, 2, 2, 1, 2, 0, 9, {"index", "grp"}, {"index"})
          \cup DualRandS(1, 2, 1, 0, 3, 1, 9, Types, {"index", "grp"}, {"cond"})
\* NR = 3, NC = 3, every draw outcome (27 x 27) of the first sample, second sample identity / all-first
\* (eval_bootstrap* cannot run with N = 1)
QuickB == BootS(2, 3, {<<TRUE, TRUE>>}, {"subj"}, {"cond"}) \cup FixedBootS(3)
\* NR = 3, NC = 6, trimmed draws: condition groups ('cat': 3 groups of 2), folds over conditions
QuickC == BootS(2, 3, {<<TRUE, TRUE>>, <<FALSE, TRUE>>}, {"grp"}, {"cat"})
          \cup BootCvS(1, 1, 1, 2, 3, 9, 1, {<<TRUE, TRUE>>, <<FALSE, TRUE>>}, {"index"}, {"index", "cat"})
          \cup CrossvalS("kfold", 2, 2, 3, 1, 0, {"index", "grp"}, {"index"})
          \cup CrossvalS("kfoldpat", 1, 2, 3, 9, 1, {"index"}, {"index", "cat"})
          \cup DualRandS(1, 2, 1, 3, 2, 0, 0, {<<TRUE, TRUE>>}, {"index"}, {"index"})

\* NR = 5, NC = 4, trimmed draws: MORE RDM groups than condition groups (5 > 4; 'grp': 3 < 4; 'cat': 2), so that
\* the smaller factor in DofRule is the condition axis; every routine that resamples both axes
QuickD == FixedBootS(2) \cup BootS(2, 3, {<<TRUE, TRUE>>}, {"subj", "grp"}, {"cond", "cat"})
          \cup BootCvS(1, 2, 2, 1, 3, 0, 9, {<<TRUE, TRUE>>}, {"subj", "grp"}, {"cond"})
          \cup DualS(1, 1, 2, 1, 2, 0, 9, {"subj", "grp"}, {"cond"})
          \cup DualRandS(1, 2, 1, 0, 3, 0, 9, {<<TRUE, TRUE>>}, {"subj", "grp"}, {"cond"})

\* NR = 3, NC = 6, trimmed draws + "first half twice": the test-set routines
QuickE == TestsetS(2, 3, Types, {"subj", "grp"}, {"cond", "index"})
\* NR = 3, NC = 5: every draw outcome of sample 1 (3125 / 27) for the one-axis test-set routines
ThorE == TestsetS(2, 3, {<<FALSE, TRUE>>, <<TRUE, FALSE>>}, {"subj", "grp"}, {"cond"})
\* NR = 3, NC = 8, trimmed: grouped conditions ('cat': 4 groups of 2, so that 3 groups can stay undrawn) and RDM groups
ThorF == TestsetS(2, 3, {<<TRUE, TRUE>>, <<FALSE, TRUE>>}, {"grp"}, {"cat"})

(* ---- thorough tier ---- *)
\* NR = 3, NC = 4, every draw outcome (27 x 256) of the first sample, second sample identity / all-first
ThorA == BootS(2, 3, {<<TRUE, TRUE>>}, {"subj"}, {"cond"})
         \cup BootS(2, 3, {<<TRUE, FALSE>>, <<FALSE, TRUE>>}, RBys, PBys)
\* NR = 3, NC = 4, every draw outcome, cross-validation over RDM groups, two repetitions
ThorB == BootCvS(1, 2, 2, 1, 2, 1, 9, {<<TRUE, TRUE>>}, {"subj"}, {"cond"})
\* NR = 3, NC = 4, trimmed draws, two samples of everything
ThorC == BootS(2, 4, Types, RBys, PBys)
         \cup BootCvS(2, 2, 2, 1, 3, 0, 9, Types, {"subj", "grp"}, {"cond"})
         \cup DualS(2, 1, 2, 1, 2, 0, 9, {"index", "grp"}, {"index"})
         \cup DualS(1, 2, 2, 1, 2, 1, 9, {"index"}, {"index"})
         \cup DualRandS(2, 2, 1, 0, 3, 1, 9, Types, {"index", "grp"}, {"cond"})
\* NR = 4, NC = 6, trimmed draws
ThorD == BootS(2, 3, Types, {"grp"}, {"cat", "index"})
         \cup BootCvS(1, 2, 2, 2, 3, 1, 0, Types, {"index", "grp"}, {"index"})
         \cup BootCvS(2, 1, 1, 2, 3, 9, 1, {<<TRUE, TRUE>>, <<FALSE, TRUE>>}, {"index"}, {"index", "cat"})
         \cup CrossvalS("kfold", 2, 2, 3, 2, 1, {"index", "grp"}, {"index"})
         \cup CrossvalS("kfoldpat", 1, 2, 3, 9, 2, {"index"}, {"index", "cat"})
         \cup DualRandS(1, 2, 1, 3, 2, 1, 1, Types, {"index", "grp"}, {"index"})
         \cup DualS(1, 1, 2, 2, 2, 0, 9, {"index"}, {"index"})
=============================================================================
