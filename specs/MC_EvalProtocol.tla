--------------------------- MODULE MC_EvalProtocol ---------------------------
(* Named constants for the configurations of EvalProtocol (cfg files cannot hold records). *)
EXTENDS EvalProtocol
NanPairsNone == {}
NoOps == {}
NoGens == {}

Cfg(routine, bootR, bootP, cv, nCv, n, kR, kP, byR, byP, bootNc, nM, plR, plP) ==
  [routine |-> routine, bootR |-> bootR, bootP |-> bootP, cv |-> cv, nCv |-> nCv, N |-> n, kR |-> kR, kP |-> kP,
   byR |-> byR, byP |-> byP, bootNc |-> bootNc, nM |-> nM, plR |-> plR, plP |-> plP]

RBys == {"index", "subj", "grp"}
PBys == {"index", "cond", "cat"}
\* scalar parameters of the named sets, set in the cfg file
CONSTANTS PN,      \* number of samples N
          PNCv,    \* cv repetitions / random test sets
          PKR, PKP,  \* folds (kfold) or test-set sizes (random)
          PNM,     \* models
          PLR, PLP \* shuffle enumeration levels

Fixed == {Cfg("fixed", FALSE, FALSE, "none", 1, 1, 1, 1, "index", "index", TRUE, PNM, 0, 0)}
\* eval_bootstrap / _rdm / _pattern for every pair of grouping descriptors
BootBoth == {Cfg("boot", TRUE, TRUE, "none", 1, PN, 1, 1, byR, byP, bnc, PNM, 0, 0) : byR \in RBys, byP \in PBys, bnc \in BOOLEAN}
BootBothU == {Cfg("boot", TRUE, TRUE, "none", 1, PN, 1, 1, "subj", "cond", bnc, PNM, 0, 0) : bnc \in BOOLEAN}
BootRdm == {Cfg("boot", TRUE, FALSE, "none", 1, PN, 1, 1, byR, "index", bnc, PNM, 0, 0) : byR \in RBys, bnc \in BOOLEAN}
BootPat == {Cfg("boot", FALSE, TRUE, "none", 1, PN, 1, 1, byR, byP, bnc, PNM, 0, 0) : byR \in {"index", "grp"}, byP \in PBys, bnc \in BOOLEAN}
BootAllKinds == BootBoth \cup BootRdm \cup BootPat
\* crossval on user-made sets
CrossvalK == {Cfg("crossval", FALSE, FALSE, "kfold", 1, 1, PKR, PKP, byR, byP, TRUE, PNM, PLR, PLP) : byR \in {"index", "grp"}, byP \in {"index", "cat"}}
CrossvalP == {Cfg("crossval", FALSE, FALSE, "kfoldpat", 1, 1, 1, PKP, "index", byP, TRUE, PNM, PLR, PLP) : byP \in {"index", "cat"}}
\* bootstrap_crossval, three boot types
BootCv == {Cfg("bootcv", bt[1], bt[2], "kfold", PNCv, PN, PKR, PKP, byR, byP, TRUE, PNM, PLR, PLP) :
             bt \in {<<TRUE, TRUE>>, <<TRUE, FALSE>>, <<FALSE, TRUE>>}, byR \in {"index", "grp"}, byP \in {"index", "cat"}}
BootCvU == {Cfg("bootcv", bt[1], bt[2], "kfold", PNCv, PN, PKR, PKP, "subj", "cond", TRUE, PNM, PLR, PLP) :
             bt \in {<<TRUE, TRUE>>, <<TRUE, FALSE>>, <<FALSE, TRUE>>}}
Dual == {Cfg("dual", TRUE, TRUE, "kfold", PNCv, PN, PKR, PKP, byR, byP, TRUE, PNM, PLR, PLP) : byR \in {"index", "grp"}, byP \in {"index"}}
DualRand == {Cfg("dualrand", bt[1], bt[2], "random", PNCv, PN, PKR, PKP, byR, byP, TRUE, PNM, PLR, PLP) :
             bt \in {<<TRUE, TRUE>>, <<TRUE, FALSE>>, <<FALSE, TRUE>>}, byR \in {"index", "grp"}, byP \in {"index", "cat"}}
=============================================================================
