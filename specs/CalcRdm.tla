------------------------------- MODULE CalcRdm -------------------------------
(***************************************************************************)
(* The dataset -> RDM pipeline of rsatoolbox.rdm.calc (calc_rdm,           *)
(* calc_rdm_movie, calc_rdm_crossnobis, calc_rdm_poisson_cv) as a staged   *)
(* state machine over exact integers and rationals <<num, den>>.           *)
(*                                                                         *)
(* Init picks an input: an assignment of observations to condition labels  *)
(* (any assignment, balanced or not, any order), small integer data, the   *)
(* method and its options.  The actions follow the stages of the code:     *)
(*                                                                         *)
(*   modes single / list / movie  (property C01)                           *)
(*     Average   groups keyed by label, in order of first appearance       *)
(*     Kernel    per method: exact squared Euclidean distance / P,         *)
(*               Mahalanobis quadratic form with an integer precision,     *)
(*               sufficient statistics for 1 - Pearson r, regularised      *)
(*               rates (rationals) for Poisson - the log/sqrt step is left *)
(*               to the trusted kernel in harness/calcrdm.py               *)
(*     Build     one row/column per distinct label, descriptor propagation *)
(*     SortAlpha stable sort of the rows by label, vector permuted alike   *)
(*     Single | ListBranch | Movie     combination of the partial RDMs     *)
(*                                                                         *)
(*   mode cv  (property C02)                                               *)
(*     DefaultFolds | ExplicitFolds, SortByCond, FoldMeans, PairProducts,  *)
(*     AverageFoldPairs (with the ghost bag contrib of the fold pairs that *)
(*     entered the average), BuildCv                                       *)
(*                                                                         *)
(* Every operator takes its sizes from the data it is given (never from    *)
(* the constants), so that Trace_CalcRdm can re-evaluate the same          *)
(* definitions on inputs recorded from the library.                        *)
(*                                                                         *)
(* Spec-level theorems (checked by TLC as invariants / action properties): *)
(* Symmetric, ZeroIffEqualMeans, LabelOrderSorted, OneRowPerLabel,         *)
(* EntryBelongsToLabels, ListAligned, MovieIsStack, PermInvariant;         *)
(* NoSelfPairs, AllFoldsUsed, EqualWeights, PairsSymmetric,                *)
(* CoefWithinFoldZero, CvMatchesLeaveOneOut, CvInvariant.                  *)
(***************************************************************************)
EXTENDS Integers, Sequences, FiniteSets, TLC, SequencesExt, Functions, Json

CONSTANTS
  Mode,        \* "single" | "list" | "movie" | "cv"
  NObs,        \* observations of the (first) dataset
  NObs2,       \* list mode: observations of the second dataset
  NCh,         \* channels
  NLab,        \* label alphabet 1..NLab
  Vals,        \* grid of data values (DataSrc = "grid")
  DataSrc,     \* "grid": any data over Vals ; "cat": data taken from DataCat
  DataCat,     \* catalogue: sequence of matrices (>= NObs rows, >= NCh columns)
  DataIds,     \* indices into DataCat that may be picked
  Methods,     \* subset of {"euclidean","correlation","mahalanobis","poisson"} / {"crossnobis","poisson_cv"}
  RMs,         \* subset of BOOLEAN: remove_mean
  UseDescs,    \* subset of BOOLEAN: a condition descriptor is given / descriptor=None
  PrecCat,     \* catalogue of NCh x NCh integer symmetric positive definite matrices
  PrecIds,     \* subset of 0..Len(PrecCat); 0 = no precision given
  PriorCat,    \* catalogue of <<lambda_num, lambda_den, weight_num, weight_den>>
  PriorIds,
  ExtCat,      \* catalogue of extra observation descriptors (sequences of integers, length >= NObs)
  ExtIds,
  NT,          \* movie: number of time points
  TimeVals,    \* movie: the time descriptor (sequence of distinct integers, length >= NT)
  BinCat,      \* movie: catalogue of binnings, each a sequence of sets of time indices
  BinIds,      \* subset of 0..Len(BinCat); 0 = no binning
  NFold,       \* cv: fold label alphabet 1..NFold
  FoldSrcs,    \* cv: subset of {"explicit","default"}
  FoldPrecCat, \* cv: catalogue of per-fold diagonal precisions: [fold label -> [channel -> positive int]]
  FoldPrecIds, \* subset of 0..Len(FoldPrecCat); 0 = not per fold
  Unbals,      \* subset of BOOLEAN: TRUE = the partial RDMs come from calc_rdm_unbalanced
               \* (calc_rdm_movie(unbalanced=True), calc_rdm_unbalanced(list))
  PermLevel,   \* 0: no permutation actions; 1: trimmed permutations; 2: all permutations
  EmitMod,     \* emit one terminal state in EmitMod (1 = all)
  EmitCoef     \* cv: emit the coefficient matrices implied by contrib

VARIABLES inp,     \* the input chosen by Init (never changed by the pipeline actions)
          stage,   \* name of the stage reached
          means,   \* result of Average / the fold structure and fold means
          kern,    \* result of Kernel / PairProducts
          built,   \* result of Build / AverageFoldPairs
          srt,     \* result of SortAlpha
          out,     \* the final labelled RDMs object (abstract)
          contrib  \* cv: ghost bag (sequence) of the ordered fold pairs <<m, n>> that entered the average
vars == <<inp, stage, means, kern, built, srt, out, contrib>>

\* calc_rdm_unbalanced as defined for property C15 (specs/Unbalanced.tla, not edited): Result(i) fixes for an
\* input record the admissible observation pairs per slot, their factors, weights and statistics and - for the
\* dot / quadratic kernels - the exact rational RDM.  Only its definitions are used (complete data,
\* weighting "number", no pre-existing 'index' descriptor); its enumeration constants get fixed values.
U == INSTANCE Unbalanced WITH pc <- stage, Weightings <- {"number"}, FoldModes <- {"none"}, NanMode <- "none",
                              Design <- "any", NoDescs <- {FALSE}, IdxKinds <- {"none"}, Priors <- {FALSE}
IsCv(m) == m \in {"crossnobis", "poisson_cv"}

(* ======================= arithmetic ===================================== *)
Abs(x) == IF x < 0 THEN -x ELSE x
RECURSIVE GCD(_, _)
GCD(a, b) == IF b = 0 THEN a ELSE GCD(b, a % b)
\* normalised rational, d > 0 ; the sign lives in the numerator
RNorm(n, d) == LET g == GCD(Abs(n), d) IN <<n \div g, d \div g>>
RAdd(p, q) == RNorm(p[1] * q[2] + q[1] * p[2], p[2] * q[2])
\* sums by balanced recursion (depth log n): long sums - 132 fold pairs for 12 folds - must not exhaust
\* the Java stack of TLC's interpreter
RECURSIVE SumRange(_, _, _)
SumRange(f, lo, hi) == IF lo > hi THEN 0
                       ELSE IF lo = hi THEN f[lo]
                       ELSE LET mid == (lo + hi) \div 2 IN SumRange(f, lo, mid) + SumRange(f, mid + 1, hi)
Sum(f) == SumRange(f, 1, Len(f))
RECURSIVE RSumRange(_, _, _)
RSumRange(f, lo, hi) == IF lo > hi THEN <<0, 1>>
                        ELSE IF lo = hi THEN f[lo]
                        ELSE LET mid == (lo + hi) \div 2 IN RAdd(RSumRange(f, lo, mid), RSumRange(f, mid + 1, hi))
RSum(f) == RSumRange(f, 1, Len(f))
Undefined == <<0, 0>>          \* NaN: pair absent from a partial RDM / undefined correlation

Min2(a, b) == IF a < b THEN a ELSE b
Max2(a, b) == IF a < b THEN b ELSE a

(* ======================= condensed index ================================ *)
CLen(n) == (n * (n - 1)) \div 2
Cidx(n, p, q) == (p - 1) * n - ((p - 1) * p) \div 2 + (q - p)       \* 1 <= p < q <= n
\* pair k of the condensed vector; tabulated once (constant-level definitions are cached by TLC)
PairTab == [n \in 1..9 |-> SortSeq(SetToSeq({pq \in (1..n) \X (1..n) : pq[1] < pq[2]}),
                                   LAMBDA a, b : a[1] < b[1] \/ (a[1] = b[1] /\ a[2] < b[2]))]
PairAt(n, k) == PairTab[n][k]
MatAt(v, n, p, q) == v[Cidx(n, Min2(p, q), Max2(p, q))]               \* p # q
\* square form -> fancy index with sel on both axes -> condensed form (RDMs.reorder)
VecFromSel(v, n, sel) ==
  [k \in 1..CLen(Len(sel)) |-> LET pq == PairAt(Len(sel), k) IN MatAt(v, n, sel[pq[1]], sel[pq[2]])]
Pick(s, sel) == [k \in 1..Len(sel) |-> s[sel[k]]]
StableArgsort(col) == SortSeq([k \in 1..Len(col) |-> k],
                              LAMBDA a, b : col[a] < col[b] \/ (col[a] = col[b] /\ a < b))
\* values in order of first appearance (get_unique_inverse)
FirstApp(col) == LET pos == SelectSeq([k \in 1..Len(col) |-> k],
                                      LAMBDA k : \A j \in 1..(k - 1) : col[j] # col[k])
                 IN Pick(col, pos)
SortedSeq(S) == SortSeq(SetToSeq(S), LAMBDA a, b : a < b)
IndexOf(s, v) == CHOOSE j \in 1..Len(s) : s[j] = v
Perms(n) == {p \in [1..n -> 1..n] : Range(p) = 1..n}
TrimPerms(n) == IF PermLevel >= 2 THEN Perms(n) \ {[k \in 1..n |-> k]}
                ELSE IF n < 2 THEN {}
                ELSE {[k \in 1..n |-> IF k = 1 THEN 2 ELSE IF k = 2 THEN 1 ELSE k],   \* swap the first two
                      [k \in 1..n |-> (k % n) + 1],                                  \* rotate
                      [k \in 1..n |-> n + 1 - k]}                                    \* reverse

(* ======================= the descriptor that is a function of the label = *)
Grp(l) == (l + 1) \div 2          \* 'grp': labels 1,2 -> 1 ; 3,4 -> 2 (constant within every group)

(* ======================= plain datasets ================================= *)
\* A plain dataset is [lab, x, dd, ext]: labels, integer data numerators x[o][c], the common
\* denominator dd of the data (1, or the bin size for a time-binned slice), an extra descriptor.
NObsOf(pd) == Len(pd.lab)
NChOf(pd) == Len(pd.x[1])

\* the time(-bin) slices of a movie input: bin b holds the SUM over its time points, dd = bin size
BinsOf(i) == IF i.bins = <<>> THEN [t \in 1..Len(i.x3) |-> {t}] ELSE i.bins
DefaultFoldOf(lab) == [o \in 1..Len(lab) |-> Cardinality({j \in 1..o : lab[j] = lab[o]})]
\* the fold descriptor of a dataset: given, or (balanced estimators) the k-th occurrence of a condition is fold k
FoldsFor(i, lab, given) == IF i.foldsrc = "explicit" THEN given
                           ELSE IF i.foldsrc = "default" THEN DefaultFoldOf(lab) ELSE <<>>
Slice(i, b) ==
  LET S == BinsOf(i)[b]  ts == SortedSeq(S) IN
  [lab |-> i.lab, ext |-> i.ext, dd |-> Cardinality(S), fold |-> FoldsFor(i, i.lab, i.fold),
   x |-> [o \in 1..Len(i.lab) |-> [c \in 1..Len(i.x3[1][1]) |->
            Sum([j \in 1..Len(ts) |-> i.x3[ts[j]][o][c]])]]]
Subs(i) == CASE i.mode = "single" -> << [lab |-> i.lab, x |-> i.x, dd |-> 1, ext |-> i.ext,
                                           fold |-> FoldsFor(i, i.lab, i.fold)] >>
             [] i.mode = "list"   -> << [lab |-> i.lab, x |-> i.x, dd |-> 1, ext |-> i.ext,
                                         fold |-> FoldsFor(i, i.lab, i.fold)],
                                        [lab |-> i.lab2, x |-> i.x2, dd |-> 1, ext |-> i.ext2,
                                         fold |-> FoldsFor(i, i.lab2, i.fold2)] >>
             [] i.mode = "movie"  -> [b \in 1..Len(BinsOf(i)) |-> Slice(i, b)]
\* the precision used for partial RDM r (list input may carry one per dataset)
PrecOf(i, r) == IF i.mode = "list" /\ r = 2 THEN i.prec2 ELSE i.prec

(* ======================= Average ======================================== *)
\* group statistics of the observations carrying `key` (a label, or an observation index when no
\* condition descriptor is given): count, per-channel sum, data denominator
GroupStat(pd, useDesc, key) ==
  LET n == NObsOf(pd)
      member(o) == IF useDesc THEN pd.lab[o] = key ELSE o = key IN
  [key |-> key, dd |-> pd.dd,
   cnt |-> Sum([o \in 1..n |-> IF member(o) THEN 1 ELSE 0]),
   sum |-> [c \in 1..NChOf(pd) |-> Sum([o \in 1..n |-> IF member(o) THEN pd.x[o][c] ELSE 0])]]
GroupKeys(pd, useDesc) == IF useDesc THEN FirstApp(pd.lab) ELSE [o \in 1..NObsOf(pd) |-> o]
AverageOp(pd, useDesc) ==
  LET keys == GroupKeys(pd, useDesc) IN [g \in 1..Len(keys) |-> GroupStat(pd, useDesc, keys[g])]

(* ======================= Kernel ========================================= *)
\* pattern numerators / denominator of a group mean, optionally with the mean over channels removed
Centered(o) == o.method = "correlation" \/ (o.rm /\ o.method \in {"euclidean", "mahalanobis", "crossnobis"})
UNum(g, center) == LET P == Len(g.sum) IN
                   [c \in 1..P |-> IF center THEN P * g.sum[c] - Sum(g.sum) ELSE g.sum[c]]
UDen(g, center) == IF center THEN Len(g.sum) * g.cnt * g.dd ELSE g.cnt * g.dd
\* quadratic / bilinear form d1' N d2 with an integer matrix N (<<>> = identity)
Bilin(d1, N, d2) ==
  IF N = <<>> THEN Sum([c \in 1..Len(d1) |-> d1[c] * d2[c]])
  ELSE Sum([c \in 1..Len(d1) |-> Sum([c2 \in 1..Len(d1) |-> d1[c] * N[c][c2] * d2[c2]])])
\* prior-regularised rates (mean + lambda*w) / (1 + w) as normalised rationals
Rates(g, prior) ==
  LET ln == prior[1]  ld == prior[2]  wn == prior[3]  wd == prior[4]  n == g.cnt * g.dd IN
  [c \in 1..Len(g.sum) |-> RNorm(g.sum[c] * ld * wd + n * ln * wn, n * ld * (wd + wn))]
\* the value of the pair of groups (ga, gb):
\*   euclidean / mahalanobis : exact rational <<num, den>>
\*   correlation             : <<sgn, num, den>> with r = sgn * sqrt(num/den); <<0,0,0>> if undefined
\*   poisson                 : <<>> (the rates travel per row, the log step is done by the trusted kernel)
PairValue(ga, gb, o, N) ==
  LET ctr == Centered(o)
      ua == UNum(ga, ctr)  ub == UNum(gb, ctr)  da == UDen(ga, ctr)  db == UDen(gb, ctr)
      P == Len(ua)
      delta == [c \in 1..P |-> ua[c] * db - ub[c] * da]
  IN CASE o.method = "euclidean" -> RNorm(Bilin(delta, <<>>, delta), da * da * db * db * P)
       [] o.method = "mahalanobis" -> RNorm(Bilin(delta, N, delta), da * da * db * db * P)
       [] o.method = "correlation" ->
            LET sab == Bilin(ua, <<>>, ub)  q == Bilin(ua, <<>>, ua) * Bilin(ub, <<>>, ub) IN
            IF q = 0 THEN <<0, 0, 0>>
            ELSE <<IF sab < 0 THEN -1 ELSE IF sab > 0 THEN 1 ELSE 0>> \o RNorm(sab * sab, q)
       [] o.method = "poisson" -> <<>>
KernelOp(m, o, N) ==
  LET n == Len(m) IN
  [vec |-> [k \in 1..CLen(n) |-> LET pq == PairAt(n, k) IN PairValue(m[pq[1]], m[pq[2]], o, N)],
   rates |-> IF o.method = "poisson" THEN [g \in 1..n |-> Rates(m[g], o.prior)] ELSE <<>>]

(* ======================= Build ========================================== *)
\* _build_rdms: if averaging occurred (fewer groups than observations) an observation descriptor
\* becomes a pattern descriptor iff it is constant within every group; otherwise every observation
\* descriptor is copied as it is (rows = observations in dataset order = order of first appearance)
ConstWithin(pd, col) == \A o1 \in 1..NObsOf(pd) : \A o2 \in 1..NObsOf(pd) :
                           pd.lab[o1] = pd.lab[o2] => col[o1] = col[o2]
BuildOp(pd, useDesc, m, k) ==
  LET n == Len(m)
      averaged == useDesc /\ n # NObsOf(pd)
      first(key) == IF useDesc THEN IndexOf(pd.lab, key) ELSE key
      rowlab == [g \in 1..n |-> pd.lab[first(m[g].key)]]
      prop(col) == IF averaged /\ ~ConstWithin(pd, col) THEN <<>>
                   ELSE [g \in 1..n |-> col[first(m[g].key)]]
  IN [lab |-> rowlab, vec |-> k.vec, rates |-> k.rates, ub |-> <<>>, pairs |-> <<>>,
      grp |-> prop([o \in 1..NObsOf(pd) |-> Grp(pd.lab[o])]),
      ext |-> prop(pd.ext)]

(* ======================= SortAlpha ====================================== *)
PermRows(b, p) ==
  LET n == Len(b.lab) IN
  [lab |-> Pick(b.lab, p), vec |-> VecFromSel(b.vec, n, p), ub |-> b.ub, pairs |-> b.pairs,
   rates |-> IF b.rates = <<>> THEN <<>> ELSE Pick(b.rates, p),
   grp |-> IF b.grp = <<>> THEN <<>> ELSE Pick(b.grp, p),
   ext |-> IF b.ext = <<>> THEN <<>> ELSE Pick(b.ext, p)]
SortOp(b, useDesc) == IF useDesc THEN PermRows(b, StableArgsort(b.lab)) ELSE b

(* ======================= combination ==================================== *)
\* from_partials: union of the labels in order of first appearance over the (sorted) partials,
\* every partial scattered into a NaN matrix over the union; only the aligned descriptor survives
Scatter(s, all) ==
  LET n == Len(all)  inS(l) == l \in Range(s.lab) IN
  IF s.pairs # <<>> /\ s.rates # <<>> THEN <<>> ELSE   \* poisson_cv: the values are formed from the per-fold rates
  [k \in 1..CLen(n) |-> LET pq == PairAt(n, k)  a == all[pq[1]]  b == all[pq[2]] IN
     IF inS(a) /\ inS(b) THEN MatAt(s.vec, Len(s.lab), IndexOf(s.lab, a), IndexOf(s.lab, b))
     ELSE Undefined]
ScatterRows(s, all, col) ==      \* per-row payload (rates) scattered alike, <<>> for absent rows
  [j \in 1..Len(all) |-> IF all[j] \in Range(s.lab) THEN col[IndexOf(s.lab, all[j])] ELSE <<>>]
\* concat: the first RDM's pattern order is authoritative; later RDMs are re-aligned on a descriptor
\* whose values are unique (here: the labels, if they are all distinct), else taken as they are
AlignTo(s, auth) == IF s.lab = auth.lab \/ Cardinality(Range(auth.lab)) # Len(auth.lab) THEN s
                    ELSE PermRows(s, [j \in 1..Len(auth.lab) |-> IndexOf(s.lab, auth.lab[j])])
TimeOf(i, b) == LET ts == SortedSeq(BinsOf(i)[b]) IN RNorm(Sum([j \in 1..Len(ts) |-> i.tv[ts[j]]]), Len(ts))
\* one RDM of the result: condensed vector, per-row rates (poisson) or per-fold rates (poisson_cv), the
\* slot statistics of an unbalanced correlation / poisson RDM, the bag of fold pairs of a cross-validated one
Entry(v, rt, sp) == [vec |-> v, rates |-> rt, ub |-> sp.ub, pairs |-> sp.pairs]
ScatterRates(i, sp, all) ==
  IF sp.rates = <<>> THEN <<>>
  ELSE IF i.method = "poisson_cv" THEN [m \in 1..Len(sp.rates) |-> ScatterRows(sp, all, sp.rates[m])]
  ELSE ScatterRows(sp, all, sp.rates)
\* unbalanced slot statistics refer to rows by position: re-indexed to the union of the labels
ScatterUb(sp, all) ==
  IF sp.ub = <<>> THEN sp ELSE [sp EXCEPT !.ub = [sp.ub EXCEPT !.rows = [j \in 1..Len(sp.lab) |-> IndexOf(all, sp.lab[j])]]]
CombineOp(i, s) ==
  CASE i.mode = "single" ->
         [lab |-> s[1].lab, grp |-> s[1].grp, ext |-> s[1].ext, time |-> <<>>,
          rdms |-> << Entry(s[1].vec, s[1].rates, s[1]) >>]
    [] i.mode = "movie" ->
         [lab |-> s[1].lab, grp |-> s[1].grp, ext |-> s[1].ext,
          time |-> [b \in 1..Len(s) |-> TimeOf(i, b)],
          rdms |-> [b \in 1..Len(s) |-> Entry(s[b].vec, s[b].rates, s[b])]]
    [] i.mode = "list" /\ i.useDesc ->
         LET all == FirstApp(s[1].lab \o s[2].lab) IN
         [lab |-> all, grp |-> <<>>, ext |-> <<>>, time |-> <<>>,
          rdms |-> [r \in 1..2 |-> Entry(Scatter(s[r], all), ScatterRates(i, s[r], all), ScatterUb(s[r], all))]]
    [] i.mode = "list" /\ ~i.useDesc ->
         LET s2 == AlignTo(s[2], s[1]) IN
         [lab |-> s[1].lab, grp |-> s[1].grp, ext |-> s[1].ext, time |-> <<>>,
          rdms |-> << Entry(s[1].vec, s[1].rates, s[1]), Entry(s2.vec, s2.rates, s2) >>]

(* ======================= the whole pipeline as operators ================ *)
Opts(i) == [method |-> i.method, rm |-> i.rm, prior |-> i.prior]
MeansOf(i) == LET S == Subs(i) IN [r \in 1..Len(S) |-> AverageOp(S[r], i.useDesc)]
KernOf(i, m) == [r \in 1..Len(m) |-> KernelOp(m[r], Opts(i), PrecOf(i, r))]
BuiltOf(i, m, k) == LET S == Subs(i) IN [r \in 1..Len(m) |-> BuildOp(S[r], i.useDesc, m[r], k[r])]
SortedOf(i, b) == [r \in 1..Len(b) |-> SortOp(b[r], i.useDesc)]

(* ======================================================================== *)
(*                     cross-validated estimators (C02)                     *)
(* ======================================================================== *)
CountIn(lab, fold, a, m) == Cardinality({o \in 1..Len(lab) : lab[o] = a /\ fold[o] = m})
\* admissible: >= 2 folds, every condition observed equally often (>= 1) in each fold
FoldBalanced(lab, fold) ==
  LET F == Range(fold) IN
  /\ Cardinality(F) >= 2
  /\ \A a \in Range(lab) : \A m \in F : \A m2 \in F :
        CountIn(lab, fold, a, m) >= 1 /\ CountIn(lab, fold, a, m) = CountIn(lab, fold, a, m2)
\* default folds are only defined when all conditions have the same number of observations
DefaultAdmissible(lab) ==
  /\ \A a \in Range(lab) : \A b \in Range(lab) :
        Cardinality({o \in 1..Len(lab) : lab[o] = a}) = Cardinality({o \in 1..Len(lab) : lab[o] = b})
  /\ Cardinality({o \in 1..Len(lab) : lab[o] = lab[1]}) >= 2

\* the working dataset after the fold descriptor is fixed
CvData(i, fold) == [lab |-> i.lab, fold |-> fold, x |-> i.x, dd |-> 1]
CvSort(d) == LET p == StableArgsort(d.lab) IN
             [lab |-> Pick(d.lab, p), fold |-> Pick(d.fold, p), x |-> Pick(d.x, p), dd |-> d.dd]
\* statistics of condition a within fold m
FoldStat(d, a, m) ==
  LET n == Len(d.lab)  member(o) == d.lab[o] = a /\ d.fold[o] = m IN
  [key |-> a, dd |-> d.dd,
   cnt |-> Sum([o \in 1..n |-> IF member(o) THEN 1 ELSE 0]),
   sum |-> [c \in 1..Len(d.x[1]) |-> Sum([o \in 1..n |-> IF member(o) THEN d.x[o][c] ELSE 0])]]
FoldMeansOp(d) ==
  LET conds == SortedSeq(Range(d.lab))  folds == SortedSeq(Range(d.fold)) IN
  [conds |-> conds, folds |-> folds,
   st |-> [fm \in 1..Len(folds) |-> [g \in 1..Len(conds) |-> FoldStat(d, conds[g], folds[fm])]]]
\* all ordered pairs of distinct folds (positions in the sorted fold list)
FoldPairs(nf) == SortSeq(SetToSeq({mn \in (1..nf) \X (1..nf) : mn[1] # mn[2]}),
                         LAMBDA a, b : a[1] < b[1] \/ (a[1] = b[1] /\ a[2] < b[2]))
\* (x_am - x_bm) W (x_an - x_bn)' / P for one ordered fold pair; W = identity, an integer matrix, or
\* - with one diagonal precision per fold - the precision of the two folds' averaged covariance
\*   inv((inv N_m + inv N_n)/2) = diag(2 p_m p_n / (p_m + p_n))
PairProd(fmn, i, N, m, n, a, b) ==
  LET ctr == Centered(Opts(i))
      gam == fmn.st[m][a]  gbm == fmn.st[m][b]  gan == fmn.st[n][a]  gbn == fmn.st[n][b]
      da == UDen(gam, ctr)  db == UDen(gbm, ctr)
      P == Len(gam.sum)
      dm == [c \in 1..P |-> UNum(gam, ctr)[c] * db - UNum(gbm, ctr)[c] * da]
      dn == [c \in 1..P |-> UNum(gan, ctr)[c] * db - UNum(gbn, ctr)[c] * da]
      den == da * da * db * db * P
  IN IF i.fprec = <<>> THEN RNorm(Bilin(dm, N, dn), den)
     ELSE LET pm == i.fprec[fmn.folds[m]]  pn == i.fprec[fmn.folds[n]] IN
          RSum([c \in 1..P |-> RNorm(dm[c] * dn[c] * 2 * pm[c] * pn[c], (pm[c] + pn[c]) * den)])
PairProductsOp(fmn, i, N) ==
  LET nc == Len(fmn.conds)  pairs == FoldPairs(Len(fmn.folds)) IN
  [pairs |-> pairs,
   prod |-> IF i.method = "crossnobis"
            THEN [j \in 1..Len(pairs) |-> [k \in 1..CLen(nc) |->
                     LET pq == PairAt(nc, k) IN PairProd(fmn, i, N, pairs[j][1], pairs[j][2], pq[1], pq[2])]]
            ELSE <<>>,
   \* poisson_cv: regularised rates of the fold means, rates[fold][condition][channel]
   rates |-> IF i.method = "poisson_cv"
             THEN [m \in 1..Len(fmn.folds) |-> [g \in 1..nc |-> Rates(fmn.st[m][g], i.prior)]]
             ELSE <<>>]
RDivInt(r, n) == RNorm(r[1], r[2] * n)
AverageOp2(fmn, pp) ==
  LET nc == Len(fmn.conds)  np == Len(pp.pairs) IN
  [lab |-> fmn.conds,
   vec |-> IF pp.prod = <<>> THEN <<>>
           ELSE [k \in 1..CLen(nc) |-> RDivInt(RSum([j \in 1..np |-> pp.prod[j][k]]), np)],
   rates |-> pp.rates]
\* the cross-validated RDM of one plain dataset pd (labels, folds, data numerators, denominator dd)
CvPartial(i, pd, N) ==
  LET d == CvSort([lab |-> pd.lab, fold |-> pd.fold, x |-> pd.x, dd |-> pd.dd])
      fmn == FoldMeansOp(d)  pp == PairProductsOp(fmn, i, N)  av == AverageOp2(fmn, pp) IN
  [lab |-> av.lab, vec |-> av.vec, rates |-> av.rates, ub |-> <<>>, pairs |-> pp.pairs, folds |-> fmn.folds,
   grp |-> [g \in 1..Len(av.lab) |-> Grp(av.lab[g])],
   \* _build_rdms on the (sorted) dataset: an extra descriptor survives iff constant within every condition
   ext |-> IF "ext" \notin DOMAIN pd THEN <<>>
           ELSE IF Len(av.lab) # Len(pd.lab) /\ ~ConstWithin(pd, pd.ext) THEN <<>>
           ELSE [g \in 1..Len(av.lab) |-> pd.ext[IndexOf(pd.lab, av.lab[g])]]]
CvOutOf(i, fold) ==
  LET sp == CvPartial(i, [lab |-> i.lab, fold |-> fold, x |-> i.x, dd |-> 1], i.prec) IN
  [lab |-> sp.lab, grp |-> sp.grp, ext |-> <<>>, time |-> <<>>,
   folds |-> sp.folds, pairs |-> sp.pairs,
   rdms |-> << Entry(sp.vec, sp.rates, sp) >>]
FoldOf(i) == IF i.foldsrc = "default" THEN DefaultFoldOf(i.lab) ELSE i.fold

(* ======================= unbalanced partial RDMs (calc_rdm_unbalanced) ==== *)
\* the input record of Unbalanced!Result for one plain dataset; without a fold descriptor a cross-validated
\* method treats every observation as its own fold (documented fallback of calc_rdm_unbalanced)
UnbInput(i, pd, N) ==
  LET n == NObsOf(pd) IN
  [dlab |-> pd.lab, nodesc |-> ~i.useDesc, idx |-> "none", ival |-> <<>>, prior |-> FALSE,
   lab |-> IF i.useDesc THEN pd.lab ELSE [o \in 1..n |-> o],
   fold |-> IF i.foldsrc = "explicit" THEN pd.fold ELSE <<>>, usefold |-> (i.foldsrc = "explicit"),
   x |-> pd.x, valid |-> [o \in 1..n |-> 1..NChOf(pd)], m |-> i.method, w |-> "number", prec |-> N]
\* exact kernels: the data are x / dd, the dot and quadratic kernels scale with 1 / dd^2
ScaleDD(v, dd) == IF v = Undefined THEN v ELSE RNorm(v[1], v[2] * dd * dd)
UnbPartial(i, pd, N) ==
  LET res == U!Result(UnbInput(i, pd, N))
      nc == Len(res.conds)
      exact == res.kind \in {"dot", "quad"}
      first(key) == IF i.useDesc THEN IndexOf(pd.lab, key) ELSE key
      averaged == i.useDesc /\ nc # NObsOf(pd)
      prop(col) == IF averaged /\ ~ConstWithin(pd, col) THEN <<>> ELSE [g \in 1..nc |-> col[first(res.conds[g])]]
  IN [lab |-> [g \in 1..nc |-> pd.lab[first(res.conds[g])]],           \* rows in order of first appearance, not sorted
      vec |-> IF exact THEN [k \in 1..CLen(nc) |-> ScaleDD(res.rdm[k], pd.dd)]
              ELSE [k \in 1..CLen(nc) |-> <<>>],
      rates |-> <<>>, pairs |-> <<>>,
      \* correlation / poisson: the pairs, factors, weights and statistics of every slot (sqrt / log: trusted kernel)
      ub |-> IF exact THEN <<>>
             ELSE [kind |-> res.kind, dd |-> pd.dd, rows |-> [g \in 1..nc |-> g], self |-> res.self, cross |-> res.cross],
      grp |-> prop([o \in 1..NObsOf(pd) |-> Grp(pd.lab[o])]), ext |-> prop(pd.ext)]

(* ======================= the whole pipeline as one operator ============== *)
PartialsOf(i) ==
  LET S == Subs(i) IN
  IF i.unbal THEN [r \in 1..Len(S) |-> UnbPartial(i, S[r], PrecOf(i, r))]
  ELSE IF IsCv(i.method) THEN [r \in 1..Len(S) |-> CvPartial(i, S[r], PrecOf(i, r))]
  ELSE LET m == MeansOf(i)  k == KernOf(i, m)  b == BuiltOf(i, m, k) IN SortedOf(i, b)
OutOf(i) == CombineOp(i, PartialsOf(i))

\* coefficient of the product x_o * x_o2 in the crossnobis value of the condition pair (a, b), one
\* channel, identity precision: what the bag `pairs` implies (positions in folds) -  num / den
CoefOf(lab, fold, folds, pairs, a, b, o, o2) ==
  LET s(q) == IF lab[q] = a THEN 1 ELSE IF lab[q] = b THEN -1 ELSE 0
      r(q) == CountIn(lab, fold, lab[q], fold[q])
      hits == Sum([j \in 1..Len(pairs) |->
                     IF folds[pairs[j][1]] = fold[o] /\ folds[pairs[j][2]] = fold[o2] THEN 1 ELSE 0])
  IN RNorm(hits * s(o) * s(o2), Len(pairs) * r(o) * r(o2))
CoefMatrices(i, fold, o) ==
  LET n == Len(i.lab)  nc == Len(o.lab) IN
  [k \in 1..CLen(nc) |-> LET pq == PairAt(nc, k) IN
     [q1 \in 1..n |-> [q2 \in 1..n |->
        CoefOf(i.lab, fold, o.folds, o.pairs, o.lab[pq[1]], o.lab[pq[2]], q1, q2)]]]

(* ======================================================================== *)
(*                               Init / Next                                *)
(* ======================================================================== *)
Lab == 1..NLab
MatSet(no) == IF DataSrc = "grid" THEN [1..no -> [1..NCh -> Vals]]
              ELSE {[o \in 1..no |-> [c \in 1..NCh |-> DataCat[d][o][c]]] : d \in DataIds}
ExtSet(no) == {[o \in 1..no |-> ExtCat[e][o]] : e \in ExtIds}
PrecSet == {IF p = 0 THEN <<>> ELSE PrecCat[p] : p \in PrecIds}
PriorSet == {PriorCat[p] : p \in PriorIds}
BinSet == {IF b = 0 THEN <<>> ELSE BinCat[b] : b \in BinIds}
FPrecSet == {IF p = 0 THEN <<>> ELSE [m \in 1..NFold |-> [c \in 1..NCh |-> FoldPrecCat[p][m][c]]] : p \in FoldPrecIds}

FirstPrior == PriorCat[CHOOSE p \in PriorIds : \A q \in PriorIds : p <= q]
\* option combinations that mean something for the method (others would only duplicate vectors)
OptOk(method, rm, prec, prior) ==
  /\ (method \in {"correlation", "poisson", "poisson_cv"} => rm = FALSE)
  /\ (method \in {"mahalanobis", "crossnobis"} \/ prec = <<>>)
  /\ (method \in {"poisson", "poisson_cv"} \/ prior = FirstPrior)

\* without a condition descriptor two datasets of a list can only be aligned on unique labels
ListNoDescOk(lab, lab2) ==
  \/ lab2 = lab
  \/ /\ Cardinality(Range(lab)) = Len(lab) /\ Len(lab2) = Len(lab) /\ Range(lab2) = Range(lab)

\* the admissible designs (labels, folds); constant-level definitions, so TLC computes them once
DesignsExplicit == {d \in [1..NObs -> Lab] \X [1..NObs -> 1..NFold] : FoldBalanced(d[1], d[2])}
DesignsDefault == {<<lab, DefaultFoldOf(lab)>> :
                     lab \in {l \in [1..NObs -> Lab] : DefaultAdmissible(l) /\ Range(DefaultFoldOf(l)) \subseteq 1..NFold}}
DesignsExplicit2 == {d \in [1..NObs2 -> Lab] \X [1..NObs2 -> 1..NFold] : FoldBalanced(d[1], d[2])}
DesignsDefault2 == {<<lab, DefaultFoldOf(lab)>> :
                     lab \in {l \in [1..NObs2 -> Lab] : DefaultAdmissible(l) /\ Range(DefaultFoldOf(l)) \subseteq 1..NFold}}
AnyLab == {<<lab, <<>>>> : lab \in [1..NObs -> Lab]}
AnyLab2 == {<<lab, <<>>>> : lab \in [1..NObs2 -> Lab]}
\* the fold descriptor is only given (or defaulted) for the cross-validated methods
FoldSrcSet(method) == IF IsCv(method) THEN FoldSrcs ELSE {"none"}
\* <<labels, fold descriptor>> of the first / second dataset.  Balanced estimators: fold-balanced designs (explicit)
\* or equal counts (default, the descriptor itself is derived).  Unbalanced estimator without fold descriptor:
\* any labelling, every observation is its own fold.
LabFolds(foldsrc, unbal) ==
  CASE foldsrc = "none" -> AnyLab
    [] foldsrc = "explicit" -> DesignsExplicit
    [] foldsrc = "default" -> IF unbal /\ Mode # "list" THEN AnyLab ELSE {<<d[1], <<>>>> : d \in DesignsDefault}
LabFolds2(foldsrc, unbal) ==
  CASE foldsrc = "none" -> AnyLab2
    [] foldsrc = "explicit" -> DesignsExplicit2
    [] foldsrc = "default" -> {<<d[1], <<>>>> : d \in DesignsDefault2}    \* (lists: equal counts also for the unbalanced estimator, to keep the product of two designs small)
\* option combinations of the new dimensions that exist in the API
NewOk(method, useDesc, unbal, fprec, prec) ==
  /\ (IsCv(method) /\ ~unbal) => useDesc               \* the balanced cv estimators require a descriptor
  /\ fprec # <<>> => (method = "crossnobis" /\ prec = <<>> /\ ~unbal)

InitSingle ==
  \E method \in Methods, rm \in RMs, prec \in PrecSet, prior \in PriorSet, useDesc \in UseDescs, unbal \in Unbals :
   \E foldsrc \in FoldSrcSet(method) :
    /\ OptOk(method, rm, prec, prior) /\ NewOk(method, useDesc, unbal, <<>>, prec) /\ (unbal => ~rm)
    /\ \E d \in LabFolds(foldsrc, unbal), x \in MatSet(NObs), ext \in ExtSet(NObs) :
         inp = [mode |-> Mode, method |-> method, rm |-> rm, prec |-> prec, prior |-> prior,
                useDesc |-> useDesc, unbal |-> unbal, foldsrc |-> foldsrc, fold |-> d[2], fprec |-> <<>>,
                lab |-> d[1], x |-> x, ext |-> ext]
InitList ==
  \E method \in Methods, rm \in RMs, prec \in PrecSet, prec2 \in PrecSet, prior \in PriorSet,
     useDesc \in UseDescs, unbal \in Unbals :
   \E foldsrc \in FoldSrcSet(method) :
    /\ OptOk(method, rm, prec, prior) /\ OptOk(method, rm, prec2, prior)
    /\ NewOk(method, useDesc, unbal, <<>>, prec) /\ (unbal => (~rm /\ useDesc))
    /\ (prec = <<>>) <=> (prec2 = <<>>)     \* "a given precision": given for both datasets or for neither
    /\ \E d \in LabFolds(foldsrc, unbal), d2 \in LabFolds2(foldsrc, unbal) :
         /\ (useDesc \/ ListNoDescOk(d[1], d2[1]))
         \* calc_rdm_unbalanced stacks a list with concat ("requires that the rdms have the same shape"): only
         \* equal condition sets are inside its contract; calc_rdm (from_partials) takes any two sets
         /\ (unbal => Range(d[1]) = Range(d2[1]))
         /\ \E x \in MatSet(NObs), x2 \in MatSet(NObs2) :
              inp = [mode |-> Mode, method |-> method, rm |-> rm, prec |-> prec, prior |-> prior,
                     useDesc |-> useDesc, unbal |-> unbal, foldsrc |-> foldsrc, fold |-> d[2], fprec |-> <<>>,
                     lab |-> d[1], x |-> x, ext |-> [o \in 1..NObs |-> Grp(d[1][o])],
                     lab2 |-> d2[1], x2 |-> x2, ext2 |-> [o \in 1..NObs2 |-> Grp(d2[1][o])],
                     fold2 |-> d2[2], prec2 |-> prec2]
InitMovie ==
  \E method \in Methods, prec \in PrecSet, fprec \in FPrecSet, prior \in PriorSet, useDesc \in UseDescs,
     bins \in BinSet, unbal \in Unbals :
   \E foldsrc \in FoldSrcSet(method) :
    /\ OptOk(method, FALSE, prec, prior) /\ NewOk(method, useDesc, unbal, fprec, prec)
    /\ \E d \in LabFolds(foldsrc, unbal), x3 \in [1..NT -> MatSet(NObs)], ext \in ExtSet(NObs) :
         inp = [mode |-> Mode, method |-> method, rm |-> FALSE, prec |-> prec, prior |-> prior,
                useDesc |-> useDesc, unbal |-> unbal, foldsrc |-> foldsrc, fold |-> d[2], fprec |-> fprec,
                lab |-> d[1], x3 |-> x3, ext |-> ext, bins |-> bins,
                tv |-> [t \in 1..NT |-> TimeVals[t]]]
InitCv ==
  \E method \in Methods, rm \in RMs, prec \in PrecSet, fprec \in FPrecSet, prior \in PriorSet,
     foldsrc \in FoldSrcs :
    /\ OptOk(method, rm, prec, prior)
    /\ (fprec # <<>> => method = "crossnobis" /\ prec = <<>>)
    /\ \E d \in (IF foldsrc = "default" THEN DesignsDefault ELSE DesignsExplicit), x \in MatSet(NObs) :
         inp = [mode |-> Mode, method |-> method, rm |-> rm, prec |-> prec, prior |-> prior,
                useDesc |-> TRUE, unbal |-> FALSE, lab |-> d[1], x |-> x, fold |-> d[2], foldsrc |-> foldsrc,
                fprec |-> fprec]

Init == /\ CASE Mode = "single" -> InitSingle
             [] Mode = "list" -> InitList
             [] Mode = "movie" -> InitMovie
             [] Mode = "cv" -> InitCv
        /\ stage = "init" /\ means = <<>> /\ kern = <<>> /\ built = <<>> /\ srt = <<>> /\ out = <<>>
        /\ contrib = <<>>

(* ----------------------- C01 stages ------------------------------------- *)
Average == /\ stage = "init" /\ inp.mode # "cv" /\ ~inp.unbal /\ ~IsCv(inp.method)
           /\ means' = MeansOf(inp) /\ stage' = "averaged"
           /\ UNCHANGED <<inp, kern, built, srt, out, contrib>>
Kernel(method) == /\ stage = "averaged" /\ inp.method = method
                  /\ kern' = KernOf(inp, means) /\ stage' = "kernel"
                  /\ UNCHANGED <<inp, means, built, srt, out, contrib>>
Build == /\ stage = "kernel"
         /\ built' = BuiltOf(inp, means, kern) /\ stage' = "built"
         /\ UNCHANGED <<inp, means, kern, srt, out, contrib>>
SortAlpha == /\ stage = "built"
             /\ srt' = SortedOf(inp, built) /\ stage' = "sorted"
             /\ UNCHANGED <<inp, means, kern, built, out, contrib>>
\* partial RDMs that do not go through Average .. SortAlpha: the cross-validated estimators per dataset / time
\* bin (calc_rdm sorts the dataset by condition itself) and calc_rdm_unbalanced (no alphabetical re-sort)
PartialCv == /\ stage = "init" /\ inp.mode # "cv" /\ IsCv(inp.method) /\ ~inp.unbal
             /\ srt' = PartialsOf(inp) /\ stage' = "sorted"
             /\ UNCHANGED <<inp, means, kern, built, out, contrib>>
PartialUnbalanced == /\ stage = "init" /\ inp.mode # "cv" /\ inp.unbal
                     /\ srt' = PartialsOf(inp) /\ stage' = "sorted"
                     /\ UNCHANGED <<inp, means, kern, built, out, contrib>>
\* the three ways the (sorted) partial RDMs are combined; written out so that TLC's coverage names them
Single == /\ stage = "sorted" /\ inp.mode = "single"
          /\ out' = CombineOp(inp, srt) /\ stage' = "done"
          /\ UNCHANGED <<inp, means, kern, built, srt, contrib>>
ListBranch == /\ stage = "sorted" /\ inp.mode = "list"
              /\ out' = CombineOp(inp, srt) /\ stage' = "done"
              /\ UNCHANGED <<inp, means, kern, built, srt, contrib>>
Movie == /\ stage = "sorted" /\ inp.mode = "movie"
         /\ out' = CombineOp(inp, srt) /\ stage' = "done"
         /\ UNCHANGED <<inp, means, kern, built, srt, contrib>>

(* ----------------------- C02 stages ------------------------------------- *)
\* means = [d: working dataset, fm: fold means]; kern = pair products; built = averaged result
DefaultFolds == /\ stage = "init" /\ inp.mode = "cv" /\ inp.foldsrc = "default"
                /\ means' = [d |-> CvData(inp, DefaultFoldOf(inp.lab)), fm |-> <<>>] /\ stage' = "folds"
                /\ UNCHANGED <<inp, kern, built, srt, out, contrib>>
ExplicitFolds == /\ stage = "init" /\ inp.mode = "cv" /\ inp.foldsrc = "explicit"
                 /\ means' = [d |-> CvData(inp, inp.fold), fm |-> <<>>] /\ stage' = "folds"
                 /\ UNCHANGED <<inp, kern, built, srt, out, contrib>>
SortByCond == /\ stage = "folds"
              /\ means' = [means EXCEPT !.d = CvSort(means.d)] /\ stage' = "cvsorted"
              /\ UNCHANGED <<inp, kern, built, srt, out, contrib>>
FoldMeans == /\ stage = "cvsorted"
             /\ means' = [means EXCEPT !.fm = FoldMeansOp(means.d)] /\ stage' = "foldmeans"
             /\ UNCHANGED <<inp, kern, built, srt, out, contrib>>
PairProducts == /\ stage = "foldmeans"
                /\ kern' = PairProductsOp(means.fm, inp, inp.prec) /\ stage' = "products"
                /\ UNCHANGED <<inp, means, built, srt, out, contrib>>
AverageFoldPairs == /\ stage = "products"
                    /\ built' = AverageOp2(means.fm, kern)
                    /\ contrib' = kern.pairs              \* ghost: the fold pairs that entered
                    /\ stage' = "averagedcv"
                    /\ UNCHANGED <<inp, means, kern, srt, out>>
BuildCv == /\ stage = "averagedcv"
           /\ out' = [lab |-> built.lab, grp |-> [g \in 1..Len(built.lab) |-> Grp(built.lab[g])],
                      ext |-> <<>>, time |-> <<>>, folds |-> means.fm.folds, pairs |-> contrib,
                      rdms |-> << Entry(built.vec, built.rates, [ub |-> <<>>, pairs |-> contrib]) >>]
           /\ stage' = "done"
           /\ UNCHANGED <<inp, means, kern, built, srt, contrib>>

(* ----------------------- transformations of a finished input ------------ *)
\* They recompute the whole pipeline for the transformed input; the action properties below say
\* that the label-keyed result does not move.
Recompute(i) ==
  IF i.mode = "cv"
  THEN LET d0 == CvData(i, FoldOf(i))  d == CvSort(d0)  fm == FoldMeansOp(d)
           pp == PairProductsOp(fm, i, i.prec)  av == AverageOp2(fm, pp) IN
       /\ means' = [d |-> d, fm |-> fm] /\ kern' = pp /\ built' = av /\ srt' = <<>>
       /\ contrib' = pp.pairs /\ out' = CvOutOf(i, FoldOf(i))
  ELSE IF i.unbal \/ IsCv(i.method)
  THEN LET s == PartialsOf(i) IN
       /\ means' = <<>> /\ kern' = <<>> /\ built' = <<>> /\ srt' = s /\ contrib' = <<>>
       /\ out' = CombineOp(i, s)
  ELSE LET m == MeansOf(i)  k == KernOf(i, m)  b == BuiltOf(i, m, k)  s == SortedOf(i, b) IN
       /\ means' = m /\ kern' = k /\ built' = b /\ srt' = s /\ contrib' = <<>>
       /\ out' = CombineOp(i, s)
\* the fold labels travel with the rows: defaulted folds of a balanced estimator become explicit (the unbalanced
\* estimator's fallback - every observation its own fold - does not depend on the order)
FixFolds(i) == i.foldsrc = "default" /\ ~i.unbal
NewFold(i, lab, given, p) == IF i.foldsrc = "explicit" THEN Pick(given, p)
                            ELSE IF FixFolds(i) THEN Pick(DefaultFoldOf(lab), p) ELSE given
NewSrc(i) == IF FixFolds(i) THEN "explicit" ELSE i.foldsrc
PermRowsInp(i, p) ==
  CASE i.mode = "single" ->
         [i EXCEPT !.lab = Pick(i.lab, p), !.x = Pick(i.x, p), !.ext = Pick(i.ext, p),
                   !.fold = NewFold(i, i.lab, i.fold, p), !.foldsrc = NewSrc(i)]
    [] i.mode = "list" ->
         [i EXCEPT !.lab = Pick(i.lab, p), !.x = Pick(i.x, p), !.ext = Pick(i.ext, p),
                   !.fold = NewFold(i, i.lab, i.fold, p), !.foldsrc = NewSrc(i),
                   !.fold2 = IF FixFolds(i) THEN DefaultFoldOf(i.lab2) ELSE i.fold2]
    [] i.mode = "movie" ->
         [i EXCEPT !.lab = Pick(i.lab, p), !.ext = Pick(i.ext, p),
                   !.x3 = [t \in 1..Len(i.x3) |-> Pick(i.x3[t], p)],
                   !.fold = NewFold(i, i.lab, i.fold, p), !.foldsrc = NewSrc(i)]
    [] i.mode = "cv" ->   \* the fold labels travel with the rows: afterwards the folds are explicit
         [i EXCEPT !.lab = Pick(i.lab, p), !.x = Pick(i.x, p), !.fold = Pick(FoldOf(i), p),
                   !.foldsrc = "explicit"]
PermuteRows == /\ stage = "done" /\ PermLevel >= 1
               /\ (inp.mode = "list" => inp.useDesc)
               /\ \E p \in TrimPerms(Len(inp.lab)) :
                    /\ inp' = PermRowsInp(inp, p) /\ Recompute(inp')
               /\ stage' = "done"
RelabelFolds == /\ stage = "done" /\ PermLevel >= 1 /\ inp.mode = "cv" /\ inp.foldsrc = "explicit"
                /\ \E pi \in TrimPerms(NFold) :
                     /\ inp' = [inp EXCEPT !.fold = [o \in 1..Len(inp.fold) |-> pi[inp.fold[o]]],
                                           !.fprec = IF inp.fprec = <<>> THEN <<>>
                                                     ELSE [m \in 1..NFold |-> inp.fprec[IndexOf(pi, m)]]]
                     /\ Recompute(inp')
                /\ stage' = "done"
PermCh(row, s) == [c \in 1..Len(row) |-> row[s[c]]]
PermuteChannels == /\ stage = "done" /\ PermLevel >= 1 /\ inp.mode \in {"single", "cv"} /\ NCh >= 2
                   /\ \E s \in TrimPerms(NCh) :
                        /\ inp' = IF inp.mode = "cv"
                                  THEN [inp EXCEPT
                                     !.x = [o \in 1..Len(inp.x) |-> PermCh(inp.x[o], s)],
                                     !.prec = IF inp.prec = <<>> THEN <<>>
                                              ELSE [c \in 1..NCh |-> [c2 \in 1..NCh |-> inp.prec[s[c]][s[c2]]]],
                                     !.fprec = IF inp.fprec = <<>> THEN <<>>
                                               ELSE [m \in 1..NFold |-> PermCh(inp.fprec[m], s)]]
                                  ELSE [inp EXCEPT
                                     !.x = [o \in 1..Len(inp.x) |-> PermCh(inp.x[o], s)],
                                     !.prec = IF inp.prec = <<>> THEN <<>>
                                              ELSE [c \in 1..NCh |-> [c2 \in 1..NCh |-> inp.prec[s[c]][s[c2]]]]]
                        /\ Recompute(inp')
                   /\ stage' = "done"

Next == \/ Average
        \/ \E m \in {"euclidean", "correlation", "mahalanobis", "poisson"} : Kernel(m)
        \/ Build \/ SortAlpha \/ PartialCv \/ PartialUnbalanced \/ Single \/ ListBranch \/ Movie
        \/ DefaultFolds \/ ExplicitFolds \/ SortByCond \/ FoldMeans \/ PairProducts
        \/ AverageFoldPairs \/ BuildCv
        \/ PermuteRows \/ RelabelFolds \/ PermuteChannels
Spec == Init /\ [][Next]_vars

(* ======================================================================== *)
(*                 theorems of the definition, checked by TLC               *)
(* ======================================================================== *)
Done == stage = "done"
\* the value does not depend on the order of the two groups, and the kernel stage agrees with it
Symmetric ==
  stage = "kernel" =>
    \A r \in 1..Len(means) : LET m == means[r]  n == Len(m) IN
      \A p \in 1..n : \A q \in 1..n : p < q =>
         /\ PairValue(m[p], m[q], Opts(inp), PrecOf(inp, r)) = PairValue(m[q], m[p], Opts(inp), PrecOf(inp, r))
         /\ kern[r].vec[Cidx(n, p, q)] = PairValue(m[p], m[q], Opts(inp), PrecOf(inp, r))
\* squared Euclidean distance: non-negative, zero exactly for equal mean patterns
ZeroIffEqualMeans ==
  (stage = "kernel" /\ inp.method = "euclidean" /\ ~inp.rm) =>
    \A r \in 1..Len(means) : LET m == means[r]  n == Len(m) IN
      \A p \in 1..n : \A q \in 1..n : p < q =>
         LET v == kern[r].vec[Cidx(n, p, q)] IN
         /\ v[1] >= 0 /\ v[2] > 0
         /\ (v[1] = 0) <=> (\A c \in 1..Len(m[p].sum) : m[p].sum[c] * m[q].cnt = m[q].sum[c] * m[p].cnt)
\* after the library's ordering the labels are strictly increasing: one row per distinct label
LabelOrderSorted ==
  (Done /\ inp.useDesc /\ inp.mode \in {"single", "movie", "cv"} /\ ~inp.unbal) =>
     \A p \in 1..(Len(out.lab) - 1) : out.lab[p] < out.lab[p + 1]
OneRowPerLabel ==
  (Done /\ inp.useDesc) =>
     /\ Cardinality(Range(out.lab)) = Len(out.lab)
     /\ Range(out.lab) = Range(inp.lab) \cup (IF inp.mode = "list" THEN Range(inp.lab2) ELSE {})
     /\ \A r \in 1..Len(out.rdms) : Len(out.rdms[r].vec) = CLen(Len(out.lab)) \/ out.rdms[r].vec = <<>>
\* entry k of the condensed vector is the value of the two labels of pair k, computed directly from
\* the definition keyed by label (independent of first-appearance order, sorting and scattering)
DirectValue(i, r, a, b) ==
  LET pd == Subs(i)[r] IN
  PairValue(GroupStat(pd, TRUE, a), GroupStat(pd, TRUE, b), Opts(i), PrecOf(i, r))
EntryBelongsToLabels ==
  (Done /\ inp.useDesc /\ inp.mode # "cv" /\ ~inp.unbal /\ ~IsCv(inp.method)) =>
    LET n == Len(out.lab) IN
    \A r \in 1..Len(out.rdms) : \A p \in 1..n : \A q \in 1..n : p < q =>
       LET a == out.lab[p]  b == out.lab[q]  L == Range(Subs(inp)[r].lab) IN
       /\ out.rdms[r].vec[Cidx(n, p, q)] =
             IF a \in L /\ b \in L THEN DirectValue(inp, r, a, b) ELSE Undefined
       /\ (inp.method = "poisson" =>
             /\ out.rdms[r].rates[p] = IF a \in L THEN Rates(GroupStat(Subs(inp)[r], TRUE, a), inp.prior) ELSE <<>>
             /\ out.rdms[r].rates[q] = IF b \in L THEN Rates(GroupStat(Subs(inp)[r], TRUE, b), inp.prior) ELSE <<>>)
\* without a condition descriptor: rows are the observations of the first dataset, in its order
RowsAreObservations ==
  (Done /\ ~inp.useDesc) =>
    /\ out.lab = inp.lab
    /\ inp.unbal \/ \A p \in 1..Len(inp.lab) : \A q \in 1..Len(inp.lab) : p < q =>
         out.rdms[1].vec[Cidx(Len(inp.lab), p, q)] =
            PairValue(GroupStat(Subs(inp)[1], FALSE, p), GroupStat(Subs(inp)[1], FALSE, q), Opts(inp), inp.prec)
\* a list of datasets: RDM r is the RDM of dataset r, scattered; absent labels give NaN rows
\* (holds for the cross-validated methods and for calc_rdm_unbalanced partials alike)
SingleOfList(i, r) ==
  LET pd == Subs(i)[r] IN
  [mode |-> "single", method |-> i.method, rm |-> i.rm, prior |-> i.prior, useDesc |-> TRUE, prec |-> PrecOf(i, r),
   unbal |-> i.unbal, foldsrc |-> i.foldsrc, fold |-> IF r = 1 THEN i.fold ELSE i.fold2, fprec |-> <<>>,
   lab |-> pd.lab, x |-> pd.x, ext |-> pd.ext]
ListAligned ==
  (Done /\ inp.mode = "list" /\ inp.useDesc) =>
    \A r \in 1..2 :
      LET o1 == OutOf(SingleOfList(inp, r))  n1 == Len(o1.lab) IN
      /\ Range(o1.lab) = Range(Subs(inp)[r].lab)
      /\ out.rdms[r].pairs = o1.rdms[1].pairs
      /\ (inp.method = "poisson_cv" /\ ~inp.unbal) => out.rdms[r].vec = <<>>
      /\ ~(inp.method = "poisson_cv" /\ ~inp.unbal) =>
          /\ \A p \in 1..n1 : \A q \in 1..n1 : p < q =>
                o1.rdms[1].vec[Cidx(n1, p, q)] =
                   MatAt(out.rdms[r].vec, Len(out.lab), IndexOf(out.lab, o1.lab[p]), IndexOf(out.lab, o1.lab[q]))
          \* a pair with a label the dataset does not have is NaN
          /\ \A p \in 1..Len(out.lab) : \A q \in 1..Len(out.lab) :
                (p < q /\ ~({out.lab[p], out.lab[q]} \subseteq Range(o1.lab))) =>
                   out.rdms[r].vec[Cidx(Len(out.lab), p, q)] = Undefined
\* a movie is the stack of the RDMs computed separately at each (binned) time point - by the balanced
\* estimators, the cross-validated ones, or calc_rdm_unbalanced
SingleOfSlice(i, b) ==
  LET sl == Slice(i, b) IN
  [mode |-> "single", method |-> i.method, rm |-> FALSE, prior |-> i.prior, useDesc |-> i.useDesc, prec |-> i.prec,
   unbal |-> i.unbal, foldsrc |-> i.foldsrc, fold |-> i.fold, fprec |-> i.fprec,
   lab |-> sl.lab, x |-> sl.x, ext |-> sl.ext]
MovieIsStack ==
  (Done /\ inp.mode = "movie") =>
    /\ Len(out.rdms) = Len(BinsOf(inp)) /\ Len(out.time) = Len(out.rdms)
    /\ \A b \in 1..Len(out.rdms) :
         \* the single pipeline on the bin SUMS with dd = 1 differs from the bin MEANS only by the
         \* scale |bin|: squared distances and cross-products scale by |bin|^2, correlations not at all
         LET o1 == OutOf(SingleOfSlice(inp, b))  s == Slice(inp, b).dd IN
         /\ o1.lab = out.lab /\ o1.grp = out.grp /\ o1.ext = out.ext
         /\ out.rdms[b].pairs = o1.rdms[1].pairs
         /\ inp.method \in {"euclidean", "mahalanobis", "crossnobis"} =>
              \A k \in 1..Len(out.rdms[b].vec) :
                 out.rdms[b].vec[k] = ScaleDD(o1.rdms[1].vec[k], s)
         /\ (inp.method = "correlation" /\ ~inp.unbal) => out.rdms[b].vec = o1.rdms[1].vec
         /\ (inp.method = "correlation" /\ inp.unbal) =>
              (out.rdms[b].ub.self = o1.rdms[1].ub.self /\ out.rdms[b].ub.cross = o1.rdms[1].ub.cross)
\* where the designs coincide the unbalanced estimator gives the balanced value: euclidean / mahalanobis for ANY
\* repetition counts; crossnobis with explicit folds on fold-balanced designs (keyed by label: the unbalanced
\* rows are in order of first appearance, the balanced ones sorted)
UnbalancedMatchesBalanced ==
  (Done /\ inp.mode # "cv" /\ inp.unbal /\ inp.useDesc
        /\ (inp.method \in {"euclidean", "mahalanobis"} \/ (inp.method = "crossnobis" /\ inp.foldsrc = "explicit"))) =>
    LET ob == OutOf([inp EXCEPT !.unbal = FALSE])  n == Len(out.lab) IN
    /\ Range(ob.lab) = Range(out.lab) /\ Len(ob.lab) = n /\ ob.time = out.time
    /\ \A r \in 1..Len(out.rdms) : \A p \in 1..n : \A q \in 1..n : p < q =>
          out.rdms[r].vec[Cidx(n, p, q)] =
             MatAt(ob.rdms[r].vec, n, IndexOf(ob.lab, out.lab[p]), IndexOf(ob.lab, out.lab[q]))

\* the label-keyed content of a result: invariant under everything that only reorders
\* (for poisson the entry is the bag over channels of the unordered pairs of rates - what the value
\* is a symmetric, channel-additive function of)
RowRec(o, p) == <<o.lab[p], IF o.grp = <<>> THEN 0 ELSE o.grp[p], IF o.ext = <<>> THEN 0 ELSE o.ext[p]>>
PoisBag(ra, rb) == IF ra = <<>> \/ rb = <<>> THEN Undefined ELSE
  LET S == {{ra[c], rb[c]} : c \in 1..Len(ra)} IN
  [u \in S |-> Cardinality({c \in 1..Len(ra) : {ra[c], rb[c]} = u})]
ResKey(o) == IF o = <<>> THEN {} ELSE
  LET n == Len(o.lab) IN
  {<<r, {RowRec(o, pq[1]), RowRec(o, pq[2])},
     IF o.rdms[r].rates # <<>> /\ o.rdms[r].pairs = <<>>
     THEN PoisBag(o.rdms[r].rates[pq[1]], o.rdms[r].rates[pq[2]])
     ELSE IF o.rdms[r].vec = <<>> THEN <<>> ELSE o.rdms[r].vec[Cidx(n, pq[1], pq[2])]>> :
     r \in 1..Len(o.rdms), pq \in {x \in (1..n) \X (1..n) : x[1] < x[2]}}
\* for poisson_cv the rates are per fold: keyed by the fold label, invariant under row/channel
\* permutation only (relabelling renames the keys)
PermInvariant == [][(stage = "done" /\ stage' = "done" /\ inp.mode # "cv") => ResKey(out') = ResKey(out)]_vars
\* poisson_cv: per channel the set (over folds) of the condition-rate vectors - what the value depends on
RateKey(rt) == IF rt = <<>> THEN {} ELSE
  {{[g \in 1..Len(rt[m]) |-> rt[m][g][c]] : m \in 1..Len(rt)} : c \in 1..Len(rt[1][1])}
CvKey(o) == IF o = <<>> THEN <<>> ELSE <<o.lab, o.rdms[1].vec, RateKey(o.rdms[1].rates)>>
CvInvariant == [][(stage = "done" /\ stage' = "done" /\ inp.mode = "cv") => CvKey(out') = CvKey(out)]_vars

(* ----------------------- C02 theorems ----------------------------------- *)
HasContrib == stage \in {"averagedcv", "done"} /\ inp.mode = "cv"
NoSelfPairs == HasContrib => \A j \in 1..Len(contrib) : contrib[j][1] # contrib[j][2]
AllFoldsUsed == HasContrib =>
   \A m \in 1..Len(means.fm.folds) : /\ \E j \in 1..Len(contrib) : contrib[j][1] = m
                                     /\ \E j \in 1..Len(contrib) : contrib[j][2] = m
\* every ordered pair of distinct folds enters exactly once: equal weights 1/(M(M-1))
EqualWeights == HasContrib =>
   LET M == Len(means.fm.folds) IN
   /\ Len(contrib) = M * (M - 1)
   /\ \A m \in 1..M : \A n \in 1..M : m # n =>
        Cardinality({j \in 1..Len(contrib) : contrib[j] = <<m, n>>}) = 1
PairsSymmetric == HasContrib => \A j \in 1..Len(contrib) : \E j2 \in 1..Len(contrib) :
                                   contrib[j2] = <<contrib[j][2], contrib[j][1]>>
\* the implied coefficient of a product of two observations of the same fold (in particular of an
\* observation with itself) is zero; of two observations of the pair's conditions in different
\* folds it is not
CoefWithinFoldZero ==
  (Done /\ inp.mode = "cv") =>
    LET f == FoldOf(inp)  n == Len(inp.lab) IN
    \A p \in 1..Len(out.lab) : \A q \in 1..Len(out.lab) : p < q =>
      \A o1 \in 1..n : \A o2 \in 1..n :
        LET cf == CoefOf(inp.lab, f, out.folds, out.pairs, out.lab[p], out.lab[q], o1, o2) IN
        /\ f[o1] = f[o2] => cf[1] = 0
        /\ (f[o1] # f[o2] /\ inp.lab[o1] \in {out.lab[p], out.lab[q]} /\ inp.lab[o2] \in {out.lab[p], out.lab[q]})
              => cf[1] # 0
\* the definition (mean over ordered fold pairs of products of fold means) equals the code's
\* leave-one-fold-out scheme (test fold against the mean of ALL training observations) on every
\* fold-balanced design - this is why balance is the admissibility condition
LooValue(i, d, fm, a, b) ==
  LET ctr == Centered(Opts(i))  M == Len(fm.folds)
      train(m, g) == LET n == Len(d.lab)  member(o) == d.lab[o] = fm.conds[g] /\ d.fold[o] # fm.folds[m] IN
                     [key |-> g, dd |-> 1, cnt |-> Sum([o \in 1..n |-> IF member(o) THEN 1 ELSE 0]),
                      sum |-> [c \in 1..Len(d.x[1]) |-> Sum([o \in 1..n |-> IF member(o) THEN d.x[o][c] ELSE 0])]]
      one(m) ==
        LET ta == train(m, a)  tb == train(m, b)  sa == fm.st[m][a]  sb == fm.st[m][b]
            P == Len(sa.sum)
            dtr == [c \in 1..P |-> UNum(ta, ctr)[c] * UDen(tb, ctr) - UNum(tb, ctr)[c] * UDen(ta, ctr)]
            dte == [c \in 1..P |-> UNum(sa, ctr)[c] * UDen(sb, ctr) - UNum(sb, ctr)[c] * UDen(sa, ctr)]
        IN RNorm(Bilin(dtr, i.prec, dte), UDen(ta, ctr) * UDen(tb, ctr) * UDen(sa, ctr) * UDen(sb, ctr) * P)
  IN RDivInt(RSum([m \in 1..M |-> one(m)]), M)
CvMatchesLeaveOneOut ==
  (stage = "averagedcv" /\ inp.method = "crossnobis" /\ inp.fprec = <<>>) =>
    LET nc == Len(built.lab) IN
    \A p \in 1..nc : \A q \in 1..nc : p < q =>
       built.vec[Cidx(nc, p, q)] = LooValue(inp, means.d, means.fm, p, q)
\* the crossnobis value is symmetric in the two conditions
CvSymmetric ==
  (stage = "products" /\ inp.method = "crossnobis") =>
    LET nc == Len(means.fm.conds) IN
    \A j \in 1..Len(kern.pairs) : \A p \in 1..nc : \A q \in 1..nc : p < q =>
       PairProd(means.fm, inp, inp.prec, kern.pairs[j][1], kern.pairs[j][2], p, q)
         = PairProd(means.fm, inp, inp.prec, kern.pairs[j][1], kern.pairs[j][2], q, p)
\* default folds: the k-th occurrence of a condition is fold k
DefaultFoldsRule ==
  (stage = "folds" /\ inp.foldsrc = "default") =>
    \A o \in 1..Len(inp.lab) :
       means.d.fold[o] = 1 + Cardinality({j \in 1..(o - 1) : inp.lab[j] = inp.lab[o]})
\* the staged variables agree with the pipeline written as one operator
StagesAgree == Done => out = (IF inp.mode = "cv" THEN CvOutOf(inp, FoldOf(inp)) ELSE OutOf(inp))

(* ======================= emission of test vectors (S -> I) ============== *)
EmitRec == IF inp.mode = "cv" /\ EmitCoef
           THEN [in |-> inp, out |-> out, coef |-> CoefMatrices(inp, FoldOf(inp), out)]
           ELSE [in |-> inp, out |-> out]
Emit == (Done /\ (EmitMod = 1 \/ RandomElement(1..EmitMod) = 1)) => PrintT(ToJson(EmitRec))
=============================================================================
