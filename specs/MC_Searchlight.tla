--------------------------- MODULE MC_Searchlight ---------------------------
(* constants that a TLC configuration file cannot express (tuples, sets of tuples) *)
EXTENDS Searchlight
S222 == {<<2, 2, 2>>}
S322 == {<<3, 2, 2>>}
S232 == {<<2, 3, 2>>}
S223 == {<<2, 2, 3>>}
SNone == {}
\* Nb sub-model: volumes larger than any sphere, flat volumes, anisotropic volumes
NbSmall == {<<2, 2, 2>>, <<3, 2, 2>>, <<4, 3, 2>>, <<1, 1, 5>>, <<5, 1, 1>>}
NbLarge == {<<7, 7, 7>>, <<6, 5, 4>>, <<4, 5, 6>>, <<9, 3, 2>>, <<2, 3, 9>>, <<1, 6, 1>>}
R4 == {<<1, 1>>, <<3, 2>>, <<2, 1>>, <<5, 2>>}
\* radii around the lattice distances sqrt(1), sqrt(2), sqrt(3), 2, sqrt(5), sqrt(6), sqrt(8), 3, ... (r^2 compared exactly)
RMany == {<<1, 2>>, <<1, 1>>, <<5, 4>>, <<7, 5>>, <<3, 2>>, <<17, 10>>, <<7, 4>>, <<2, 1>>, <<9, 4>>,
          <<5, 2>>, <<14, 5>>, <<3, 1>>, <<7, 2>>}
T3 == {<<1, 2>>, <<3, 4>>, <<1, 1>>}
TMany == {<<0, 1>>, <<1, 3>>, <<1, 2>>, <<2, 3>>, <<3, 4>>, <<9, 10>>, <<1, 1>>}
\* <<shape, holeMod, radius, threshold>> : centres just below / at / above the chunking limit of 1000
BigQuick == {<<<<11, 10, 10>>, 23, <<3, 2>>, <<1, 2>>>>,      \* > 1000 centres : chunked
             <<<<11, 10, 10>>, 23, <<3, 2>>, <<1, 1>>>>,      \* same mask, < 1000 centres : unchunked
             <<<<10, 10, 10>>, 0, <<1, 1>>, <<1, 1>>>>,       \* exactly 1000 centres : unchunked
             <<<<11, 10, 10>>, -1001, <<1, 1>>, <<1, 1>>>>}   \* exactly 1001 centres : chunked, sizes 10/11
BigThorough == BigQuick \cup
            {<<<<11, 10, 10>>, 0, <<2, 1>>, <<1, 1>>>>,       \* 1100 centres
             <<<<11, 10, 10>>, 11, <<5, 2>>, <<3, 4>>>>,
             <<<<13, 9, 9>>, 29, <<2, 1>>, <<1, 2>>>>,
             <<<<7, 12, 13>>, 12, <<3, 2>>, <<1, 2>>>>}
BigNone == {}
NsReal == {1001, 1002, 1051, 1099, 1100, 1101, 1234, 1999, 2000, 2500}     \* NChunk = 100, ChunkLimit = 1000
NsBelow == {1, 2, 999, 1000}
NsSmall == 1..40                                                         \* NChunk = 3, ChunkLimit = 4
=============================================================================
