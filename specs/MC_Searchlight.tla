--------------------------- MODULE MC_Searchlight ---------------------------
(* constants that a TLC configuration file cannot express (tuples, sets of tuples) *)
EXTENDS Searchlight
S222 == {<<2, 2, 2>>}
S322 == {<<3, 2, 2>>}
S232 == {<<2, 3, 2>>}
S223 == {<<2, 2, 3>>}
S422 == {<<4, 2, 2>>}                        \* thorough: all 2^16 masks
S332 == {<<3, 3, 2>>}                        \* thorough: all 2^18 masks, two radii, one threshold
\* Topo / Walk sub-models: larger and anisotropic volumes
STopo == {<<5, 4, 3>>, <<3, 4, 5>>, <<4, 4, 4>>, <<6, 3, 2>>, <<2, 3, 6>>, <<7, 2, 2>>, <<3, 3, 3>>}
SWalk == {<<4, 4, 3>>, <<3, 5, 3>>, <<2, 6, 4>>}
SNone == {}
\* Nb sub-model: volumes larger than any sphere, flat volumes, anisotropic volumes
NbSmall == {<<2, 2, 2>>, <<3, 2, 2>>, <<4, 3, 2>>, <<1, 1, 5>>, <<5, 1, 1>>}
NbLarge == {<<7, 7, 7>>, <<6, 5, 4>>, <<4, 5, 6>>, <<9, 3, 2>>, <<2, 3, 9>>, <<1, 6, 1>>}
R4 == {<<1, 1>>, <<3, 2>>, <<2, 1>>, <<5, 2>>}
\* radii around the lattice distances sqrt(1), sqrt(2), sqrt(3), 2, sqrt(5), sqrt(6), sqrt(8), 3, ... (r^2 compared exactly)
RMany == {<<1, 2>>, <<1, 1>>, <<5, 4>>, <<7, 5>>, <<3, 2>>, <<17, 10>>, <<7, 4>>, <<2, 1>>, <<9, 4>>,
          <<5, 2>>, <<14, 5>>, <<3, 1>>, <<7, 2>>, <<2, 1, 1>>, <<5, 1, 1>>}      \* and the irrational sqrt(2), sqrt(5)
\* <<k, m, 1>> is the irrational radius sqrt(k/m): lattice points at distance exactly == radius (sqrt 2, sqrt 3,
\* sqrt 5, sqrt 6, sqrt(5/4)) and integer radii with off-axis points on the sphere (3: (2,2,1); 5: (3,4,0);
\* 6: (4,4,2); 7: (6,3,2)), plus radii a hair below / above them
R332 == {<<3, 2>>, <<2, 1, 1>>}
RTopo == {<<1, 1>>, <<5, 4>>, <<2, 1, 1>>, <<3, 2>>, <<3, 1, 1>>, <<2, 1>>, <<5, 1, 1>>, <<5, 2>>, <<3, 1>>, <<7, 2>>}
RWalk == {<<1, 1>>, <<2, 1, 1>>, <<3, 2>>, <<7, 4>>, <<2, 1>>, <<6, 1, 1>>, <<3, 1>>}
RBound == {<<3, 1>>, <<299, 100>>, <<301, 100>>, <<5, 1>>, <<499, 100>>, <<6, 1>>, <<7, 1>>, <<13, 2>>,
           <<2, 1, 1>>, <<3, 1, 1>>, <<5, 1, 1>>, <<6, 1, 1>>, <<5, 4, 1>>, <<14, 1, 1>>, <<45, 4, 1>>}
NbHuge == {<<11, 9, 7>>, <<7, 9, 11>>}
T1 == {<<3, 4>>}
TTopo == {<<0, 1>>, <<1, 2>>, <<2, 3>>, <<9, 10>>, <<1, 1>>}
T3 == {<<1, 2>>, <<3, 4>>, <<1, 1>>}
TMany == {<<0, 1>>, <<1, 3>>, <<1, 2>>, <<2, 3>>, <<3, 4>>, <<9, 10>>, <<1, 1>>}
\* <<shape, holeMod, radius, threshold>> : centres just below / at / above the chunking limit of 1000
BigQuick == {<<<<11, 10, 10>>, 23, <<3, 2>>, <<1, 2>>>>,      \* > 1000 centres : chunked
             <<<<11, 10, 10>>, 23, <<3, 2>>, <<1, 1>>>>,      \* same mask, < 1000 centres : unchunked
             <<<<10, 10, 10>>, 0, <<1, 1>>, <<1, 1>>>>,       \* exactly 1000 centres : unchunked
             <<<<11, 10, 10>>, -1001, <<1, 1>>, <<1, 1>>>>}   \* exactly 1001 centres : chunked, sizes 10/11
BigThorough == BigQuick \cup
            {<<<<11, 10, 10>>, 0, <<2, 1>>, <<1, 1>>>>,       \* 1100 centres
             <<<<11, 10, 10>>, 11, <<5, 2>>, <<3, 4>>>>,
             <<<<13, 9, 9>>, 29, <<2, 1>>, <<1, 2>>>>,
             <<<<7, 12, 13>>, 12, <<3, 2>>, <<1, 2>>>>}
BigNone == {}
NsReal == {1001, 1002, 1051, 1099, 1100, 1101, 1234, 1999, 2000, 2500}     \* NChunk = 100, ChunkLimit = 1000
NsBelow == {1, 2, 999, 1000}
NsSmall == 1..40                                                         \* NChunk = 3, ChunkLimit = 4
=============================================================================
