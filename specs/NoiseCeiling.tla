----------------------------- MODULE NoiseCeiling -----------------------------
(***************************************************************************)
(* Noise ceilings (rsatoolbox.inference.noise_ceiling, util.inference_util *)
(* .pool_rdm) on the labelled objects of RdmsStore and the fold structures *)
(* of CvSets.  Property C07.                                               *)
(*                                                                         *)
(* The data stack is an RdmsStore object whose entries are source TOKENS   *)
(* Tok(r,i,j); the VALUATION val gives every token its data value (NaN for *)
(* an entry missing from all RDMs).  In the protocol configurations val is *)
(* the token number itself; in the value configurations it ranges over an  *)
(* integer grid.  So structure (which entry of which RDM) and value travel *)
(* together and every computed quantity carries its taint set deps of      *)
(* source tokens.                                                          *)
(*                                                                         *)
(* Pool(method, rows) = NanMean o Normalise:                               *)
(*   cosine(_cov): x / sqrt(Q/n)         (root mean square over the present *)
(*                                        entries)                         *)
(*   corr(_cov):   (n x - S)/sqrt(nQ-S^2) (z-score over the present entries)*)
(*   rho-a:        Rank2(x) / sqrt(4)    (tie-averaged ranks - RANK BEFORE *)
(*                                        MEAN)                            *)
(* Every normalised row is the exact pair (integer numerator vector,       *)
(* rational radicand qn/qd): value = num / sqrt(qn/qd).  The pooled RDM is *)
(* the mean of these over the rows.  For rho-a everything is rational and  *)
(* the optimality theorem is decided by TLC itself; for cosine / corr the  *)
(* sum of irrational terms is not evaluated here: TLC enumerates the       *)
(* ADVERSARY (every candidate RDM of a grid, every weak ordering for the   *)
(* rank measure) and the implementation's own compare scores both sides.   *)
(*                                                                         *)
(* The leave-one-out protocol (boot_noise_ceiling; cv_noise_ceiling on any *)
(* fold structure with ceiling sets; there the upper prediction of a fold  *)
(* is pooled from ALL data RDMs AT THE TEST CONDITIONS of that fold, the   *)
(* lower one from the training RDMs at the test conditions) is             *)
(*   PoolAll ; ( LeaveOut(g) ; PoolTrain ; Score )* ; Finish               *)
(* followed by ONE adversary move (Adversary: a candidate; Transform: a    *)
(* positive rescaling / affine map of every data RDM).                     *)
(***************************************************************************)
EXTENDS CvSets

CONSTANTS Methods,    \* subset of {"cosine", "corr", "rho-a", "cosine_cov", "corr_cov"}
          Mode,       \* "value": val from the integer grid, boot protocol, adversary
                      \* "proto": token valuation, every fold structure of Gens, no adversary
          ValMax,     \* data values 0..ValMax
          CandMax,    \* candidate values 0..CandMax (cosine / corr)
          Masks,      \* set of sets of condensed positions missing from ALL RDMs
          GroupBys,   \* value mode: rdm descriptors the groups are formed by
          ThinS,      \* value mode: keep one stack in ThinS (singleton groups; 1 = all)
          ThinG,      \* ... and one in ThinG for non-singleton groupings
          ThinR,      \* value mode: keep one admissible row in ThinR before stacks are formed (1 = all)
          Xforms,     \* set of <<a, b, c, e>>, a, c > 0: x |-> (a x + b) / c * 10^e applied to one data RDM
          ByFilter,   \* proto mode: allowed <<rdm descriptor, pattern descriptor>> pairs ({} = all)
          CvCat,      \* value mode, cross-validation: catalogue of fold structures (Case records)
          MaxCalls,   \* value / trace mode: number of ceilings computed one after the other on ONE data object
          SrcVariants \* proto mode: which SrcOb variants (1 plain, 2 condition twice, 3 RDM twice)

VARIABLES src,    \* the data object (all RDMs, all conditions)
          splits, \* TRUE iff the fold structure is meant to keep test RDMs out of training
          api,    \* "boot" | "cv"
          meth,   \* the comparison method
          val,    \* valuation [1..NR -> [1..CLen(NC) -> Int]]; NaN = missing
          pc,     \* "choose" | "start" | "loop" | "left" | "pooled" | "done" | "adv" | "xf"
          g,      \* the fold (left-out group) under consideration
          pred,   \* [ob, deps]: the prediction for fold g
          upper,  \* [ob, deps]: the prediction pooled from everything
          res,    \* the Score events so far
          cand,   \* the adversary's candidate RDM (<<>> before the move)
          xf,     \* the adversary's transformation of the data RDMs (<<>> before the move)
          calls   \* the methods of the ceilings computed on this data object before the current one

ncvars == <<objs, hist, fc, folds, stage, src, splits, api, meth, val, pc, g, pred, upper, res, cand, xf, calls>>

L == CLen(NC)
RECURSIVE SumS(_)
SumS(s) == IF s = <<>> THEN 0 ELSE Head(s) + SumS(Tail(s))
DotS(u, v) == SumS([k \in 1..Len(u) |-> u[k] * v[k]])
SignI(x) == IF x > 0 THEN 1 ELSE IF x < 0 THEN -1 ELSE 0

(* ---------------- tokens and values --------------------------------------- *)
TokRow(t) == t \div 100
TokPair(t) == t % 100
TokK(t) == Cidx(NC, (t % 100) \div 10, t % 10)
ValOf(t) == IF t = NaN THEN NaN ELSE val[TokRow(t)][TokK(t)]
RowVals(ob, r) == [k \in 1..Len(ob.vec[r]) |-> ValOf(ob.vec[r][k])]
ObVals(ob) == [r \in 1..Len(ob.rows) |-> RowVals(ob, r)]
\* the source tokens an object holds a value for
DepTokens(ob) == {t \in {ob.vec[r][k] : r \in 1..Len(ob.rows), k \in 1..CLen(Len(ob.pats))} : ValOf(t) # NaN}
\* the tokens of the given source RDMs among the given source conditions
TokSet(rows, pats) == {t \in {Tok(r, p[1], p[2]) : r \in rows, p \in {q \in pats \X pats : q[1] < q[2]}} : ValOf(t) # NaN}
TokVal == [r \in 1..NR |-> [k \in 1..L |-> Tok(r, PairAt(NC, k)[1], PairAt(NC, k)[2])]]

(* ---------------- Pool = NanMean o Normalise ------------------------------- *)
PresentSeq(x) == SelectSeq([k \in 1..Len(x) |-> k], LAMBDA k : x[k] # NaN)
Compact(x) == LET p == PresentSeq(x) IN [k \in 1..Len(p) |-> x[p[k]]]
\* doubled tie-averaged ranks of a vector without missing entries
Rank2(x) == [k \in 1..Len(x) |->
               2 * Cardinality({j \in 1..Len(x) : x[j] < x[k]})
               + Cardinality({j \in 1..Len(x) : x[j] = x[k]}) + 1]
CRank2(x) == LET r == Rank2(x) IN [k \in 1..Len(x) |-> r[k] - (Len(x) + 1)]
CosType == {"cosine", "cosine_cov"}
CorrType == {"corr", "corr_cov"}
\* one normalised row: value[k] = num[k] / sqrt(qn / qd), over the present entries only
NormTerm(m, xfull) ==
  LET x == Compact(xfull)  n == Len(x)  S == SumS(x)  Q == DotS(x, x) IN
  CASE m \in CosType  -> [num |-> x, qn |-> Q, qd |-> n]
    [] m \in CorrType -> [num |-> [k \in 1..n |-> n * x[k] - S], qn |-> n * Q - S * S, qd |-> 1]
    [] m = "rho-a"    -> [num |-> Rank2(x), qn |-> 4, qd |-> 1]
(* ---- the library has TWO pooling functions: rsatoolbox.util.inference_util.pool_rdm (noise ceilings; kind "nc")
   and rsatoolbox.util.pooling.pool_rdm (fitters; kind "fit", takes sigma_k).  One definition, Pool = NanMean o
   Normalise, covers both; they differ only in the normaliser of the whitened measures:
     euclid, neg_riem_dist                 no normalisation (plain mean)
     cosine                                root mean square
     corr                                  z-score (the result is shifted by a constant afterwards: irrelevant)
     spearman, rho-a, kendall, tau-b, tau-a  tie-averaged ranks, THEN the mean
     cosine_cov, corr_cov   kind "nc":  as cosine / corr  (plain norm - NOT the optimum of the whitened measure)
                            kind "fit": x / sqrt(x' V^-1 x) (corr_cov: x centred first), V = (C Sigma C')^{o2} restricted
                                        to the present entries - the normalisation under which the mean maximises the
                                        average whitened similarity.  The radicand is rational for integer data and
                                        Sigma = I; it is emitted exactly for 3 conditions without missing entries
                                        (V = [[4,1,1],[1,4,1],[1,1,4]], det 54) and left to the kernel otherwise
                                        (qn = qd = 0 marks "V-norm, computed by the kernel").                        *)
PlainMean == {"euclid", "neg_riem_dist"}
RankType == {"spearman", "rho-a", "kendall", "tau-b", "tau-a"}
PoolMethodsNc == PlainMean \cup {"cosine", "corr", "cosine_cov", "corr_cov"} \cup RankType
PoolMethodsFit == PoolMethodsNc \ {"neg_riem_dist"}
V3 == << <<4, 1, 1>>, <<1, 4, 1>>, <<1, 1, 4>> >>
AdjV3 == << <<15, -3, -3>>, <<-3, 15, -3>>, <<-3, -3, 15>> >>      \* adj(V3); det(V3) = 54
QuadAdjV3(u) == SumS([i \in 1..3 |-> u[i] * SumS([j \in 1..3 |-> AdjV3[i][j] * u[j]])])
NormTermK(kind, m, xfull) ==
  LET x == Compact(xfull)  n == Len(x)  S == SumS(x)  Q == DotS(x, x)
      cen == [k \in 1..n |-> n * x[k] - S]
      whit == kind = "fit" /\ m \in {"cosine_cov", "corr_cov"}
      exactV == NC = 3 /\ n = 3 IN
  CASE m \in PlainMean -> [num |-> x, qn |-> 1, qd |-> 1]
    [] m \in RankType -> [num |-> Rank2(x), qn |-> 4, qd |-> 1]
    [] m = "cosine" \/ (m = "cosine_cov" /\ ~whit) -> [num |-> x, qn |-> Q, qd |-> n]
    [] m = "corr" \/ (m = "corr_cov" /\ ~whit) -> [num |-> cen, qn |-> n * Q - S * S, qd |-> 1]
    [] m = "cosine_cov" /\ whit -> [num |-> x, qn |-> IF exactV THEN QuadAdjV3(x) ELSE 0, qd |-> IF exactV THEN 54 ELSE 0]
    [] m = "corr_cov" /\ whit -> [num |-> cen, qn |-> IF exactV THEN QuadAdjV3(cen) ELSE 0, qd |-> IF exactV THEN 54 ELSE 0]
PoolStatK(kind, m, rows) == [R |-> Len(rows), present |-> PresentSeq(rows[1]),
                             terms |-> [r \in 1..Len(rows) |-> NormTermK(kind, m, rows[r])]]
\* the pooled RDM: entry k (present entries) = (1/R) * sum_r terms[r].num[k] / sqrt(terms[r].qn / terms[r].qd)
PoolStat(m, rows) == [R |-> Len(rows), present |-> PresentSeq(rows[1]),
                      terms |-> [r \in 1..Len(rows) |-> NormTerm(m, rows[r])]]
\* rho-a exactly: rho_a(c, x) = 3 * RhoA2(c, x) / (n^3 - n)
RhoA2(c, x) == DotS(CRank2(Compact(c)), CRank2(Compact(x)))
\* R times the doubled mean rank vector (any positive multiple has the same ranks)
RankPool2(rows) == LET n == Len(Compact(rows[1])) IN
                   [k \in 1..n |-> SumS([r \in 1..Len(rows) |-> Rank2(Compact(rows[r]))[k]])]
\* sum over the rows of rho-a's numerator against a (compact) prediction
RhoSum(p, rows) == SumS([r \in 1..Len(rows) |-> DotS(CRank2(p), CRank2(Compact(rows[r])))])

(* ---------------- the protocol -------------------------------------------- *)
NoPred == [ob |-> Null, deps |-> {}]
ByP == IF fc.byP = "" THEN "index" ELSE fc.byP
\* pool_rdm returns ONE RDM over the same conditions, without rdm descriptors; its ghost vector
\* holds the first training row's tokens: which condition pair each pooled entry belongs to
PoolOb(ob) == [ob EXCEPT !.rows = <<0>>, !.have = <<Universe>>, !.ridx = <<0>>, !.vec = <<ob.vec[1]>>]
\* cross-validation: the pooled RDM is cut to the test conditions with the handed-out index list
AtTest(p, F) == IF api = "boot" THEN p ELSE SubsamplePats(p, ByP, F.testIdx)
\* the upper prediction: boot - everything, once; cv - per fold, all data RDMs restricted to the test conditions
\* (with the multiplicity of the handed-out index list) BEFORE they are pooled
UpperSrc(F) == IF api = "boot" THEN src ELSE SubsamplePats(src, ByP, F.testIdx)
UpperOf(F) == [ob |-> PoolOb(UpperSrc(F)), deps |-> DepTokens(UpperSrc(F))]

PoolAll == /\ pc = "start" /\ api # "pool"
           /\ upper' = IF api = "boot" THEN [ob |-> PoolOb(src), deps |-> DepTokens(src)] ELSE NoPred
           /\ pc' = "loop"
           /\ UNCHANGED <<objs, hist, fc, folds, stage, src, splits, api, meth, val, g, pred, res, cand, xf, calls>>
LeaveOut(gg) == /\ pc = "loop" /\ gg = g + 1 /\ gg <= Len(folds)
                /\ g' = gg /\ pred' = NoPred /\ pc' = "left"
                /\ UNCHANGED <<objs, hist, fc, folds, stage, src, splits, api, meth, val, upper, res, cand, xf, calls>>
\* the prediction for group g: the remaining groups only (cv: the training RDMs at the test conditions)
PoolTrain == /\ pc = "left"
             /\ pred' = [ob |-> AtTest(PoolOb(folds[g].ceil), folds[g]), deps |-> DepTokens(folds[g].ceil)]
             /\ upper' = IF api = "boot" THEN upper ELSE UpperOf(folds[g])
             /\ pc' = "pooled"
             /\ UNCHANGED <<objs, hist, fc, folds, stage, src, splits, api, meth, val, g, res, cand, xf, calls>>
Score == /\ pc = "pooled"
         /\ res' = Append(res, [g |-> g, predDeps |-> pred.deps, predPats |-> pred.ob.pats,
                                upPats |-> upper.ob.pats, upDeps |-> upper.deps,
                                testRows |-> folds[g].test.rows, testPats |-> folds[g].test.pats])
         /\ pc' = "loop"
         /\ UNCHANGED <<objs, hist, fc, folds, stage, src, splits, api, meth, val, g, pred, upper, cand, xf, calls>>
Finish == /\ pc = "loop" /\ g = Len(folds) /\ pc' = "done"
          /\ UNCHANGED <<objs, hist, fc, folds, stage, src, splits, api, meth, val, g, pred, upper, res, cand, xf, calls>>

(* ---------------- the adversary ------------------------------------------- *)
Singleton == \A f \in DOMAIN folds : Len(folds[f].test.rows) = 1
MaskOf(x) == {k \in 1..Len(x) : x[k] = NaN}
Dense(c) == LET x == Compact(c) IN Range(x) = 1..Cardinality(Range(x))
\* cosine / corr: the integer grid; rho-a: EVERY weak ordering of the present entries (the rank
\* vectors), which is the complete competitor space of a rank measure.  Cross-validation: a candidate is a
\* full RDM that is cut to the test conditions fold by fold; the grid 0..CandMax induces every weak ordering
\* of CandMax + 1 or fewer test entries
CandGrid == LET mask == MaskOf(val[1])  n == L - Cardinality(mask) IN
  IF meth = "rho-a" /\ api = "boot"
  THEN {c \in [1..L -> {NaN} \cup (1..n)] : MaskOf(c) = mask /\ Dense(c)}
  ELSE {c \in [1..L -> {NaN} \cup (0..CandMax)] : MaskOf(c) = mask}
Adversary == /\ pc = "done" /\ Mode = "value" /\ calls = <<>> /\ Singleton /\ meth \in {"cosine", "corr", "rho-a"}
             /\ cand' \in CandGrid /\ pc' = "adv"
             /\ UNCHANGED <<objs, hist, fc, folds, stage, src, splits, api, meth, val, g, pred, upper, res, xf, calls>>
\* clause e: positive rescaling (cosine type) / positive affine maps (correlation type), one per data RDM
XfFor(m) == IF m \in CosType THEN {t \in Xforms : t[2] = 0} ELSE Xforms
Transform == /\ pc = "done" /\ Mode = "value" /\ calls = <<>> /\ meth \in CosType \cup CorrType
             /\ xf' \in {t \in [1..NR -> XfFor(meth)] : \E r \in 1..NR : t[r] # <<1, 0, 1, 0>>}
             /\ pc' = "xf"
             /\ UNCHANGED <<objs, hist, fc, folds, stage, src, splits, api, meth, val, g, pred, upper, res, cand, calls>>
\* a transformation is <<a, b, c, e>>: x |-> (a x + b) / c * 10^e (e down to -26: dissimilarities in SI units of MEG).
\* numerator of the transformed row (the common positive factor 10^e / c does not change a normalised row)
XfRow(x, t) == [k \in 1..Len(x) |-> IF x[k] = NaN THEN NaN ELSE t[1] * x[k] + t[2]]

(* ---------------- initial states ------------------------------------------ *)
NonConst(x) == Cardinality(Range(x)) > 1        \* (no \E: TLC would branch on its witnesses in Init)
RowSet(mask) == {x \in [1..L -> {NaN} \cup (0..ValMax)] : MaskOf(x) = mask /\ NonConst(Compact(x))}
RowKey(x) == SumS([k \in 1..Len(x) |-> (x[k] + 1) * ((ValMax + 2) ^ (k - 1))])
\* rows are thinned first (ThinR), stacks are kept sorted (within groups) and thinned again
RowSetOf == [mask \in Masks |-> {x \in RowSet(mask) : ThinR = 1 \/ RowKey(x) % ThinR = 0}]
SortedKs(ks, by) == \A r \in 1..NR : \A s \in 1..NR :
                      (r < s /\ (by # "grp" \/ Grp(r) = Grp(s))) => ks[r] <= ks[s]
ThinKs(ks, by) == LET th == IF by = "grp" THEN ThinG ELSE ThinS IN
                  th = 1 \/ SumS([r \in 1..NR |-> ks[r] * (2 * r + 1)]) % th = 0
Stacks(mask, by) == {v \in [1..NR -> RowSetOf[mask]] :
                       LET ks == [r \in 1..NR |-> RowKey(v[r])] IN SortedKs(ks, by) /\ ThinKs(ks, by)}
\* constant-level definitions: TLC evaluates them once
StacksBy == [by \in GroupBys \cup {"subj"} |-> UNION {Stacks(mask, by) : mask \in Masks}]

Common == /\ objs = [o \in 1..MaxObj |-> IF o = 1 THEN Source ELSE Null] /\ hist = <<>> /\ stage = 1
          /\ pc = "start" /\ g = 0 /\ pred = NoPred /\ upper = NoPred /\ res = <<>> /\ cand = <<>> /\ xf = <<>> /\ calls = <<>>
VInit == /\ Common
         /\ fc \in {Case(1, "loo_rdm", by, "", 0, 0, FALSE, <<>>) : by \in GroupBys}
         /\ folds = Folds(fc) /\ src = SrcOb(fc.src) /\ splits = SplitsR(fc)
         /\ api = "boot" /\ meth \in Methods
         /\ val \in StacksBy[fc.byR]
\* value mode for cv_noise_ceiling: a fold structure from the catalogue, singleton or grouped test sets
VInitCv == /\ Common
           /\ fc \in CvCat
           /\ folds = Folds(fc) /\ src = SrcOb(fc.src) /\ splits = SplitsR(fc)
           /\ api = "cv" /\ meth \in Methods
           /\ val \in StacksBy["subj"]
           \* admissible: no RDM is constant on the test conditions of a fold it takes part in
           /\ \A f \in DOMAIN folds : \A ob \in {folds[f].ceil, folds[f].test} :
                 \A r \in 1..Len(ob.rows) : NonConst(Compact(RowVals(ob, r)))

\* folds the code can score: a ceiling set exists, at least 3 test conditions, something to pool
Evaluable(c) == LET FF == Folds(c) IN
   \A f \in DOMAIN FF : /\ FF[f].hasCeil /\ Len(FF[f].ceil.rows) >= 1 /\ Len(FF[f].test.rows) >= 1
                        /\ Cardinality(Range(FF[f].test.pats)) >= 3
\* bootstrap copies of an RDM are only kept on one side when the grouping descriptor identifies them
CopiesOK(c) == /\ c.src # 3 \/ c.byR \in {"subj", "grp"}
               /\ ByFilter = {} \/ <<c.byR, c.byP>> \in ByFilter
\* two stages so that TLC's workers share the enumeration of the fold structures
StubOf(c) == Case(c.src, c.gen, c.byR, c.byP, c.kR, c.kP, FALSE, <<>>)
PInit == /\ objs = [o \in 1..MaxObj |-> IF o = 1 THEN Source ELSE Null] /\ hist = <<>> /\ stage = 1
         /\ pc = "choose" /\ g = 0 /\ pred = NoPred /\ upper = NoPred /\ res = <<>> /\ cand = <<>> /\ xf = <<>> /\ calls = <<>>
         /\ fc \in {StubOf(c) : c \in {c \in UNION {CasesOf(v) : v \in SrcVariants} : CopiesOK(c)}}
         /\ folds = <<>> /\ src = Null /\ splits = FALSE /\ api = "" /\ meth \in Methods /\ val = TokVal
ChooseCase == /\ pc = "choose"
              /\ fc' \in {c \in CasesOf(fc.src) : StubOf(c) = fc /\ Evaluable(c)}
              /\ folds' = Folds(fc') /\ src' = SrcOb(fc'.src) /\ splits' = SplitsR(fc')
              /\ api' \in (IF fc'.gen = "loo_rdm" THEN {"boot", "cv"} ELSE {"cv"})
              /\ pc' = "start"
              /\ UNCHANGED <<objs, hist, stage, meth, val, g, pred, upper, res, cand, xf, calls>>

\* a further ceiling with another method on the SAME data object: the data (val, src) are not an output of any
\* action - both bounds are a function of the data and the method only, whatever was computed before
NextCall(m) == /\ pc = "done" /\ Len(calls) + 1 < MaxCalls
               /\ calls' = Append(calls, meth) /\ meth' = m
               /\ pc' = "start" /\ g' = 0 /\ pred' = NoPred /\ upper' = NoPred /\ res' = <<>>
               /\ UNCHANGED <<objs, hist, fc, folds, stage, src, splits, api, val, cand, xf>>
NcNext == \/ (\E m \in Methods : NextCall(m)) \/ ChooseCase \/ PoolAll \/ (\E gg \in 1..Len(folds) : LeaveOut(gg)) \/ PoolTrain \/ Score \/ Finish
          \/ Adversary \/ Transform

(* ---------------- invariants: the leave-one-out clauses --------------------- *)
\* b: the prediction for a group is computed without that group
NcNoLeak == pc = "pooled" => (splits => pred.deps \cap DepTokens(folds[g].test) = {})
\* b: ... from exactly the training RDMs at the test conditions
NcDepsExact == pc = "pooled" =>
   pred.deps = TokSet(Range(folds[g].train.rows), Range(folds[g].test.pats))
\* the prediction is aligned with the test data it is compared with, entry by entry
NcAligned == pc = "pooled" =>
   LET F == folds[g]  up == upper.ob IN
   /\ pred.ob.pats = F.test.pats /\ up.pats = F.test.pats
   /\ \A r \in 1..Len(F.test.rows) : \A k \in 1..CLen(Len(F.test.pats)) :
         /\ TokPair(pred.ob.vec[1][k]) = TokPair(F.test.vec[r][k])
         /\ TokPair(up.vec[1][k]) = TokPair(F.test.vec[r][k])
\* the upper bound pools everything: boot - all entries; cv - all data RDMs at the test conditions of the fold
NcUpperAll ==
  /\ (api = "boot" /\ pc = "loop" /\ g = 0) =>
        upper.deps = DepTokens(src) /\ upper.deps = TokSet(Range(src.rows), Range(src.pats))
  /\ (api = "cv" /\ pc = "pooled") =>
        /\ upper.deps = TokSet(Range(src.rows), Range(folds[g].test.pats))
        /\ pred.deps \subseteq upper.deps
\* every fold is scored exactly once, against its own prediction, in order
NcScoredOnce == pc = "done" =>
   /\ Len(res) = Len(folds)
   /\ \A f \in DOMAIN res : /\ res[f].g = f /\ res[f].testRows = folds[f].test.rows
                            /\ res[f].predDeps = DepTokens(folds[f].ceil)
\* leave-one-out: every RDM is left out exactly once (position-wise), groups are left out whole
NcLooPartition == (pc = "done" /\ fc.gen = "loo_rdm" /\ Len(folds) > 1) =>
   LET col == RDesc(src, fc.byR) IN
   /\ Len(folds) = Cardinality(Range(col))
   /\ \A f \in DOMAIN folds :
        LET v == Groups(col)[f] IN
        /\ folds[f].test.ridx = Pick(src.ridx, Matching(col, {v}))
        /\ folds[f].ceil.ridx = Pick(src.ridx, Matching(col, Range(col) \ {v}))
\* entries missing from all RDMs: the mask is common, and no quantity depends on a missing entry
NcCommonMask == (Mode = "value" /\ pc = "start") => \A r \in 1..NR : MaskOf(val[r]) = MaskOf(val[1])

\* computing a ceiling does not alter the data
DataFrame == [][val' = val /\ (pc # "choose" => src' = src)]_ncvars

(* ---------------- theorems on the definition of Pool (value mode) ----------- *)
\* tie-averaged ranks: the doubled ranks of n entries sum to n(n+1)
RankSum == pc = "start" /\ Mode = "value" =>
   \A r \in 1..NR : LET x == Compact(val[r]) IN SumS(Rank2(x)) = Len(x) * (Len(x) + 1)
\* a: for rho-a NO weak ordering scores above the pooled RDM (decided exactly)
RhoAOptimal == (pc = "adv" /\ meth = "rho-a" /\ api = "boot") =>
   RhoSum(Compact(cand), val) <= RhoSum(RankPool2(val), val)
\* e: a normalised row does not see a positive rescaling (cosine) / positive affine map (corr)
SameTerm(s, t) == /\ Len(s.num) = Len(t.num)
                  /\ \A k \in 1..Len(s.num) :
                       /\ SignI(s.num[k]) = SignI(t.num[k])
                       /\ s.num[k] * s.num[k] * s.qd * t.qn = t.num[k] * t.num[k] * t.qd * s.qn
XfInvariant == pc = "xf" =>
   \A r \in 1..NR : SameTerm(NormTerm(meth, XfRow(val[r], xf[r])), NormTerm(meth, val[r]))

\* pooling mode: a stack and a method, no protocol
PoolInit == /\ Common
            /\ fc = Case(1, "loo_rdm", "subj", "", 0, 0, FALSE, <<>>)
            /\ folds = <<>> /\ src = SrcOb(1) /\ splits = FALSE /\ api = "pool" /\ meth \in Methods
            /\ val \in StacksBy["subj"]
\* the two kinds are the same function off the whitened measures, and kind "nc" is the Pool of the protocol
PoolKindsAgree == (api = "pool" /\ pc = "start") =>
   /\ meth \notin {"cosine_cov", "corr_cov"} => PoolStatK("nc", meth, val) = PoolStatK("fit", meth, val)
   /\ meth \in CosType \cup CorrType \cup {"rho-a"} => PoolStatK("nc", meth, val) = PoolStat(meth, val)
\* V3 is the whitening matrix of 3 conditions and AdjV3 its adjugate: V3 AdjV3 = 54 I
V3Adjugate == \A i \in 1..3 : \A j \in 1..3 :
   SumS([k \in 1..3 |-> V3[i][k] * AdjV3[k][j]]) = IF i = j THEN 54 ELSE 0

(* ---------------- emission (S -> I) ----------------------------------------- *)
SetSeq(S) == SortAsc(SetToSeq(S))
FoldStat(f) == LET F == folds[f]  rows == ObVals(F.ceil)  trows == ObVals(F.test) IN
   [train |-> F.ceil.rows, test |-> F.test.rows, stat |-> PoolStat(meth, rows),
    \* rho-a exactly: lower_f = 3 * rho / (nt * (n^3 - n))
    rho |-> IF meth = "rho-a" THEN RhoSum(RankPool2(rows), trows) ELSE 0,
    rhoUp |-> IF meth = "rho-a" /\ api = "boot" THEN RhoSum(RankPool2(val), trows) ELSE 0,
    ustat |-> IF api = "cv" THEN PoolStat(meth, ObVals(UpperSrc(F)))
              ELSE [R |-> 0, present |-> <<>>, terms |-> <<>>],
    nt |-> Len(trows), tt |-> F.test.vec[1]]
EmitNC ==
  /\ (api = "pool" /\ pc = "start") =>
        PrintT(ToJson([t |-> "pool", meth |-> meth, val |-> val,
                       nc |-> IF meth \in PoolMethodsNc THEN PoolStatK("nc", meth, val) ELSE [R |-> 0, present |-> <<>>, terms |-> <<>>],
                       fit |-> IF meth \in PoolMethodsFit THEN PoolStatK("fit", meth, val) ELSE [R |-> 0, present |-> <<>>, terms |-> <<>>]]))
  /\ (pc = "done" /\ Mode = "value") =>
        PrintT(ToJson([t |-> "stack", api |-> api, case |-> fc, by |-> fc.byR, meth |-> meth, val |-> val, prev |-> calls,
                       all |-> PoolStat(meth, val),
                       loo |-> [f \in DOMAIN folds |-> FoldStat(f)]]))
  /\ pc = "adv" => PrintT(ToJson([t |-> "cand", api |-> api, case |-> IF api = "cv" THEN fc ELSE <<>>, by |-> fc.byR,
                                  meth |-> meth, val |-> val, c |-> cand]))
  /\ pc = "xf" => PrintT(ToJson([t |-> "xf", api |-> api, case |-> IF api = "cv" THEN fc ELSE <<>>, by |-> fc.byR,
                                meth |-> meth, val |-> val, xf |-> xf]))
  /\ (pc = "done" /\ Mode = "proto") =>
        PrintT(ToJson([t |-> "proto", api |-> api, case |-> fc,
                       folds |-> [f \in DOMAIN folds |->
                          LET F == folds[f] IN
                          [ceil |-> Strip(F.ceil), test |-> Strip(F.test), testIdx |-> F.testIdx,
                           predDeps |-> SetSeq(res[f].predDeps), predPats |-> res[f].predPats,
                           upPats |-> res[f].upPats, upDeps |-> SetSeq(res[f].upDeps)]],
                       splitsR |-> splits]))
=============================================================================
