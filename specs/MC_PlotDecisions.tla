--------------------------- MODULE MC_PlotDecisions ---------------------------
(***************************************************************************)
(* Input grids for PlotDecisions.tla (TLC configurations cannot hold       *)
(* tuples, so the grids are defined here and selected with CONST <- Def).  *)
(* Zero-arity definitions are evaluated at start-up: every grid depends on *)
(* the constants Part / Level so that only the selected one is built.      *)
(*   Part 1  bootstrap-type Results (exact p-values, dyadic alphas)        *)
(*   Part 2  given p-values (realised through the t-test by the harness)   *)
(*           and the four small decision functions                         *)
(*   Part 0  nothing (trace validation)                                    *)
(***************************************************************************)
EXTENDS PlotDecisions

CONSTANTS Part, Level      \* Level 1 quick, 2 thorough

(* ---------------- bootstrap-type Results ------------------------------------ *)
\* A catalogue of C columns of NB samples; entry e holds the values C * q + (e - 1): two different
\* entries never tie within a sample (generator constraint NoTies), an entry with residue 0 can hit 0
\* exactly ("<= 0" of the test against zero).  Values are read over the denominator 64.
C == 6
NB == 8
Q1 == << <<1, 0, 2, -1, 1, 4, 4, 2>>, <<-1, -1, -1, 0, 0, 0, -1, 0>>, <<4, 2, 2, -1, 4, 3, -1, 3>>,
         <<4, 2, 2, 4, 4, 3, 3, 3>>, <<1, 1, -1, 0, 0, 1, 2, 2>>, <<0, 2, 2, 1, 1, 1, 2, 3>> >>
Q2 == << <<0, 0, 1, 1, 2, 2, 3, 3>>, <<3, 3, 2, 2, 1, 1, 0, 0>>, <<2, 2, 2, 2, 2, 2, 2, 2>>,
         <<-1, 0, 1, 1, 1, 2, 2, 2>>, <<1, 1, 1, 1, 1, 1, 1, 1>>, <<-1, -1, 0, 0, 1, 2, 5, 6>> >>
Q3 == << <<0, 0, 1, 0, 1, 0, 2, 0>>, <<1, 0, 1, 1, 0, 1, 1, 1>>, <<1, 1, 1, 1, 1, 1, 1, 1>>,
         <<2, 1, 0, 2, 1, 2, 2, 2>>, <<3, 3, 2, 3, 3, -1, 3, 3>>, <<4, 3, 4, 4, 2, 4, 4, 1>> >>
\* a catalogue built for the step-up rule: mostly pairs that differ in 8 or 7 of the 8 samples (p = 1/8, 11/32), so that
\* several p-values sit at or next to consecutive Benjamini-Hochberg criteria
Q4 == << <<0, 0, 0, 0, 0, 0, 0, 0>>, <<2, 2, 2, 2, 2, 2, 2, 2>>, <<3, 1, 1, 1, 1, 1, 1, -1>>,
         <<3, 3, 1, 1, 1, 1, 1, 1>>, <<1, 1, 1, 1, 1, 1, 1, 0>>, <<2, 2, 2, 2, 2, 2, 2, 1>> >>
Increasing(k) == {t \in [1..k -> 1..C] : \A a \in 1..(k - 1) : t[a] < t[a + 1]}
ColOf(Q, e) == [s \in 1..NB |-> C * Q[e][s] + (e - 1)]
Injective(k) == {t \in [1..k -> 1..C] : \A a \in 1..k : \A b \in 1..k : a # b => t[a] # t[b]}
Ncl1 == <<14, 14, 14, 14, 14, 14, 14, 14>>
Ncl2 == <<8, 20, 14, 15, 9, 26, 13, 3>>
NcuOf(l) == [s \in 1..NB |-> l[s] + 6 + (s % 3)]
BarRec(Q, t, l) == [k |-> Len(t), nb |-> NB, den |-> 64,
                    ev |-> [s \in 1..NB |-> [m \in 1..Len(t) |-> ColOf(Q, t[m])[s]]],
                    ncl |-> l, ncu |-> NcuOf(l),
                    var |-> [m \in 1..Len(t) |-> (t[m] + 1) * (t[m] + 1)]]      \* SEM = (t + 1) / 64, distinct per entry
BarSet(Q, k, l) == {BarRec(Q, t, l) : t \in Injective(k)}
\* five models: the entries in a few fixed orders
Five == {<<1, 2, 3, 4, 5>>, <<6, 5, 4, 3, 2>>, <<3, 6, 1, 4, 2>>, <<2, 4, 6, 1, 3>>, <<5, 1, 4, 6, 3>>, <<4, 6, 2, 5, 1>>}
BarGrid ==
  IF Part # 1 THEN <<>>
  ELSE IF Level = 1 THEN
    << BarSet(Q1, 2, Ncl1), BarSet(Q1, 2, Ncl2), BarSet(Q1, 3, Ncl2),
       {BarRec(Q1, t, Ncl1) : t \in {u \in Injective(4) : u[1] < u[2]}},
       {BarRec(Q4, t, Ncl2) : t \in Increasing(3)}, {BarRec(Q4, t, Ncl1) : t \in Increasing(4)} >>
  ELSE
    << BarSet(Q1, 2, Ncl1), BarSet(Q1, 2, Ncl2), BarSet(Q1, 3, Ncl1), BarSet(Q1, 3, Ncl2), BarSet(Q1, 4, Ncl1),
       BarSet(Q2, 2, Ncl1), BarSet(Q2, 3, Ncl2), {BarRec(Q2, t, Ncl1) : t \in {u \in Injective(4) : u[1] < u[2]}},
       BarSet(Q3, 2, Ncl2), BarSet(Q3, 3, Ncl1),
       {BarRec(Q1, t, Ncl1) : t \in Five}, {BarRec(Q3, t, Ncl2) : t \in Five},
       BarSet(Q4, 3, Ncl2), {BarRec(Q4, t, Ncl1) : t \in Increasing(4)}, {BarRec(Q4, t, Ncl2) : t \in Increasing(5)} >>
AlphaGrid ==
  IF Part = 1 THEN (IF Level = 1 THEN {<<1, 4>>, <<11, 32>>, <<3, 8>>, <<3, 4>>}
                    ELSE {<<1, 8>>, <<1, 4>>, <<11, 32>>, <<3, 8>>, <<3, 4>>})
  ELSE {<<1, 100>>, <<1, 20>>}

(* ---------------- given p-values ---------------------------------------------- *)
\* symmetric matrix from a function over the pairs
SymP(k, f) == [x \in 1..k |-> [y \in 1..k |-> IF x = y THEN <<1, 1>> ELSE f[<<Min2(x, y), Max2(x, y)>>]]]
PG8 == {<<1, 500>>, <<1, 200>>, <<1, 125>>, <<1, 100>>, <<1, 40>>, <<1, 25>>, <<3, 50>>, <<1, 2>>}
PG4 == {<<1, 500>>, <<1, 50>>, <<1, 25>>, <<3, 50>>}
PG3 == {<<1, 200>>, <<1, 25>>, <<1, 2>>}
PG2 == {<<1, 150>>, <<1, 30>>}
PZ == <<<<1, 1000>>, <<1, 30>>, <<1, 4>>, <<1, 250>>, <<1, 70>>>>
PN == <<<<1, 2>>, <<1, 1000>>, <<1, 30>>, <<1, 350>>, <<1, 90>>>>
PRec(k, f, rk, sh) == [k |-> k, pp |-> SymP(k, f), rk |-> rk,
                       pz |-> [m \in 1..k |-> PZ[((m + sh) % 5) + 1]],
                       pn |-> [m \in 1..k |-> PN[((m + 2 * sh) % 5) + 1]]]
PGrid ==
  IF Part # 2 THEN <<>>
  ELSE IF Level = 1 THEN
    << {PRec(2, f, <<2, 5>>, 0) : f \in [PairIdx(2) -> PG8]},
       {PRec(3, f, rk, 1) : f \in [PairIdx(3) -> PG8 \ {<<1, 125>>, <<3, 50>>}], rk \in {<<4, 9, 2>>}},
       {PRec(4, f, <<6, 1, 8, 3>>, 2) : f \in [PairIdx(4) -> PG3]},
       {PRec(5, f, <<4, 9, 2, 7, 5>>, 3) :
            f \in {g \in [PairIdx(5) -> PG2] : Cardinality({pq \in PairIdx(5) : g[pq] = <<1, 150>>}) <= 3}} >>
  ELSE
    << {PRec(2, f, rk, 0) : f \in [PairIdx(2) -> PG8], rk \in {<<2, 5>>, <<5, 2>>}},
       {PRec(3, f, rk, sh) : f \in [PairIdx(3) -> PG8], rk \in {<<4, 9, 2>>, <<1, 2, 3>>}, sh \in {1, 3}},
       {PRec(4, f, <<6, 1, 8, 3>>, 2) : f \in {g \in [PairIdx(4) -> PG4] : g[<<1, 2>>] \in {<<1, 500>>, <<1, 25>>}}},
       {PRec(5, f, <<4, 9, 2, 7, 5>>, 3) : f \in [PairIdx(5) -> PG2]},
       \* 2^15 matrices would be too many: those with at most three small p-values, one of them fixed
       {PRec(6, f, <<4, 9, 2, 7, 5, 11>>, 4) :
            f \in {g \in [PairIdx(6) -> {<<1, 500>>, <<1, 25>>}] :
                      Cardinality({pq \in PairIdx(6) : g[pq] = <<1, 500>>}) <= 3 /\ g[<<1, 2>>] = <<1, 500>>}} >>

(* ---------------- the small decision functions ------------------------------- *)
GridGrid == IF Part # 2 THEN {}
            ELSE {[n |-> n, nrow |-> r, ncol |-> c, cb |-> b] :
                     n \in 1..(IF Level = 1 THEN 6 ELSE 9), r \in 0..(IF Level = 1 THEN 3 ELSE 4),
                     c \in 0..(IF Level = 1 THEN 4 ELSE 5), b \in 0..2}
Anch2 == <<<<1, 0, 0>>, <<0, 0, 1>>>>
Anch3 == <<<<0, 0, 4>>, <<2, 2, 2>>, <<4, 4, 0>>>>
Anch5 == <<<<0, 0, 2>>, <<0, 3, 3>>, <<2, 2, 2>>, <<5, 0, 0>>, <<6, 6, 0>>>>
ScaleGrid == IF Part # 2 THEN <<>>
             ELSE << {[n |-> n, anchors |-> a] : n \in 1..(IF Level = 1 THEN 12 ELSE 33), a \in {Anch2, Anch3, Anch5}} >>
TimeGrid == IF Part # 2 THEN {}
            ELSE {[T |-> t, nd |-> d] : t \in 2..(IF Level = 1 THEN 14 ELSE 30), d \in 3..(IF Level = 1 THEN 9 ELSE 22)}
FamilyGrid == IF Part # 2 THEN {} ELSE (IF Level = 1 THEN 1..4 ELSE 1..6)
\* scores of the 1 / 3 / 7 / 15 members (read over the denominator 16), with ties
FamGraphGrid ==
  IF Part # 2 THEN {}
  ELSE {[n |-> 1, sc |-> <<3>>]}
       \cup {[n |-> 2, sc |-> s] : s \in [1..3 -> 1..3]}
       \cup {[n |-> 3, sc |-> s] : s \in {<<3, 1, 5, 4, 2, 6, 7>>, <<7, 6, 5, 4, 3, 2, 1>>, <<2, 2, 2, 2, 2, 2, 2>>, <<1, 5, 3, 5, 3, 8, 4>>,
                                           <<4, 4, 1, 6, 2, 2, 9>>, <<5, 3, 8, 1, 9, 2, 6>>}}
       \cup (IF Level = 1 THEN {} ELSE {[n |-> 4, sc |-> s] : s \in {<<1, 2, 3, 4, 5, 6, 7, 8, 9, 10, 11, 12, 13, 14, 15>>,
                                                                      <<9, 3, 12, 5, 1, 14, 7, 7, 2, 11, 4, 13, 6, 10, 8>>,
                                                                      <<5, 5, 3, 8, 8, 2, 6, 4, 9, 1, 7, 7, 3, 6, 2>>}})
\* every 0/1 vector over the pairs of 3 and 4 conditions (5: those with at most three marked pairs), each symmetry
MaskGrid ==
  IF Part # 2 THEN {}
  ELSE {[nc |-> 3, vec |-> v, sym |-> sy] : v \in [PairIdx(3) -> {0, 1}], sy \in 0..2}
       \cup {[nc |-> 4, vec |-> v, sym |-> sy] : v \in [PairIdx(4) -> {0, 1}], sy \in 0..2}
       \cup (IF Level = 1 THEN {} ELSE
             {[nc |-> 5, vec |-> v, sym |-> sy] : v \in {w \in [PairIdx(5) -> {0, 1}] : Cardinality({pq \in PairIdx(5) : w[pq] = 1}) <= 3},
                                                sy \in 0..2})
=============================================================================
