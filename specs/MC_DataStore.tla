---------------------------- MODULE MC_DataStore ----------------------------
(* Model-checking wrapper of DataStore: named operation sets (cfg files cannot hold sets of strings *)
(* spanning lines comfortably); sources are integer-encoded and given directly in the cfg.          *)
EXTENDS DataStore
AllOps == {"split_obs", "split_channel", "split_time", "split_merge", "subset_obs", "subset_channel",
           "subset_time", "sort_by", "merge", "odd_even", "nested_odd_even", "bin_time",
           "time_as_observations", "time_as_channels", "df", "copy", "saveload", "dict",
           "average_by", "tensor", "average", "drop"}
\* C11 does not quantify over save / load (that is C16, which uses AllOps): everything but "saveload"
C11Ops == AllOps \ {"saveload"}
\* depth-3 runs: without the operations that leave the heap as it is or merely duplicate an object through
\* another route (observers and the dict round trip are exercised at depth 2, in simulation and in traces)
D3Ops == C11Ops \ {"dict", "average", "tensor"}
\* the >= 17 row configuration for the stability clause: only the row operations
RowOps == {"sort_by", "split_obs", "split_merge", "subset_obs", "merge", "odd_even", "copy",
           "time_as_observations"}
=============================================================================
