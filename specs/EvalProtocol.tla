---------------------------- MODULE EvalProtocol ----------------------------
(***************************************************************************)
(* The evaluation routines of rsatoolbox.inference.evaluate as ONE         *)
(* protocol on the labelled objects of RdmsStore / the fold generators of  *)
(* CvSets:                                                                 *)
(*                                                                         *)
(*   eval_fixed                  routine "fixed" (bootR: on a stack that   *)
(*                               the caller resampled with repetitions)    *)
(*   eval_bootstrap[_rdm|_pattern]  "boot"     bootR / bootP               *)
(*   crossval                    "crossval"  cv = "kfold" | "kfoldpat"     *)
(*   bootstrap_crossval          "bootcv"    cv = "kfold", nCv repetitions *)
(*   eval_dual_bootstrap         "dual"      three variants per repetition *)
(*   eval_dual_bootstrap_random  "dualrand"  cv = "random", nCv test sets  *)
(*   bootstrap_testset[_rdm|_pattern]  "testset"  cv = "testset": fit on    *)
(*                               the sample, evaluate on the groups NOT     *)
(*                               drawn (inference/boot_testset.py)          *)
(*                                                                         *)
(* A run configuration rc fixes routine, resampled axes, grouping          *)
(* descriptors, fold scheme, k / n values, number of samples N, number of  *)
(* cv repetitions nCv and number of models nM.  Every random outcome is a  *)
(* nondeterministic choice: the bootstrap draw of a sample (argument of    *)
(* Draw) and the outcome of every shuffle of the fold generator (argument  *)
(* of MakeSets).                                                           *)
(*                                                                         *)
(* The evaluation table ev is SYMBOLIC: for the cell of sample i, model j, *)
(* fold f, repetition r, variant v it says what must be compared with what *)
(* in terms of source ids:                                                 *)
(*    pred = model j, at parameters theta (supplied, or fitted on a        *)
(*           training object given by its source rows x condition sequence *)
(*           and the index list handed to the fitter), restricted to a     *)
(*           sequence of source conditions;                                *)
(*    data = a sequence of source RDM ids x a sequence of source           *)
(*           conditions;                                                   *)
(* or it is the NaN cell.  The number a cell denotes is the mean over the  *)
(* data rows of the similarity of the two; computing it is left to the     *)
(* binding (harness/evalprotocol.py), which builds both objects from the   *)
(* original values by these sequences.                                     *)
(***************************************************************************)
EXTENDS CvSets

CONSTANTS Configs     \* set of run configurations explored (records, see MC_EvalProtocol)

VARIABLES rc,      \* the configuration of this behaviour
          phase,   \* "start" "drawn" "sets" "fit" "pred" "cmp" "ceil" "repdone" "stored" "done"
          smp,     \* sample counter i
          draw,    \* <<draw over RDM groups, draw over condition groups>> of the current sample
          sample,  \* the sample object(s) of the current sample, one per variant
          rep,     \* repetition counter of the current sample
          sets,    \* per variant the fold list of the current repetition
          theta,   \* per variant, fold, model: where the parameters come from
          pred,    \* per variant, fold, model: the restricted prediction
          pend,    \* per variant, fold, model: the compared cell, not yet stored
          pnc,     \* per variant: the noise ceiling of this repetition, not yet stored
          ev,      \* the symbolic evaluation table  <<i, j, f, r, v>> -> cell
          nc,      \* the symbolic noise-ceiling table <<i, r, v>> -> ceiling
          nst,     \* how often each cell has been stored
          agg,     \* result of Aggregate: ok mask, dof
          log      \* per sample the draw and the shuffle outcomes (for replay)

evars == <<rc, phase, smp, draw, sample, rep, sets, theta, pred, pend, pnc, ev, nc, nst, agg, log>>
allvars == <<evars, objs, hist, fc, folds, stage>>

(* ---------------- configuration ------------------------------------------ *)
NVar(c) == IF c.routine = "dual" THEN 3 ELSE 1
NRep(c) == IF c.routine \in {"bootcv", "dual"} THEN c.nCv ELSE 1
NFolds(c) == CASE c.routine = "fixed" -> NR
               [] c.cv \in {"none", "testset"} -> 1
               [] c.cv = "kfold" -> c.kR * c.kP
               [] c.cv = "kfoldpat" -> c.kP
               [] c.cv = "random" -> c.nCv
GR0(c) == Groups(RDesc(Source, c.byR))        \* the resampled units on the RDM axis
GP0(c) == Groups(PDesc(Source, c.byP))        \* the resampled units on the condition axis
NU(s) == Cardinality(Range(s))

AllKeys(c) == {<<i, j, f, r, v>> : i \in 1..c.N, j \in 1..c.nM, f \in 1..NFolds(c), r \in 1..NRep(c), v \in 1..NVar(c)}
NcKeys(c) == {<<i, r, v>> : i \in 1..c.N, r \in 1..NRep(c), v \in 1..NVar(c)}
\* canonical enumeration of the keys (i slowest, then r, v, f, j) used for emission
NKeys(c) == c.N * NRep(c) * NVar(c) * NFolds(c) * c.nM
KeyAt(c, k) == LET x1 == k - 1
                   j == x1 % c.nM                 x2 == x1 \div c.nM
                   f == x2 % NFolds(c)            x3 == x2 \div NFolds(c)
                   v == x3 % NVar(c)              x4 == x3 \div NVar(c)
                   r == x4 % NRep(c)              i == x4 \div NRep(c)
               IN <<i + 1, j + 1, f + 1, r + 1, v + 1>>
NNcKeys(c) == c.N * NRep(c) * NVar(c)
NcKeyAt(c, k) == LET x1 == k - 1
                     v == x1 % NVar(c)   x2 == x1 \div NVar(c)
                     r == x2 % NRep(c)   i == x2 \div NRep(c)
                 IN <<i + 1, r + 1, v + 1>>

(* ---------------- the sample of a draw ------------------------------------ *)
Heap1 == [o \in 1..MaxObj |-> IF o = 1 THEN Source ELSE Null]
Ridx(c, d) == IF c.bootR THEN BootIdx(RDesc(Source, c.byR), d[1]) ELSE GR0(c)
Pidx(c, d) == IF c.bootP THEN BootIdx(PDesc(Source, c.byP), d[2]) ELSE GP0(c)
\* the pattern index list that accompanies the object of variant v (variant 2 = RDM-only sample)
PidxVar(c, d, v) == IF v = 2 THEN GP0(c) ELSE Pidx(c, d)

\* the bootstrap actions of RdmsStore with the draw as argument
BootOb(c, d) ==
  IF c.bootR /\ c.bootP THEN Result(Heap1, Ev2("boot_both", 1, 0, c.byR, d[1], c.byP, d[2]))
  ELSE IF c.bootR THEN Result(Heap1, Ev("boot_rdm", 1, 0, c.byR, d[1]))
  ELSE IF c.bootP THEN Result(Heap1, Ev("boot_pattern", 1, 0, c.byP, d[2]))
  ELSE Source
SamplesOf(c, d) ==
  IF c.routine = "dual"
  THEN <<BootOb(c, d), SubsampleRows(Source, c.byR, Ridx(c, d)), SubsamplePats(Source, c.byP, Pidx(c, d))>>
  ELSE <<BootOb(c, d)>>

\* outcomes of randint(0, g, size=g): every outcome (level 2); all-first, identity, all-last, one rotation
\* (level 1); identity and all-first (level 0).  The first sample of a behaviour is enumerated at the level
\* ArgLevel of the configuration file; when that is 2 (every outcome) the later samples take level 0, because
\* the plain bootstraps cannot run with N = 1 and N = 2 at level 2 would be (27 x 256)^2 behaviours.
DrawsL(g, lvl) == IF lvl >= 2 THEN [1..g -> 1..g]
                  ELSE {d \in [1..g -> 1..g] : \/ \A k \in 1..g : d[k] = 1
                                               \/ \A k \in 1..g : d[k] = k
                                               \/ lvl = 1 /\ \A k \in 1..g : d[k] = g
                                               \/ lvl = 1 /\ \A k \in 1..g : d[k] = IF k = 1 THEN g ELSE IF k = g THEN 1 ELSE 1 + (k % g)}
DrawLevel(i) == IF i = 1 THEN ArgLevel ELSE IF ArgLevel >= 2 THEN 0 ELSE ArgLevel
\* the test-set routines evaluate on the groups NOT drawn: the trimmed levels get one more outcome, the first
\* half of the groups drawn twice (1,2,3,1,2,3), which leaves the other half out
HalfTwice(g) == LET h == (g + 1) \div 2 IN [k \in 1..g |-> ((k - 1) % h) + 1]
DrawsFor(c, g, lvl) == IF c.routine = "testset" /\ lvl < 2 THEN DrawsL(g, lvl) \cup {HalfTwice(g)} ELSE DrawsL(g, lvl)
DrawChoices(c, i) ==
  {<<dr, dp>> : dr \in (IF c.bootR THEN DrawsFor(c, Len(GR0(c)), DrawLevel(i)) ELSE {<<>>}),
                dp \in (IF c.bootP THEN DrawsFor(c, Len(GP0(c)), DrawLevel(i)) ELSE {<<>>})}
\* the groups not drawn (np.setdiff1d: sorted), per axis; everything when the axis is not resampled
TestGroupsR(c, d) == IF c.bootR THEN SelectSeq(GR0(c), LAMBDA g : g \notin Range(Ridx(c, d))) ELSE GR0(c)
TestGroupsP(c, d) == IF c.bootP THEN SelectSeq(GP0(c), LAMBDA g : g \notin Range(Pidx(c, d))) ELSE GP0(c)
DrawOk(c, d) == /\ Len(d) = 2
                /\ IF c.bootR THEN IsDraw(d[1], GR0(c)) ELSE d[1] = <<>>
                /\ IF c.bootP THEN IsDraw(d[2], GP0(c)) ELSE d[2] = <<>>

\* a resample too small to be evaluated (thresholds of the routines)
SmallSample(c, d) ==
  CASE c.cv = "none" -> c.bootP /\ NU(Pidx(c, d)) < 3
    [] c.cv = "kfold" /\ c.routine \in {"bootcv", "dual"} ->
          NU(Ridx(c, d)) < c.kR \/ NU(Pidx(c, d)) < 3 * c.kP
    [] c.cv = "random" -> ~(NU(Ridx(c, d)) > c.kR /\ NU(Pidx(c, d)) >= 3 + c.kP)
    [] c.cv = "testset" -> (c.bootP /\ Len(TestGroupsP(c, d)) < 3) \/ (c.bootR /\ Len(TestGroupsR(c, d)) < 1)
    [] OTHER -> FALSE

(* ---------------- fold lists ---------------------------------------------- *)
\* a fold reduced to its labels: rows / condition sequences of train, test and ceiling objects
\* and the index lists (descriptor values) handed out with them
LiteF(trR, trP, teR, teP, ceR, ceP, hasCeil, trI, teI) ==
  [trR |-> trR, trP |-> trP, teR |-> teR, teP |-> teP, ceR |-> ceR, ceP |-> ceP,
   hasCeil |-> hasCeil, trI |-> trI, teI |-> teI]
Lite(F) == LiteF(F.train.rows, F.train.pats, F.test.rows, F.test.pats, F.ceil.rows, F.ceil.pats,
                 F.hasCeil, F.trainIdx, F.testIdx)
LiteSeq(FF) == [f \in DOMAIN FF |-> Lite(FF[f])]

PermsN(n, lvl) == CASE lvl = 2 -> Perms(n)
                    [] lvl = 1 -> {p \in Perms(n) : p = Ident(n) \/ p = [k \in 1..n |-> n + 1 - k] \/ p = [k \in 1..n |-> (k % n) + 1]}
                    [] lvl = 0 -> {p \in Perms(n) : p = Ident(n) \/ p = [k \in 1..n |-> n + 1 - k]}
                    [] OTHER -> {Ident(n)}
NGR(c, ob) == Len(Groups(RDesc(ob, c.byR)))
NGP(c, ob) == Len(Groups(PDesc(ob, c.byP)))
\* the shuffle outcomes of one call of the fold generator on object ob, in call order
PermChoicesOf(c, ob) ==
  CASE c.cv = "kfold" -> {<<pr>> \o pp : pr \in PermsN(NGR(c, ob), c.plR), pp \in [1..c.kR -> PermsN(NGP(c, ob), c.plP)]}
    [] c.cv = "kfoldpat" -> {<<p>> : p \in PermsN(NGP(c, ob), c.plP)}
    [] c.cv = "random" -> [1..c.nCv -> PermsN(NGR(c, ob), c.plR) \X PermsN(NGP(c, ob), c.plP)]
    [] OTHER -> {<<>>}
PermsOk(c, ob, pp) ==
  CASE c.cv = "kfold" -> /\ Len(pp) = 1 + c.kR /\ IsPerm(pp[1], NGR(c, ob))
                         /\ \A k \in 2..Len(pp) : IsPerm(pp[k], NGP(c, ob))
    [] c.cv = "kfoldpat" -> Len(pp) = 1 /\ IsPerm(pp[1], NGP(c, ob))
    [] c.cv = "random" -> /\ Len(pp) = c.nCv
                          /\ \A k \in 1..Len(pp) : Len(pp[k]) = 2 /\ IsPerm(pp[k][1], NGR(c, ob)) /\ IsPerm(pp[k][2], NGP(c, ob))
    [] OTHER -> pp = <<>>

\* without cross-validation the "fold" is the sample itself (eval_fixed: one per data RDM)
PseudoFolds(c, ob, pidx) ==
  IF c.routine = "fixed"
  THEN [r \in 1..Len(ob.rows) |-> LiteF(<<>>, <<>>, <<ob.rows[r]>>, ob.pats, <<>>, <<>>, FALSE, <<>>, pidx)]
  ELSE <<LiteF(<<>>, <<>>, ob.rows, ob.pats, <<>>, <<>>, FALSE, <<>>, pidx)>>
\* bootstrap_testset*: ONE fold; training object = the sample with the drawn index list, test object = the
\* data restricted to the condition groups not drawn (subsample_pattern) and the RDM groups not drawn (subsample)
TestsetFold(c, ob, d) ==
  LET tp == IF c.bootP THEN SubsamplePats(Source, c.byP, TestGroupsP(c, d)) ELSE Source
      te == IF c.bootR THEN SubsampleRows(tp, c.byR, TestGroupsR(c, d)) ELSE tp
  IN <<LiteF(ob.rows, ob.pats, te.rows, te.pats, <<>>, <<>>, FALSE, Pidx(c, d), TestGroupsP(c, d))>>
SetsOf(c, ob, pp, pidx, d) ==
  CASE c.cv = "testset" -> TestsetFold(c, ob, d)
    [] c.cv = "kfold" -> LiteSeq(KFold(ob, c.byR, c.byP, c.kR, c.kP, pp[1], Tail(pp)))
    [] c.cv = "kfoldpat" -> LiteSeq(KFoldPattern(ob, c.byP, c.kP, pp[1]))
    [] c.cv = "random" -> LiteSeq(RandomSets(ob, c.byR, c.byP, c.kR, c.kP, Groups(RDesc(ob, c.byR)),
                                             Groups(PDesc(ob, c.byP)), pp))
    [] OTHER -> PseudoFolds(c, ob, pidx)
\* a fold crossval refuses to evaluate
FoldNaN(c, F) == c.cv # "none" /\ (Len(F.trR) = 0 \/ Len(F.teR) = 0 \/ Len(F.trP) <= 2 \/ Len(F.teP) <= 2)

(* ---------------- predictions, parameters, cells --------------------------- *)
\* _concat_sampling: for every value of s2, in order, all its occurrences in s1
RECURSIVE Concat(_, _)
Concat(s1, s2) == IF s2 = <<>> THEN <<>> ELSE SelectSeq(s1, LAMBDA x : x = Head(s2)) \o Concat(s1, Tail(s2))
\* the condition sequence of a prediction (the models carry the pattern descriptors of the data,
\* in the data's order) after subsample_pattern(byP, idx)
SelPats(ob, by, idx) == Pick(ob.pats, SortAsc(MatchSeq(PDesc(ob, by), idx)))
PredConds(c, idx) == SelPats(Source, c.byP, idx)
\* the index list with which the prediction of a fold is restricted / the fitter is called
TestIdx(c, F, pidx) == IF c.cv \in {"none", "testset"} THEN F.teI ELSE Concat(pidx, F.teI)
TrainIdx(c, F, pidx) == IF c.cv = "testset" THEN F.trI ELSE Concat(pidx, F.trI)

\* A fitter call carries, besides the training object and the index list, the comparison method the
\* parameters are optimised for (rc.method: the method the routine was called with; the symbol "M" in the
\* model runs, the actual name in recorded traces) and the descriptor the index list refers to.
NoTheta == [kind |-> "none", rows |-> <<>>, conds |-> <<>>, pidx |-> <<>>, fconds |-> <<>>, meth |-> "", desc |-> ""]
Supplied == [kind |-> "supplied", rows |-> <<>>, conds |-> <<>>, pidx |-> <<>>, fconds |-> <<>>, meth |-> "", desc |-> ""]
Fitted(c, F, pidx) == [kind |-> "fit", rows |-> F.trR, conds |-> F.trP, pidx |-> TrainIdx(c, F, pidx),
                       fconds |-> PredConds(c, TrainIdx(c, F, pidx)), meth |-> c.method, desc |-> c.byP]
NoPred == [model |-> 0, theta |-> NoTheta, conds |-> <<>>]
NaNCell == [nan |-> 1, pred |-> NoPred, data |-> [rows |-> <<>>, conds |-> <<>>]]
IsNaN(cell) == cell.nan = 1

(* ---------------- noise ceilings ------------------------------------------- *)
\* leave-one-group-out ceiling of an object (boot_noise_ceiling): lower = mean over the groups g of
\* sim(pool(rows not in g), rows in g), upper = the same with pool(all rows)
NoNc == [kind |-> "nan", rows |-> <<>>, conds |-> <<>>, by |-> "", folds |-> <<>>]
LooNc(ob, by) == [kind |-> "loo", rows |-> ob.rows, conds |-> ob.pats, by |-> by, folds |-> <<>>]
\* cv_noise_ceiling: per fold lower = sim(pool(ceil rows) at the test conditions, test object),
\* upper = sim(pool of ALL rows of the evaluated object AT the test conditions allP of the fold -- the object is
\* restricted first (subsample_pattern by the fold's test index list, so with the multiplicity of the sample)
\* and pooled afterwards -- , test object)
CvNc(c, ob, FF) == [kind |-> "cv", rows |-> ob.rows, conds |-> ob.pats, by |-> c.byP,
                    folds |-> [f \in DOMAIN FF |-> [ceR |-> FF[f].ceR, ceP |-> FF[f].ceP, teR |-> FF[f].teR,
                                                     teP |-> FF[f].teP, teI |-> FF[f].teI,
                                                     allP |-> SelPats(ob, c.byP, FF[f].teI)]]]
\* crossval without ceiling sets: per evaluated fold the leave-one-out ceiling of the FULL data at the test conditions
LooFoldsNc(c, FF) ==
  LET ok == SelectSeq([f \in DOMAIN FF |-> f], LAMBDA f : ~FoldNaN(c, FF[f])) IN
  [kind |-> "loofolds", rows |-> Source.rows, conds |-> Source.pats, by |-> "index",
   folds |-> [k \in DOMAIN ok |-> [ceR |-> <<>>, ceP |-> <<>>, teR |-> Source.rows,
                                   teP |-> SelPats(Source, c.byP, FF[ok[k]].teI), teI |-> FF[ok[k]].teI,
                                   allP |-> SelPats(Source, c.byP, FF[ok[k]].teI)]]]
NcOf(c, ob, FF) ==
  CASE c.routine = "fixed" -> LooNc(ob, "index")
    [] c.cv = "testset" -> NoNc                       \* the test-set routines report no ceiling
    [] c.cv = "none" -> LooNc(ob, c.byR)
    [] c.routine = "crossval" /\ c.cv = "kfold" -> CvNc(c, Source, FF)
    [] c.routine = "crossval" -> LooFoldsNc(c, FF)
    [] c.cv = "kfold" -> IF c.kR > 1 \/ c.kP > 1 THEN CvNc(c, ob, FF) ELSE LooNc(ob, c.byR)
    [] c.cv = "random" -> IF c.kR > 0 \/ c.kP > 0 THEN CvNc(c, ob, FF) ELSE LooNc(ob, c.byR)

(* ---------------- degrees of freedom ---------------------------------------- *)
\* eval_fixed: the evaluated units are the RDMs of the stack handed in (one column each), repeated or not
DofOf(c) == CASE c.routine = "fixed" -> NFolds(c) - 1
              [] c.routine \in {"crossval", "testset"} -> 0 - 1            \* no claim
              [] c.bootR /\ c.bootP -> Min2(Len(GR0(c)), Len(GP0(c))) - 1
              [] c.bootR -> Len(GR0(c)) - 1
              [] OTHER -> Len(GP0(c)) - 1

(* ---------------- the protocol ----------------------------------------------- *)
EmptyF == [k \in {} |-> 0]
EInit == /\ rc \in Configs
         /\ phase = "start" /\ smp = 0 /\ draw = << <<>>, <<>> >> /\ sample = <<>> /\ rep = 0
         /\ sets = <<>> /\ theta = <<>> /\ pred = <<>> /\ pend = <<>> /\ pnc = <<>>
         /\ ev = EmptyF /\ nc = EmptyF /\ nst = [k \in AllKeys(rc) |-> 0]
         /\ agg = [done |-> FALSE, ok |-> {}, dof |-> 0] /\ log = <<>>
         /\ objs = Heap1 /\ hist = <<>> /\ folds = <<>> /\ stage = 0
         /\ fc = Case(1, "", "", "", 0, 0, FALSE, <<>>)
Frozen == UNCHANGED <<rc, objs, hist, fc, folds, stage>>

Draw(d) ==
  /\ phase \in {"start", "stored"} /\ smp < rc.N /\ DrawOk(rc, d)
  /\ smp' = smp + 1 /\ draw' = d /\ sample' = SamplesOf(rc, d) /\ rep' = 0 /\ phase' = "drawn"
  /\ log' = Append(log, [d |-> d, perms |-> <<>>])
  /\ UNCHANGED <<sets, theta, pred, pend, pnc, ev, nc, nst, agg>> /\ Frozen

KeysOfSample(c, i) == {k \in AllKeys(c) : k[1] = i}
NcKeysOfSample(c, i) == {k \in NcKeys(c) : k[1] = i}
TooSmall ==
  /\ phase = "drawn" /\ SmallSample(rc, draw)
  /\ ev' = ev @@ [k \in KeysOfSample(rc, smp) |-> NaNCell]
  /\ nc' = nc @@ [k \in NcKeysOfSample(rc, smp) |-> NoNc]
  /\ nst' = [k \in DOMAIN nst |-> IF k[1] = smp THEN nst[k] + 1 ELSE nst[k]]
  /\ phase' = "stored"
  /\ UNCHANGED <<smp, draw, sample, rep, sets, theta, pred, pend, pnc, agg, log>> /\ Frozen

\* pp: per variant the shuffle outcomes of the fold generator called on that variant's object
MakeSets(pp) ==
  /\ phase \in {"drawn", "repdone"} /\ ~SmallSample(rc, draw) /\ rep < NRep(rc)
  /\ Len(pp) = NVar(rc) /\ \A v \in 1..NVar(rc) : PermsOk(rc, sample[v], pp[v])
  /\ rep' = rep + 1
  /\ sets' = [v \in 1..NVar(rc) |-> SetsOf(rc, sample[v], pp[v], PidxVar(rc, draw, v), draw)]
  /\ phase' = "sets"
  /\ log' = [log EXCEPT ![smp].perms = Append(@, pp)]
  /\ UNCHANGED <<smp, draw, sample, theta, pred, pend, pnc, ev, nc, nst, agg>> /\ Frozen
SetChoices == IF NVar(rc) = 1 THEN {<<p>> : p \in PermChoicesOf(rc, sample[1])}
              ELSE {<<p1, p2, p3>> : p1 \in PermChoicesOf(rc, sample[1]), p2 \in PermChoicesOf(rc, sample[2]),
                                     p3 \in PermChoicesOf(rc, sample[3])}

Fit ==
  /\ phase = "sets"
  /\ theta' = [v \in 1..NVar(rc) |-> [f \in DOMAIN sets[v] |-> [j \in 1..rc.nM |->
                  IF FoldNaN(rc, sets[v][f]) THEN NoTheta
                  ELSE IF rc.cv = "none" THEN Supplied
                  ELSE Fitted(rc, sets[v][f], PidxVar(rc, draw, v))]]]
  /\ phase' = "fit"
  /\ UNCHANGED <<smp, draw, sample, rep, sets, pred, pend, pnc, ev, nc, nst, agg, log>> /\ Frozen

Predict ==       \* predict at theta, restrict to the test conditions of the fold
  /\ phase = "fit"
  /\ pred' = [v \in 1..NVar(rc) |-> [f \in DOMAIN sets[v] |-> [j \in 1..rc.nM |->
                 IF FoldNaN(rc, sets[v][f]) THEN NoPred
                 ELSE [model |-> j, theta |-> theta[v][f][j],
                       conds |-> PredConds(rc, TestIdx(rc, sets[v][f], PidxVar(rc, draw, v)))]]]]
  /\ phase' = "pred"
  /\ UNCHANGED <<smp, draw, sample, rep, sets, theta, pend, pnc, ev, nc, nst, agg, log>> /\ Frozen

Compare ==
  /\ phase = "pred"
  /\ pend' = [v \in 1..NVar(rc) |-> [f \in DOMAIN sets[v] |-> [j \in 1..rc.nM |->
                 IF FoldNaN(rc, sets[v][f]) THEN NaNCell
                 ELSE [nan |-> 0, pred |-> pred[v][f][j],
                       data |-> [rows |-> sets[v][f].teR, conds |-> sets[v][f].teP]]]]]
  /\ phase' = "cmp"
  /\ UNCHANGED <<smp, draw, sample, rep, sets, theta, pred, pnc, ev, nc, nst, agg, log>> /\ Frozen

Ceiling ==
  /\ phase = "cmp"
  /\ pnc' = [v \in 1..NVar(rc) |-> NcOf(rc, sample[v], sets[v])]
  /\ phase' = "ceil"
  /\ UNCHANGED <<smp, draw, sample, rep, sets, theta, pred, pend, ev, nc, nst, agg, log>> /\ Frozen

\* with boot_noise_ceil = FALSE the ceiling is that of the data, computed once (Aggregate)
StoresNc(c) == ~(c.routine = "boot" /\ ~c.bootNc) /\ c.routine # "testset"
Store ==
  /\ phase = "ceil"
  /\ Len(sets[1]) = NFolds(rc)
  /\ ev' = ev @@ [k \in {kk \in AllKeys(rc) : kk[1] = smp /\ kk[4] = rep} |-> pend[k[5]][k[3]][k[2]]]
  /\ nc' = IF StoresNc(rc) THEN nc @@ [k \in {kk \in NcKeys(rc) : kk[1] = smp /\ kk[2] = rep} |-> pnc[k[3]]] ELSE nc
  /\ nst' = [k \in DOMAIN nst |-> IF k[1] = smp /\ k[4] = rep THEN nst[k] + 1 ELSE nst[k]]
  /\ phase' = IF rep < NRep(rc) THEN "repdone" ELSE "stored"
  /\ UNCHANGED <<smp, draw, sample, rep, sets, theta, pred, pend, pnc, agg, log>> /\ Frozen

FirstKey(i) == <<i, 1, 1, 1, 1>>
Aggregate ==
  /\ phase = "stored" /\ smp = rc.N
  /\ agg' = [done |-> TRUE, ok |-> {i \in 1..rc.N : ~IsNaN(ev[FirstKey(i)])}, dof |-> DofOf(rc)]
  /\ nc' = IF StoresNc(rc) \/ rc.routine = "testset" THEN nc ELSE [k \in {<<0, 1, 1>>} |-> LooNc(Source, rc.byR)]
  /\ phase' = "done"
  /\ UNCHANGED <<smp, draw, sample, rep, sets, theta, pred, pend, pnc, ev, nst, log>> /\ Frozen

\* (guards repeated in front of the quantifiers so that TLC does not build the choice sets in vain)
DrawAny == phase \in {"start", "stored"} /\ smp < rc.N /\ \E d \in DrawChoices(rc, smp + 1) : Draw(d)
MakeSetsAny == phase \in {"drawn", "repdone"} /\ ~SmallSample(rc, draw) /\ \E pp \in SetChoices : MakeSets(pp)
ENext == DrawAny \/ TooSmall \/ MakeSetsAny \/ Fit \/ Predict \/ Compare \/ Ceiling \/ Store \/ Aggregate
ESpec == EInit /\ [][ENext]_allvars

(* ---------------- invariants (the clauses of C04 on the model) ---------------- *)
Cells == {k \in DOMAIN ev : ~IsNaN(ev[k])}
PendCells == IF phase \in {"cmp", "ceil"}
             THEN {<<v, f, j>> \in (1..NVar(rc)) \X (1..NFolds(rc)) \X (1..rc.nM) :
                     f \in DOMAIN pend[v] /\ ~IsNaN(pend[v][f][j])}
             ELSE {}

\* a: the prediction's condition sequence equals the compared data's, position by position
\* (bootstrap multiplicities and order); the same for the prediction the fitter builds on the training object
PredMatchesSample ==
  /\ \A k \in Cells : /\ ev[k].pred.conds = ev[k].data.conds
                      /\ ev[k].pred.model = k[2]
                      /\ ev[k].pred.theta.kind = "fit" => ev[k].pred.theta.fconds = ev[k].pred.theta.conds
  /\ \A t \in PendCells : LET c == pend[t[1]][t[2]][t[3]] IN
                      /\ c.pred.conds = c.data.conds /\ c.pred.model = t[3]
                      /\ c.pred.theta.kind = "fit" => c.pred.theta.fconds = c.pred.theta.conds

\* the light condition selection used for predictions is subsample_pattern of RdmsStore
LightEqFull == phase = "pred" =>
  \A v \in 1..NVar(rc) : \A f \in DOMAIN sets[v] : ~FoldNaN(rc, sets[v][f]) =>
     LET idx == TestIdx(rc, sets[v][f], PidxVar(rc, draw, v)) IN
     SubsamplePats(Source, rc.byP, idx).pats = PredConds(rc, idx)

\* the compared data of sample i are exactly the drawn groups with multiplicity, all members of a group together
SampleIsDraw ==
  /\ phase = "drawn" =>
       /\ sample = SamplesOf(rc, draw)
       /\ \A v \in DOMAIN sample : AssocOk(sample[v]) /\ ShapeOk(sample[v])
       /\ LET s == sample[1] IN
          /\ rc.bootR => \A g \in Range(RDesc(Source, rc.byR)) :
                Count(RDesc(s, rc.byR), g) = Count(Ridx(rc, draw), g) * Count(RDesc(Source, rc.byR), g)
          /\ ~rc.bootR => s.rows = Source.rows
          /\ rc.bootP => \A g \in Range(PDesc(Source, rc.byP)) :
                Count(PDesc(s, rc.byP), g) = Count(Pidx(rc, draw), g) * Count(PDesc(Source, rc.byP), g)
          /\ ~rc.bootP => s.pats = Source.pats
  /\ phase \in {"stored", "done"} /\ rc.routine # "testset" => \A i \in 1..smp :
       LET SS == SamplesOf(rc, log[i].d) IN          \* (once per sample: TLC caches LET values)
       \A k \in {kk \in Cells : kk[1] = i} :
       LET ss == SS[k[5]]  c == ev[k] IN
       /\ Range(c.data.rows) \subseteq Range(ss.rows) /\ Range(c.data.conds) \subseteq Range(ss.pats)
       /\ rc.cv = "none" /\ rc.routine # "fixed" => c.data.rows = ss.rows /\ c.data.conds = ss.pats
       /\ rc.routine = "fixed" => c.data.rows = <<ss.rows[k[3]]>> /\ c.data.conds = ss.pats
       \* whole groups with the multiplicity of the sample
       /\ \A g \in Range(PDesc(Source, rc.byP)) :
            LET n == Cardinality({p \in DOMAIN c.data.conds : PDesc(Source, rc.byP)[c.data.conds[p]] = g}) IN
            n \in {0, Count(PDesc(ss, rc.byP), g)}
       /\ \A g \in Range(RDesc(Source, rc.byR)) :
            LET n == Cardinality({p \in DOMAIN c.data.rows : RDesc(Source, rc.byR)[c.data.rows[p]] = g}) IN
            rc.routine # "fixed" => n \in {0, Count(RDesc(ss, rc.byR), g)}

\* test-set routines: the compared data are exactly the groups NOT drawn (every member once, data order within
\* the sorted groups), the parameters come from the sample only: training object = the sample of the draw, and
\* no entry (RDM, condition pair) of the test object occurs in it
TestIsComplementOfDraw == rc.routine = "testset" /\ phase \in {"stored", "done"} =>
  \A k \in Cells :
    LET d == log[k[1]].d  c == ev[k]  ss == SamplesOf(rc, d)[1]
        colR == RDesc(Source, rc.byR)  colP == PDesc(Source, rc.byP) IN
    /\ c.data.rows = SelectSeq(Flat([g \in DOMAIN GR0(rc) |-> Matching(colR, {GR0(rc)[g]})]),
                               LAMBDA r : ~rc.bootR \/ colR[r] \notin Range(Ridx(rc, d)))
    /\ c.data.conds = SelectSeq(Source.pats, LAMBDA p : ~rc.bootP \/ colP[p] \notin Range(Pidx(rc, d)))
    /\ rc.bootR => {colR[c.data.rows[q]] : q \in DOMAIN c.data.rows} \cup Range(Ridx(rc, d)) = Range(colR)
    /\ rc.bootP => {colP[c.data.conds[q]] : q \in DOMAIN c.data.conds} \cup Range(Pidx(rc, d)) = Range(colP)
    \* ThetaFromSampleOnly
    /\ c.pred.theta.rows = ss.rows /\ c.pred.theta.conds = ss.pats /\ c.pred.theta.pidx = Pidx(rc, d)
    /\ \A r \in Range(c.data.rows) : \A p \in Range(c.data.conds) : \A q \in Range(c.data.conds) :
          ~(r \in Range(ss.rows) /\ p \in Range(ss.pats) /\ q \in Range(ss.pats) /\ p # q)
    /\ Len(c.data.conds) >= 3 /\ Len(c.data.rows) >= 1

\* b: parameters exist before they are used, and are those of the cell's own fold
FitBeforeUse ==
  /\ phase \in {"pred", "cmp", "ceil"} =>
       \A v \in 1..NVar(rc) : \A f \in DOMAIN sets[v] : \A j \in 1..rc.nM :
          ~FoldNaN(rc, sets[v][f]) => theta[v][f][j].kind \in {"supplied", "fit"}
  /\ \A k \in Cells : ev[k].pred.theta.kind = (IF rc.cv = "none" THEN "supplied" ELSE "fit")
  \* fitted for the comparison method of the routine, index list in terms of the routine's pattern descriptor
  /\ \A k \in Cells : ev[k].pred.theta.kind = "fit" =>
        ev[k].pred.theta.meth = rc.method /\ ev[k].pred.theta.desc = rc.byP
SplitP(c) == (c.cv \in {"kfold", "kfoldpat"} /\ c.kP > 1) \/ (c.cv = "random" /\ c.kP > 0) \/ (c.cv = "testset" /\ c.bootP)
SplitR(c) == (c.cv = "kfold" /\ c.kR > 1) \/ (c.cv = "random" /\ c.kR > 0) \/ (c.cv = "testset" /\ c.bootR)
GroupsOfConds(c, s) == {PDesc(Source, c.byP)[s[p]] : p \in DOMAIN s}
GroupsOfRows(c, s) == {RDesc(Source, c.byR)[s[p]] : p \in DOMAIN s}
ThetaFromOwnFold ==
  /\ \A t \in PendCells : LET v == t[1]  f == t[2]  c == pend[v][f][t[3]]  F == sets[v][f] IN
       c.pred.theta.kind = "fit" =>
          /\ c.pred.theta.rows = F.trR /\ c.pred.theta.conds = F.trP
          /\ c.data.rows = F.teR /\ c.data.conds = F.teP
  /\ \A k \in Cells : LET c == ev[k] IN c.pred.theta.kind = "fit" =>
          /\ SplitP(rc) => GroupsOfConds(rc, c.pred.theta.conds) \cap GroupsOfConds(rc, c.data.conds) = {}
          /\ SplitR(rc) => GroupsOfRows(rc, c.pred.theta.rows) \cap GroupsOfRows(rc, c.data.rows) = {}
          /\ Len(c.pred.theta.rows) > 0 /\ Len(c.pred.theta.conds) > 2

\* c: NaN exactly for resamples (folds) too small to evaluate; a sample is NaN as a whole or not at all
\* the fold list of (sample i, repetition r, variant v), recomputed from the logged outcomes
FoldsOfLog(i, r, v) == SetsOf(rc, SamplesOf(rc, log[i].d)[v], log[i].perms[r][v], PidxVar(rc, log[i].d, v), log[i].d)
NaNIffTooSmall ==
  /\ rc.routine # "crossval" => \A k \in DOMAIN ev : IsNaN(ev[k]) <=> SmallSample(rc, log[k[1]].d)
  /\ phase = "done" => \A i \in 1..rc.N :
        IF SmallSample(rc, log[i].d) THEN \A k \in {kk \in DOMAIN ev : kk[1] = i} : IsNaN(ev[k])
        ELSE \A r \in 1..NRep(rc) : \A v \in 1..NVar(rc) :
               LET FF == FoldsOfLog(i, r, v) IN
               \A f \in 1..NFolds(rc) : \A j \in 1..rc.nM : IsNaN(ev[<<i, j, f, r, v>>]) <=> FoldNaN(rc, FF[f])
OkMask == agg.done /\ rc.routine # "crossval" =>
  /\ \A i \in 1..rc.N : (i \in agg.ok) <=> ~SmallSample(rc, log[i].d)
  /\ \A k \in DOMAIN ev : (k[1] \in agg.ok) <=> ~IsNaN(ev[k])
  /\ StoresNc(rc) => \A k \in DOMAIN nc : (k[1] \in agg.ok) <=> nc[k].kind # "nan"

\* d: the ceiling stored for (i, r, v) is that of the object evaluated in (i, r, v)
CeilingSameSample == phase \in {"stored", "done"} =>
  \A k \in DOMAIN nc : nc[k].kind # "nan" =>
     LET n == nc[k] IN
     IF k[1] = 0 THEN n.rows = Source.rows /\ n.conds = Source.pats /\ n.kind = "loo"
     ELSE LET ss == IF rc.routine = "crossval" THEN Source ELSE SamplesOf(rc, log[k[1]].d)[k[3]] IN
          /\ n.rows = ss.rows /\ n.conds = ss.pats
          /\ n.kind = "cv" =>
               /\ Len(n.folds) = NFolds(rc)
               /\ \A f \in DOMAIN n.folds :
                    LET key == <<k[1], 1, f, k[2], k[3]>>  F == n.folds[f] IN
                    /\ F.allP = F.teP                 \* conditions of the pooled upper-bound object = test conditions, in order
                    /\ F.ceP = F.teP
                    /\ key \in DOMAIN ev /\ ~IsNaN(ev[key]) => ev[key].data.rows = F.teR /\ ev[key].data.conds = F.teP
                    /\ key \in DOMAIN ev /\ ~IsNaN(ev[key]) => F.ceR = ev[key].pred.theta.rows

\* e: dof = number of resampled units - 1, the smaller when both axes are resampled
DofRule == agg.done /\ rc.routine \notin {"crossval", "testset"} =>
  LET ur == Cardinality(Range(RDesc(Source, rc.byR)))  up == Cardinality(Range(PDesc(Source, rc.byP))) IN
  /\ rc.routine = "fixed" => /\ agg.dof = Len(SamplesOf(rc, log[1].d)[1].rows) - 1
                             /\ agg.dof = Cardinality({k \in DOMAIN ev : k[2] = 1}) - 1      \* columns of the table
  /\ rc.routine # "fixed" /\ rc.bootR /\ rc.bootP => agg.dof = Min2(ur, up) - 1
  /\ rc.routine # "fixed" /\ rc.bootR /\ ~rc.bootP => agg.dof = ur - 1
  /\ rc.routine # "fixed" /\ ~rc.bootR /\ rc.bootP => agg.dof = up - 1
  /\ rc.bootR => \A i \in 1..rc.N : Len(log[i].d[1]) = ur       \* as many draws as units
  /\ rc.bootP => \A i \in 1..rc.N : Len(log[i].d[2]) = up

AllCellsStoredOnce ==
  /\ \A k \in DOMAIN nst : nst[k] <= 1 /\ (nst[k] = 1 <=> k \in DOMAIN ev)
  /\ agg.done => DOMAIN ev = AllKeys(rc) /\ \A k \in DOMAIN nst : nst[k] = 1
  /\ agg.done /\ StoresNc(rc) => DOMAIN nc = NcKeys(rc)

TypeOk == /\ phase \in {"start", "drawn", "sets", "fit", "pred", "cmp", "ceil", "repdone", "stored", "done"}
          /\ smp \in 0..rc.N /\ rep \in 0..NRep(rc)

(* ---------------- emission of complete behaviours for replay (S -> I) -------- *)
\* (the routines without resampling have few behaviours: always emitted)
EmitRun == (phase = "done" /\ (EmitMod = 1 \/ rc.routine \in {"fixed", "crossval"} \/ RandomElement(1..EmitMod) = 1)) =>
  PrintT(ToJson([rc |-> rc, log |-> log,
                 cells |-> [k \in 1..NKeys(rc) |-> ev[KeyAt(rc, k)]],
                 nc |-> IF StoresNc(rc) THEN [k \in 1..NNcKeys(rc) |-> nc[NcKeyAt(rc, k)]]
                        ELSE IF rc.routine = "testset" THEN <<>> ELSE <<nc[<<0, 1, 1>>]>>,
                 ntest |-> [i \in 1..rc.N |-> <<Len(TestGroupsR(rc, log[i].d)), Len(TestGroupsP(rc, log[i].d))>>],
                 dof |-> agg.dof, ok |-> [i \in 1..rc.N |-> IF i \in agg.ok THEN 1 ELSE 0]]))
=============================================================================
