------------------------------- MODULE Fitting -------------------------------
(***************************************************************************)
(* Model fitting (rsatoolbox.model.fitter / model.model) - property C08.   *)
(*                                                                         *)
(* A PROBLEM is (basis set, training stack, pattern_idx):                   *)
(*   basis   K integer RDM vectors over NC conditions (a catalogue entry,  *)
(*           full rank); the same vectors serve as the RDMs of a weighted, *)
(*           a selection and an interpolation model;                        *)
(*   train   R integer training RDMs over the same NC conditions;          *)
(*   pidx    the pattern indices handed to the fitter ('index' values,     *)
(*           repeats = bootstrap multiplicity, any order).                  *)
(* RestrictV(x, pidx) is what the fit sees of a full RDM vector x: the       *)
(* RdmsStore semantics of subsample_pattern('index', pidx) - ascending      *)
(* selection, repeated conditions repeated, NaN between copies of one       *)
(* condition.  It is read off RdmsStore!SubsamplePats applied to the token  *)
(* object, so every restricted entry knows its source pair, and deps(theta) *)
(* is the set of data tokens the restricted training stack holds.           *)
(*                                                                         *)
(* Predict(theta) = SUM_k theta[k] * basis[k], exact on integers; additivity*)
(* and homogeneity are theorems checked by TLC ("lin" behaviours).          *)
(*                                                                         *)
(* The ADVERSARY picks a competing parameter: a weight vector of the grid   *)
(* [1..K -> -CompMax..CompMax] (its non-negative part competes with the     *)
(* non-negative fitters), a candidate index (selection), or                 *)
(* <<segment, w>> with w in {0, 1/4, .., 1} (interpolation).  Scores are    *)
(* sums of irrational terms: the implementation's compare scores both       *)
(* sides.  Where the optimum is rational - one training RDM, cosine or      *)
(* Pearson - the exact optimal direction adj(G) b is emitted (G = Gram      *)
(* matrix of the restricted, for Pearson centred, basis; b = its products   *)
(* with the data), and for K = 2 TLC decides itself that no grid competitor *)
(* beats it (ExactOptimal).                                                  *)
(***************************************************************************)
EXTENDS RdmsStore

CONSTANTS Catalogue,  \* sequence of basis sets (each a sequence of K vectors of length CLen(NC))
          InterpOnly, \* TRUE: the catalogue holds paths of 4-5 RDMs for selection / interpolation models only
                      \* (no rank condition, competitors = candidate indices and <<segment, w>> over ALL segments)
          TrainMax,   \* training values 0..TrainMax
          RSet,       \* numbers of training RDMs explored
          ThinR,      \* keep one admissible training row in ThinR (1 = all)
          Thin1,      \* keep one single-RDM training stack in Thin1
          ThinT,      \* keep one training stack of two or more RDMs in ThinT
          PatSels,    \* set of pattern_idx sequences (0-based condition indices)
          CompMax,    \* competitor weights -CompMax..CompMax
          FitKinds,   \* sessions: set of <<fitter, method>> that may be run one after the other on one model object
          MaxFits,    \* sessions: number of fits in a row
          NFam,       \* "fam" behaviours: model families over 1..NFam component models
          LinGrid     \* "lin" behaviours: second weight vector ranges over -LinGrid..LinGrid

VARIABLES bid, train, pidx, pc, comp, th2, cc,
          fits    \* the fits performed so far on THIS model object and THIS data (sequence of <<fitter, method>>)
fvars == <<objs, hist, bid, train, pidx, pc, comp, th2, cc, fits>>

L == CLen(NC)
RECURSIVE SumS(_)
SumS(s) == IF s = <<>> THEN 0 ELSE Head(s) + SumS(Tail(s))
DotS(u, v) == SumS([k \in 1..Len(u) |-> u[k] * v[k]])
Basis == Catalogue[bid]
K == Len(Basis)

(* ---------------- RestrictV = subsample_pattern('index', pidx) ------------- *)
TokK(t) == Cidx(NC, (t % 100) \div 10, t % 10)
\* the restricted token object: row r = source RDM r at the selected conditions
RestrOb(p) == SubsamplePats(Source, "index", p)
Template(p) == RestrOb(p).vec[1]
RestrictV(x, p) == LET T == Template(p) IN [k \in 1..Len(T) |-> IF T[k] = NaN THEN NaN ELSE x[TokK(T[k])]]
PresentSeq(x) == SelectSeq([k \in 1..Len(x) |-> k], LAMBDA k : x[k] # NaN)
\* restricted and compacted (missing = between copies of one condition): what enters the inner products
RC(x, p) == LET T == Template(p)  ps == PresentSeq(T) IN [k \in 1..Len(ps) |-> x[TokK(T[ps[k]])]]
\* the data tokens the fit may depend on
Deps(p, R) == {t \in {RestrOb(p).vec[r][k] : r \in 1..R, k \in 1..Len(Template(p))} : t # NaN}
Mult(p, c) == Cardinality({k \in 1..Len(p) : p[k] = c})
CountIn(s, v) == Cardinality({k \in 1..Len(s) : s[k] = v})

(* ---------------- Predict --------------------------------------------------- *)
Predict(th, B) == [k \in 1..L |-> SumS([j \in 1..Len(B) |-> th[j] * B[j][k]])]
VAdd(u, v) == [k \in 1..Len(u) |-> u[k] + v[k]]
VScale(c, u) == [k \in 1..Len(u) |-> c * u[k]]

(* ---------------- exact normal equations (one training RDM) ---------------- *)
Cen(x) == LET n == Len(x)  s == SumS(x) IN [k \in 1..n |-> n * x[k] - s]
Gram(X) == [i \in 1..Len(X) |-> [j \in 1..Len(X) |-> DotS(X[i], X[j])]]
Det(G) == IF Len(G) = 1 THEN G[1][1]
          ELSE IF Len(G) = 2 THEN G[1][1] * G[2][2] - G[1][2] * G[2][1]
          ELSE G[1][1] * (G[2][2] * G[3][3] - G[2][3] * G[3][2])
               - G[1][2] * (G[2][1] * G[3][3] - G[2][3] * G[3][1])
               + G[1][3] * (G[2][1] * G[3][2] - G[2][2] * G[3][1])
Adj(G) == IF Len(G) = 1 THEN << <<1>> >>
          ELSE IF Len(G) = 2 THEN << <<G[2][2], -G[1][2]>>, <<-G[2][1], G[1][1]>> >>
          ELSE LET c(i, j) ==        \* cofactor of the symmetric 3 x 3 matrix
                     LET a == IF i = 1 THEN 2 ELSE 1   b == IF i = 3 THEN 2 ELSE 3
                         u == IF j = 1 THEN 2 ELSE 1   v == IF j = 3 THEN 2 ELSE 3
                         sg == IF (i + j) % 2 = 0 THEN 1 ELSE -1 IN
                     sg * (G[a][u] * G[b][v] - G[a][v] * G[b][u])
               IN [i \in 1..3 |-> [j \in 1..3 |-> c(j, i)]]
MatVec(M, v) == [i \in 1..Len(M) |-> DotS(M[i], v)]
XCos(p) == [j \in 1..K |-> RC(Basis[j], p)]
\* n times the Gram matrix / products of the CENTRED vectors (kept small: n Dot - S S)
GramC(X) == LET n == Len(X[1]) IN
            [i \in 1..Len(X) |-> [j \in 1..Len(X) |-> n * DotS(X[i], X[j]) - SumS(X[i]) * SumS(X[j])]]
ProdC(X, y) == LET n == Len(y) IN [j \in 1..Len(X) |-> n * DotS(X[j], y) - SumS(X[j]) * SumS(y)]
\* differences to the first entry: independent iff the centred vectors are
Diffs(x) == [k \in 1..(Len(x) - 1) |-> x[k + 1] - x[1]]
\* optimal direction for one training RDM y: adj(G) b  (a positive multiple of G^-1 b)
ExactCos(X, y) == MatVec(Adj(Gram(X)), [j \in 1..Len(X) |-> DotS(X[j], y)])
ExactCorr(X, y) == MatVec(Adj(GramC(X)), ProdC(X, y))
SmallC(X, y) == LET G == GramC(X)  b == ProdC(X, y) IN
                Len(X) <= 2 \/ \A i \in 1..Len(X) : \A j \in 1..Len(X) : G[i][j] < 400 /\ G[i][j] > -400
\* selection, one training RDM, cosine: candidates ordered by sign(b) b^2 / G_kk
SelKey(X, y, k) == [b |-> DotS(X[k], y), g |-> DotS(X[k], X[k])]
SelGeq(u, v) ==       \* u.b / sqrt(u.g) >= v.b / sqrt(v.g)
  IF u.b >= 0 /\ v.b <= 0 THEN TRUE
  ELSE IF u.b < 0 /\ v.b >= 0 THEN (u.b = 0 /\ v.b = 0)
  ELSE IF u.b >= 0 THEN u.b * u.b * v.g >= v.b * v.b * u.g
  ELSE u.b * u.b * v.g <= v.b * v.b * u.g
BestSel(X, y) == {k \in 1..Len(X) : \A j \in 1..Len(X) : SelGeq(SelKey(X, y, k), SelKey(X, y, j))}

(* ---------------- admissible problems ---------------------------------------- *)
NonConst(x) == Cardinality(Range(x)) > 1        \* (no \E: TLC would branch on its witnesses in Init)
\* full rank after restriction, also after centring; every training RDM varies on the selected conditions
ProblemOK(b, tr, p) ==
  LET B == Catalogue[b] IN
  /\ Det(Gram([j \in 1..Len(B) |-> RC(B[j], p)])) # 0
  /\ Det(Gram([j \in 1..Len(B) |-> Diffs(RC(B[j], p))])) # 0
  /\ \A r \in 1..Len(tr) : NonConst(RC(tr[r], p))
  /\ \A j \in 1..Len(B) : NonConst(RC(B[j], p))
RowKey(x) == SumS([k \in 1..Len(x) |-> x[k] * ((TrainMax + 1) ^ (k - 1))])
TrainRows == {x \in [1..L -> 0..TrainMax] : NonConst(x) /\ (ThinR = 1 \/ RowKey(x) % ThinR = 0)}
TrainStacks == UNION {{v \in [1..R -> TrainRows] :
                         LET ks == [r \in 1..R |-> RowKey(v[r])] IN
                         /\ \A r \in 1..R : \A s \in 1..R : r < s => ks[r] <= ks[s]
                         /\ LET th == IF R = 1 THEN Thin1 ELSE ThinT IN
                            (th = 1 \/ SumS([r \in 1..R |-> (ks[r] \div ThinR) * (2 * r + 1)]) % th = 0)}
                      : R \in RSet}

Common == /\ objs = [o \in 1..MaxObj |-> IF o = 1 THEN Source ELSE Null] /\ hist = <<>> /\ fits = <<>>
\* materialised once (TLC evaluates constant definitions at start-up)
TrainStackList == SetToSeq(TrainStacks)
\* paths for interpolation models: every RDM of the path and every training RDM varies on the selection
PathOK(b, tr, p) == /\ \A r \in 1..Len(tr) : NonConst(RC(tr[r], p))
                    /\ \A j \in 1..Len(Catalogue[b]) : NonConst(RC(Catalogue[b][j], p))
IInit == /\ Common /\ InterpOnly
         /\ \E i \in 1..Len(TrainStackList) : train = TrainStackList[i]
         /\ bid \in 1..Len(Catalogue)
         /\ pidx \in {p \in PatSels : Len(PresentSeq(Template(p))) >= 3}
         /\ PathOK(bid, train, pidx)
         /\ pc = "probi" /\ comp = <<>> /\ th2 = <<>> /\ cc = 0
FInit == /\ Common /\ ~InterpOnly
         /\ \E i \in 1..Len(TrainStackList) : train = TrainStackList[i]
         /\ bid \in 1..Len(Catalogue)
         /\ pidx \in {p \in PatSels : LET B == Catalogue[bid] IN Len(PresentSeq(Template(p))) >= Len(B) + 1}
         /\ ProblemOK(bid, train, pidx)
         /\ pc = "prob" /\ comp = <<>> /\ th2 = <<>> /\ cc = 0

WGrid == {w \in [1..K -> (-CompMax)..CompMax] : \E j \in 1..K : w[j] # 0}
CompSpace == {[k |-> "w", v |-> w] : w \in WGrid}
             \cup {[k |-> "s", v |-> <<j>>] : j \in 1..K}
             \cup {[k |-> "i", v |-> <<sg, w4>>] : sg \in 1..(K - 1), w4 \in 0..4}
CompSpaceI == {[k |-> "s", v |-> <<j>>] : j \in 1..K}
              \cup {[k |-> "i", v |-> <<sg, w4>>] : sg \in 1..(K - 1), w4 \in 0..4}
Adversary == /\ \/ pc = "prob" /\ comp' \in CompSpace /\ pc' = "comp"
                \/ pc = "probi" /\ comp' \in CompSpaceI /\ pc' = "comp"
             /\ UNCHANGED <<objs, hist, bid, train, pidx, th2, cc, fits>>

\* "lin" behaviours: predictions only (clauses g, h)
LInit == /\ Common /\ bid \in 1..Len(Catalogue) /\ train = <<>> /\ pidx = <<>>
         /\ pc = "lin0" /\ comp \in [1..Len(Catalogue[bid]) -> (-CompMax)..CompMax] /\ th2 = <<>> /\ cc = 0
PickThetas == /\ pc = "lin0"
              /\ th2' \in [1..K -> (-LinGrid)..LinGrid]
              /\ cc' \in {-2, 3} /\ pc' = "lin"
              /\ UNCHANGED <<objs, hist, bid, train, pidx, comp, fits>>
(* ---------------- model families and the bookkeeping of the model classes --------------- *)
\* rsatoolbox.model.ModelFamily: the members are the non-empty subsets of the n component models, numbered in the
\* order of itertools.combinations - by size, then lexicographically; member i is the weighted model over the
\* component RDMs of subset i (in ascending order), so it has |subset| parameters
SeqOfSet(S) == SortAsc(SetToSeq(S))
LexLess(a, b) == \E i \in 1..Len(a) : a[i] < b[i] /\ \A j \in 1..(i - 1) : a[j] = b[j]
FamLess(a, b) == Len(a) < Len(b) \/ (Len(a) = Len(b) /\ LexLess(a, b))
FamilyList(n) == SortSeq(SetToSeq({SeqOfSet(S) : S \in (SUBSET (1..n)) \ {{}}}), FamLess)
Indicator(n, sub) == [k \in 1..n |-> IF k \in Range(sub) THEN 1 ELSE 0]
\* "fam" behaviours: comp = <<n, index>>
MInit == /\ Common /\ train = <<>> /\ pidx = <<>> /\ th2 = <<>> /\ cc = 0
         /\ \/ /\ pc = "fam" /\ bid = 1
               /\ comp \in {<<n, i>> : n \in 1..NFam, i \in 1..(2 ^ NFam - 1)} /\ comp[2] <= 2 ^ comp[1] - 1
            \/ /\ pc = "model" /\ bid \in 1..Len(Catalogue) /\ comp = <<>>
\* indices <-> subsets is a bijection onto the non-empty subsets; sizes never decrease along the list
FamilyBijection == pc = "fam" =>
   LET n == comp[1]  FL == FamilyList(n) IN
   /\ Len(FL) = 2 ^ n - 1
   /\ {Range(FL[i]) : i \in 1..Len(FL)} = (SUBSET (1..n)) \ {{}}
   /\ \A i \in 1..Len(FL) : \A j \in 1..Len(FL) : i < j => FL[i] # FL[j] /\ Len(FL[i]) <= Len(FL[j])
   /\ \A i \in 1..Len(FL) : \A k \in 1..(Len(FL[i]) - 1) : FL[i][k] < FL[i][k + 1]
\* bookkeeping of the model classes over a basis of K RDMs, and the predictions for theta = None
Ones(n) == [k \in 1..n |-> 1]
ModelFacts == [nparam |-> [w |-> K, s |-> 1, i |-> K, f |-> 0], nrdm |-> K,
               fitter |-> [w |-> "fit_optimize", s |-> "fit_select", i |-> "fit_interpolate", f |-> "fit_mock", m |-> "fit_mock"],
               defW |-> Predict(Ones(K), Basis),          \* weighted: all ones
               defS |-> Basis[1],                         \* selection: the first RDM
               defI2 |-> VAdd(Basis[1], Basis[2])]        \* interpolation: TWICE (1/2, 1/2, 0, ..)
(* ---------------- sessions: several fits, one after the other, on ONE model object ------------------ *)
\* A fit reads the model (its basis RDMs, its descriptors) and the data and returns parameters; it is not an output of any
\* fit.  So the state of the model - bid, i.e. Catalogue[bid] - and the data are unchanged by Fit, and Predict(theta) after
\* any number of fits is still SUM theta_k basis_k of the ORIGINAL basis; a later fit is the fit of a fresh model.
Fit(k) == /\ pc = "sess" /\ Len(fits) < MaxFits /\ k \in FitKinds
          /\ fits' = Append(fits, k)
          /\ UNCHANGED <<objs, hist, bid, train, pidx, pc, comp, th2, cc>>
ModelFrame == [][bid' = bid /\ train' = train /\ pidx' = pidx]_fvars
\* sessions run on the full condition set (no missing entries, the model's own vectors are what the fitter works on)
FullSel == [k \in 1..NC |-> k - 1]
SInit == /\ Common /\ ~InterpOnly
         /\ \E i \in 1..Len(TrainStackList) : train = TrainStackList[i]
         /\ bid \in 1..Len(Catalogue) /\ pidx = FullSel
         /\ ProblemOK(bid, train, pidx)
         /\ pc = "sess" /\ comp = <<>> /\ th2 = <<>> /\ cc = 0
\* the 'index' descriptor holds VALUES, not positions: relabelling the conditions' index values (model, data and pattern_idx
\* alike, e.g. 3..NC+2 after a subset_pattern) restricts to the same entries
ObOff(off) == [Source EXCEPT !.pidx = [k \in 1..NC |-> Source.pidx[k] + off]]
TemplateOff(p, off) == SubsamplePats(ObOff(off), "index", [k \in 1..Len(p) |-> p[k] + off]).vec[1]
RelabelFree == pc \in {"prob", "probi"} => TemplateOff(pidx, 3) = Template(pidx)
FNext == Adversary \/ PickThetas \/ (\E k \in FitKinds : Fit(k))

(* ---------------- theorems ------------------------------------------------------ *)
\* g: the prediction is linear in the weights
Additive == pc = "lin" => Predict(VAdd(comp, th2), Basis) = VAdd(Predict(comp, Basis), Predict(th2, Basis))
Homogeneous == pc = "lin" => Predict(VScale(cc, comp), Basis) = VScale(cc, Predict(comp, Basis))
\* f: only entries among the selected conditions, each with its bootstrap multiplicity
DepsSelected == pc \in {"prob", "probi"} =>
   LET R == Len(train)  sel == {c + 1 : c \in Range(pidx)} IN
   Deps(pidx, R) = {Tok(r, q[1], q[2]) : r \in 1..R, q \in {q \in sel \X sel : q[1] < q[2]}}
Multiplicity == pc \in {"prob", "probi"} =>
   LET T == Template(pidx) IN
   /\ \A i \in 1..NC : \A j \in 1..NC : i < j =>
        CountIn(T, Tok(1, i, j)) = Mult(pidx, i - 1) * Mult(pidx, j - 1)
   /\ CountIn(T, NaN) = SumS([c \in 1..NC |-> (Mult(pidx, c - 1) * (Mult(pidx, c - 1) - 1)) \div 2])
\* the order in which the indices are listed does not matter
OrderFree == pc \in {"prob", "probi"} =>
   LET n == Len(pidx)  rev == [k \in 1..n |-> pidx[n + 1 - k]] IN Template(rev) = Template(pidx)
\* one training RDM, cosine, K = 2, small numbers: no grid competitor beats adj(G) b - decided exactly:
\* (b.c)^2 det(G) <= (b' adj(G) b) (c' G c) whenever b.c > 0
ExactOK == K = 2 /\ Len(train) = 1 /\ Len(PresentSeq(Template(pidx))) <= 6
ExactOptimal == (pc = "comp" /\ comp.k = "w" /\ ExactOK) =>
   LET X == XCos(pidx)  y == RC(train[1], pidx)  G == Gram(X)
       b == [j \in 1..K |-> DotS(X[j], y)]  c == comp.v
       bc == DotS(b, c) IN
   bc > 0 => bc * bc * Det(G) <= DotS(b, MatVec(Adj(G), b)) * DotS(c, MatVec(G, c))

(* ---------------- emission ------------------------------------------------------- *)
SetSeq(S) == SortAsc(SetToSeq(S))
EmitF ==
  /\ pc = "prob" =>
       PrintT(ToJson([t |-> "prob", bid |-> bid, basis |-> Basis, train |-> train, pidx |-> pidx,
                      tmpl |-> Template(pidx), deps |-> SetSeq(Deps(pidx, Len(train))),
                      xcos |-> XCos(pidx),
                      exact |-> IF Len(train) = 1
                                THEN [cos |-> ExactCos(XCos(pidx), RC(train[1], pidx)),
                                      corr |-> IF SmallC(XCos(pidx), RC(train[1], pidx))
                                               THEN ExactCorr(XCos(pidx), RC(train[1], pidx)) ELSE <<>>,
                                      sel |-> SetSeq(BestSel(XCos(pidx), RC(train[1], pidx)))]
                                ELSE [cos |-> <<>>, corr |-> <<>>, sel |-> <<>>]]))
  /\ pc = "probi" =>
       PrintT(ToJson([t |-> "prob", bid |-> bid, basis |-> Basis, train |-> train, pidx |-> pidx,
                      tmpl |-> Template(pidx), deps |-> SetSeq(Deps(pidx, Len(train))), xcos |-> XCos(pidx),
                      interp |-> TRUE,
                      exact |-> [cos |-> <<>>, corr |-> <<>>,
                                 sel |-> IF Len(train) = 1 THEN SetSeq(BestSel(XCos(pidx), RC(train[1], pidx))) ELSE <<>>]]))
  /\ pc = "comp" =>
       PrintT(ToJson([t |-> "comp", bid |-> bid, train |-> train, pidx |-> pidx, k |-> comp.k, v |-> comp.v]))
  /\ (pc = "sess" /\ Len(fits) = MaxFits) =>
       PrintT(ToJson([t |-> "sess", bid |-> bid, basis |-> Basis, train |-> train, fits |-> fits,
                      th |-> Ones(K), pred |-> Predict(Ones(K), Basis), th2 |-> [k \in 1..K |-> k], pred2 |-> Predict([k \in 1..K |-> k], Basis)]))
  /\ pc = "fam" =>
       PrintT(ToJson([t |-> "fam", n |-> comp[1], i |-> comp[2], subset |-> FamilyList(comp[1])[comp[2]],
                      ind |-> Indicator(comp[1], FamilyList(comp[1])[comp[2]])]))
  /\ pc = "model" => PrintT(ToJson([t |-> "model", bid |-> bid, basis |-> Basis, facts |-> ModelFacts]))
  /\ pc = "lin" =>
       PrintT(ToJson([t |-> "lin", bid |-> bid, basis |-> Basis, th1 |-> comp, th2 |-> th2, c |-> cc,
                      p1 |-> Predict(comp, Basis), p2 |-> Predict(th2, Basis),
                      p12 |-> Predict(VAdd(comp, th2), Basis)]))
=============================================================================
