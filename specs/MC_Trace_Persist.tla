-------------------------- MODULE MC_Trace_Persist --------------------------
EXTENDS Trace_Persist
KA_none == {}
AllModes == {"path", "pathlib", "fresh", "kept"}
=============================================================================
