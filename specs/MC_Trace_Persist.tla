-------------------------- MODULE MC_Trace_Persist --------------------------
EXTENDS Trace_Persist
KA_none == {}
FsOps == {"fs"}
StreamOps == {"stream"}
AllOps == {"fs", "stream"}
AllModes == {"path", "pathlib", "fresh", "kept"}
=============================================================================
