--------------------------- MODULE MC_ResultSummary ---------------------------
EXTENDS ResultSummary
MCLenGrid == {1, 5, 9}
MCValGrid == {NaN, -1234567, 500400}
MCValGridQ == {NaN, -1234567}
MCPGrid == {NaN, 999, 1000, 62500}
=============================================================================
