--------------------------- MODULE MC_ResultSummary ---------------------------
EXTENDS ResultSummary, Json
MCLenGrid == {1, 5, 9}
MCValGrid == {NaN, -1234567, 500400}
MCValGridQ == {NaN, -1234567}
MCPGrid == {NaN, 999, 1000, 62500}
\* small grids for the specification -> implementation replay: every finished table is emitted with its input
MCLenGridE == {1, 9}
MCValGridE == {NaN, -1234567}
MCSemGridE == {NaN, 500400}
MCPGridE == {NaN, 999, 1000, 62400}
Emit == stage = "done" => PrintT(ToJson([inp |-> inp, doc |-> doc]))
=============================================================================
