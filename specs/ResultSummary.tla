--------------------------- MODULE ResultSummary ---------------------------
(***************************************************************************)
(* Growth beyond the listed properties (check id X02): the decision layer  *)
(* of rsatoolbox.inference.Result.summary() / __str__ -- the text table a  *)
(* user reads first.  The numbers in it (means, SEMs, p-values) are the    *)
(* subject of C06; what is specified here is what is SHOWN for them:       *)
(*   Header   : 'Results for running <cv_method> evaluation for <method>   *)
(*              on <n> models:'                                            *)
(*   NameCol  : name column width = max(longest name + 1, 6)               *)
(*   Row(i)   : name padded to NameCol | mean +- sem | p(0) | p(NC) |      *)
(*              one row per model, in model order;                         *)
(*              a p-value below 0.001 is shown as '< 0.001', NaN as 'nan', *)
(*              everything else with three decimals (correct rounding)     *)
(*   Rule     : a line of NameCol + 51 dashes                              *)
(*   Footer   : chosen by cv_method first ('crossvalidation'), else by the *)
(*              test type                                                  *)
(* Numbers are integers in micro-units (value * 1e6, rounded), NaN is the  *)
(* constant NaN below; the table shows permille.                           *)
(*                                                                         *)
(* The summary is built in stages (Head, Row x n, Foot), one action each,  *)
(* like the string concatenation in the code; TLC explores every           *)
(* combination of cv_method x test type x name lengths x number classes    *)
(* and checks the layout theorems below.  Trace_ResultSummary.tla checks   *)
(* the tables the real code printed against Row / Footer / NameCol.        *)
(***************************************************************************)
EXTENDS Integers, Sequences, FiniteSets, TLC

NaN == -2000000000           \* marker for not-a-number in micro-units

CvMethods == {"fixed", "bootstrap_rdm", "bootstrap_pattern", "bootstrap", "dual_bootstrap",
              "bootstrap_crossval", "crossvalidation"}
TestTypes == {"t-test", "bootstrap", "ranksum"}

SetMax(S) == CHOOSE x \in S : \A y \in S : y <= x
NameCol(lens) == SetMax({6} \cup {lens[i] + 1 : i \in DOMAIN lens})

\* micro-units -> permille with rounding half away from zero; the recorder marks exact ties
Permille(u) == IF u >= 0 THEN (u + 500) \div 1000 ELSE -((500 - u) \div 1000)

\* what is shown for a p-value
PCell(u) == IF u = NaN THEN [cls |-> "nan", txt |-> 0]
            ELSE IF u < 1000 THEN [cls |-> "lt", txt |-> 0]
            ELSE [cls |-> "num", txt |-> Permille(u)]
\* what is shown for a mean / SEM
NCell(u) == IF u = NaN THEN [cls |-> "nan", txt |-> 0] ELSE [cls |-> "num", txt |-> Permille(u)]

Footer(cv, tt) == IF cv = "crossvalidation" THEN "nocv"
                  ELSE IF tt = "t-test" THEN "ttest"
                  ELSE IF tt = "bootstrap" THEN "boot"
                  ELSE IF tt = "ranksum" THEN "ranksum" ELSE "none"

\* printed widths (characters) of the numeric fields, as the format specifications produce them
Digits(k) == IF k < 10 THEN 1 ELSE IF k < 100 THEN 2 ELSE IF k < 1000 THEN 3 ELSE 4
AbsV(x) == IF x < 0 THEN -x ELSE x
MeanW(u) == IF u = NaN THEN 5 ELSE 1 + Digits(AbsV(Permille(u)) \div 1000) + 4     \* '{: 5.3f}'
SemW(u)  == IF u = NaN THEN 4 ELSE Digits(AbsV(Permille(u)) \div 1000) + 4 + (IF u < 0 THEN 1 ELSE 0)  \* '{:4.3f}'
RowLen(namecol, m, s) == namecol + 2 + MeanW(m) + 3 + SemW(s) + 2 + 16 + 17
RuleLen(namecol) == namecol + 51

Row(i, lens, means, sems, pz, pn) ==
  [pad |-> NameCol(lens) - lens[i], mean |-> NCell(means[i]), sem |-> NCell(sems[i]),
   pz |-> PCell(pz[i]), pn |-> PCell(pn[i]), len |-> RowLen(NameCol(lens), means[i], sems[i])]

--------------------------------------------------------------------------
\* the staged model
CONSTANTS LenGrid, ValGrid, PGrid, MaxModels
VARIABLES inp, stage, doc
vars == <<inp, stage, doc>>

Inputs == [cv : CvMethods, tt : TestTypes, n : 1..MaxModels]
Init == inp = [cv |-> "none"] /\ stage = "choose" /\ doc = <<>>
Choose == /\ stage = "choose"
          /\ \E c \in Inputs : \E lens \in [1..c.n -> LenGrid] : \E m \in [1..c.n -> ValGrid] :
             \E s \in [1..c.n -> ValGrid] : \E p \in [1..c.n -> PGrid] : \E q \in [1..c.n -> PGrid] :
                inp' = [cv |-> c.cv, tt |-> c.tt, n |-> c.n, lens |-> lens, means |-> m, sems |-> s, pz |-> p, pn |-> q]
          /\ stage' = "head" /\ doc' = <<>>
HeadStep == /\ stage = "head"
        /\ doc' = <<[kind |-> "rule", len |-> RuleLen(NameCol(inp.lens))]>>
        /\ stage' = "rows" /\ UNCHANGED inp
RowStep == /\ stage = "rows" /\ Len(doc) - 1 < inp.n
           /\ LET i == Len(doc) IN
              doc' = Append(doc, [kind |-> "row", i |-> i] @@ Row(i, inp.lens, inp.means, inp.sems, inp.pz, inp.pn))
           /\ UNCHANGED <<inp, stage>>
Foot == /\ stage = "rows" /\ Len(doc) - 1 = inp.n
        /\ doc' = Append(doc, [kind |-> "foot", which |-> Footer(inp.cv, inp.tt)])
        /\ stage' = "done" /\ UNCHANGED inp
Next == Choose \/ HeadStep \/ RowStep \/ Foot
Spec == Init /\ [][Next]_vars

Rows == {k \in DOMAIN doc : doc[k].kind = "row"}
\* one row per model, in model order
RowsInOrder == stage = "done" => /\ Cardinality(Rows) = inp.n
                                 /\ \A k \in Rows : doc[k].i = k - 1
\* every name is followed by at least one blank; the column is never narrower than the word 'Model' + 1
PadPositive == \A k \in Rows : doc[k].pad >= 1
\* a p-value is never shown as 0.000: below 0.001 it is '< 0.001'
NoZeroP == \A k \in Rows : /\ (doc[k].pz.cls = "num" => doc[k].pz.txt >= 1)
                           /\ (doc[k].pn.cls = "num" => doc[k].pn.txt >= 1)
\* the table is aligned with its rule whenever mean and SEM are finite and below 10 in size
AlignedWhenFinite ==
  \A k \in Rows : LET i == doc[k].i IN
     (inp.means[i] # NaN /\ inp.sems[i] # NaN /\ inp.sems[i] >= 0
      /\ AbsV(Permille(inp.means[i])) < 10000 /\ Permille(inp.sems[i]) < 10000)
     => doc[k].len = doc[1].len
\* the crossvalidation note wins over the test type; every known test type has a note
FooterTotal == stage = "done" => /\ doc[Len(doc)].which # "none"
                                 /\ (inp.cv = "crossvalidation" <=> doc[Len(doc)].which = "nocv")
=============================================================================
