"""Drivers and projection for rsatoolbox.util.searchlight (property C19).

The only place of the C19 check that knows rsatoolbox.  Expected values come from specs/Searchlight.tla
(records emitted by TLC); this module instantiates them as real numpy masks / data in several flavours,
calls the public functions and reports every difference as ``(key, what, detail)``.

Conventions shared with the specification: voxels are 0-based triples, linear indices are C-order ravel
indices of the mask shape, a radius / threshold is a pair ``[num, den]``.
"""
from __future__ import annotations

import contextlib
import io
import os
import time

import numpy as np

MASK_DTYPES = ['bool', 'int64', 'float64', 'uint8']
DATA_DTYPES = ['float64', 'int16', 'int32', 'int64', 'float32']
INT_DTYPES = ['int16', 'int32', 'int64']
RDM_METHODS = ['euclidean', 'correlation', 'mahalanobis', 'poisson', 'crossnobis', 'poisson_cv']


@contextlib.contextmanager
def quiet():
    """rsatoolbox prints progress bars and 'Found n searchlights'; keep the check's output clean."""
    with contextlib.redirect_stdout(io.StringIO()), contextlib.redirect_stderr(io.StringIO()):
        yield


def _sl():
    import rsatoolbox.util.searchlight as sl
    return sl


def fnum(q, variant=0):
    """rational [num, den] -> the number a user would pass (int when integral and variant is even)"""
    if len(q) == 3:                      # <<k, m, 1>>: the irrational radius sqrt(k/m), as numpy gives it
        return float(np.sqrt(q[0] / q[1]))
    n, d = q
    if d == 1 and variant % 2 == 0:
        return int(n)
    return n / d


def make_mask(shape, lin, dtype):
    m = np.zeros(int(np.prod(shape)), dtype=dtype)
    m[np.asarray(lin, dtype=int)] = 1
    return m.reshape(shape)


# ------------------------------------------------------------------ cfg text for TLC
def cfg(mode, *, shapes='SNone', nbshapes='NbSmall', radii='R4', thresholds='T3', big='BigNone', nchunk=100,
        limit=1000, ns='NsReal', workers=3, tasks=4, collect='index', emitmod=1, emit=True, trace=False):
    lines = ['CONSTANTS', f'  Shapes <- {shapes}', f'  NbShapes <- {nbshapes}', f'  Radii <- {radii}',
             f'  Thresholds <- {thresholds}', f'  BigCases <- {big}', f'  NChunk = {nchunk}',
             f'  ChunkLimit = {limit}', f'  ChunkNs <- {ns}', f'  Workers = {workers}', f'  Tasks = {tasks}',
             f'  CollectBy = "{collect}"', f'  EmitMod = {emitmod}', 'CHECK_DEADLOCK FALSE']
    if trace:
        lines = [x.replace('NbSmall', 'SNone').replace('R4', 'SNone').replace('T3', 'SNone')
                 .replace('BigNone', 'SNone').replace('NsReal', 'SNone') for x in lines]
        lines += ['SPECIFICATION TSpec']
    elif mode == 'walk':
        lines += ['INIT WalkInit', 'NEXT WalkNext', 'INVARIANT WalkMonotone', 'INVARIANT WalkOk', 'INVARIANT EmitWalk']
    elif mode in ('vol', 'topo'):
        lines += [f'INIT {"VolInit" if mode == "vol" else "TopoInit"}', 'NEXT VolNext'] + [f'INVARIANT {i}' for i in (
            'RavelBijective', 'PipelineIsDefinition', 'PrefilterSound', 'SphereSymmetric', 'CentreInOwnSphere',
            'CentresOk', 'ThresholdMonotone', 'RadiusMonotone')]
        if emit:
            lines.append('INVARIANT EmitVol')
    elif mode == 'nb':
        lines += ['INIT NbInit', 'NEXT NbNext', 'INVARIANT NbOk', 'INVARIANT EmitNb']
    elif mode == 'chunk':
        lines += ['INIT ChunkInit', 'NEXT ChunkNext', 'INVARIANT ChunkedIsDirect', 'INVARIANT ChunkProgress',
                  'INVARIANT ChunkInv']
    elif mode == 'big':
        lines += ['INIT BigInit', 'NEXT BigNext', 'INVARIANT BigOk', 'INVARIANT EmitBig']
    elif mode == 'sch':
        lines += ['SPECIFICATION SchSpec', 'INVARIANT ResultOrder', 'INVARIANT SchSane', 'PROPERTY Collected']
    elif mode == 'sch_inorder':      # negative control: TLC must find an out-of-order completion
        lines += ['SPECIFICATION SchSpec', 'INVARIANT CompletionInOrder']
    else:
        raise ValueError(mode)
    return '\n'.join(lines) + '\n'


# ------------------------------------------------------------------ clause a: one searchlight
def check_nb(rec, variant=0):
    """_get_searchlight_neighbors(mask, centre, radius) against Neighbours(centre, r, shape)."""
    sl = _sl()
    shape = tuple(rec['shape'])
    mask = np.ones(shape, dtype=MASK_DTYPES[variant % len(MASK_DTYPES)])
    centre = tuple(rec['centre'])
    cflav = [centre, list(centre), np.array(centre)][variant % 3]
    radius = fnum(rec['rad'], variant)
    exp = sorted(tuple(v) for v in rec['nb'])
    try:
        out = sl._get_searchlight_neighbors(mask, cflav, radius)
    except Exception as e:   # total on every in-volume centre
        return [(f'a/neighbours/raises/{type(e).__name__}', f'_get_searchlight_neighbors raises {e!r}',
                 {'shape': shape, 'centre': centre, 'radius': radius})]
    got = list(zip(*[list(map(int, a)) for a in out])) if len(out) == 3 else None
    bad = []
    if got is None or sorted(got) != exp:
        bad.append(('a/neighbours/membership',
                    'searchlight is not exactly the in-volume voxels with distance < radius',
                    {'shape': shape, 'centre': centre, 'radius': radius, 'expected': exp,
                     'got': sorted(got) if got else repr(out)}))
    return bad


# ------------------------------------------------------------------ clauses a+b: all centres of a mask
def run_volume(shape, lin, rad, thr, variant=0):
    """call get_volume_searchlight; returns ('ok', centres, [neighbour arrays]) or ('raise', exc)"""
    sl = _sl()
    mask = make_mask(shape, lin, MASK_DTYPES[variant % len(MASK_DTYPES)])
    if variant % 5 == 4:
        mask = np.asfortranarray(mask)
    try:
        with quiet():
            centres, neigh = sl.get_volume_searchlight(mask, radius=fnum(rad, variant), threshold=fnum(thr, 1))
    except Exception as e:
        return 'raise', e, None
    return 'ok', centres, neigh


def check_vol(rec, variant=0):
    shape = tuple(rec['shape'])
    case = {'shape': shape, 'mask': rec['mask'], 'radius': rec['rad'], 'threshold': rec['thr'],
            'mask_dtype': MASK_DTYPES[variant % len(MASK_DTYPES)]}
    st, centres, neigh = run_volume(shape, rec['mask'], rec['rad'], rec['thr'], variant)
    exp_c = list(rec['centres'])
    if st == 'raise':
        if not exp_c:
            # no voxel qualifies: the code fails inside numpy.ravel_multi_index on the empty list.  The
            # property speaks about the centres that are returned; an empty result is not demanded.
            return [('unsupported', f'no-accepted-centre/{type(centres).__name__}', repr(centres))]
        return [(f'b/volume/raises/{type(centres).__name__}',
                 f'get_volume_searchlight raises {centres!r} although centres qualify', case)]
    bad = []
    got_c = [int(x) for x in np.asarray(centres).ravel()]
    # the property fixes the SET of accepted centres and the pairing centre <-> neighbour list, not the order
    # in which centres are listed (on this tree: ascending linear index, as in the model)
    if sorted(got_c) != sorted(exp_c) or len(set(got_c)) != len(got_c):
        bad.append(('b/centres', 'accepted centres differ from the mask voxels whose in-mask fraction >= threshold '
                    '(linear C-order indices)', {**case, 'expected': exp_c, 'got': got_c}))
        return bad
    if len(neigh) != len(exp_c):
        bad.append(('b/neighbour-lists/count', 'number of neighbour lists differs from the number of centres',
                    {**case, 'n_lists': len(neigh), 'n_centres': len(exp_c)}))
        return bad
    exp_map = {c: sorted(nb) for c, nb in zip(exp_c, rec['neigh'])}
    for i, nb in enumerate(neigh):
        g = [int(x) for x in np.asarray(nb).ravel()]
        if sorted(g) != exp_map[got_c[i]]:
            bad.append(('a/volume/membership', 'neighbour list i is not the searchlight of centre i '
                        '(linear indices consistent with the centres, every voxel once)',
                        {**case, 'position': i, 'centre': got_c[i], 'expected': exp_map[got_c[i]], 'got': sorted(g)}))
            break
    return bad


# ------------------------------------------------------------------ clause c: RDM per centre
def token_data(n_obs, n_vox, seed):
    """integer data, all entries distinct, so that a value identifies (observation, voxel)"""
    rng = np.random.default_rng(seed)
    perm = rng.permutation(n_obs * n_vox)
    return perm.reshape(n_obs, n_vox).astype(float), perm


# (repetitions per condition): balanced 2-5 conditions, single repetitions, unbalanced designs
EVENT_DESIGNS = [[2, 2, 2], [2, 2], [2, 2, 2, 2], [3, 3, 3, 3, 3], [3, 3, 3], [1, 2, 3], [1, 1, 1, 1], [3, 1, 2, 1]]


def design_ok(reps, method):
    """cross-validated methods need the same number (>= 2) of repetitions of every condition"""
    return method not in ('crossnobis', 'poisson_cv') or (len(set(reps)) == 1 and reps[0] >= 2)


def events_for(n_cond, n_rep, variant, seed, reps=None):
    rng = np.random.default_rng(seed + 17)
    ev = np.repeat(np.arange(n_cond), n_rep if reps is None else reps)
    if (variant // 3) % 2 == 1:
        ev = ev[rng.permutation(len(ev))]                      # interleaved trials
    lab = [np.array([3, 1, 7, 5, 9, 11])[:n_cond][ev],        # non-contiguous ints, not in sorted order of first use
           np.array(['c', 'a', 'd', 'b', 'f', 'e'])[:n_cond][ev],
           ev.astype(float)][variant % 3]
    return lab


def euclid_kernel(data, events, cols):
    """independent oracle: squared euclidean distance between condition means / number of voxels,
    conditions in sorted label order, pairs in condensed (row-major upper triangle) order"""
    labs = sorted(set(events.tolist()))
    means = np.array([data[:, cols][events == a].mean(axis=0) for a in labs])
    out = []
    for i in range(len(labs)):
        for j in range(i + 1, len(labs)):
            out.append(((means[i] - means[j]) ** 2).sum() / len(cols))
    return np.array(out)


ORDERS = ['ascending', 'reversed', 'shuffled']
ORDERS_MORE = ORDERS + ['rotated', 'subset', 'interleaved']


def permute_centres(n, order, seed):
    idx = list(range(n))
    if order == 'reversed':
        return idx[::-1]
    if order == 'shuffled':
        return [int(x) for x in np.random.default_rng(seed + 3).permutation(n)]
    if order == 'rotated':
        k = n // 3 + 1
        return idx[k:] + idx[:k]
    if order == 'subset':            # a caller may ask for some of the centres only
        return [int(x) for x in np.random.default_rng(seed + 5).permutation(n)][:max(1, n // 2)]
    if order == 'interleaved':
        return idx[::2] + idx[1::2]
    return idx


def check_rdms(shape, centres, neigh, method, variant=0, seed=0, n_cond=3, n_rep=2, record_inputs=True,
               dtype='float64', order='ascending', reps=None):
    """get_searchlight_RDMs(data, centres, neighbours, events, method) against a direct calc_rdm on the
    columns of every searchlight.  ``dtype`` is the dtype of the data matrix handed over (the tokens are
    integers, so an integer matrix is natural); the direct computation always uses a float64 copy of the same
    values.  Returns (violations, info)."""
    import rsatoolbox
    from rsatoolbox.data import Dataset
    sl = _sl()
    # the caller may pass any subset / order of centres with the matching neighbour lists: RDM i and
    # voxel_index[i] must belong to the i-th centre AS PASSED
    if order != 'ascending' and len(centres) > 1:
        idx = permute_centres(len(centres), order, seed)
        centres = [centres[j] for j in idx]
        neigh = [neigh[j] for j in idx]
    n_vox = int(np.prod(shape))
    if reps is not None:
        n_cond = len(reps)
    n_obs = n_cond * n_rep if reps is None else int(sum(reps))
    data, perm = token_data(n_obs, n_vox, seed)
    events = events_for(n_cond, n_rep, variant, seed, reps)
    if dtype == 'float64' and (method == 'correlation' or method == 'mahalanobis'):
        data = data / 7.0
    typed = data.astype(dtype)                 # integer tokens: exact in every dtype used (max 6 * n_vox < 32767)
    data = typed.astype('float64')
    if not np.array_equal(data, typed):
        raise ValueError('token data not representable in ' + dtype)
    c_in = np.array(centres, dtype=int)
    nb_in = [np.array(n, dtype=int) for n in neigh]
    if variant % 2 == 1 and dtype == 'float64':
        data_in, ev_in = data.tolist(), list(events.tolist())
    else:
        data_in, ev_in = typed, events
    # same float computation on float64 / integer data; float32 input is legitimately averaged in float32 (means of
    # thirds are rounded to 6e-8, and differences of close means cancel): tolerance relative to the largest entry
    rtol = 1e-5 if dtype == 'float32' else 1e-12
    atol_rel = 1e-6 if dtype == 'float32' else 0.0
    case = {'shape': list(shape), 'n_centres': len(centres), 'method': method, 'variant': variant, 'seed': seed,
            'events': events.tolist(), 'data_dtype': dtype, 'centre_order': order, 'reps': reps}
    seen = []
    real_calc = sl.calc_rdm

    def spy(dataset, *a, **k):
        if isinstance(dataset, list):
            seen.append([np.array(d.measurements) for d in dataset])
        return real_calc(dataset, *a, **k)
    if record_inputs:
        sl.calc_rdm = spy
    try:
        with quiet():
            rdms = sl.get_searchlight_RDMs(data_in, c_in, nb_in, ev_in, method=method, verbose=False)
    except Exception as e:
        sizes = sorted({len(x) for x in neigh})
        cls = 'unequal-sizes' if len(sizes) > 1 else 'equal-sizes'
        return [(f'c/rdms/raises/{type(e).__name__}/method={method}/{cls}',
                 f'get_searchlight_RDMs(method={method!r}) raises {e!r} (searchlight sizes {sizes})', case)], {}
    finally:
        sl.calc_rdm = real_calc
    bad = []
    info = {'chunks': [len(x) for x in seen]}
    diss = np.asarray(rdms.dissimilarities)
    n_pairs = n_cond * (n_cond - 1) // 2
    if diss.shape != (len(centres), n_pairs):
        return [('c/rdms/shape', 'not one RDM per centre over the event conditions',
                 {**case, 'shape_got': list(diss.shape), 'shape_expected': [len(centres), n_pairs]})], info
    vi = rdms.rdm_descriptors.get('voxel_index')
    if vi is None or [int(x) for x in vi] != [int(x) for x in centres]:
        bad.append(('c/rdms/voxel_index', "rdm_descriptors['voxel_index'] is not the list of centres in the order passed",
                    {**case, 'got': None if vi is None else [int(x) for x in vi][:20]}))
    # inputs handed to calc_rdm, in order: dataset i must hold exactly the columns of searchlight i
    if record_inputs:
        flat = [m for call in seen for m in call]
        if len(flat) != len(centres):
            bad.append(('c/rdms/inputs/count', 'calc_rdm did not receive one dataset per centre',
                        {**case, 'n_datasets': len(flat)}))
        else:
            for i, m in enumerate(flat):
                if not np.array_equal(m, data[:, nb_in[i]]):
                    where = {float(data[0, v]): v for v in range(n_vox)}      # token -> voxel
                    cols = sorted(where.get(float(x), -1) for x in m[0]) if m.size else []
                    bad.append(('c/rdms/inputs/columns', 'the dataset built for a centre does not hold the data columns '
                                'of its searchlight', {**case, 'position': i, 'centre': int(centres[i]),
                                                       'expected_columns': sorted(map(int, neigh[i])), 'got_columns': cols}))
                    break
    for i in range(len(centres)):
        ds = Dataset(data[:, nb_in[i]], obs_descriptors={'events': events})
        direct = rsatoolbox.rdm.calc_rdm(ds, method=method, descriptor='events').dissimilarities[0]
        scale = float(np.nanmax(np.abs(direct))) if np.isfinite(direct).any() else 0.0
        if not np.allclose(diss[i], direct, rtol=rtol, atol=1e-12 + atol_rel * scale, equal_nan=True):
            bad.append((f'c/rdms/value/{"chunked" if len(centres) > 1000 else "unchunked"}',
                        'RDM reported for a centre differs from calc_rdm on (a float64 copy of) the columns of its searchlight',
                        {**case, 'position': i, 'centre': int(centres[i]), 'columns': list(map(int, neigh[i])),
                         'got': diss[i].tolist(), 'direct': direct.tolist()}))
            break
        if method == 'euclidean':
            k = euclid_kernel(data, events, nb_in[i])
            # the code's formula |a|^2 + |b|^2 - 2 a.b cancels: error ~ 1e-16 * (largest entry), not of the entry itself
            if not np.allclose(diss[i], k, rtol=max(rtol, 1e-9), atol=1e-9 + max(atol_rel, 1e-10) * scale):
                bad.append(('c/rdms/value/kernel', 'euclidean searchlight RDM differs from the textbook formula '
                            'on condition means in sorted label order',
                            {**case, 'position': i, 'centre': int(centres[i]), 'got': diss[i].tolist(), 'kernel': k.tolist()}))
                break
    return bad, info


# ------------------------------------------------------------------ clause d: model evaluation over searchlights
def theta_sig(theta):
    """a hashable signature of the theta argument an evaluation function received"""
    if theta is None:
        return None
    if isinstance(theta, np.ndarray):
        return np.asarray(theta, dtype=float).round(12).tolist()
    return [np.asarray(t, dtype=float).round(12).tolist() if t is not None else None for t in theta]


def token_eval(models, rdm, method='corr', theta=None):
    """evaluation function whose result names the searchlight it was given (and echoes method / theta); later
    centres finish FIRST (decreasing sleep), so completion order differs from submission order whenever jobs
    run in parallel"""
    idx = int(rdm.rdm_descriptors['voxel_index'][0])
    pos = int(rdm.rdm_descriptors['pos'][0])
    n = int(rdm.rdm_descriptors['n'][0])
    time.sleep(0.002 * (n - pos))
    return ('tok', idx, pos, float(np.nansum(rdm.dissimilarities)), method, theta_sig(theta))


def worker_env():
    """joblib (loky) workers are fresh interpreters: make them import the same rsatoolbox and this module"""
    from harness.core import REPO, VERIF
    os.environ['PYTHONPATH'] = os.pathsep.join([str(REPO / 'src'), str(VERIF)] +
                                               [p for p in os.environ.get('PYTHONPATH', '').split(os.pathsep) if p])


def check_eval(sl_rdms, n_jobs_list=(1, 2, 4), method='corr', model_types=False):
    """evaluate_models_searchlight: one result per centre, in centre order, for every n_jobs - result i being the
    evaluation of centre i's RDM with the models, method and theta that were passed.  Model sets: fixed models
    (theta None), parametrised models (ModelWeighted) with theta None and with an EXPLICIT theta."""
    from rsatoolbox.inference import eval_fixed
    from rsatoolbox.model import ModelFixed, ModelWeighted
    sl = _sl()
    worker_env()
    n = sl_rdms.n_rdm
    n_cond = sl_rdms.n_cond
    n_pair = n_cond * (n_cond - 1) // 2
    rng = np.random.default_rng(5)
    fixed = [ModelFixed('m1', rng.random(n_pair)), ModelFixed('m2', rng.random(n_pair))]
    weighted = [ModelWeighted('w1', rng.random((2, n_pair))), ModelWeighted('w2', rng.random((3, n_pair)))]
    theta = [np.array([0.15, 1.0]), np.array([1.0, 0.05, 0.4])]
    sl_rdms = sl_rdms.copy() if hasattr(sl_rdms, 'copy') else sl_rdms
    sl_rdms.rdm_descriptors['pos'] = np.arange(n)
    sl_rdms.rdm_descriptors['n'] = np.full(n, n)
    centres = [int(x) for x in sl_rdms.rdm_descriptors['voxel_index']]
    case = {'n_centres': n, 'method': method}
    bad = []
    # (evaluation function, models, theta): direct per-centre reference computed WITHOUT the function under test
    setups = [('token', token_eval, weighted, theta), ('eval_fixed/weighted/theta', eval_fixed, weighted, theta),
              ('eval_fixed/weighted/none', eval_fixed, weighted, None), ('eval_fixed/fixed/none', eval_fixed, fixed, None)]
    if model_types:
        # every model class of rsatoolbox.model, a single model instead of a list, a mixed list
        from rsatoolbox.model import ModelSelect, ModelInterpolate
        sel = ModelSelect('s', rng.random((3, n_pair)))
        itp = ModelInterpolate('i', rng.random((3, n_pair)))
        setups += [('eval_fixed/select/theta', eval_fixed, [sel], [2]),
                   ('eval_fixed/interpolate/theta', eval_fixed, [itp], [np.array([0.0, 0.3, 0.7])]),
                   ('eval_fixed/single-model/theta', eval_fixed, weighted[0], [theta[0]]),
                   ('eval_fixed/mixed/theta', eval_fixed, [fixed[0], weighted[1], sel, itp],
                    [None, theta[1], 1, np.array([0.6, 0.4, 0.0])])]
    refs = {name: [eval_fixed(mods, sl_rdms[i], theta=th, method=method).evaluations for i in range(n)]
            for name, fn, mods, th in setups if fn is eval_fixed}
    if all(np.allclose(a, b) for a, b in zip(refs['eval_fixed/weighted/theta'], refs['eval_fixed/weighted/none'])):
        from harness.core import MachineryError
        raise MachineryError('explicit theta does not change the reference evaluation: setup vacuous')
    nev = 0
    # the object passed in may be a SELECTION / RE-ORDERING of the searchlight output (it keeps the original
    # positions in its 'index' descriptor): one result per element of the object passed, in its order
    perm = [int(x) for x in np.random.default_rng(11).permutation(n)]
    roi = sorted(centres[1::2])
    derived = [('reversed/getitem-list', sl_rdms[list(range(n))[::-1]]), ('permuted/getitem-array', sl_rdms[np.array(perm)]),
               ('roi/subset-voxel_index', sl_rdms.subset('voxel_index', roi)),
               ('picked/getitem-list', sl_rdms[[perm[0], perm[1], perm[2]]])]
    for dname, obj in derived:
        m = obj.n_rdm
        exp_centres = [int(x) for x in obj.rdm_descriptors['voxel_index']]
        dref = [eval_fixed(weighted, obj[i], theta=theta, method=method).evaluations for i in range(m)]
        for nj in n_jobs_list[:2]:
            cls = 'parallel' if nj > 1 else 'sequential'
            for name, fn in (('token', token_eval), ('eval_fixed', eval_fixed)):
                try:
                    with quiet():
                        res = sl.evaluate_models_searchlight(obj, weighted, fn, method=method, theta=theta, n_jobs=nj)
                except Exception as e:
                    bad.append((f'd/eval/derived-object/raises/{type(e).__name__}',
                                f'evaluate_models_searchlight raises {e!r} on a selection / re-ordering of the searchlight RDMs',
                                {**case, 'n_jobs': nj, 'object': dname, 'n_rdm': m}))
                    continue
                nev += 1
                res = list(res)
                if len(res) != m:
                    bad.append(('d/eval/derived-object/count', 'not one result per RDM of the object passed in',
                                {**case, 'n_jobs': nj, 'object': dname, 'n_results': len(res), 'n_rdm': m}))
                elif name == 'token' and [r[1] for r in res] != exp_centres:
                    bad.append((f'd/eval/derived-object/order/{cls}', 'results are not in the order of the RDMs object passed in',
                                {**case, 'n_jobs': nj, 'object': dname, 'expected': exp_centres[:12],
                                 'got': [r[1] for r in res][:12]}))
                elif name != 'token' and any(not np.array_equal(np.asarray(r.evaluations), np.asarray(d), equal_nan=True)
                                             for r, d in zip(res, dref)):
                    bad.append((f'd/eval/derived-object/value/{cls}', 'result i is not the evaluation of the i-th RDM of the '
                                'object passed in', {**case, 'n_jobs': nj, 'object': dname}))
    for nj in n_jobs_list:
        for name, fn, mods, th in setups:
            cls = 'parallel' if nj > 1 else 'sequential'
            try:
                with quiet():
                    res = sl.evaluate_models_searchlight(sl_rdms, mods, fn, method=method, theta=th, n_jobs=nj)
            except Exception as e:
                bad.append((f'd/eval/raises/{type(e).__name__}', f'evaluate_models_searchlight(n_jobs={nj}) raises {e!r}',
                            {**case, 'n_jobs': nj, 'setup': name}))
                continue
            nev += 1
            if not isinstance(res, (list, tuple)):
                res = list(res)
            if len(res) != n:
                bad.append(('d/eval/count', 'not one result per centre', {**case, 'n_jobs': nj, 'n_results': len(res)}))
                continue
            if name == 'token':
                got = [r[1] for r in res]
                if got != centres:
                    bad.append((f'd/eval/order/{cls}', 'results are not in centre order',
                                {**case, 'n_jobs': nj, 'expected': centres[:12], 'got': got[:12]}))
                elif any(r[4] != method or r[5] != theta_sig(th) for r in res):
                    bad.append((f'd/eval/arguments/{cls}', 'the evaluation function did not receive the method / theta '
                                'that were passed', {**case, 'n_jobs': nj, 'passed_theta': theta_sig(th),
                                                     'received': [list(r[4:]) for r in res[:2]]}))
            else:
                for i, r in enumerate(res):
                    if not np.array_equal(np.asarray(r.evaluations), np.asarray(refs[name][i]), equal_nan=True):
                        k = 'theta' if name.endswith('/theta') else 'value'
                        bad.append((f'd/eval/{k}/{cls}', 'result i is not the evaluation of the RDM of centre i with the '
                                    'models, method and theta passed (direct eval_fixed on that RDM)',
                                    {**case, 'n_jobs': nj, 'setup': name, 'position': i,
                                     'got': np.asarray(r.evaluations).tolist(),
                                     'expected': np.asarray(refs[name][i]).tolist()}))
                        break
    return bad, nev


# ------------------------------------------------------------------ impl -> spec: recorded executions
RAD_POOL = [[1, 2], [1, 1], [5, 4], [7, 5], [3, 2], [17, 10], [7, 4], [2, 1], [9, 4], [5, 2], [29, 10], [3, 1],
            [2, 1, 1], [3, 1, 1], [5, 1, 1], [6, 1, 1]]          # [k, m, 1]: the irrational radius sqrt(k/m)
THR_POOL = [[0, 1], [1, 4], [1, 3], [1, 2], [3, 5], [2, 3], [7, 10], [3, 4], [9, 10], [1, 1]]


def record_trace(seed, max_vox=140):
    """random larger masks / radii / thresholds; returns (events, n_unsupported)"""
    sl = _sl()
    rng = np.random.default_rng(seed)
    events = []
    unsupported = 0
    while True:
        shape = tuple(int(x) for x in rng.integers(1, 8, size=3))
        if 8 <= np.prod(shape) <= max_vox:
            break
    dens = [0.5, 0.7, 0.85, 0.95, 1.0][int(rng.integers(5))]
    lin = [int(k) for k in np.nonzero(rng.random(int(np.prod(shape))) < dens)[0]]
    # blobs: masks in real data are contiguous; carve a corner out as well
    if rng.random() < 0.5:
        m = make_mask(shape, lin, 'bool')
        m[:max(1, shape[0] // 2), :max(1, shape[1] // 2), :] = rng.random() < 0.5
        lin = [int(k) for k in np.nonzero(m.ravel())[0]]
    for _ in range(2):
        rad = RAD_POOL[int(rng.integers(len(RAD_POOL)))]
        thr = THR_POOL[int(rng.integers(len(THR_POOL)))]
        variant = int(rng.integers(20))
        st, centres, neigh = run_volume(shape, lin, rad, thr, variant)
        if st == 'raise':
            # recorded too: the trace specification accepts a raise only when no centre qualifies
            unsupported += 1
            events.append({'op': 'volraise', 'shape': list(shape), 'mask': lin, 'rad': rad, 'thr': thr,
                           'error': type(centres).__name__})
            continue
        events.append({'op': 'vol', 'shape': list(shape), 'mask': lin, 'rad': rad, 'thr': thr,
                       'centres': [int(x) for x in np.asarray(centres).ravel()],
                       'neigh': [[int(x) for x in np.asarray(n).ravel()] for n in neigh]})
    for _ in range(3):
        rad = RAD_POOL[int(rng.integers(len(RAD_POOL)))]
        centre = [int(rng.integers(s)) for s in shape]
        out = sl._get_searchlight_neighbors(np.ones(shape, dtype=bool), tuple(centre), fnum(rad, 1))
        events.append({'op': 'nb', 'shape': list(shape), 'centre': centre, 'rad': rad,
                       'out': [[int(a), int(b), int(c)] for a, b, c in zip(*out)]})
    return events, unsupported


def check_error_branches():
    """get_volume_searchlight documents a 3-dimensional mask (assert)"""
    sl = _sl()
    bad = []
    for m in (np.ones((3, 3)), np.ones((2, 2, 2, 2))):
        try:
            with quiet():
                sl.get_volume_searchlight(m, radius=1, threshold=1.0)
            bad.append(('b/volume/accepts-non-3d-mask', 'get_volume_searchlight accepts a mask that is not 3-dimensional',
                        {'ndim': m.ndim}))
        except AssertionError:
            pass
        except Exception as e:
            bad.append((f'b/volume/non-3d-mask/{type(e).__name__}', f'non-3-d mask fails with {e!r}, not the documented '
                        'assertion', {'ndim': m.ndim}))
    return bad
