"""Drivers and projection for rsatoolbox.simulation (property C18).

The only place of the C18 check that knows rsatoolbox.  A record emitted by specs/Simulation.tla carries a
point configuration (hence an embeddable model RDM with exact integer squared distances), the design,
flavours, the protocol of random draws and the exact expected RDM; ``check_case`` replays it into
make_design / make_dataset / calc_rdm with forced or seeded numpy draws.

Tolerance for clause a: |rdm - signal * model| <= 1e-5 * max(signal * model).  make_signal whitens the draw
with an LDL factorisation whose factor D is clipped with ``D[D < 1e-15] = 1e-15`` applied to the FULL matrix,
so the zero off-diagonal entries become 1e-15 and their square roots 3.2e-8; the measured relative error is
<= 2e-7 (n_channel >= n_cond).  Everything else is exact or 1e-9.
"""
from __future__ import annotations

import contextlib

import numpy as np

RTOL_RDM = 1e-5


def cfg(mode, *, nconds, grid='GridA', catalogue='CatAll', offs='OffsNeg', nparts='{1,2,3}', nsims='{1,2,3}',
        keepmod=1, salt=0, emit=True):
    lines = ['CONSTANTS', '  Dim = 4', f'  NConds {"=" if nconds.startswith("{") else "<-"} {nconds}', f'  Grid <- {grid}', f'  Catalogue <- {catalogue}',
             f'  Mode = "{mode}"', f'  ChanOffsets <- {offs}', f'  NParts = {nparts}', f'  NSims = {nsims}',
             '  Signals <- Sig3', '  NoiseRoots <- Roots', f'  KeepMod = {keepmod}', f'  Salt = {salt}',
             'INIT Init', 'NEXT Next']
    lines += [f'INVARIANT {i}' for i in ('DesignOk', 'GramOk', 'SignalOk', 'Contract', 'EncContract', 'SameSignal',
                                         'DrawCount', 'NoiseRelation', 'NoiseStructure')]
    if mode == 'design':
        lines = [x for x in lines if not x.startswith('INVARIANT')] + ['INVARIANT DesignSweepOk', 'INVARIANT EmitDesign']
    elif emit:
        lines.append('INVARIANT Emit')
    lines.append('CHECK_DEADLOCK FALSE')
    return '\n'.join(lines) + '\n'


PMIN = 1e-3      # admissible draws: smallest non-null LDL pivot of the centred draw's Gram matrix


def min_pivot(u):
    """smallest non-null pivot of E = Uc Uc^T (Uc = norm.ppf(u), rows centred), the matrix make_signal
    factorises.  The relative error of the exact signal is <= 7.3e-8 / sqrt(min pivot) (measured over 38 000
    draws, all channel counts): sqrt(D) is perturbed by 3.2e-8 in every entry."""
    import scipy.linalg as sl
    import scipy.stats as ss
    U = ss.norm.ppf(u)
    U = U - U.mean(axis=1, keepdims=True)
    _, D, _ = sl.ldl(U @ U.T)
    piv = np.sort(np.diag(D))
    null = 1 if U.shape[0] >= U.shape[1] else 0
    return float(piv[null]) if len(piv) > null else 1.0


class ForcedUniform:
    """substitute for numpy.random.uniform during one call of make_dataset: call k returns the draw of a
    generator seeded by (seed, k) - the same stream for every call with the same seed - and is recorded.
    Draws of the signal shape are re-drawn (deterministically) until they are admissible (min pivot >= PMIN).
    With ``passthrough`` the real numpy generator is used and only recorded."""

    def __init__(self, seed, signal_shape=None, passthrough=None):
        self.seed = seed
        self.calls = []
        self.values = []
        self.signal_shape = tuple(signal_shape) if signal_shape else None
        self.passthrough = passthrough
        self.redrawn = 0

    def __call__(self, low=0.0, high=1.0, size=None):
        k = len(self.calls)
        shape = tuple(int(x) for x in np.atleast_1d(size)) if size is not None else ()
        self.calls.append(shape)
        if self.passthrough is not None:
            u = self.passthrough(low, high, size)
            self.values.append(u)
            return u
        for sub in range(200):
            rng = np.random.default_rng([self.seed, k, sub])
            # open interval: norm.ppf(0) = -inf would make the code's "ppf(u) * sqrt(0)" NaN (probability 2^-53)
            u = np.clip(rng.uniform(low, high, size), 1e-12, 1 - 1e-12)
            if shape != self.signal_shape or min_pivot(u) >= PMIN:
                break
            self.redrawn += 1
        self.values.append(u)
        return u

    def ill_conditioned(self):
        return any(v.shape == self.signal_shape and min_pivot(v) < PMIN for v in self.values
                   if hasattr(v, 'shape'))


@contextlib.contextmanager
def forced(seed, signal_shape=None, passthrough=False):
    real = np.random.uniform
    f = ForcedUniform(seed, signal_shape, real if passthrough else None)
    np.random.uniform = f
    try:
        yield f
    finally:
        np.random.uniform = real


def spd(n, seed):
    rng = np.random.default_rng(seed)
    a = rng.normal(size=(n, n))
    return a @ a.T / n + 0.5 * np.eye(n)


def by_condition_rdm(ds, design, labels):
    """the loop THROUGH calc_rdm; returns (rdm vector, note).  Condition vector: calc_rdm on the dataset as
    returned, descriptor 'cond_vec'.  calc_rdm copies every dataset descriptor into rdm_descriptors and every
    constant obs descriptor into pattern descriptors; it cannot do that for an array-valued 'theta' or for
    the 2-d 'cond_vec' of the design-matrix flavour and raises.  The property speaks about the data, so the
    RDM is then computed from a Dataset rebuilt from the measurements and the labels (design matrix: column
    index of each row's 1), and the exception is noted as an unsupported class."""
    import rsatoolbox
    from rsatoolbox.data import Dataset
    note = None
    if design == 'vector':
        try:
            return rsatoolbox.rdm.calc_rdm(ds, method='euclidean', descriptor='cond_vec').dissimilarities[0], None
        except (AttributeError, TypeError) as e:
            note = (f'returned-dataset/calc_rdm/{type(e).__name__}', repr(e))
            labels = np.asarray(ds.obs_descriptors['cond_vec'])
    d2 = Dataset(np.array(ds.measurements), obs_descriptors={'cond': np.asarray(labels)})
    return rsatoolbox.rdm.calc_rdm(d2, method='euclidean', descriptor='cond').dissimilarities[0], note


def build_model(model_vec, variant):
    """every model class of rsatoolbox.model, parametrised so that model.predict(theta) is the emitted RDM"""
    from rsatoolbox.model import ModelFixed, ModelWeighted, ModelSelect, ModelInterpolate
    v = np.asarray(model_vec, dtype=float)
    k = variant % 6
    if k == 2:
        model, theta = ModelWeighted('w', np.array([0.25 * v, 0.75 * v])), np.array([1.0, 1.0])
    elif k == 4:
        model, theta = ModelSelect('s', np.array([v + 1.0, v, 2.0 * v])), 1
    elif k == 5:
        model, theta = ModelInterpolate('i', np.array([0.5 * v, 2.0 * v, 3.0 * v])), np.array([2.0 / 3.0, 1.0 / 3.0, 0.0])
    else:
        model, theta = ModelFixed('m', v), None
    if not np.allclose(model.predict(theta), v, rtol=1e-12, atol=1e-12):
        raise AssertionError('driver: model.predict(theta) is not the emitted model RDM')
    return model, theta


def check_case(rec, seed, variant=0, consistency=True):
    """returns (violations [(key, what, detail)], unsupported [(cls, msg)], n_evaluations, info)"""
    from rsatoolbox.simulation import make_design, make_dataset
    bad, unsup = [], []
    n, P, n_part, n_sim = rec['n'], rec['P'], rec['nPart'], rec['nSim']
    sig = rec['sig'][0] / rec['sig'][1]
    root = rec['root'][0] / rec['root'][1]
    model_vec = np.asarray(rec['model'], dtype=float)
    case = {k: rec[k] for k in ('n', 'pts', 'P', 'nPart', 'nSim', 'sig', 'design', 'same', 'order', 'lab',
                                 'covsig', 'cls', 'model')}
    case.update(seed=seed, variant=variant)
    nev = 0

    # ---- clause b: make_design
    cond_vec, part_vec = make_design(n, n_part)
    nev += 1
    if (np.asarray(cond_vec).tolist() != [float(x) for x in rec['cond']]
            or np.asarray(part_vec).tolist() != [float(x) for x in rec['part']]):
        bad.append(('b/make_design', 'design vectors do not list every condition exactly once per partition as '
                    'MakeDesign(n_cond, n_part)', {**case, 'cond_vec': np.asarray(cond_vec).tolist(),
                                                   'part_vec': np.asarray(part_vec).tolist(),
                                                   'expected_cond': rec['cond'], 'expected_part': rec['part']}))
    else:
        pairs = sorted(zip(np.asarray(cond_vec).tolist(), np.asarray(part_vec).tolist()))
        if pairs != sorted((float(c), float(p)) for c in range(n) for p in range(n_part)):
            bad.append(('b/make_design', 'condition x partition pairs not each exactly once', case))

    # ---- the input handed to make_dataset
    labels = np.asarray(rec['labels'])
    if rec['order'] == 1 and rec['lab'] == 0:
        cond_in = np.asarray(cond_vec)                      # straight from make_design (float vector)
    elif rec['lab'] == 2:
        cond_in = labels.astype(float) / rec.get('labden', 8)        # fractional labels 0.125, 0.25, ...
    elif rec['lab'] == 3:
        cond_in = np.array([chr(96 + int(v)) for v in labels])        # string labels 'a', 'b', ...
    else:
        cond_in = labels.astype(float) if variant % 2 else labels.astype(int)
    Z = np.asarray(rec['Z'], dtype=float)
    arg = cond_in if rec['design'] == 'vector' else Z
    enc = rec['design'] == 'encoding'
    n_obs = int(rec.get('nobs', n * n_part))
    # design matrix: by-condition labels = column of each row's 1; encoding design: RDM by observation
    col_labels = np.arange(n_obs) if enc else np.argmax(Z, axis=1)
    model, theta = build_model(model_vec, variant)
    kw = dict(n_channel=P, n_sim=n_sim, signal=sig, use_exact_signal=True, use_same_signal=bool(rec['same']))
    if rec['covsig']:
        kw['signal_cov_channel'] = spd(P, 3)
    exp_calls = [(d[1], d[2]) for d in rec['draws']]
    sig_shape = (n, max(n, P))

    def call(noise, use_forced=True, **over):
        k2 = dict(kw)
        k2.update(over)
        if not use_forced:
            np.random.seed(seed % (2 ** 31))       # the real generator, only recorded
        with forced(seed, sig_shape, passthrough=not use_forced) as f:
            out = make_dataset(model, theta, arg, noise=noise, **k2)
        return out, f

    try:
        data0, f0 = call(0, use_forced=(variant % 4 != 3))
        nev += 1
    except Exception as e:
        if not rec['demanded']:
            unsup.append((f'negative-control/raises/{type(e).__name__}', repr(e)))
            return bad, unsup, nev, {}
        bad.append((f'a/make_dataset/raises/{type(e).__name__}', f'make_dataset raises {e!r} inside the contract', case))
        return bad, unsup, nev, {}

    # ---- clause c: descriptors; one dataset per simulation
    if len(data0) != n_sim:
        bad.append(('c/n_sim', 'number of datasets differs from n_sim', {**case, 'got': len(data0)}))
        return bad, unsup, nev, {}
    for k, ds in enumerate(data0):
        m = np.asarray(ds.measurements)
        if m.shape != (n_obs, P):
            bad.append(('c/shape', 'measurements are not n_obs x n_channel', {**case, 'shape': list(m.shape)}))
            return bad, unsup, nev, {}
        cv = ds.obs_descriptors.get('cond_vec')
        # element-wise, type-insensitive (1 == 1.0), shape-sensitive
        if cv is None or np.asarray(cv).shape != np.asarray(arg).shape or \
                not all(a == b for a, b in zip(np.asarray(cv).ravel().tolist(), np.asarray(arg).ravel().tolist())):
            bad.append(('c/obs_descriptor/cond_vec', "dataset does not carry the condition vector / design matrix it "
                        "was simulated with as obs_descriptors['cond_vec']",
                        {**case, 'sim': k, 'got': None if cv is None else np.asarray(cv).tolist()}))
            break
        d = ds.descriptors
        th_ok = (d.get('theta') is None) if theta is None else (
            d.get('theta') is not None and np.array_equal(np.asarray(d.get('theta')), np.asarray(theta)))
        if not (d.get('signal') == sig and d.get('noise') == 0 and d.get('model') == model.name and th_ok):
            bad.append(('c/descriptors', 'dataset descriptors do not carry the simulation parameters '
                        '(signal, noise, model name, theta)',
                        {**case, 'sim': k, 'got': {a: repr(b) for a, b in d.items()},
                         'expected': {'signal': sig, 'noise': 0, 'model': model.name, 'theta': repr(theta)}}))
            break

    # ---- clause d: protocol of the draws, same signal reused / fresh signal drawn
    if f0.calls != exp_calls:
        bad.append((f'd/draw-protocol/{"same" if rec["same"] else "fresh"}',
                    'sequence of random draws (numpy.random.uniform sizes) differs from the protocol: one signal '
                    'draw before the loop when the same signal is reused, else one per simulation; one noise '
                    'draw per simulation', {**case, 'expected': exp_calls, 'got': f0.calls}))
    ms = [np.asarray(ds.measurements) for ds in data0]
    if n_sim > 1 and float(np.abs(ms[0]).max()) > 0:
        if rec['same'] and not all(np.array_equal(ms[0], m) for m in ms[1:]):
            bad.append(('d/same-signal/not-reused', 'use_same_signal=True: noise-free datasets of different '
                        'simulations differ', case))
        if not rec['same'] and any(np.array_equal(ms[i], ms[j]) for i in range(n_sim) for j in range(i)):
            bad.append(('d/fresh-signal/reused', 'default (use_same_signal=False): two simulations have the '
                        'identical signal', case))

    # ---- clause a: the loop through calc_rdm
    info = {'err': 0.0}
    if rec['demanded'] and f0.ill_conditioned():
        unsup.append(('ill-conditioned-draw', 'seeded draw with a pivot < 1e-3: RDM identity not compared'))
    elif rec['demanded']:
        expect = np.array([a / b for a, b in rec['rdm']], dtype=float)
        if consistency and not enc and not np.allclose(expect, sig * model_vec, rtol=1e-12, atol=0):
            raise AssertionError('specification inconsistent: emitted rdm != sig * model')
        scale = float(expect.max()) if len(expect) else 0.0
        for k, ds in enumerate(data0):
            try:
                got, note = by_condition_rdm(ds, 'matrix' if enc else rec['design'], col_labels)
                if note:
                    unsup.append(note)
            except Exception as e:
                bad.append((f'a/calc_rdm/raises/{type(e).__name__}', f'calc_rdm on the simulated dataset raises {e!r}', case))
                break
            nev += 1
            if np.asarray(got).shape != expect.shape:
                bad.append(('a/rdm/n-conditions', 'the by-condition RDM of the simulated dataset does not have one entry '
                            'per pair of the conditions it was simulated with',
                            {**case, 'sim': k, 'n_pairs_expected': int(len(expect)), 'n_pairs_got': int(np.asarray(got).size)}))
                break
            err = float(np.max(np.abs(got - expect))) if len(expect) else 0.0
            rel = err / scale if scale > 0 else err
            info['err'] = max(info['err'], rel if rec['cls'] != 'early-dependent' else 0.0)
            if not rel <= RTOL_RDM:
                bad.append((f'enc/rdm/{rec["cls"]}' if enc else f'a/rdm/{rec["cls"]}',
                            'encoding design: RDM by observation differs from signal (z_a - z_b)^T G (z_a - z_b)' if enc else
                            'squared-euclidean RDM by condition of exact-signal, zero-noise data '
                            'differs from signal * model RDM (relative to the largest entry; tolerance 1e-5)',
                            {**case, 'sim': k, 'expected': expect.tolist(), 'got': np.asarray(got).tolist(),
                             'rel_err': rel}))
                break
        if rec['design'] != 'vector' and variant % 8 == 1:
            # observation only: calc_rdm on the dataset as returned (2-d obs descriptor)
            try:
                import rsatoolbox
                d0 = data0[0]
                d0.obs_descriptors['cond'] = col_labels
                rsatoolbox.rdm.calc_rdm(d0, method='euclidean', descriptor='cond')
            except Exception as e:
                unsup.append((f'design-matrix/calc_rdm-on-returned-dataset/{type(e).__name__}', repr(e)))
    else:
        info['negative'] = 1

    # ---- clause e: additive noise scaling with sqrt(variance); same forced draws for every call
    if variant % 4 != 3:
        nk = dict(use_exact_signal=bool(variant % 2))
        if rec['ncov']:
            nk['noise_cov_channel'] = spd(P, 11)
        v = root * root
        try:
            d0, _ = call(0, **nk)
            d1, f1 = call(1, **nk)
            dv, _ = call(v, **nk)
            dv2, _ = call(v, **{**nk, 'signal': sig * 3 + 1})
            d02, _ = call(0, **{**nk, 'signal': sig * 3 + 1})
            nev += 5
        except Exception as e:
            bad.append((f'e/make_dataset/raises/{type(e).__name__}', f'make_dataset with noise raises {e!r}', case))
            return bad, unsup, nev, info
        # clause d once more, on noise-free data of these calls (exact or non-exact signal)
        m0 = [np.asarray(x.measurements) for x in d0]
        if n_sim > 1 and float(np.abs(m0[0]).max()) > 0:
            if rec['same'] and not all(np.array_equal(m0[0], m) for m in m0[1:]):
                bad.append(('d/same-signal/not-reused', 'use_same_signal=True: noise-free datasets of different '
                            'simulations differ', {**case, 'use_exact_signal': nk['use_exact_signal']}))
            if not rec['same'] and any(np.array_equal(m0[i], m0[j]) for i in range(n_sim) for j in range(i)):
                bad.append(('d/fresh-signal/reused', 'default (use_same_signal=False): two simulations have the '
                            'identical signal', {**case, 'use_exact_signal': nk['use_exact_signal']}))
        for k in range(n_sim):
            a0, a1, av = (np.asarray(x[k].measurements) for x in (d0, d1, dv))
            n1 = a1 - a0
            nv = av - a0
            if not np.abs(n1).max() > 1e-3:
                bad.append(('e/no-noise', 'noise=1 adds no noise term', case))
                break
            if not np.allclose(nv, root * n1, rtol=1e-9, atol=1e-9 * max(1.0, float(np.abs(a0).max()))):
                ratio = float(np.median(np.abs(nv[np.abs(n1) > 1e-3] / n1[np.abs(n1) > 1e-3])))
                bad.append(('e/noise-scaling', 'data(noise=v) - data(noise=0) is not sqrt(v) * (data(noise=1) - '
                            'data(noise=0)) under identical draws',
                            {**case, 'variance': v, 'sqrt_v': root, 'observed_ratio': ratio, 'noise_cov': bool(rec['ncov'])}))
                break
            add = (np.asarray(dv2[k].measurements) - np.asarray(d02[k].measurements))
            if not np.allclose(add, nv, rtol=1e-9, atol=1e-9 * max(1.0, float(np.abs(a0).max()) * 4)):
                bad.append(('e/noise-additive', 'the noise term depends on the signal strength (not additive)',
                            {**case, 'variance': v}))
                break
            if dv[k].descriptors.get('noise') != v:
                bad.append(('c/descriptors', "descriptors['noise'] is not the requested variance",
                            {**case, 'got': repr(dv[k].descriptors.get('noise')), 'expected': v}))
                break
        # channel covariance of the noise term.  Which factor of the covariance is applied is not stated by the
        # property (the code uses eps @ chol(S)); convention-free relations: an identity covariance changes
        # nothing, 4 S doubles the noise term of S, and a non-identity S does change the noise term
        if rec['ncov'] and not bad:
            try:
                S0 = nk['noise_cov_channel']
                dI, _ = call(1, **{**nk, 'noise_cov_channel': np.eye(P)})
                dN, _ = call(1, **{k_: v_ for k_, v_ in nk.items() if k_ != 'noise_cov_channel'})
                d4, _ = call(1, **{**nk, 'noise_cov_channel': 4.0 * S0})
                nev += 3
                a0 = np.asarray(d0[0].measurements)
                nS = np.asarray(d1[0].measurements) - a0
                nI = np.asarray(dI[0].measurements) - a0
                nN = np.asarray(dN[0].measurements) - a0
                n4 = np.asarray(d4[0].measurements) - a0
                tol = 1e-9 * max(1.0, float(np.abs(a0).max()))
                if not np.allclose(nI, nN, rtol=1e-9, atol=tol):
                    bad.append(('e/noise-cov/identity', 'an identity noise_cov_channel changes the noise term', case))
                elif not np.allclose(n4, 2.0 * nS, rtol=1e-9, atol=tol):
                    bad.append(('e/noise-cov/scaling', 'noise term for covariance 4 S is not twice the term for S', case))
                elif P > 1 and np.allclose(nS, nN, rtol=1e-6, atol=1e-9):
                    bad.append(('e/noise-cov/ignored', 'a non-identity noise_cov_channel leaves the noise term unchanged', case))
            except Exception as e:
                bad.append((f'e/make_dataset/raises/{type(e).__name__}', f'make_dataset with noise covariance raises {e!r}', case))
        # covariance of the noise across TRIALS (documented: n_obs x n_obs).  Same convention-free relations, and
        # the square-root scaling with the variance must survive the structure
        if rec.get('tcov') and not bad:
            St = spd(n_obs, 13)
            try:
                tS, _ = call(1, **{**nk, 'noise_cov_trial': St})
                nev += 1
            except Exception as e:
                bad.append((f'e/noise-cov-trial/rejected/{type(e).__name__}',
                            f'make_dataset rejects a noise_cov_trial of the documented shape n_obs x n_obs: {e!r}',
                            {**case, 'n_obs': n_obs, 'n_channel': P}))
                return bad, unsup, nev, info
            try:
                tI, _ = call(1, **{**nk, 'noise_cov_trial': np.eye(n_obs)})
                t4, _ = call(1, **{**nk, 'noise_cov_trial': 4.0 * St})
                tv, _ = call(v, **{**nk, 'noise_cov_trial': St})
                nev += 3
                a0 = np.asarray(d0[0].measurements)
                tol = 1e-9 * max(1.0, float(np.abs(a0).max()))
                nS = np.asarray(tS[0].measurements) - a0
                if not np.allclose(np.asarray(tI[0].measurements), np.asarray(d1[0].measurements), rtol=1e-9, atol=tol):
                    bad.append(('e/noise-cov-trial/identity', 'an identity noise_cov_trial changes the noise term', case))
                elif not np.allclose(np.asarray(t4[0].measurements) - a0, 2.0 * nS, rtol=1e-9, atol=tol):
                    bad.append(('e/noise-cov-trial/scaling', 'noise term for trial covariance 4 S is not twice the term for S', case))
                elif not np.allclose(np.asarray(tv[0].measurements) - a0, root * nS, rtol=1e-9, atol=tol):
                    bad.append(('e/noise-cov-trial/variance', 'with a trial covariance the noise term does not scale with '
                                'sqrt(variance)', case))
                elif n_obs > 1 and np.allclose(nS, np.asarray(d1[0].measurements) - a0, rtol=1e-6, atol=1e-9):
                    bad.append(('e/noise-cov-trial/ignored', 'a non-identity noise_cov_trial leaves the noise term unchanged', case))
            except Exception as e:
                bad.append((f'e/make_dataset/raises/{type(e).__name__}', f'make_dataset with trial covariance raises {e!r}', case))
    return bad, unsup, nev, info


def check_make_signal(rec, seed):
    """make_signal(G, n_channel, make_exact, chol_channel) directly, G exact from the specification (2 n^2 G emitted
    as integers): shape n_cond x n_channel in every branch; make_exact: U U^T = n_channel G (n_channel >= n_cond);
    not exact: U = A W with A A^T = G, W the centred normal draw (n_channel > n_cond); chol_channel given:
    U = U(no chol) @ chol_channel under the same draw (what the docstring and the code say)."""
    import scipy.stats as ss
    from rsatoolbox.simulation import make_signal
    n, P = rec['n'], rec['P']
    G = np.asarray(rec['gram2'], dtype=float) / (2.0 * n * n)
    scale = max(float(np.abs(G).max()), 1e-300)
    case = {'n': n, 'P': P, 'pts': rec['pts'], 'seed': seed}
    bad = []
    shape = (n, max(n, P))
    out = {}
    for exact in (True, False):
        for chol in (None, np.linalg.cholesky(spd(P, 5))):
            with forced(seed, shape) as f:
                try:
                    U = make_signal(G.copy(), P, exact, chol)
                except Exception as e:
                    if chol is not None and P < n:
                        continue            # chol_channel with n_channel < n_cond: shapes cannot match (not demanded)
                    return [(f's/make_signal/raises/{type(e).__name__}', f'make_signal raises {e!r}',
                             {**case, 'make_exact': exact, 'chol': chol is not None})], 0
            out[(exact, chol is not None)] = (U, f)
            if np.asarray(U).shape != (n, P):
                return [('s/make_signal/shape', 'make_signal does not return n_cond x n_channel',
                         {**case, 'shape': list(np.asarray(U).shape), 'make_exact': exact})], len(out)
            if f.calls != [shape]:
                bad.append(('s/make_signal/draws', 'make_signal does not draw one n_cond x max(n_cond, n_channel) matrix',
                            {**case, 'calls': f.calls}))
    if bad:
        return bad, len(out)
    if P >= n:
        U = out[(True, False)][0]
        if not np.allclose(U @ U.T / P, G, rtol=0, atol=RTOL_RDM * scale):
            bad.append(('s/make_signal/exact', 'make_exact: U U^T / n_channel differs from G', {**case,
                        'err': float(np.abs(U @ U.T / P - G).max() / scale)}))
    if P >= n + 1:
        U, f = out[(False, False)]
        W = ss.norm.ppf(f.values[0])
        W = W - W.mean(axis=1, keepdims=True)
        A = U @ np.linalg.pinv(W)
        if not np.allclose(A @ A.T, G, rtol=0, atol=1e-6 * scale):
            bad.append(('s/make_signal/not-exact', 'make_exact=False: the signal is not (a square root of G) x the centred '
                        'normal draw', {**case, 'err': float(np.abs(A @ A.T - G).max() / scale)}))
    # the draw is centred per condition before it is used (both modes): without a channel covariance every pattern
    # of the signal has zero mean across the channels it was drawn for (n_channel >= n_cond: no truncation)
    if P >= n:
        for exact in (True, False):
            U = out[(exact, False)][0]
            if not np.allclose(U.sum(axis=1), 0, atol=1e-7 * np.sqrt(scale) * P):
                bad.append(('s/make_signal/zero-mean', 'signal patterns do not have zero mean across channels (the draw '
                            'is centred per condition)', {**case, 'make_exact': exact,
                                                          'row_sums': U.sum(axis=1).tolist()}))
                break
    for exact in (True, False):
        if (exact, True) in out and (exact, False) in out:
            chol = np.linalg.cholesky(spd(P, 5))
            if not np.allclose(out[(exact, True)][0], out[(exact, False)][0] @ chol, rtol=1e-9, atol=1e-9 * np.sqrt(scale * P)):
                bad.append(('s/make_signal/chol_channel', 'chol_channel: the signal is not U @ chol_channel', {**case, 'make_exact': exact}))
    return bad, len(out)


def check_design(rec):
    """make_design(n_cond, n_part) against MakeDesign of the specification (emitted by TLC) AND against the
    closed form cond[o] = o mod n_cond, part[o] = o div n_cond, exactly."""
    from rsatoolbox.simulation import make_design
    n, n_part = rec['n'], rec['nPart']
    cond_vec, part_vec = make_design(n, n_part)
    c, p = np.asarray(cond_vec).tolist(), np.asarray(part_vec).tolist()
    o = np.arange(n * n_part)
    closed = ((o % n).tolist(), (o // n).tolist())
    if (rec['cond'], rec['part']) != closed:
        raise AssertionError('MakeDesign of the specification differs from the closed form')
    if len(c) != n * n_part or len(p) != n * n_part or any(a != b for a, b in zip(c, closed[0])) \
            or any(a != b for a, b in zip(p, closed[1])):
        firsts = [i for i, (a, b) in enumerate(zip(p, closed[1])) if a != b][:5]
        return [('b/make_design', 'design vectors do not list every condition exactly once per partition as '
                 'MakeDesign(n_cond, n_part)', {'n_cond': n, 'n_part': n_part, 'first_wrong_partition_positions': firsts,
                                                'cond_ok': c == [float(x) for x in closed[0]]})]
    return []


def float_noise_case(seed):
    """clause e off the rational grid: irrational roots (trusted kernel: math.sqrt, cross-checked against the
    rational roots of the specification by check_case)"""
    from rsatoolbox.simulation import make_design, make_dataset
    from rsatoolbox.model import ModelFixed
    rng = np.random.default_rng(seed)
    n = int(rng.integers(2, 6))
    P = int(rng.integers(n, 2 * n + 1))
    pts = rng.normal(size=(n, 3))
    from scipy.spatial.distance import pdist
    model = ModelFixed('f', pdist(pts, 'sqeuclidean'))
    cv, _ = make_design(n, int(rng.integers(1, 4)))
    v = float(rng.choice([2.0, 0.3, 7.5, 1e-3, 123.0]))
    kw = dict(n_channel=P, n_sim=2, signal=float(rng.uniform(0.2, 3)), use_exact_signal=bool(rng.integers(2)),
              use_same_signal=bool(rng.integers(2)))
    if rng.integers(2):
        kw['noise_cov_channel'] = spd(P, seed)
    out = []
    for noise in (0, 1, v):
        with forced(seed):
            out.append(make_dataset(model, None, cv, noise=noise, **kw))
    bad = []
    for k in range(2):
        a0, a1, av = (np.asarray(x[k].measurements) for x in out)
        if not np.allclose(av - a0, np.sqrt(v) * (a1 - a0), rtol=1e-9, atol=1e-9 * max(1.0, float(np.abs(a0).max()))):
            bad.append(('e/noise-scaling', 'noise term does not scale with sqrt(variance) (real-valued model)',
                        {'seed': seed, 'variance': v, 'n': n, 'P': P, 'kw': {a: repr(b)[:40] for a, b in kw.items()}}))
            break
    return bad


def check_error_branches():
    """the documented rejections of make_dataset: cond_vec with more than two dimensions, channel covariances of
    the wrong shape -> ValueError"""
    from rsatoolbox.simulation import make_design, make_dataset
    from rsatoolbox.model import ModelFixed
    M = ModelFixed('m', np.array([1.0, 4.0, 1.0]))
    cv, _ = make_design(3, 2)
    bad = []
    for name, args, kw in (('cond_vec-3d', (M, None, np.zeros((6, 3, 1))), dict(n_channel=4)),
                           ('signal_cov_channel-shape', (M, None, cv), dict(n_channel=4, signal_cov_channel=np.eye(5))),
                           ('noise_cov_channel-shape', (M, None, cv), dict(n_channel=4, noise_cov_channel=np.eye(3)))):
        try:
            make_dataset(*args, **kw)
            bad.append((f'x/rejects/{name}', f'make_dataset accepts an argument it documents as invalid ({name})', {}))
        except ValueError:
            pass
        except Exception as e:
            bad.append((f'x/rejects/{name}/{type(e).__name__}', f'make_dataset fails with {e!r} instead of ValueError', {}))
    return bad


def observe_channel_factor():
    """observation only (the property does not fix the factor): which factor of noise_cov_channel multiplies the
    noise rows.  Rows eps @ M have covariance M^T M; the documented covariance S = L L^T needs M = L^T."""
    import scipy.stats as ss
    from rsatoolbox.simulation import make_design, make_dataset
    from rsatoolbox.model import ModelFixed
    M = ModelFixed('m', np.array([1.0, 4.0, 1.0]))
    cv, _ = make_design(3, 2)
    S0 = spd(4, 2)
    L = np.linalg.cholesky(S0)
    out = []
    for noise in (0, 1):
        with forced(7) as f:
            out.append((make_dataset(M, None, cv, n_channel=4, noise=noise, noise_cov_channel=S0)[0], f))
    N = np.asarray(out[1][0].measurements) - np.asarray(out[0][0].measurements)
    W = ss.norm.ppf(out[1][1].values[-1])
    if np.allclose(N, W @ L.T, atol=1e-9):
        return 'noise rows = eps @ L^T: row covariance L L^T = the documented noise_cov_channel'
    if np.allclose(N, W @ L, atol=1e-9):
        return ('noise rows = eps @ L (lower Cholesky factor on the right): row covariance is L^T L, not the documented '
                'Sigma = L L^T; the trial side (L_t @ eps) is as documented.  Not demanded by C18 - observation only')
    return 'noise rows are neither eps @ L nor eps @ L^T'
