"""Binding of specs/NoiseCeiling.tla to rsatoolbox.inference.noise_ceiling / util.inference_util.pool_rdm
(property C07).

* trusted kernel  ``k_pool`` / ``k_sim``: the last (irrational) step on the exact statistics TLC emits
  (pooled entry = mean_r num_r / sqrt(qn_r / qd_r); cosine, Pearson, rho-a on plain vectors); it is
  cross-checked against TLC's exact rho-a rationals on every stack.
* ``check_stack``   value configurations: one data stack with every candidate / transformation TLC
                    chose for it (S -> I): bounds vs. kernel, pooled RDM vs. Pool, adversary, ordering,
                    invariance.  The inequality candidate <= upper is scored by the implementation's compare.
* ``check_proto``   protocol configurations: a fold structure with token-valued data; what the wrapped
                    pool_rdm / compare received is decoded from the numbers themselves and compared with
                    the deps the specification assigns; then perturbation replay.
* ``record_trace``  randomised driver recording one call for Trace_NoiseCeiling.tla (I -> S).
"""
from __future__ import annotations

import numpy as np
from scipy.stats import rankdata

from harness import cvsets as CVS
from harness import rdmstore as S

OPT = ('cosine', 'corr', 'rho-a')                       # clause a
ORD = ('cosine', 'corr', 'cosine_cov', 'corr_cov')      # clause c
TOL = 1e-9
K8 = 10 ** 8
K6 = 10 ** 6


# --------------------------------------------------------------------------- trusted kernel
def k_pool(stat):
    """pooled RDM over the present entries from the exact statistics of NoiseCeiling!PoolStat"""
    v = np.zeros(len(stat['terms'][0]['num']))
    for t in stat['terms']:
        v += np.asarray(t['num'], float) / np.sqrt(t['qn'] / t['qd'])
    return v / stat['R']


def k_sim(method, a, b):
    """textbook similarity of two vectors without missing entries"""
    a = np.asarray(a, float)
    b = np.asarray(b, float)
    if method == 'rho-a':
        n = len(a)
        ra = rankdata(a) - (n + 1) / 2
        rb = rankdata(b) - (n + 1) / 2
        return 12.0 * float(ra @ rb) / (n ** 3 - n)
    if method == 'corr':
        a = a - a.mean()
        b = b - b.mean()
    na, nb = np.sqrt(a @ a), np.sqrt(b @ b)
    if na < 1e-12 * max(1.0, np.abs(a).max(initial=0.0)) or nb == 0 or na == 0:
        return 0.0
    return float(a @ b) / (na * nb)


def whitening_v(nc, sigma=None):
    """V = (C Sigma C')^{o2}: covariance of the RDM entries of nc conditions (kernel side, dense)"""
    pairs = [(i, j) for i in range(nc) for j in range(i + 1, nc)]
    C = np.zeros((len(pairs), nc))
    for k, (i, j) in enumerate(pairs):
        C[k, i], C[k, j] = 1.0, -1.0
    xi = C @ (np.eye(nc) if sigma is None else np.asarray(sigma, float)) @ C.T
    return xi * xi


def k_pool_v(stat, nc, sigma=None):
    """like k_pool, but a term with qn = qd = 0 is normalised by its V-norm sqrt(num' V^-1 num), V restricted to the
    present entries (the normalisation of rsatoolbox.util.pooling for the whitened measures)"""
    present = np.array(stat['present'], dtype=int) - 1
    V = whitening_v(nc, sigma)[np.ix_(present, present)]
    v = np.zeros(len(present))
    for t in stat['terms']:
        num = np.asarray(t['num'], float)
        if t['qd'] == 0 or sigma is not None:
            rad = float(num @ np.linalg.solve(V, num))
        else:
            rad = t['qn'] / t['qd']
        v += num / np.sqrt(rad)
    return v / stat['R']


POOL_NC = ('euclid', 'neg_riem_dist', 'cosine', 'corr', 'cosine_cov', 'corr_cov', 'spearman', 'rho-a', 'kendall', 'tau-b', 'tau-a')
POOL_FIT = tuple(m for m in POOL_NC if m != 'neg_riem_dist')


def check_pool(rec, nc, rng, flavour=('list', 'int')):
    """both pooling functions of the library against Pool of the specification, and against each other.
    Returns (violations, n_eval)."""
    import warnings
    from rsatoolbox.util import inference_util as IU
    from rsatoolbox.util import pooling as PL
    from rsatoolbox.rdm import compare, RDMs
    from harness.core import MachineryError
    m = rec['meth']
    val = to_float(rec['val'])
    L = val.shape[1]
    out, n_eval = [], 0
    case = {'meth': m, 'val': rec['val'], 'NC': nc}
    centred = m in ('corr', 'corr_cov')
    whit = m in ('cosine_cov', 'corr_cov')

    def norm(v):
        return v - np.nanmin(v) if centred else v
    got = {}
    for kind, mod, fname in (('nc', IU, 'inference_util.pool_rdm'), ('fit', PL, 'pooling.pool_rdm')):
        stat = rec[kind]
        if not stat['R']:
            continue
        present = np.array(stat['present'], dtype=int) - 1
        miss = np.ones(L, bool)
        miss[present] = False
        # kernel against the exact radicands where the specification has them
        kp = k_pool_v(stat, nc) if (kind == 'fit' and whit) else k_pool(stat)
        if kind == 'fit' and whit and stat['terms'][0]['qd'] != 0:
            forced = dict(stat, terms=[dict(t, qn=0, qd=0) for t in stat['terms']])
            if not np.allclose(k_pool_v(forced, nc), kp, rtol=0, atol=1e-12):
                raise MachineryError(f'kernel V-norm disagrees with the exact radicand of the specification: {rec}')
        rd = make_rdms(val, nc, flavour)
        try:
            with warnings.catch_warnings():
                warnings.simplefilter('ignore')
                p = mod.pool_rdm(rd, method=m)
        except Exception as ex:
            out.append((f'C07/pool/{fname}/{m}/raises/{type(ex).__name__}', f'{type(ex).__name__}: {ex}', case))
            continue
        n_eval += 1
        pv = np.asarray(p.get_vectors(), float)
        if pv.shape != (1, L) or not np.all(np.isnan(pv[0][miss])) or np.any(np.isnan(pv[0][present])):
            out.append((f'C07/pool/{fname}/{m}/shape-or-nan-positions', 'pooled RDM is not one RDM missing exactly the entries missing from all RDMs',
                        dict(case, pooled=pv.tolist())))
            continue
        tol = 1e-11 if not (kind == 'fit' and whit) else 1e-4        # util.pooling whitened: conjugate gradient, rtol 1e-5
        a, b = norm(pv[0][present]), norm(kp)
        if not np.allclose(a, b, rtol=0, atol=tol * max(1.0, np.abs(b).max())):
            out.append((f'C07/pool/{fname}/{m}/value', 'pooled RDM differs from NanMean o Normalise of the specification',
                        dict(case, pooled=a.tolist(), spec=b.tolist())))
        if not np.array_equal(rd.get_vectors(), val, equal_nan=True):
            out.append((f'C07/frame/{fname}/{m}/data-modified', 'pooling altered the data RDMs', case))
        if list(p.pattern_descriptors.get('cond', [])) != list(rd.pattern_descriptors['cond']) or \
                set(p.rdm_descriptors) - {'index'} or p.n_rdm != 1:
            out.append((f'C07/pool/{fname}/{m}/descriptors', 'pooled RDM does not carry the condition descriptors / carries rdm descriptors',
                        dict(case, pattern=list(map(str, p.pattern_descriptors)), rdm=list(map(str, p.rdm_descriptors)))))
        got[kind] = (p, pv[0])
    if len(got) == 2:
        a, b = norm(got['nc'][1]), norm(got['fit'][1])
        if not whit:
            if not np.allclose(a, b, rtol=0, atol=1e-12, equal_nan=True):
                out.append((f'C07/pool/implementations-disagree/{m}', 'util.pooling.pool_rdm and util.inference_util.pool_rdm pool differently',
                            dict(case, inference_util=a.tolist(), pooling=b.tolist())))
        else:
            # the whitened measures: both functions promise "the RDM with maximal performance under the chosen method"
            rd = make_rdms(val, nc, flavour)
            s_nc = float(np.mean(compare(got['nc'][0], rd, method=m)))
            s_fit = float(np.mean(compare(got['fit'][0], rd, method=m)))
            n_eval += 2
            if s_fit > s_nc + 1e-7:
                # an observation, not a violation: C07 claims optimality of the upper bound for cosine, corr and
                # rho-a only (the whitened measures enter the ordering clause alone), so the prefix routes it to
                # evidence.extras.observations
                out.append((f'OBS/C07/pool/inference_util.pool_rdm/{m}/not-the-maximiser',
                            'inference_util.pool_rdm normalises the whitened measure by the plain norm: util.pooling.pool_rdm of the same data is more similar to the data',
                            dict(case, inference_util_score=s_nc, pooling_score=s_fit)))
            if s_nc > s_fit + 1e-5:
                out.append((f'C07/pool/pooling.pool_rdm/{m}/not-the-maximiser', 'util.pooling.pool_rdm is beaten by inference_util.pool_rdm on the whitened measure',
                            dict(case, inference_util_score=s_nc, pooling_score=s_fit)))
    # util.pooling with a given sigma_k: value by the kernel, and nothing nearby scores higher
    if whit and rec['fit']['R']:
        d = 1.0 + 0.3 * np.arange(nc)
        sigma = np.array([[0.5 ** abs(i - j) * np.sqrt(d[i] * d[j]) for j in range(nc)] for i in range(nc)])
        present = np.array(rec['fit']['present'], dtype=int) - 1
        if len(present) == L:          # compare() cannot take sigma_k together with missing entries
            rd = make_rdms(val, nc, flavour)
            try:
                p = PL.pool_rdm(rd, method=m, sigma_k=sigma)
                pv = np.asarray(p.get_vectors(), float)[0]
                kp = k_pool_v(rec['fit'], nc, sigma)
                a, b = norm(pv), norm(kp)
                if not np.allclose(a, b, rtol=0, atol=1e-4 * max(1.0, np.abs(b).max())):
                    out.append((f'C07/pool/pooling.pool_rdm/{m}/sigma_k/value', 'pooled RDM differs from the V(sigma_k)-normalised mean',
                                dict(case, pooled=a.tolist(), spec=b.tolist())))
                C = [pv] + [val[r] for r in range(len(val))]
                for k in range(L):
                    for sg in (1, -1):
                        c = pv.copy()
                        c[k] += sg * 1e-2 * max(1.0, np.abs(pv).max())
                        C.append(c)
                C += list(pv[None, :] + rng.normal(0, 0.3 * max(1.0, np.abs(pv).max()), size=(20, L)))
                sc = compare(RDMs(np.array(C)), rd, method=m, sigma_k=sigma).mean(axis=1)
                n_eval += len(C)
                if sc[1:].max() > sc[0] + 1e-5:
                    out.append((f'C07/pool/pooling.pool_rdm/{m}/sigma_k/beaten', 'a candidate is more similar to the data than the pooled RDM',
                                dict(case, pooled_score=float(sc[0]), best=float(sc[1:].max()))))
            except Exception as ex:
                out.append((f'C07/pool/pooling.pool_rdm/{m}/sigma_k/raises/{type(ex).__name__}', f'{type(ex).__name__}: {ex}', case))
    return out, n_eval


def tok_pos(t, nc):
    """0-based position of token t's condition pair in the source condensed vector"""
    i, j = (t % 100) // 10, t % 10
    return (i - 1) * nc - (i - 1) * i // 2 + (j - i) - 1


def to_float(val):
    v = np.array(val, dtype=float)
    v[v < 0] = np.nan
    return v


def make_rdms(val, nc, flavour=('list', 'int')):
    """real data stack for a value configuration: row r is source RDM r+1"""
    import rsatoolbox
    nr = len(val)
    c = (lambda v: S._container(v, flavour))
    return rsatoolbox.rdm.RDMs(
        np.array(val, dtype=float), dissimilarity_measure='grid',
        rdm_descriptors={'subj': c([S.enc('subj', r + 1, flavour) for r in range(nr)]),
                         'grp': c([S.enc('grp', S.grp(r + 1), flavour) for r in range(nr)])},
        pattern_descriptors={'cond': c([S.enc('cond', p + 1, flavour) for p in range(nc)])})


def _case(rec, **kw):
    d = {'by': rec['by'], 'meth': rec['meth'], 'val': rec['val']}
    if rec.get('api') == 'cv':
        d['api'], d['fold_case'] = 'cv', rec['case']
    d.update(kw)
    return d


def check_stack(rec, cands, xfs, nc, rng, n_random=200, flavour=('list', 'int')):
    """one emitted data stack with the adversary's moves.  Returns (violations, n_eval, stats)."""
    from rsatoolbox.inference.noise_ceiling import boot_noise_ceiling
    from rsatoolbox.util.inference_util import pool_rdm
    from rsatoolbox.rdm import compare, RDMs
    m, by = rec['meth'], rec['by']
    val = to_float(rec['val'])
    nr, L = val.shape
    present = np.array(rec['all']['present'], dtype=int) - 1
    masked = len(present) < L
    d_or = (lambda cl: 'd/masked' if masked else cl)
    rd = make_rdms(val, nc, flavour)
    out = []
    stats = {'margin': -np.inf, 'lo_minus_up': -np.inf, 'n_cand': 0, 'degenerate': False}
    api = rec.get('api', 'boot')
    fn = 'boot_noise_ceiling' if api == 'boot' else 'cv_noise_ceiling'
    orig = val.copy()
    desc0 = (list(rd.rdm_descriptors['subj']), list(rd.pattern_descriptors['cond']))

    def untouched(where, meth_):
        # computing a ceiling leaves the data object alone (values, NaN positions, descriptors)
        same = np.array_equal(rd.get_vectors(), orig, equal_nan=True) and \
            desc0 == (list(rd.rdm_descriptors['subj']), list(rd.pattern_descriptors['cond']))
        if not same:
            out.append((f'C07/frame/{where}/{meth_}/data-modified', 'computing a noise ceiling / pooled RDM altered the data RDMs it was given',
                        _case(rec, after=np.asarray(rd.get_vectors()).tolist())))
        return same
    # ---- session: ceilings with other methods computed on the SAME object before this one
    prev = rec.get('prev', [])
    for mp in prev:
        try:
            if api == 'boot':
                boot_noise_ceiling(rd, method=mp, rdm_descriptor=by)
            else:
                from rsatoolbox.inference.noise_ceiling import cv_noise_ceiling as _cv
                _, ts_, cs_ = CVS.call_generator(rec['case'], rd, flavour)
                _cv(rd, cs_, ts_, method=mp, pattern_descriptor=(rec['case']['byP'] or 'index'))
            untouched(fn, mp)
            pool_rdm(rd, method=mp)
            untouched('pool_rdm', mp)
        except Exception as ex:
            out.append((f'C07/raises/{fn}/{mp}/{type(ex).__name__}', f'{type(ex).__name__}: {ex}', _case(rec)))
            return out, 1, stats
    try:
        if api == 'boot':
            lo, up = boot_noise_ceiling(rd, method=m, rdm_descriptor=by)
        else:
            from rsatoolbox.inference.noise_ceiling import cv_noise_ceiling
            _, test_set, ceil_set = CVS.call_generator(rec['case'], rd, flavour)
            with Tap() as tap:
                lo, up = cv_noise_ceiling(rd, ceil_set, test_set, method=m, pattern_descriptor=(rec['case']['byP'] or 'index'))
        untouched(fn, m)
        pooled = pool_rdm(rd, method=m)
        untouched('pool_rdm', m)
        if prev:
            # both bounds are a function of the data and the method only
            rd_f = make_rdms(orig.copy(), nc, flavour)
            if api == 'boot':
                lo_f, up_f = boot_noise_ceiling(rd_f, method=m, rdm_descriptor=by)
            else:
                _, ts_, cs_ = CVS.call_generator(rec['case'], rd_f, flavour)
                lo_f, up_f = cv_noise_ceiling(rd_f, cs_, ts_, method=m, pattern_descriptor=(rec['case']['byP'] or 'index'))
            if not (np.array_equal([lo, up], [lo_f, up_f], equal_nan=True)):
                out.append((f'C07/frame/{fn}/bounds-depend-on-history/{prev[-1]}-then-{m}',
                            'the bounds differ from those of the same data computed first',
                            _case(rec, prev=prev, bounds=[float(lo), float(up)], fresh=[float(lo_f), float(up_f)])))
    except S.DrawMismatch as ex:
        from harness.core import MachineryError
        raise MachineryError(f'shuffle mismatch: {ex}')
    except Exception as ex:
        out.append((f'C07/raises/{fn}/{m}/{type(ex).__name__}', f'{type(ex).__name__}: {ex}', _case(rec)))
        return out, 1, stats
    lo, up = float(lo), float(up)
    n_eval = 1
    singleton = all(f['nt'] == 1 for f in rec['loo'])
    # ---- degenerate: a pool whose normalised rows cancel (e.g. two exactly anti-correlated RDMs) is the zero
    # vector; its direction - and with it every similarity to it - is rounding noise.  No value is demanded there.
    def zero_pool(stat):
        v = k_pool(stat)
        if m in ('corr', 'corr_cov'):
            v = v - v.mean()
        if m == 'rho-a':
            return False            # exact half-integers: a constant mean-rank vector scores exactly 0
        return np.sqrt(v @ v) < 1e-9
    degenerate = zero_pool(rec['all']) or any(zero_pool(f['stat']) for f in rec['loo'])
    if api == 'cv':
        degenerate = degenerate or any(zero_pool(f['ustat']) for f in rec['loo'])
    stats['degenerate'] = bool(degenerate)
    # ---- the pooled RDM is Pool(method, rows): Normalise, then NaN-aware mean (rank BEFORE mean)
    pv = pooled.get_vectors()[0]
    kp = k_pool(rec['all'])
    got = pv[present]
    a, b = got.copy(), kp.copy()
    if m in ('corr', 'corr_cov'):
        a, b = a - a.min(), b - b.min()
    miss = np.ones(L, bool)
    miss[present] = False
    if not np.all(np.isnan(pv[miss])) or np.any(np.isnan(got)):
        out.append((f'C07/d/pool_rdm/{m}/nan-positions', 'pooled RDM is not missing exactly the entries missing from all RDMs',
                    _case(rec, pooled=pv.tolist())))
    elif not np.allclose(a, b, rtol=0, atol=1e-11 * max(1.0, np.abs(b).max())):
        out.append((f'C07/{d_or("a")}/pool_rdm/{m}/value', 'pool_rdm differs from NanMean o Normalise of the specification',
                    _case(rec, pooled=got.tolist(), spec=kp.tolist())))
    def at(f):
        # positions (in the source condensed vector) of the fold's test entries that are present
        pos = np.array([tok_pos(t, nc) for t in f['tt'] if t != S.NAN], dtype=int)
        return pos[~np.isnan(val[0][pos])]
    # ---- the bounds are the leave-one-out / pooled similarities (value oracle; cosine, corr, rho-a)
    if m in OPT and not degenerate:
        full = np.full(L, np.nan)
        full[present] = kp
        if api == 'cv':     # per fold: all data RDMs at the test conditions, pooled
            ku = np.mean([np.mean([k_sim(m, k_pool(f['ustat']), val[r - 1][at(f)]) for r in f['test']]) for f in rec['loo']])
        else:
            ku = np.mean([np.mean([k_sim(m, full[at(f)], val[r - 1][at(f)]) for r in f['test']]) for f in rec['loo']])
        kl = np.mean([np.mean([k_sim(m, k_pool(f['stat']), val[r - 1][at(f)]) for r in f['test']]) for f in rec['loo']])
        if m == 'rho-a' and api == 'boot':
            n = len(present)
            el = np.mean([3.0 * f['rho'] / (f['nt'] * (n ** 3 - n)) for f in rec['loo']])
            eu = np.mean([3.0 * f['rhoUp'] / (f['nt'] * (n ** 3 - n)) for f in rec['loo']])
            if abs(el - kl) > 1e-12 or abs(eu - ku) > 1e-12:
                from harness.core import MachineryError
                raise MachineryError(f'kernel disagrees with the exact rho-a value of the specification: {rec}')
        if abs(up - ku) > TOL:
            out.append((f'C07/{d_or("a")}/{fn}/{m}/upper-value',
                        'upper bound is not the average similarity of Pool(all RDMs [cv: at the test conditions]) to the data RDMs',
                        _case(rec, upper=up, spec=float(ku))))
        if abs(lo - kl) > TOL:
            out.append((f'C07/{d_or("b")}/{fn}/{m}/lower-value',
                        'lower bound is not the average over left-out groups of sim(Pool(other groups), left-out RDMs)',
                        _case(rec, lower=lo, spec=float(kl))))
    # ---- a: the pooled RDM attains the bound, no candidate is above it
    if singleton and m in OPT:
        if api == 'boot':
            att = float(np.mean(compare(pooled, rd, method=m)))
            if abs(att - up) > 1e-12:
                out.append((f'C07/{d_or("a")}/pooled-does-not-attain-upper/{m}', 'mean compare(pool_rdm(data), data) differs from the upper bound',
                            _case(rec, upper=up, attained=att)))
        C = [to_float(c) for c in cands]
        ntlc = len(C)
        C += [val[r].copy() for r in range(nr)]
        scale = max(1.0, float(np.nanmax(np.abs(pv))))
        for k in present:
            for eps in (1e-3, 1e-6):
                for sgn in (1, -1):
                    c = pv.copy()
                    c[k] += sgn * eps * scale
                    C.append(c)
        hi = float(np.nanmax(val)) + 1.0
        R = rng.uniform(0, hi, size=(n_random // 2, L))
        R2 = pv[None, :] + rng.normal(0, 0.3 * scale, size=(n_random - n_random // 2, L))
        for c in list(R) + list(R2):
            c = np.array(c)
            c[miss] = np.nan
            C.append(c)
        if api == 'cv':
            # the per-fold optimum embedded in a full RDM (other entries from the overall pooled RDM), +- eps
            for f in rec['loo']:
                c = pv.copy()
                c[at(f)] = k_pool(f['ustat'])
                C.append(c)
                for k in at(f):
                    for sgn in (1, -1):
                        c2 = c.copy()
                        c2[k] += sgn * 1e-3 * scale
                        C.append(c2)
        C = np.array(C)
        n_eval += len(C)
        stats['n_cand'] = len(C)
        if api == 'boot':
            sc = compare(RDMs(C), rd, method=m).mean(axis=1)
            j = int(np.argmax(sc))
            stats['margin'] = float(sc[j] - up)
            if sc[j] > up + TOL:
                srcn = 'grid' if j < ntlc else 'harness'
                out.append((f'C07/{d_or("a")}/candidate-beats-upper/{m}', f'a candidate RDM ({srcn}) scores above the upper noise ceiling',
                            _case(rec, upper=up, candidate=C[j].tolist(), score=float(sc[j]))))
        else:
            # cross-validation: the upper PREDICTION of a fold is the best single RDM for ALL data RDMs at the test
            # conditions of that fold; a candidate is cut to the test conditions exactly as a model prediction would be.
            # (The reported bound scores that prediction against the test RDMs only, so it is not itself a maximum.)
            Cob = make_rdms(C, nc, flavour)
            byp = rec['case']['byP'] or 'index'
            items = assemble(tap, label_tokens)
            if len(items) != 2 * len(test_set):
                out.append((f'C07/b/cv/protocol', 'cv_noise_ceiling does not compare two predictions per fold', _case(rec, n_compare=len(items))))
            else:
                for f, t in enumerate(test_set):
                    pair = items[2 * f:2 * f + 2]
                    upi = max(pair, key=lambda it: max((len(o) for o in it['opts']), default=0))
                    allf = rd.subsample_pattern(byp, t[1])
                    s_up = float(np.mean(compare(upi['a']['vec'], allf, method=m)))
                    sc = compare(Cob.subsample_pattern(byp, t[1]), allf, method=m).mean(axis=1)
                    j = int(np.argmax(sc))
                    stats['margin'] = max(stats['margin'], float(sc[j] - s_up))
                    if sc[j] > s_up + TOL:
                        srcn = 'grid' if j < ntlc else 'harness'
                        out.append((f'C07/{d_or("a")}/cv_noise_ceiling/candidate-beats-upper-prediction/{m}',
                                    f'a candidate RDM ({srcn}) is more similar to the data RDMs at the test conditions than the upper prediction of the fold',
                                    _case(rec, fold=f, upper_prediction=upi['a']['vec'][0].tolist(), its_score=s_up,
                                          candidate=C[j].tolist(), score=float(sc[j]))))
    # ---- c: lower <= upper
    if singleton and m in ORD:
        stats['lo_minus_up'] = lo - up
        if lo > up + TOL:
            where = '' if api == 'boot' else 'cv_noise_ceiling/'
            key = f'C07/{d_or("c")}/{where}lower-above-upper/{m}'
            out.append((key, 'lower noise ceiling exceeds the upper one',
                        _case(rec, lower=lo, upper=up, api=api, fold_case=rec.get('case'))))
    # ---- e: invariance to per-RDM positive rescaling (cosine type) / affine maps (correlation type)
    for t in xfs:
        # x |-> (a x + b) / c * 10^e, one transformation per data RDM (e down to -26: SI units of MEG)
        v2 = np.array([(t[r][0] * val[r] + t[r][1]) / t[r][2] * (10.0 ** t[r][3] if len(t[r]) > 3 else 1.0) for r in range(nr)])
        try:
            rd2 = make_rdms(v2, nc, flavour)
            if api == 'boot':
                lo2, up2 = boot_noise_ceiling(rd2, method=m, rdm_descriptor=by)
            else:
                _, ts2, cs2 = CVS.call_generator(rec['case'], rd2, flavour)
                lo2, up2 = cv_noise_ceiling(rd2, cs2, ts2, method=m, pattern_descriptor=(rec['case']['byP'] or 'index'))
        except Exception as ex:
            out.append((f'C07/raises/{fn}/{m}/{type(ex).__name__}', f'{type(ex).__name__}: {ex}', _case(rec, xf=t)))
            continue
        n_eval += 1
        if degenerate:
            continue        # a pool that cancels to zero has no direction: its similarities are rounding noise
        if not (abs(lo2 - lo) <= TOL and abs(up2 - up) <= TOL):
            kind = 'rescaling' if m in ('cosine', 'cosine_cov') else 'affine'
            extreme = '/extreme-factor' if any(len(x) > 3 and x[3] != 0 for x in t) else ''
            where = '' if api == 'boot' else 'cv_noise_ceiling/'
            out.append((f'C07/e/{where}not-invariant-to-{kind}/{m}{extreme}', 'bounds change when individual data RDMs are transformed',
                        _case(rec, xf=t, before=[lo, up], after=[float(lo2), float(up2)])))
    return out, n_eval, stats


# --------------------------------------------------------------------------- protocol configurations
class Tap:
    """records what pool_rdm / compare inside rsatoolbox.inference.noise_ceiling receive and return"""

    def __init__(self):
        from rsatoolbox.inference import noise_ceiling as NCm
        self.mod = NCm
        self.pools, self.cmps = [], []

    def __enter__(self):
        self._pool, self._cmp = self.mod.pool_rdm, self.mod.compare

        def pool(rdms, method='cosine', *a, **kw):
            out = self._pool(rdms, method, *a, **kw)
            self.pools.append({'inp': snap(rdms), 'out': snap(out)})
            return out

        def cmp(r1, r2, method='cosine', *a, **kw):
            out = self._cmp(r1, r2, method, *a, **kw)
            self.cmps.append({'a': snap(r1), 'b': snap(r2), 'out': np.array(out, dtype=float)})
            return out
        self.mod.pool_rdm, self.mod.compare = pool, cmp
        return self

    def __exit__(self, *a):
        self.mod.pool_rdm, self.mod.compare = self._pool, self._cmp


def snap(ob):
    d = {'vec': np.array(ob.get_vectors(), dtype=float), 'conds': None, 'subj': None}
    if 'cond' in ob.pattern_descriptors:
        d['conds'] = [S.dec('cond', v) for v in ob.pattern_descriptors['cond']]
    if ob.rdm_descriptors and 'subj' in ob.rdm_descriptors:
        d['subj'] = [S.dec('subj', v) for v in ob.rdm_descriptors['subj']]
    return d


def value_tokens(s):
    """the source tokens an object holds, read off the numbers themselves"""
    v = s['vec']
    return frozenset(int(round(x)) for x in v[~np.isnan(v)])


def label_tokens(s):
    """... read off the descriptors (used when the values are random numbers)"""
    out = set()
    n = len(s['conds'])
    iu = np.triu_indices(n, 1)
    for r, sj in enumerate(s['subj']):
        for k in range(len(iu[0])):
            if not np.isnan(s['vec'][r, k]):
                i, j = s['conds'][iu[0][k]], s['conds'][iu[1][k]]
                out.add(100 * sj + 10 * min(i, j) + max(i, j))
    return frozenset(out)


def _matches(pool_out, a):
    """is prediction a (possibly cut to fewer conditions) bit-identical to this pool output?"""
    pc, ac = pool_out['conds'], a['conds']
    if pc is None or ac is None or not set(ac) <= set(pc) or len(set(pc)) != len(pc):
        return False
    n = len(pc)
    M = np.full((n, n), np.nan)
    iu = np.triu_indices(n, 1)
    M[iu] = pool_out['vec'][0]
    M.T[iu] = pool_out['vec'][0]
    pos = [pc.index(c) for c in ac]
    ia = np.triu_indices(len(ac), 1)
    want = np.array([M[pos[i], pos[j]] for i, j in zip(*ia)])
    return a['vec'].shape[0] == 1 and np.array_equal(want, a['vec'][0], equal_nan=True)


def run_call(api, c, src, flavour, method):
    """call the public function on a real object; returns (lower, upper, tap)"""
    from rsatoolbox.inference.noise_ceiling import boot_noise_ceiling, cv_noise_ceiling
    if api == 'boot':
        with Tap() as tap:
            lo, up = boot_noise_ceiling(src, method=method, rdm_descriptor=c['byR'])
    else:
        train, test, ceil = CVS.call_generator(c, src, flavour)
        with Tap() as tap:
            lo, up = cv_noise_ceiling(src, ceil, test, method=method, pattern_descriptor=(c['byP'] or 'index'))
    return float(lo), float(up), tap


def assemble(tap, tokens_of):
    """per compare call: the possible deps of the prediction (token sets of the inputs of every pool_rdm
    call whose output it is bit-identical to - more than one only when outputs coincide) and the tokens
    of the data it is compared with"""
    items = []
    for cm in tap.cmps:
        opts = {tokens_of(p['inp']) for p in tap.pools if _matches(p['out'], cm['a'])}
        items.append({'opts': opts, 'test': tokens_of(cm['b']), 'aligned': cm['a']['conds'] == cm['b']['conds'],
                      'out': cm['out'], 'a': cm['a'], 'b': cm['b']})
    return items


def assign(items, expect):
    """match expected (deps, test tokens) pairs to recorded compare calls; returns list of item indices
    (None where nothing fits) and the indices left over"""
    left = list(range(len(items)))
    got = []
    # pairs with a single possible item first
    for deps, test in expect:
        fit = [i for i in left if items[i]['test'] == test and deps in items[i]['opts']]
        fit.sort(key=lambda i: len(items[i]['opts']))
        if fit:
            got.append(fit[0])
            left.remove(fit[0])
        else:
            got.append(None)
    return got, left


def _toks(ob_abs):
    return frozenset(t for row in ob_abs['vec'] for t in row if t != S.NAN)


def _expected(rec):
    """per fold: (deps of the lower prediction, test tokens), (deps of the upper prediction, test tokens)"""
    expect = []
    for F in rec['folds']:
        t = _toks(F['test'])
        expect.append((frozenset(F['predDeps']), t))
        expect.append((frozenset(F['upDeps']), t))
    return expect, [frozenset(F['upDeps']) for F in rec['folds']]


def _protocol(rec, items, lo, up, api, case):
    """compare what was pooled / compared with the deps the specification assigns"""
    out = []
    expect, up_deps = _expected(rec)
    folds = rec['folds']
    if any(not it['opts'] for it in items):
        out.append((f'C07/b/{api}/prediction-not-from-pool_rdm', 'a compared prediction is not (a cut of) an RDM returned by pool_rdm',
                    dict(case, n_compare=len(items))))
        return out, None
    got, left = assign(items, expect)
    if None in got or left:
        key = 'protocol'
        for i in left:
            it = items[i]
            for gdeps in it['opts']:
                if any(it['test'] == _toks(F['test']) and gdeps > frozenset(F['upDeps']) for F in folds):
                    key = 'upper-pooled-beyond-test-conditions' if key == 'protocol' else key
                elif rec['splitsR'] and gdeps not in up_deps and gdeps & it['test']:
                    key = 'prediction-uses-left-out-group'
                elif key == 'protocol' and gdeps not in up_deps and \
                        any(it['test'] == _toks(F['test']) and not gdeps <= frozenset(F['predDeps']) for F in folds):
                    key = 'prediction-not-from-training-rdms-at-test-conditions'
                elif key == 'protocol' and any(it['test'] == _toks(F['test']) and gdeps > frozenset(F['upDeps']) for F in folds):
                    key = 'upper-pooled-beyond-test-conditions'
        out.append((f'C07/b/{api}/{key}', 'what was pooled / compared differs from the leave-one-out protocol of the specification',
                    dict(case, got=[[[sorted(o) for o in it['opts']], sorted(it['test'])] for it in items],
                         spec=[[sorted(x[0]), sorted(x[1])] for x in expect])))
        return out, None
    if not all(it['aligned'] for it in items):
        out.append((f'C07/b/{api}/prediction-misaligned', 'prediction and test data list different conditions', case))
    los = [float(np.mean(items[got[2 * f]]['out'])) for f in range(len(folds))]
    ups = [float(np.mean(items[got[2 * f + 1]]['out'])) for f in range(len(folds))]
    if abs(np.mean(los) - lo) > 1e-12 and abs(np.mean(ups) - lo) > 1e-12:
        out.append((f'C07/b/{api}/lower-not-average-of-folds', 'returned lower bound is not the mean over the left-out groups',
                    dict(case, lower=lo, folds=los)))
    if abs(np.mean(ups) - up) > 1e-12 and abs(np.mean(los) - up) > 1e-12:
        out.append((f'C07/a/{api}/upper-not-average-of-folds', 'returned upper bound is not the mean over the left-out groups',
                    dict(case, upper=up, folds=ups)))
    return out, got


def _merge(a, b):
    """violations of two stages, one per key"""
    seen = {x[0] for x in a}
    return a + [x for x in b if x[0] not in seen]


def check_proto(rec, const, flavour, method, seed):
    """one protocol case.  Returns (violations, n_eval, n_sensitive, reached): reached = 1 iff the case got as far as the
    perturbation replay (cases that already report a violation stop before it)."""
    from harness.core import MachineryError
    c, api = rec['case'], rec['api']
    a = CVS.src_abs(c['src'], const['NR'], const['NC'], set())
    case = {'api': api, 'case': c, 'flavour': flavour, 'method': method, 'const': const}
    folds = rec['folds']
    expect, up_deps = _expected(rec)
    # ---------------- token inspection: the numbers say which entry they are.  Token rows are affine images of
    # each other, so only the cosine-type normalisations keep different pools apart
    tmeth = 'cosine_cov' if method.endswith('_cov') else 'cosine'
    try:
        lo, up, tap = run_call(api, c, CVS.make_from_abs(a, flavour), flavour, tmeth)
    except S.DrawMismatch as ex:
        raise MachineryError(f'shuffle mismatch replaying {c}: {ex}')
    except Exception as ex:
        return [(f'C07/raises/{api}/{type(ex).__name__}', f'{type(ex).__name__}: {ex}', dict(case, method=tmeth))], 1, 0, 0
    # (a failing VALUE clause - bounds that are not the fold averages - does not stop the case: what was pooled and compared
    # is still inspected and perturbed; only a failing structural clause makes the later stages meaningless)
    out, got_t = _protocol(rec, assemble(tap, value_tokens), lo, up, api, dict(case, method=tmeth, data='tokens'))
    n_eval = 1
    if got_t is None:
        return out, n_eval, 0, 0
    # ---------------- the same with random data (deps read off the labels), then perturbation replay
    rng = np.random.default_rng(seed)
    nr, nc = const['NR'], const['NC']
    base = {(r, i, j): float(rng.uniform(0.5, 2.0)) for r in range(1, nr + 1)
            for i in range(1, nc + 1) for j in range(i + 1, nc + 1)}

    def run(vals):
        lo_, up_, tp = run_call(api, c, CVS.make_from_abs(a, flavour, values=vals), flavour, method)
        return lo_, up_, assemble(tp, label_tokens)
    try:
        lo, up, its = run(base)
    except Exception as ex:
        return [(f'C07/raises/{api}/{type(ex).__name__}', f'{type(ex).__name__}: {ex}', case)], n_eval, 0, 0
    out2, got = _protocol(rec, its, lo, up, api, dict(case, data='random'))
    out = _merge(out, out2)
    n_eval += 1
    if got is None:
        return out, n_eval, 0, 0
    # ---------------- the values: pool / compare applied to the objects the SPECIFICATION assigns to every fold
    # (lower: training RDMs at the test conditions; upper: all data RDMs [cv: at the test conditions])
    from rsatoolbox.util.inference_util import pool_rdm as _pool
    from rsatoolbox.rdm import compare as _cmp

    def ob(abs_):
        return CVS.make_from_abs(abs_, flavour, values=base)
    los, ups = [], []
    for F in folds:
        te = ob(F['test'])
        los.append(float(np.mean(_cmp(_pool(ob(F['ceil']), method=method), te, method))))
        if api == 'boot':
            allob = ob(a)
        else:
            pats = F['test']['pats']
            npat = len(pats)
            allob = ob({'rows': a['rows'], 'pats': pats, 'ridx': a['ridx'], 'pidx': F['test']['pidx'], 'pinv': [], 'meas': 1,
                        'pcat': 1, 'vec': [[S.NAN if pats[p_] == pats[q_] else S.tok(r, pats[p_], pats[q_], set())
                                            for p_ in range(npat) for q_ in range(p_ + 1, npat)] for r in a['rows']]})
        ups.append(float(np.mean(_cmp(_pool(allob, method=method), te, method))))
    if np.all(np.isfinite(los + ups)):
        if abs(np.mean(los) - lo) > 1e-12:
            out.append((f'C07/b/{api}/lower-value', 'lower bound is not the average similarity of Pool(training RDMs at the test conditions) to the test RDMs',
                        dict(case, lower=lo, spec=float(np.mean(los)))))
        if abs(np.mean(ups) - up) > 1e-12:
            out.append((f'C07/a/{api}/upper-value', 'upper bound is not the average similarity of Pool(all data RDMs at the test conditions) to the test RDMs',
                        dict(case, upper=up, spec=float(np.mean(ups)))))

    def preds(vals):
        _, _, its_ = run(vals)
        g_, left_ = assign(its_, expect)
        return [None if g_[2 * f] is None else its_[g_[2 * f]]['a']['vec'] for f in range(len(folds))]
    p0 = [its[got[2 * f]]['a']['vec'] for f in range(len(folds))]
    sensitive = 0
    key_of = (lambda k: 100 * k[0] + 10 * k[1] + k[2])
    for f, F in enumerate(folds):
        deps = frozenset(F['predDeps'])
        # the upper prediction of the fold: entries outside (all RDMs x test conditions) must not move it
        alt = {k: (v if key_of(k) in up_deps[f] else v * 1.4) for k, v in base.items()}
        if alt != base and got[2 * f + 1] is not None:
            _, _, its_ = run(alt)
            g_, _l = assign(its_, expect)
            n_eval += 1
            u0 = its[got[2 * f + 1]]['a']['vec']
            u1 = None if g_[2 * f + 1] is None else its_[g_[2 * f + 1]]['a']['vec']
            if u1 is None or not np.array_equal(u0, u1, equal_nan=True):
                out.append((f'C07/a/{api}/upper-depends-on-untested-conditions',
                            'altering entries outside the test conditions changes the upper prediction of the fold',
                            dict(case, fold=f)))
        if deps == up_deps[f]:
            continue
        if rec['splitsR']:
            te_rows = set(F['test']['rows'])
            alt = {k: (v * 1.7 if k[0] in te_rows else v) for k, v in base.items()}
            p1 = preds(alt)
            n_eval += 1
            if p1[f] is None or not np.array_equal(p0[f], p1[f], equal_nan=True):
                out.append((f'C07/b/{api}/prediction-depends-on-left-out-group',
                            'altering the left-out group changes the prediction it is scored against',
                            dict(case, fold=f)))
        alt = {k: (v if key_of(k) in deps else v * 1.3) for k, v in base.items()}
        if alt != base:
            p1 = preds(alt)
            n_eval += 1
            if p1[f] is None or not np.array_equal(p0[f], p1[f], equal_nan=True):
                out.append((f'C07/b/{api}/prediction-depends-on-entries-outside-training-at-test-conditions',
                            'altering entries outside the training RDMs at the test conditions changes the prediction',
                            dict(case, fold=f)))
        one = min(deps)
        alt = {k: (v * 1.9 if key_of(k) == one else v) for k, v in base.items()}
        p1 = preds(alt)
        if p1[f] is None or not np.array_equal(p0[f], p1[f], equal_nan=True):
            sensitive += 1
    return out, n_eval, sensitive, 1


# --------------------------------------------------------------------------- I -> S
def record_trace(seed, const, kind):
    """one recorded call for Trace_NoiseCeiling.  kind: 'boot-tok' | 'cv-tok' | 'boot-val'"""
    from rsatoolbox.rdm import compare, RDMs
    from rsatoolbox.inference import crossvalsets as CV
    from rsatoolbox.inference.noise_ceiling import boot_noise_ceiling, cv_noise_ceiling
    rng = np.random.default_rng(seed)
    NR, NC = const['NR'], const['NC']
    flavour = S.FLAVOURS[seed % 4]
    methods = ['cosine', 'corr', 'rho-a', 'cosine_cov', 'corr_cov']
    meth = methods[int(rng.integers(0, 5))]
    if kind != 'boot-val':
        # token rows are affine images of each other: only the cosine-type poolings keep different pools apart
        meth = 'cosine_cov' if meth.endswith('_cov') else 'cosine'
    by = str(rng.choice(['index', 'subj', 'grp']))
    if kind == 'boot-val':
        nr = int(rng.integers(2, NR + 1))
        nr = min(nr, 3)
        rows = list(range(1, nr + 1))
        pats = list(range(1, NC + 1))
        by = 'subj' if rng.random() < 0.7 else by
        meth = methods[int(rng.integers(0, 3))] if rng.random() < 0.7 else meth
    else:
        nr = int(rng.integers(2, NR + 2))
        rows = [int(x) for x in rng.integers(1, NR + 1, size=nr)] if by != 'index' and rng.random() < 0.5 \
            else [int(x) for x in rng.permutation(NR)[:min(nr, NR)] + 1]
        npat = int(rng.integers(3, NC + 1))
        pats = sorted(int(x) for x in rng.permutation(NC)[:npat] + 1)
    n = len(pats)
    L = NC * (NC - 1) // 2
    a = {'rows': rows, 'pats': pats, 'ridx': list(range(len(rows))), 'pidx': list(range(n)), 'pinv': [], 'meas': 1,
         'pcat': 1, 'vec': [[S.tok(r, pats[p], pats[q], set()) for p in range(n) for q in range(p + 1, n)] for r in rows]}
    val = []
    values = None
    if kind == 'boot-val':
        # integer data with ties, rows non-constant; val is indexed by (source RDM, source pair)
        while True:
            val = [[int(x) for x in rng.integers(0, 10, size=L)] for _ in range(NR)]
            if all(len(set(v)) > 1 for v in val):
                break
        iu = np.triu_indices(NC, 1)
        values = {(r + 1, int(iu[0][k]) + 1, int(iu[1][k]) + 1): float(val[r][k]) for r in range(NR) for k in range(L)}
    src = CVS.make_from_abs(a, flavour, values=values)
    tokens_of = label_tokens if values is not None else value_tokens
    hdr = {'api': 'boot', 'meth': meth, 'rows': rows, 'pats': pats, 'val': val, 'by': by, 'byP': '', 'folds': [],
           'splits': True, 'single': False, 'ordered': True, 'exact': False}
    if kind == 'cv-tok':
        hdr['api'] = 'cv'
        byP = str(rng.choice(['index', 'cond']))
        np.random.seed(int(rng.integers(0, 2 ** 31 - 1)))
        g_r = len(set({'index': a['ridx'], 'subj': rows, 'grp': [S.grp(r) for r in rows]}[by]))
        which = str(rng.choice(['loo_rdm', 'k_fold_rdm', 'k_fold', 'random']))
        if which == 'loo_rdm':
            sets = CV.sets_leave_one_out_rdm(src, by)
            byP = 'index'
        elif which == 'k_fold_rdm' and g_r >= 2:
            sets = CV.sets_k_fold_rdm(src, k_rdm=int(rng.integers(2, g_r + 1)), rdm_descriptor=by)
            byP = 'index'
        elif which == 'k_fold' and g_r >= 2 and n >= 6:
            sets = CV.sets_k_fold(src, k_rdm=int(rng.integers(1, g_r + 1)), k_pattern=int(rng.integers(1, n // 3 + 1)),
                                  pattern_descriptor=byP, rdm_descriptor=by)
        else:
            which = 'random'
            sets = CV.sets_random(src, n_rdm=int(rng.integers(0, g_r)), n_pattern=(3 if n > 3 else 0), n_cv=2,
                                  pattern_descriptor=byP, rdm_descriptor=by)
        train, test, ceil = sets
        hdr['byP'] = byP
        hdr['gen'] = which
        fl = []
        splits = True
        for f in range(len(test)):
            tr = [int(v) for v in ceil[f][0].rdm_descriptors['index']]
            te = [int(v) for v in test[f][0].rdm_descriptors['index']]
            if set(rows[i] for i in tr) & set(rows[i] for i in te):
                splits = False
            fl.append({'ceil': tr, 'test': te, 'tpat': [int(v) for v in test[f][0].pattern_descriptors['index']],
                       'testIdx': [S.dec(byP, v) for v in test[f][1]]})
        hdr['folds'] = fl
        hdr['splits'] = splits
        hdr['ordered'] = False
    col = {'index': a['ridx'], 'subj': rows, 'grp': [S.grp(r) for r in rows]}[by]
    if hdr['api'] == 'boot':
        hdr['single'] = bool(len(set(col)) == len(col) and len(col) > 1)
    else:
        # every fold tests one RDM against the pool of all the others
        hdr['single'] = bool(hdr['splits'] and all(len(f['test']) == 1 and len(f['ceil']) == len(rows) - 1 for f in hdr['folds']))
        hdr['ordered'] = hdr['single']
    hdr['exact'] = bool(kind == 'boot-val' and hdr['single'])
    # a session: several ceilings, one after the other, on the SAME data object (and the same handed-out sets)
    if kind == 'boot-val':
        ms = [meth] + [methods[int(x)] for x in rng.integers(0, 5, size=int(rng.integers(1, 3)))]
    else:
        ms = [meth, 'cosine' if meth == 'cosine_cov' else 'cosine_cov']

    def fingerprint():
        import zlib
        obs = [src] + ([t[0] for t in test] + [c[0] for c in ceil] if kind == 'cv-tok' else [])
        h = 0
        for ob in obs:
            h = zlib.crc32(np.ascontiguousarray(ob.get_vectors(), dtype=float).tobytes(), h)
        return int(h % (2 ** 31 - 1))
    hdr['fp'] = fingerprint()
    ev = []
    for ci, m_ in enumerate(ms):
        if ci > 0:
            ev.append({'op': 'call', 'meth': m_})
        with Tap() as tap:
            if kind == 'cv-tok':
                lo, up = cv_noise_ceiling(src, ceil, test, method=m_, pattern_descriptor=hdr['byP'])
            else:
                lo, up = boot_noise_ceiling(src, method=m_, rdm_descriptor=by)
        fp = fingerprint()
        items = assemble(tap, tokens_of)
        if len(items) % 2 or any(not it['opts'] for it in items):
            if fp != hdr['fp']:
                return {'hdr': hdr, 'ev': [], 'error': 'data-modified'}
            return {'hdr': hdr, 'ev': [], 'error': 'prediction-not-from-pool_rdm'}
        if any(len(it['opts']) > 1 for it in items):
            return {'hdr': hdr, 'ev': [], 'skip': 'ambiguous'}     # two different pools returned identical RDMs
        for it in items:
            it['deps'] = next(iter(it['opts']))
        # pair the compare calls per fold: the code scores lower and upper for the same test data in turn
        for k in range(0, len(items), 2):
            p, q = items[k], items[k + 1]
            if p['test'] != q['test']:
                return {'hdr': hdr, 'ev': [], 'error': 'compare-calls-not-paired'}
            if p['deps'] > q['deps']:          # the upper prediction pools a superset of the lower one's entries
                p, q = q, p
            ev.append({'op': 'fold', 'predDeps': sorted(p['deps']), 'upDeps': sorted(q['deps']),
                       'predPats': p['a']['conds'], 'upPats': q['a']['conds'], 'testPats': p['b']['conds'],
                       'testRows': p['b']['subj'], 'lo8': int(round(float(np.mean(p['out'])) * K8)),
                       'up8': int(round(float(np.mean(q['out'])) * K8))})
        if not (np.isfinite(lo) and np.isfinite(up)):
            return {'hdr': hdr, 'ev': [], 'error': 'data-modified' if fp != hdr['fp'] else 'non-finite-bounds'}
        ev.append({'op': 'ret', 'lo8': int(round(lo * K8)), 'up8': int(round(up * K8)),
                   'lo6': int(round(lo * K6)), 'up6': int(round(up * K6)), 'fp': fp})
        if hdr['single'] and m_ in OPT and hdr['api'] == 'boot':
            # candidates scored by the implementation (on an untouched copy of the data)
            ref = CVS.make_from_abs(a, flavour, values=values)
            vec = ref.get_vectors()
            C = np.vstack([vec, rng.uniform(0, 10, size=(12, vec.shape[1])),
                           rng.integers(0, 4, size=(12, vec.shape[1])).astype(float)])
            C[:, np.isnan(vec[0])] = np.nan
            sc = compare(RDMs(C), ref, method=m_).mean(axis=1)
            for s_ in sc:
                ev.append({'op': 'cand', 's8': int(round(float(s_) * K8))})
    return {'hdr': hdr, 'ev': ev}
