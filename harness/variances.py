"""Drivers for property C06 (specs/Variances.tla): the only place that knows how rsatoolbox looks.

Specification -> implementation
    check_var / check_means / check_fixed take one JSON vector emitted by TLC (input + exact expected
    rationals), build numpy inputs / Result objects, call the public API and compare:
      * extract_variances, Result.model_var / get_model_var / diff_var / noise_ceil_var / get_sem,
        Result.get_means, get_ci                          -> exact (relative 1e-12) against the rationals
      * test_pairwise / test_zero / test_noise / test_all for t-test, bootstrap, ranksum
                                                          -> relational clauses (range, symmetry, unit
                                                             diagonal, permutation equivariance)
      * fixed evaluations (Result built exactly as eval_fixed builds it) -> SEM and the three p-values
        against (i) the t distribution applied to the specification's exact statistic and (ii)
        scipy.stats ttest_rel / ttest_1samp; monotonicity along the TLC-enumerated chain of shifts.
    check_eval_fixed runs the real eval_fixed on small data RDM stacks and compares with scipy.stats.
Implementation -> specification
    record_trace produces larger integer covariances / evaluation arrays with numpy, calls the library
    and logs inputs and outputs (as scaled integers / fractions) for Trace_Variances.tla.

Every function returns findings as (key, what, case) tuples; nothing here talks to ctx.
"""
from __future__ import annotations

import json
import math
import warnings
from fractions import Fraction
from itertools import permutations

import numpy as np
import scipy.stats as st

from rsatoolbox.inference import Result, eval_fixed
from rsatoolbox.inference.result import result_from_dict
from rsatoolbox.model import ModelFixed
from rsatoolbox.rdm import RDMs
from rsatoolbox.util.inference_util import extract_variances

NAN = 99
SHAPE = {0: 'scalar', 1: 'vector', 2: 'matrix', 3: '3-stack'}
RTOL = 1e-12          # exact rationals against float64 results of a handful of operations
PTOL = 1e-10          # p-values: cdf of a statistic that agrees to ~1e-13
CV1 = ['fixed', 'crossvalidation']
CV2 = ['bootstrap', 'bootstrap_rdm', 'bootstrap_pattern', 'bootstrap_crossval', 'dual_bootstrap',
       'bootstrap_crossval_rdm']
_MODELS = {}


def mix(idx, field, mod):
    """decorrelated per-vector choice number `field` (flavours, layouts, sampling)"""
    h = ((int(idx) + 1) * 2654435761 + field * 40503) & 0xFFFFFFFF
    h ^= h >> 15
    h = (h * 2246822519) & 0xFFFFFFFF
    h ^= h >> 13
    return h % mod


def models(k):
    if k not in _MODELS:
        _MODELS[k] = [ModelFixed(f'm{i}', np.arange(3.0) + i + 1) for i in range(k)]
    return _MODELS[k]


def fr(r):
    """<<num, den>> -> Fraction, NaN (<<0, 0>>) -> None"""
    return None if r[1] == 0 else Fraction(r[0], r[1])


def frs(x):
    if isinstance(x, list) and len(x) == 2 and not isinstance(x[0], list):
        return fr(x)
    return [frs(v) for v in x]


def close(got, exp, rtol=RTOL):
    """float result against an exact rational (None = NaN)"""
    if exp is None:
        return isinstance(got, (float, np.floating)) and math.isnan(got)
    if got is None or (isinstance(got, float) and math.isnan(got)):
        return False
    e = float(exp)
    return abs(float(got) - e) <= rtol * max(1.0, abs(e))


def arr_close(got, exp, shape, rtol=RTOL):
    """numpy result against nested list of rationals; returns None or a description of the mismatch"""
    got = np.asarray(got)
    if got.shape != tuple(shape):
        return f'shape {got.shape} instead of {tuple(shape)}'
    flat_e = np.array(exp, dtype=object).reshape(-1) if len(shape) and np.prod(shape) else []
    for g, e in zip(got.reshape(-1), flat_e):
        if not close(float(g), e, rtol):
            return f'value {float(g)!r} instead of {str(e)}'
    return None


def pair_index(k):
    return [(i, j) for i in range(k) for j in range(i + 1, k)]


def cov_numpy(inp, flavour=0):
    """numpy covariance for a 'var' input; flavour: 0 float64, 1 int64, 2 float64 Fortran / 0-d array"""
    c = inp['cov']
    if inp['shape'] == 0:
        return np.float64(c) if flavour != 2 else np.array(float(c))
    a = np.array(c, dtype=np.int64 if flavour == 1 else np.float64)
    if flavour == 2 and a.ndim >= 2:
        a = np.asfortranarray(a)
    return a


def none0(n):
    return None if n == 0 else int(n)


# ------------------------------------------------------------------------------------------------
# p-values: relational clauses
# ------------------------------------------------------------------------------------------------
TESTS = ('t-test', 'bootstrap', 'ranksum')


def run_tests(r, test_type, with_all=True):
    """the three p-value arrays of a Result, or the exception each accessor raised"""
    out = {'_ndim': int(np.ndim(r.evaluations))}
    with warnings.catch_warnings(), np.errstate(all='ignore'):
        warnings.simplefilter('ignore')
        for name, f in (('pair', r.test_pairwise), ('zero', r.test_zero), ('noise', r.test_noise)):
            try:
                out[name] = np.array(f(test_type=test_type), dtype=float)
            except Exception as e:  # noqa: BLE001  reported by the caller per clause
                out[name] = e
        if not with_all:
            return out
        try:
            pa, pz, pn = r.test_all(test_type=test_type)
            out['all'] = (np.array(pa, dtype=float), np.array(pz, dtype=float), np.array(pn, dtype=float))
        except Exception as e:  # noqa: BLE001
            out['all'] = e
    return out


def relational(findings, tests, test_type, case, identical_pairs=()):
    """range, symmetry, unit diagonal; test_all agrees with the single accessors"""
    for name in ('pair', 'zero', 'noise'):
        p = tests[name]
        if isinstance(p, Exception) and test_type == 'bootstrap' and name == 'noise' and tests.get('_ndim', 2) > 2:
            # evaluation arrays with fold / repetition axes come with per-repetition ceilings in the library's own
            # evaluators; the synthetic pairing (folds x 2-by-N ceiling) is not an input the property speaks about
            continue
        if isinstance(p, Exception):
            findings.append((f'C06/d/raises/{test_type}/{name}/{type(p).__name__}',
                             f'test_{name}({test_type!r}) raises {type(p).__name__}: {str(p)[:120]}', case))
            continue
        bad = ~((p >= 0) & (p <= 1))
        if name == 'pair' and p.ndim == 2:
            for (i, j) in identical_pairs:      # 0/0 for models with identical evaluations: excluded
                bad[i, j] = bad[j, i] = False
        if bad.any():
            v = p[bad].reshape(-1)[0]
            kind = 'nan' if math.isnan(v) else ('above1' if v > 1 else 'below0')
            findings.append((f'C06/d/range/{test_type}/{name}/{kind}',
                             f'p-value {v!r} of test_{name}({test_type!r}) is not in [0, 1]', case))
        if name == 'pair':
            if p.ndim != 2 or p.shape[0] != p.shape[1]:
                findings.append((f'C06/d/symmetry/{test_type}/shape', f'pairwise p-values have shape {p.shape}', case))
                continue
            q = np.where(np.isnan(p), -1.0, p)
            if not np.array_equal(q, q.T):
                findings.append((f'C06/d/symmetry/{test_type}', 'pairwise p-value matrix is not symmetric', case))
            if not np.all(np.diag(p) == 1):
                findings.append((f'C06/d/diagonal/{test_type}', f'diagonal of the pairwise p-values is {np.diag(p).tolist()}', case))
    a = tests.get('all')
    if a is None:
        return
    if not isinstance(a, Exception):
        for name, pa in zip(('pair', 'zero', 'noise'), a):
            p = tests[name]
            if not isinstance(p, Exception) and not (p.shape == pa.shape and np.allclose(p, pa, rtol=0, atol=1e-15, equal_nan=True)):
                findings.append((f'C06/d/test_all/{test_type}/{name}', 'test_all disagrees with the single test accessor', case))
    elif not any(isinstance(tests[n], Exception) for n in ('pair', 'zero', 'noise')):
        findings.append((f'C06/d/raises/{test_type}/all/{type(a).__name__}', f'test_all raises {a}', case))


def collect(r, test_types, with_all=True):
    """every output clause f speaks about, by name"""
    o = {}
    with warnings.catch_warnings(), np.errstate(all='ignore'):
        warnings.simplefilter('ignore')
        o['means'] = np.asarray(r.get_means(), dtype=float)
        if r.model_var is not None:
            o['model_var'] = np.asarray(r.model_var, dtype=float)
            o['get_model_var'] = np.asarray(r.get_model_var(), dtype=float)
            o['diff_var'] = np.asarray(r.diff_var, dtype=float)
            o['noise_ceil_var'] = np.asarray(r.noise_ceil_var, dtype=float)
            o['sem'] = np.asarray(r.get_sem(), dtype=float)
            try:
                ci = r.get_ci(0.9, 't-test')
                o['ci_low'], o['ci_high'] = np.asarray(ci[0], dtype=float), np.asarray(ci[1], dtype=float)
            except Exception as e:  # noqa: BLE001
                o['ci_low'] = e
    for tt in test_types:
        t = run_tests(r, tt, with_all)
        for name in ('pair', 'zero', 'noise'):
            o[f'p_{name}/{tt}'] = t[name]
        o[f'_tests/{tt}'] = t
    return o


def permuted_expectation(name, val, p, k):
    """what output `name` must be after the models were reordered: new model a = old model p[a]"""
    p = list(p)
    if name == 'diff_var':
        idx = {pr: x for x, pr in enumerate(pair_index(k))}
        return np.array([val[idx[(min(p[a], p[b]), max(p[a], p[b]))]] for (a, b) in pair_index(k)], dtype=float)
    if name.startswith('p_pair'):
        return val[np.ix_(p, p)]
    return val[p]


def check_permutations(findings, build, base_out, k, test_types, perms, case, boot_class=''):
    """clause f on the implementation: rebuild the Result for the reordered models, compare all outputs"""
    n = 0
    for ip, p in enumerate(perms):
        rp = build(p)
        # the (slow) rank-sum tests are re-run for the first reordering only
        op = collect(rp, [t for t in test_types if t != 'ranksum' or ip == 0], with_all=False)
        n += 1
        for name, val in base_out.items():
            if name.startswith('_') or (name.endswith('/ranksum') and ip > 0):
                continue
            got = op.get(name)
            if isinstance(val, Exception) or isinstance(got, Exception):
                if isinstance(val, Exception) != isinstance(got, Exception):
                    findings.append((f'C06/f/permute/{name}/raises', 'an accessor raises for one model order only',
                                     {**case, 'perm': list(p)}))
                continue
            if val.ndim == 0 or val.shape[0] != (len(pair_index(k)) if name == 'diff_var' else k):
                continue                       # not indexed by model (cannot happen for admissible inputs)
            exp = permuted_expectation(name, val, p, k)
            tol = PTOL if name.startswith('p_') else 1e-11
            if got.shape != exp.shape or not np.allclose(got, exp, rtol=tol, atol=tol, equal_nan=True):
                suffix = boot_class if name == 'p_pair/bootstrap' else ''
                findings.append((f'C06/f/permute/{name}{suffix}', f'{name} is not permuted with the models',
                                 {**case, 'perm': list(p), 'got': got.tolist(), 'expected': exp.tolist()}))
    return n


def per_sample(ev):
    """samples x models: what the bootstrap tests compare (NaN-aware mean over the trailing axes)"""
    with warnings.catch_warnings(), np.errstate(all='ignore'):
        warnings.simplefilter('ignore')
        x = np.asarray(ev, dtype=float)
        while x.ndim > 2:
            x = np.nanmean(x, axis=-1)
    return x


def boot_pair_class(ev):
    """key suffix for failures of the pairwise bootstrap test: '' = the array holds NaN samples (known
    open finding on this tree), '/ties' = no NaN, two models tie exactly in some sample, '/plain' = neither"""
    x = per_sample(ev)
    if np.isnan(x).any():
        return ''
    k = x.shape[1]
    if any(np.any(x[:, i] == x[:, j]) for i, j in pair_index(k)):
        return '/ties'
    return '/plain'


def check_boot_pair_value(findings, p_pair, ev, case):
    """docstring of bootstrap_pair_tests: two-sided, 2 * the smaller proportion, 1/N added (shrunk by
    (N-1)/N).  The docstring says nothing about ties or NaN samples: compared only on arrays without either."""
    if isinstance(p_pair, Exception) or boot_pair_class(ev) != '/plain':
        return 0
    x = per_sample(ev)
    n, k = x.shape
    for i, j in pair_index(k):
        prop = np.sum(x[:, i] < x[:, j]) / n
        e = (n - 1) / n * 2 * min(prop, 1 - prop) + 1 / n
        if abs(p_pair[i, j] - e) > 1e-12 or abs(p_pair[j, i] - e) > 1e-12:
            findings.append(('C06/d/value/bootstrap/pair', f'pairwise bootstrap p {p_pair[i, j]!r}, documented '
                             f'2 * smaller proportion with 1/N added: {e!r}', case))
            break
    return 1


def some_perms(k, idx, cap=3):
    ps = [p for p in permutations(range(k)) if list(p) != list(range(k))]
    if len(ps) <= cap:
        return ps
    rng = np.random.default_rng(abs(idx))
    return [ps[i] for i in rng.choice(len(ps), cap, replace=False)]


def identical_model_pairs(ev, k):
    """pairs of models whose per-sample evaluations coincide wherever both are valid"""
    with warnings.catch_warnings(), np.errstate(all='ignore'):
        warnings.simplefilter('ignore')
        x = ev
        while x.ndim > 2:
            x = np.nanmean(x, axis=-1)
    out = []
    for i, j in pair_index(k):
        a, b = x[:, i], x[:, j]
        ok = ~(np.isnan(a) | np.isnan(b))
        if not np.any(a[ok] != b[ok]):
            out.append((i, j))
    return out


# ------------------------------------------------------------------------------------------------
# 'var' vectors: extract_variances and the Result accessors
# ------------------------------------------------------------------------------------------------
def evaluations_for(idx, k):
    """deterministic NaN-free evaluation array for a covariance vector: three layouts"""
    rng = np.random.default_rng(1000003 + idx)
    lay = mix(idx, 1, 3)
    if lay == 0:
        shape, cvm = (1, k, 5), 'fixed'
    elif lay == 1:
        shape, cvm = (6, k), CV2[mix(idx, 2, len(CV2))]
    else:
        shape, cvm = (5, k, 4), CV2[mix(idx, 2, len(CV2))]
    ev = rng.integers(-6, 9, size=shape) / 8.0
    ev += (np.arange(k) * 0.173).reshape((1, k) + (1,) * (len(shape) - 2))   # no two identical models
    if lay >= 1 and k >= 2 and mix(idx, 7, 2) == 1:
        # exact ties between two models in a subset of the samples (rank-based measures with few conditions,
        # nested models): wins and losses stay unequal in general, the models never identical
        a, b = sorted(rng.choice(k, 2, replace=False).tolist())
        tied = rng.choice(shape[0], int(rng.integers(1, shape[0] - 1)), replace=False)
        ev[tied, b] = ev[tied, a]
    return ev, cvm, lay


def check_var(rec, idx, heavy=True):
    inp, exp = rec['inp'], rec['exp']
    k, nc, shape = inp['k'], inp['nc'], inp['shape']
    nr, npat = none0(inp['nr']), none0(inp['np'])
    sh = SHAPE[shape]
    findings, nev = [], 0
    case = {'inp': inp, 'expected': exp}
    e_mv, e_dv, e_ncv = frs(exp['mv']), frs(exp['dv']), frs(exp['ncv'])
    npairs = k * (k - 1) // 2
    flavour = mix(idx, 3, 3)
    cov = cov_numpy(inp, flavour)
    case['flavour'] = ['float64', 'int64', 'fortran/0-d'][flavour]
    # ---- direct call
    try:
        with np.errstate(all='ignore'):
            mv, dv, ncv = extract_variances(cov.copy() if hasattr(cov, 'copy') else cov, nc, nr, npat)
        nev += 1
        for name, got, e, shp in (('model_var', mv, e_mv, (k,)), ('diff_var', dv, e_dv, (npairs,)),
                                  ('noise_ceil_var', ncv, e_ncv, (k, 2))):
            m = arr_close(got, e, shp)
            if m:
                findings.append((f'C06/b/{name}/{sh}/extract_variances', f'extract_variances: {name}: {m}', case))
    except Exception as e:  # noqa: BLE001
        findings.append((f'C06/b/raises/{sh}/extract_variances/{type(e).__name__}',
                         f'extract_variances raises {type(e).__name__}: {str(e)[:160]}', case))
    # ---- through a Result
    ev, cvm, lay = evaluations_for(idx, k)
    dof = (1, 3, 11)[mix(idx, 4, 3)]
    noise = np.array([0.45, 0.8]) if mix(idx, 5, 2) == 0 or ev.shape[0] == 1 else \
        np.array([np.full(ev.shape[0], 0.45), np.full(ev.shape[0], 0.8)])
    if noise.ndim == 2 and ev.ndim == 2 and mix(idx, 8, 2) == 1:
        noise[:, mix(idx, 9, ev.shape[0])] = np.nan      # a sample whose noise ceiling could not be computed

    def build(p=None):
        if p is None:
            c, e_ = cov, ev
        else:
            pe = list(p) + ([k, k + 1] if nc else [])
            if shape == 0:
                c = cov
            elif shape == 1:
                c = cov[pe]
            elif shape == 2:
                c = cov[np.ix_(pe, pe)]
            else:
                c = cov[:, pe][:, :, pe]
            e_ = ev[:, list(p)]
        return Result(models(k), e_.copy(), 'cosine', cvm, noise.copy(), variances=c, dof=dof,
                      n_rdm=nr, n_pattern=npat)
    try:
        with np.errstate(all='ignore'):
            r = build()
        nev += 1
    except Exception as e:  # noqa: BLE001
        findings.append((f'C06/b/raises/{sh}/Result/{type(e).__name__}',
                         f'Result(...) raises {type(e).__name__}: {str(e)[:160]}', case))
        return findings, nev
    bad_shape = False
    for name, got, e, shp in (('model_var', r.model_var, e_mv, (k,)), ('model_var', r.get_model_var(), e_mv, (k,)),
                              ('diff_var', r.diff_var, e_dv, (npairs,)),
                              ('noise_ceil_var', r.noise_ceil_var, e_ncv, (k, 2))):
        m = arr_close(got, e, shp)
        if m:
            findings.append((f'C06/b/{name}/{sh}/Result', f'Result.{name}: {m}', case))
            if m.startswith('shape'):
                bad_shape = True
    sem = np.asarray(r.get_sem(), dtype=float)
    if sem.shape != (k,):
        findings.append((f'C06/e/sem/shape/{sh}', f'get_sem() has shape {sem.shape} for {k} models', case))
        bad_shape = True
    if bad_shape:
        # the Result does not even have one entry per model / pair: every further accessor is meaningless
        # (reported above with its own key; nothing below may index into these arrays)
        return findings, nev
    if not np.all(sem >= 0):
        findings.append(('C06/e/sem/negative', f'get_sem() = {sem.tolist()}', case))
    else:
        for a in range(k):
            if abs(sem[a] - math.sqrt(max(float(e_mv[a]), 0.0))) > RTOL * max(1.0, sem[a]):
                findings.append((f'C06/e/sem/value/{sh}', 'get_sem() is not the square root of the model variance', case))
                break
    # clause c on the implementation's own numbers (3-stacks): never above the double-bootstrap
    # variance; never below a corrected single-factor variance that is itself not above it
    if shape == 3:
        both = nr is not None and npat is not None
        f1 = nr / (nr - 1) if both else 1.0
        f2 = npat / (npat - 1) if both else 1.0
        c3 = np.asarray(cov, dtype=float)
        for a in range(k):
            v0, v1, v2 = c3[0, a, a], c3[1, a, a] * f1, c3[2, a, a] * f2
            g = float(r.model_var[a])
            if g > v0 + 1e-12 or (v1 <= v0 and g < v1 - 1e-12) or (v2 <= v0 and g < v2 - 1e-12):
                findings.append(('C06/c/bound/model_var', 'dual bootstrap combination leaves its bounds', case))
                break
    if not heavy:
        return findings, nev
    # ---- relational clauses on the p-values, all three test types where the layout allows them
    test_types = ['t-test'] + (['bootstrap'] if lay >= 1 else []) + (['ranksum'] if lay in (0, 2) else [])
    base = collect(r, test_types)
    for tt in test_types:
        relational(findings, base[f'_tests/{tt}'], tt, {**case, 'evaluations': ev.tolist(), 'cv_method': cvm,
                                                       'noise_ceiling': noise.tolist(), 'dof': dof})
        nev += 4
    if 'ci_low' in base and not isinstance(base['ci_low'], Exception):
        mm = base['means']
        if not (np.all(base['ci_low'] <= mm + 1e-15) and np.all(mm <= base['ci_high'] + 1e-15)):
            findings.append(('C06/e/ci/order', 'get_ci: mean not inside the interval', case))
        q = st.t.ppf(0.95, dof)
        if not np.allclose(base['ci_high'] - mm, base['sem'] * q, rtol=1e-9, atol=1e-12):
            findings.append(('C06/e/ci/halfwidth', 'get_ci half width is not SEM times the t quantile', case))
    if 'bootstrap' in test_types:
        nev += check_boot_pair_value(findings, base['p_pair/bootstrap'], ev, {**case, 'evaluations': ev.tolist()})
    nev += check_permutations(findings, build, base, k, test_types, some_perms(k, idx),
                              {**case, 'evaluations': ev.tolist(), 'cv_method': cvm}, boot_pair_class(ev))
    return findings, nev


# ------------------------------------------------------------------------------------------------
# 'means' vectors: get_means and tests on arrays with NaN marks
# ------------------------------------------------------------------------------------------------
def ev_numpy(ev):
    a = np.array(ev, dtype=float)
    a[a == NAN] = np.nan
    return a


def check_means(rec, idx, heavy=True):
    inp, exp = rec['inp'], rec['exp']
    k, d, cv = inp['k'], inp['d'], inp['cv']
    findings, nev = [], 0
    ev = ev_numpy(inp['ev'])
    cvm = CV1[mix(idx, 1, 2)] if cv == 1 else CV2[mix(idx, 2, len(CV2))]
    e_means = frs(exp['means'])
    case = {'inp': inp, 'expected': exp, 'cv_method': cvm}
    S = ev.shape[0]
    per_sample_nc = cv == 2 and mix(idx, 5, 2) == 1
    noise = np.array([np.full(S, 0.45), np.full(S, 0.8)]) if per_sample_nc else np.array([0.45, 0.8])
    if per_sample_nc and ev.ndim == 2:
        # the evaluators write NaN into the noise ceiling of every sample they mark invalid (arrays with fold
        # axes come with per-repetition ceilings in the library; the synthetic 2 x N pairing stays NaN-free)
        dead = np.isnan(per_sample(ev)).all(axis=1)
        if dead.any() and not dead.all():
            noise[:, dead] = np.nan
        elif S >= 2 and mix(idx, 8, 2) == 1:
            noise[:, mix(idx, 9, S)] = np.nan
    var = np.arange(1, k + 1) * 0.03
    dof = (2, 7)[mix(idx, 4, 2)]

    def build(p=None):
        e_ = ev if p is None else ev[:, list(p)]
        v = var if p is None else var[list(p)]
        return Result(models(k), e_.copy(), 'cosine', cvm, noise.copy(), variances=v, dof=dof,
                      n_rdm=None, n_pattern=None)
    try:
        r = build()
        with warnings.catch_warnings(), np.errstate(all='ignore'):
            warnings.simplefilter('ignore')
            got = np.asarray(r.get_means(), dtype=float)
        nev += 1
    except Exception as e:  # noqa: BLE001
        findings.append((f'C06/e/get_means/raises/{type(e).__name__}', f'get_means raises {e}', case))
        return findings, nev
    m = arr_close(got, e_means, (k,))
    if m:
        findings.append((f'C06/e/get_means/cv{cv}/{d}d', f'get_means ({cvm}, {d}-d array): {m}', {**case, 'got': got.tolist()}))
    if heavy and cv == 1 and any(e is None for e in e_means) and not all(e is None for e in e_means):
        # a model without any value: the others keep their means whatever its position (clauses e, f)
        for p in some_perms(k, idx):
            with warnings.catch_warnings(), np.errstate(all='ignore'):
                warnings.simplefilter('ignore')
                gp = np.asarray(build(p).get_means(), dtype=float)
            nev += 1
            if gp.shape != (k,) or not np.allclose(gp, got[list(p)], rtol=1e-12, atol=1e-12, equal_nan=True):
                findings.append((f'C06/f/permute/means/cv{cv}/nan-model', 'get_means of a result with an all-NaN model depends '
                                 'on the order of the models', {**case, 'perm': list(p), 'got': gp.tolist(),
                                                                'expected': got[list(p)].tolist()}))
    if not heavy or any(e is None for e in e_means):
        return findings, nev              # some model without a single valid sample: no p-values to test
    with warnings.catch_warnings(), np.errstate(all='ignore'):
        warnings.simplefilter('ignore')
        first = np.nanmean(ev, axis=0)
    test_types = ['t-test'] + (['bootstrap'] if S >= 2 else []) + \
        (['ranksum'] if ev.ndim == 3 and ev.shape[2] >= 2 and not np.isnan(first).any() else [])
    base = collect(r, test_types)
    ident = identical_model_pairs(ev, k)
    for tt in test_types:
        relational(findings, base[f'_tests/{tt}'], tt, {**case, 'noise_ceiling': noise.tolist()},
                   identical_pairs=ident if tt == 'bootstrap' else ())
        nev += 4
    if 'bootstrap' in test_types:
        nev += check_boot_pair_value(findings, base['p_pair/bootstrap'], ev, case)
    nev += check_permutations(findings, build, base, k, test_types, some_perms(k, idx), case, boot_pair_class(ev))
    return findings, nev


# ------------------------------------------------------------------------------------------------
# 'fixed' vectors: clause a and the monotonicity chain
# ------------------------------------------------------------------------------------------------
def fixed_result(E, noise, k):
    """exactly what eval_fixed does with per-subject evaluations E (k x n)"""
    n = E.shape[1]
    variances = np.cov(E, ddof=0) / n
    return Result(models(k), E.reshape(1, k, n).copy(), 'cosine', 'fixed', np.array(noise), variances=variances,
                  dof=n - 1, n_rdm=n, n_pattern=None), variances


def t_kernel(effect, var, dof, two_sided):
    """trusted last step: p-value of the exact statistic effect / sqrt(var)"""
    t = float(effect) / math.sqrt(float(var))
    return 2 * st.t.sf(abs(t), dof) if two_sided else st.t.sf(t, dof)


def check_fixed(rec, idx, heavy=True):
    inp, exp = rec['inp'], rec['exp']
    k, n, who, hist = inp['k'], inp['n'], inp['who'], inp['hist']
    findings, nev = [], 0
    case = {'inp': inp, 'expected': exp}
    base = np.array(inp['base'], dtype=float)
    e_mv, e_dv, e_ncv = frs(exp['mv']), frs(exp['dv']), frs(exp['ncv'])
    e_cov = frs(exp['cov'])
    means_final = frs(exp['means'])
    total = sum(hist)
    cum = [0]
    for h in hist:
        cum.append(cum[-1] + h)
    nc_low = Fraction([1, 3, -1, 5][mix(idx, 6, 4)], 2)
    noise = (float(nc_low), float(nc_low) + 0.7)
    pairs = pair_index(k)
    npairs = len(pairs)
    chain = []          # (exact means, p_pair, p_zero, p_noise) per chain point
    dofs = n - 1
    for step, c in enumerate(cum):
        E = base.copy()
        if who:
            E[who - 1] += c
        mean = [m if (not who or a != who - 1) else m - (total - c) for a, m in enumerate(means_final)]
        scase = {**case, 'chain_step': step, 'evaluations': E.tolist(), 'noise_ceiling': list(noise)}
        try:
            r, variances = fixed_result(E, noise, k)
            nev += 1
        except Exception as e:  # noqa: BLE001
            findings.append((f'C06/a/raises/Result/{type(e).__name__}', f'Result for a fixed evaluation raises {e}', scase))
            return findings, nev
        # the stored covariance (numpy, not rsatoolbox): cross-check of the specification's CovStage
        if arr_close(np.atleast_2d(variances), e_cov, (k, k)):
            raise AssertionError(f'kernel/spec disagreement on cov(ddof=0)/n: {variances} vs {exp["cov"]}')
        sh = 'scalar' if k == 1 else 'matrix'
        for name, got, e, shp in (('model_var', r.model_var, e_mv, (k,)), ('diff_var', r.diff_var, e_dv, (npairs,)),
                                  ('noise_ceil_var', r.noise_ceil_var, e_ncv, (k, 2))):
            m = arr_close(got, e, shp)
            if m:
                findings.append((f'C06/a/{name}/{sh}', f'fixed evaluation: Result.{name}: {m}', scase))
        m = arr_close(r.get_means(), mean, (k,))
        if m:
            findings.append(('C06/e/get_means/cv1/3d', f'fixed evaluation: get_means: {m}', scase))
        sem = np.asarray(r.get_sem(), dtype=float)
        sem_classic = st.sem(E, axis=1, ddof=1) if n > 1 else np.full(k, np.nan)
        if not (np.all(sem >= 0) and np.allclose(sem, sem_classic, rtol=1e-10, atol=1e-13)):
            findings.append(('C06/a/sem', f'SEM {sem.tolist()} is not the classical standard error {sem_classic.tolist()}', scase))
        t = run_tests(r, 't-test')
        relational(findings, t, 't-test', scase)
        nev += 4
        if any(isinstance(t[x], Exception) for x in ('pair', 'zero', 'noise')):
            return findings, nev
        # ---- clause a: the three p-values
        with warnings.catch_warnings(), np.errstate(all='ignore'):
            warnings.simplefilter('ignore')
            for a in range(k):
                if e_mv[a] > 0:
                    pk = t_kernel(mean[a], e_mv[a], dofs, False)
                    ps = st.ttest_1samp(E[a], 0.0, alternative='greater').pvalue
                    if abs(t['zero'][a] - pk) > PTOL or abs(t['zero'][a] - ps) > PTOL:
                        findings.append(('C06/a/p_zero', f'test_zero = {t["zero"][a]!r}; one-sided one-sample t-test: {ps!r} '
                                         f'(exact statistic: {pk!r})', scase))
                    pk = t_kernel(mean[a] - nc_low, e_ncv[a][0], dofs, True)
                    ps = st.ttest_1samp(E[a], float(nc_low)).pvalue
                    if abs(t['noise'][a] - pk) > PTOL or abs(t['noise'][a] - ps) > PTOL:
                        findings.append(('C06/a/p_noise', f'test_noise = {t["noise"][a]!r}; two-sided one-sample t-test against '
                                         f'the lower noise ceiling: {ps!r} (exact statistic: {pk!r})', scase))
            for x, (a, b) in enumerate(pairs):
                if e_dv[x] > 0:
                    pk = t_kernel(mean[a] - mean[b], e_dv[x], dofs, True)
                    ps = st.ttest_rel(E[a], E[b]).pvalue
                    got = t['pair'][a, b]
                    if abs(got - pk) > PTOL or abs(got - ps) > PTOL:
                        findings.append(('C06/a/p_pair', f'test_pairwise[{a},{b}] = {got!r}; paired t-test: {ps!r} '
                                         f'(exact statistic: {pk!r})', scase))
        chain.append((mean, t['pair'], t['zero'], t['noise']))
        if not who:
            break
    # ---- clause d: larger effect at equal variance never gives a larger p-value
    if who:
        w = who - 1
        eps = 1e-15
        for i in range(len(chain)):
            for j in range(len(chain)):
                mi, mj = chain[i][0], chain[j][0]
                ccase = {**case, 'steps': [i, j]}
                if mi[w] >= mj[w] and chain[i][2][w] > chain[j][2][w] + eps:
                    findings.append(('C06/d/monotone/t-test/zero', 'larger mean at equal variance, larger p against zero', ccase))
                if abs(mi[w] - nc_low) >= abs(mj[w] - nc_low) and chain[i][3][w] > chain[j][3][w] + eps:
                    findings.append(('C06/d/monotone/t-test/noise', 'larger distance to the ceiling at equal variance, larger p', ccase))
                for b in range(k):
                    if b != w and abs(mi[w] - mi[b]) >= abs(mj[w] - mj[b]) and chain[i][1][w, b] > chain[j][1][w, b] + eps:
                        findings.append(('C06/d/monotone/t-test/pair', 'larger difference at equal variance, larger pairwise p', ccase))
        nev += len(chain) ** 2
    if not heavy:
        return findings, nev
    # ---- ranksum on the same per-subject evaluations + permutations (final chain point)
    E = base.copy()
    if who:
        E[who - 1] += total

    def build(p=None):
        return fixed_result(E if p is None else E[list(p)], noise, k)[0]
    r = build()
    tts = ['t-test', 'ranksum']
    out = collect(r, tts)
    relational(findings, out['_tests/ranksum'], 'ranksum', {**case, 'evaluations': E.tolist()})
    nev += 4
    nev += check_permutations(findings, build, out, k, tts, some_perms(k, idx), {**case, 'evaluations': E.tolist()})
    return findings, nev


# ------------------------------------------------------------------------------------------------
# the real eval_fixed on small data RDM stacks (clause a end to end)
# ------------------------------------------------------------------------------------------------
METHODS = ['cosine', 'corr', 'cosine_cov', 'corr_cov', 'spearman', 'rho-a', 'kendall', 'tau-a']


def check_eval_fixed(seed):
    rng = np.random.default_rng(seed)
    findings, nev = [], 0
    n_cond = int(rng.integers(4, 7))
    n_rdm = int(rng.integers(2, 8))
    k = int(rng.integers(1, 5))
    method = METHODS[seed % len(METHODS)]
    nvec = n_cond * (n_cond - 1) // 2
    data_v = rng.integers(1, 10, size=(n_rdm, nvec)).astype(float)
    model_v = rng.integers(1, 10, size=(k, nvec)).astype(float)
    case = {'seed': int(seed), 'method': method, 'data': data_v.tolist(), 'models': model_v.tolist()}
    ms = [ModelFixed(f'm{i}', model_v[i]) for i in range(k)]
    # the same subject stack three ways: as built; resampled with replacement by its 'index' descriptor
    # (subsample / bootstrap_sample_rdm leave DUPLICATED index values); built with duplicated index values.
    # The per-subject evaluations are n_rdm columns in every case: n_rdm - 1 degrees of freedom.
    variant = (seed // len(METHODS)) % 3
    data = RDMs(data_v)
    if variant == 1 and n_rdm >= 3:
        pick = np.sort(rng.integers(0, n_rdm - 1, size=n_rdm))      # at least one value twice
        data = data.subsample('index', pick.tolist())
    elif variant == 2 and n_rdm >= 3:
        data = RDMs(data_v, rdm_descriptors={'index': np.sort(rng.integers(0, n_rdm - 1, size=n_rdm)).tolist()})
    case['index'] = [int(x) for x in data.rdm_descriptors['index']]
    n_rdm = data.n_rdm
    with warnings.catch_warnings(), np.errstate(all='ignore'):
        warnings.simplefilter('ignore')
        try:
            r = eval_fixed(ms if (k > 1 or seed % 2) else ms[0], data, method=method)
            nev += 1
        except Exception as e:  # noqa: BLE001
            return [(f'C06/a/raises/eval_fixed/{type(e).__name__}', f'eval_fixed raises {e}', case)], nev, None
        E = np.asarray(r.evaluations)[0]
        if E.shape != (k, n_rdm) or np.isnan(E).any():
            return findings, nev, 'evaluations not finite'       # not this property's business (C03/C04)
        sd = E.std(axis=1, ddof=1)
        if np.any(sd < 1e-9 * max(1.0, np.abs(E).max())):
            return findings, nev, 'constant evaluations'        # degenerate: t statistic undefined
        nc_low = float(np.nanmean(np.asarray(r.noise_ceiling)[0]))
        if not np.allclose(r.get_means(), E.mean(axis=1), rtol=1e-12, atol=1e-14):
            findings.append(('C06/e/get_means/eval_fixed', 'get_means is not the mean over subjects', case))
        sem = np.asarray(r.get_sem(), dtype=float)
        if not (np.all(sem >= 0) and np.allclose(sem, st.sem(E, axis=1), rtol=1e-9, atol=1e-14)):
            findings.append(('C06/a/sem', f'eval_fixed: SEM {sem.tolist()} is not the classical standard error '
                             f'{st.sem(E, axis=1).tolist()}', case))
        pp, pz, pn = r.test_all('t-test')
        one = [np.asarray(r.test_pairwise()), np.asarray(r.test_zero()), np.asarray(r.test_noise())]
        if not all(np.allclose(a, b, rtol=0, atol=1e-15) for a, b in zip((pp, pz, pn), one)):
            findings.append(('C06/d/test_all/t-test/eval_fixed', 'test_all disagrees with the single accessors', case))
        for a in range(k):
            ps = st.ttest_1samp(E[a], 0.0, alternative='greater').pvalue
            if abs(pz[a] - ps) > 1e-9:
                findings.append(('C06/a/p_zero', f'eval_fixed: test_zero {pz[a]!r}, one-sided one-sample t-test {ps!r}', case))
            ps = st.ttest_1samp(E[a], nc_low).pvalue
            if abs(pn[a] - ps) > 1e-9:
                findings.append(('C06/a/p_noise', f'eval_fixed: test_noise {pn[a]!r}, two-sided one-sample t-test against the '
                                 f'lower noise ceiling {ps!r}', case))
        ndeg = 0
        for a, b in pair_index(k):
            dd = E[a] - E[b]
            if dd.std(ddof=1) < 1e-9 * max(1.0, np.abs(E).max()):
                ndeg += 1
                continue
            ps = st.ttest_rel(E[a], E[b]).pvalue
            if abs(pp[a, b] - ps) > 1e-9 or pp[a, b] != pp[b, a]:
                findings.append(('C06/a/p_pair', f'eval_fixed: test_pairwise {pp[a, b]!r}, paired t-test {ps!r}', case))
        nev += 3 * k
        # the same Result after to_dict / result_from_dict still describes the same fixed evaluation
        try:
            r2 = result_from_dict(r.to_dict())
            sem2 = np.asarray(r2.get_sem(), dtype=float)
            if not np.allclose(sem2, sem, rtol=1e-12, atol=0):
                findings.append(('C06/a/sem/reloaded', f'SEM of a fixed evaluation changes from {sem.tolist()} to '
                                 f'{sem2.tolist()} after to_dict/result_from_dict (n_rdm={n_rdm}, n_cond={n_cond})', case))
            nev += 1
        except Exception as e:  # noqa: BLE001
            findings.append((f'C06/a/raises/reload/{type(e).__name__}', f'result_from_dict(to_dict()) raises {e}', case))
    return findings, nev, None


# ------------------------------------------------------------------------------------------------
# float tier of clause c: random real triples through the public extract_variances
# ------------------------------------------------------------------------------------------------
def check_dual_float(seed, ntrip=200):
    rng = np.random.default_rng(seed)
    findings = []
    v = rng.standard_normal((ntrip, 3)) * rng.choice([0.01, 1.0, 50.0], size=(ntrip, 1))
    v[:, 0] += rng.choice([0.0, 1.0, 3.0], size=ntrip)
    for t in range(ntrip):
        nr, npat = [(None, None), (int(rng.integers(2, 30)), int(rng.integers(2, 30))),
                    (int(rng.integers(2, 30)), None)][t % 3]
        stack = v[t].reshape(3, 1, 1)
        mv, dv, ncv = extract_variances(stack, False, nr, npat)
        both = nr is not None and npat is not None
        c1 = v[t, 1] * (nr / (nr - 1) if both else 1.0)
        c2 = v[t, 2] * (npat / (npat - 1) if both else 1.0)
        g, v0 = float(mv[0]), v[t, 0]
        tol = 1e-12 * max(1.0, abs(v0), abs(c1), abs(c2))
        if g > v0 + tol or (c1 <= v0 and g < c1 - tol) or (c2 <= v0 and g < c2 - tol):
            findings.append(('C06/c/bound/float', 'dual bootstrap combination leaves its bounds on real-valued input',
                             {'stack': v[t].tolist(), 'n_rdm': nr, 'n_pattern': npat, 'got': g}))
    return findings, ntrip


# ------------------------------------------------------------------------------------------------
# implementation -> specification: recorded executions for Trace_Variances.tla
# ------------------------------------------------------------------------------------------------
def _scaled(x, den):
    """out * den as integers; frac=True when some product is not an integer (the trace is then rejected)"""
    a = np.asarray(x, dtype=float) * den
    r = np.rint(a)
    frac = bool(np.any(np.abs(a - r) > 1e-7 * np.maximum(1.0, np.abs(a))) or np.any(~np.isfinite(a)))
    r = np.where(np.isfinite(r), r, 0)
    return r.astype(np.int64).tolist(), frac


def _sym_int(rng, M, lo, hi):
    a = rng.integers(lo, hi + 1, size=(M, M))
    return a + a.T


def random_var_input(rng):
    shape = int(rng.integers(0, 4))
    if shape == 0:
        k, nc = 1, False
        cov = int(rng.integers(-20, 40))
    else:
        k = int(rng.integers(1, 6))
        nc = bool(rng.integers(2))
        M = k + 2 if nc else k
        if shape == 1:
            cov = rng.integers(-20, 40, size=M).tolist()
        elif shape == 2:
            cov = _sym_int(rng, M, -15, 15).tolist()
        else:
            cov = [_sym_int(rng, M, -15, 15).tolist() for _ in range(3)]
            if rng.integers(2):      # an "ordered" stack: double bootstrap roughly the sum of the two
                a = np.array(cov[1]) + np.array(cov[2]) + np.diag(rng.integers(0, 4, size=M))
                cov[0] = a.tolist()
    nr = int(rng.choice([0, 2, 3, 5, 8, 12]))
    npat = int(rng.choice([0, 2, 4, 7, 11]))
    return {'shape': shape, 'k': k, 'nc': nc, 'cov': cov, 'nr': nr, 'np': npat}


def extract_event(inp, mv, dv, ncv, via):
    nr, npat = inp['nr'], inp['np']
    if inp['shape'] == 3:
        den = (nr - 1) * (npat - 1) if nr and npat else 1
    else:
        n = min(nr, npat) if nr and npat else (npat or nr)
        den = n - 1 if n else 1
    a, f1 = _scaled(mv, den)
    b, f2 = _scaled(dv, den)
    c, f3 = _scaled(ncv, den)
    return {'op': 'extract', 'via': via, **inp, 'den': int(den), 'frac': f1 or f2 or f3,
            'mv': a, 'dv': b, 'ncv': c}


def random_eval_array(rng, k):
    """integer evaluation array of 2-5 dimensions with whole-sample, whole-fold and single-entry NaN marks
    (admissible: the NaN status of a sample's value is the same for every model)"""
    cv = 1 if rng.integers(4) == 0 else 2
    if cv == 1:
        d, S = 3, 1
    else:
        d, S = int(rng.integers(2, 6)), int(rng.integers(1, 5))
    rest = tuple(int(rng.integers(1, 4)) for _ in range(d - 2))
    ev = rng.integers(-9, 10, size=(S, k) + rest).astype(float)
    for s in range(S):
        u = rng.random()
        if u < 0.2 and cv == 2:
            ev[s] = np.nan                                   # invalid sample
        elif u < 0.6 and d >= 3:
            for _ in range(int(rng.integers(1, 3))):
                ix = tuple(int(rng.integers(0, n)) for n in rest)
                if rng.integers(2):
                    ev[(s, slice(None)) + ix[:1]] = np.nan   # a whole fold, all models
                else:
                    m = int(rng.integers(0, k))
                    ev[(s, m) + ix] = np.nan                 # one entry of one model
    # repair admissibility: a (sample, model) slice that became all-NaN makes the sample invalid for all
    for s in range(S):
        allnan = [bool(np.all(np.isnan(ev[s, m]))) for m in range(k)]
        if any(allnan) and not all(allnan):
            if cv == 2:
                ev[s] = np.nan
    if cv == 1 and k >= 2 and rng.integers(3) == 0:
        ev[0, int(rng.integers(0, k))] = np.nan              # fixed / crossvalidation: one model without any value
    return cv, d, k, ev


def means_event(cv, d, k, ev, got):
    out, frac = [], False
    for x in np.asarray(got, dtype=float).reshape(-1):
        if math.isnan(x):
            out.append([0, 0])
            continue
        f = Fraction(float(x)).limit_denominator(1_000_000)
        if abs(float(f) - x) > 1e-12 * max(1.0, abs(x)):
            frac = True
        out.append([f.numerator, f.denominator])
    nested = np.where(np.isnan(ev), NAN, ev).astype(np.int64).tolist()
    return {'op': 'means', 'cv': cv, 'd': d, 'k': k, 'ev': nested, 'frac': frac, 'out': out}


def record_trace(seed):
    """one recorded execution: extract_variances directly, the same covariance through a Result whose
    evaluation array carries NaN marks, and get_means of that Result"""
    rng = np.random.default_rng(seed)
    inp = random_var_input(rng)
    events, findings = [], []
    cov = cov_numpy({'cov': inp['cov'], 'shape': inp['shape']}, int(rng.integers(0, 2)))
    nr, npat = none0(inp['nr']), none0(inp['np'])
    with warnings.catch_warnings(), np.errstate(all='ignore'):
        warnings.simplefilter('ignore')
        try:
            mv, dv, ncv = extract_variances(cov, inp['nc'], nr, npat)
            events.append(extract_event(inp, mv, dv, ncv, 'extract_variances'))
        except Exception as e:  # noqa: BLE001
            findings.append((f"C06/b/raises/{SHAPE[inp['shape']]}/extract_variances/{type(e).__name__}",
                             f'extract_variances raises {e}', {'inp': inp}))
        # a Result with the same covariance; its evaluation array is independent of the covariance
        k = inp['k']
        cv, d, k, ev = random_eval_array(rng, k)
        cvm = CV1[seed % 2] if cv == 1 else CV2[seed % len(CV2)]
        try:
            r = Result(models(k), ev.copy(), 'cosine', cvm, np.array([0.4, 0.9]), variances=cov, dof=3,
                       n_rdm=nr, n_pattern=npat)
            events.append(extract_event(inp, r.model_var, r.diff_var, r.noise_ceil_var, 'Result'))
            events.append(means_event(cv, d, k, ev, r.get_means()))
        except Exception as e:  # noqa: BLE001
            findings.append((f"C06/b/raises/{SHAPE[inp['shape']]}/Result/{type(e).__name__}",
                             f'Result / get_means raises {e}', {'inp': inp, 'ev': np.where(np.isnan(ev), NAN, ev).tolist()}))
    return events, findings


# ------------------------------------------------------------------------------------------------
# pool entry points
# ------------------------------------------------------------------------------------------------
def probe_model_nan(seed):
    """bootstrap-type results in which exactly one model is NaN everywhere, in every model position.  get_means
    filters the samples by model 0, so the outcome depends on the position of that model; for these cv_methods no
    evaluator writes such arrays and no documentation covers them (contract question): counted, not reported.
    For fixed / crossvalidation the per-model mean is demanded (TLC grid MasksNanModel) - here only cross-checked."""
    rng = np.random.default_rng(seed)
    differs, same, viol = {}, 0, []
    for cvm in CV1 + CV2:
        for k in (2, 3):
            for pos in range(k):
                shape = (1, k, 4) if cvm in CV1 else (4, k, 3)
                ev = rng.integers(-5, 9, size=shape) / 4.0
                ev[:, pos] = np.nan
                with warnings.catch_warnings(), np.errstate(all='ignore'):
                    warnings.simplefilter('ignore')
                    got = np.asarray(Result(models(k), ev.copy(), 'cosine', cvm, np.array([0.4, 0.9])).get_means(), dtype=float)
                    want = np.nanmean(per_sample(ev), axis=0)
                ok = got.shape == (k,) and np.allclose(got, want, rtol=1e-12, atol=1e-12, equal_nan=True)
                if ok:
                    same += 1
                elif cvm in CV1:
                    viol.append((f'C06/e/get_means/cv1/nan-model', f'{cvm}: means {got.tolist()} instead of {want.tolist()} '
                                 f'with model {pos} all NaN', {'cv_method': cvm, 'evaluations': np.where(np.isnan(ev), NAN, ev).tolist()}))
                else:
                    differs[f'{cvm}/pos{pos}'] = differs.get(f'{cvm}/pos{pos}', 0) + 1
    return same, differs, viol


def raised_in_library(e):
    """True if the innermost frames of the traceback are rsatoolbox code (or numpy/scipy called from it), i.e. the
    exception was raised by a library call the harness made, not by the harness's own arithmetic"""
    import traceback
    frames = traceback.extract_tb(e.__traceback__)
    last_own = max((i for i, f in enumerate(frames) if '/verif/harness/' in f.filename), default=-1)
    return any('/rsatoolbox/' in f.filename for f in frames[last_own + 1:])


def checked(fn, rec, idx, heavy):
    try:
        return fn(rec, idx, heavy)
    except Exception as e:  # noqa: BLE001
        if not raised_in_library(e):
            raise                          # the harness itself failed: machinery error (exit 2)
        import traceback
        where = traceback.extract_tb(e.__traceback__)[-1]
        kind = rec['inp']['kind']
        cls = SHAPE[rec['inp']['shape']] if kind == 'var' else kind
        return [(f'C06/raises/{cls}/{type(e).__name__}',
                 f'{type(e).__name__} from {where.name} ({where.filename.split("/")[-1]}:{where.lineno}): {str(e)[:140]}',
                 {'inp': rec['inp'], 'expected': rec['exp']})], 1


def replay_chunk(args):
    """replay a chunk of emitted JSON lines; returns counters and findings grouped by key"""
    base, lines, heavy_mod, means_mod, seed = args
    warnings.filterwarnings('ignore')
    by_key = {}
    stats = {'n': 0, 'evals': 0, 'nontriv': 0, 'var': 0, 'means': 0, 'fixed': 0, 'psd': 0, 'nonpsd': 0,
             'heavy': 0, 'perm_witness': 0, 'shapes': {}}
    for j, line in enumerate(lines):
        idx = base + j
        rec = json.loads(line)
        if 'permuted' in rec:          # witness that TLC took PermuteModels (PermEquivariant not vacuous)
            stats['perm_witness'] += 1
            continue
        kind = rec['inp']['kind']
        hm = means_mod if kind == 'means' else heavy_mod
        heavy = hm <= 1 or mix(idx + seed, 0, hm) == 0
        if kind == 'var':
            f, n = checked(check_var, rec, idx + seed, heavy)
            i = rec['inp']
            stats['psd' if rec['psd'] else 'nonpsd'] += 1
            nt = (i['k'] >= 2 or i['shape'] == 3) and np.any(np.asarray(i['cov']) != 0)
            sk = f"{SHAPE[i['shape']]}/{'nc' if i['nc'] else 'plain'}"
            stats['shapes'][sk] = stats['shapes'].get(sk, 0) + 1
        elif kind == 'means':
            f, n = checked(check_means, rec, idx + seed, heavy)
            flat = np.asarray(rec['inp']['ev']).reshape(-1)
            nt = np.any(flat == NAN) and np.any(flat != NAN)
        else:
            f, n = checked(check_fixed, rec, idx + seed, heavy)
            nt = any(len(set(row)) > 1 for row in rec['inp']['base'])
        stats['n'] += 1
        stats[kind] += 1
        stats['evals'] += n
        stats['nontriv'] += 1 if nt else 0
        stats['heavy'] += 1 if heavy else 0
        for key, what, case in f:
            ent = by_key.setdefault(key, [0, what, {**case, 'vector': rec, 'vector_index': idx + seed}])
            ent[0] += 1
    return stats, by_key


def replay_case(case):
    """re-execute exactly one stored case (./check C06 --replay FILE); returns the findings"""
    if 'vector' in case:
        rec, idx = case['vector'], case['vector_index']
        kind = rec['inp']['kind']
        f = {'var': check_var, 'means': check_means, 'fixed': check_fixed}[kind](rec, idx, True)[0]
    elif 'method' in case and 'seed' in case:
        f = check_eval_fixed(case['seed'])[0]
    elif 'stack' in case:
        f = []
        mv = extract_variances(np.array(case['stack']).reshape(3, 1, 1), False, case['n_rdm'], case['n_pattern'])[0]
        f.append(('C06/c/bound/float', f'combination {float(mv[0])!r} for {case}', case))
    elif 'seed' in case:
        ev, f = record_trace(case['seed'])
        f = f + [('C06/trace', 'recorded events (validate with Trace_Variances)', {'events': ev})]
    else:
        f = []
    return f


def eval_fixed_chunk(seeds):
    warnings.filterwarnings('ignore')
    by_key, nev, skipped = {}, 0, {}
    for s in seeds:
        f, n, skip = check_eval_fixed(s)
        nev += n
        if skip:
            skipped[skip] = skipped.get(skip, 0) + 1
        for key, what, case in f:
            ent = by_key.setdefault(key, [0, what, case])
            ent[0] += 1
    return nev, by_key, skipped


def trace_chunk(seeds):
    warnings.filterwarnings('ignore')
    out = []
    for s in seeds:
        out.append((s,) + record_trace(s))
    return out
