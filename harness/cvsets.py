"""Binding of specs/CvSets.tla to rsatoolbox.inference.crossvalsets / crossval (property C05)."""
from __future__ import annotations

import copy

import numpy as np

from harness import rdmstore as S


class Shuffle:
    """stand-in for numpy.random.shuffle forcing the outcomes chosen by TLC (x <- x[perm])"""

    def __init__(self, perms):
        self.perms = [list(p) for p in perms]
        self._real = np.random.shuffle

    def __call__(self, x):
        if not self.perms:
            raise S.DrawMismatch('more shuffles requested than the specification describes')
        p = self.perms.pop(0)
        if len(p) != len(x):
            raise S.DrawMismatch(f'shuffle of {len(x)} groups, the specification shuffles {len(p)}')
        x[:] = np.asarray(x)[np.array([i - 1 for i in p], dtype=int)]

    def __enter__(self):
        np.random.shuffle = self
        return self

    def __exit__(self, *a):
        np.random.shuffle = self._real


def make_from_abs(a, flavour, values=None):
    """real RDMs object for an abstract record (independent of the library's own operations).
    ``values``: optional dict (r,i,j) -> float replacing the token values."""
    import rsatoolbox
    rows, pats = a['rows'], a['pats']
    n = len(pats)
    vec = np.zeros((len(rows), n * (n - 1) // 2))
    iu = np.triu_indices(n, 1)
    for r in range(len(rows)):
        for k in range(vec.shape[1]):
            t = a['vec'][r][k]
            if t == S.NAN:
                vec[r, k] = np.nan
            elif values is not None:
                i, j = pats[iu[0][k]], pats[iu[1][k]]
                vec[r, k] = values[(rows[r], min(i, j), max(i, j))]
            else:
                vec[r, k] = t
    c = (lambda v: S._container(v, flavour))
    return rsatoolbox.rdm.RDMs(
        vec, dissimilarity_measure='tok', descriptors={'session': 'x'},
        rdm_descriptors={'subj': c([S.enc('subj', r, flavour) for r in rows]),
                         'grp': c([S.enc('grp', S.grp(r), flavour) for r in rows]),
                         'index': list(a['ridx'])},
        pattern_descriptors={'cond': c([S.enc('cond', p, flavour) for p in pats]),
                             'cat': c([S.enc('cat', S.cat(p), flavour) for p in pats]),
                             'index': list(a['pidx'])})


def src_abs(v, nr, nc, nanpairs):
    """abstract source variants of CvSets!SrcOb (1 plain, 2 condition 1 twice, 3 RDM 1 twice)"""
    rows = list(range(1, nr + 1))
    pats = list(range(1, nc + 1))
    ridx = list(range(nr))
    pidx = list(range(nc))
    if v == 2:
        pats = [1] + pats
        pidx = [0] + pidx
    if v == 3:
        rows = [1] + rows
        ridx = [0] + ridx
    n = len(pats)
    vec = []
    for r in rows:
        row = []
        for p in range(n):
            for q in range(p + 1, n):
                row.append(S.NAN if pats[p] == pats[q] else S.tok(r, pats[p], pats[q], nanpairs))
        vec.append(row)
    return {'rows': rows, 'pats': pats, 'ridx': ridx, 'pidx': pidx, 'pinv': [], 'meas': 1, 'pcat': 1, 'pdem': 0, 'vec': vec}


def call_generator(c, src, flavour):
    from rsatoolbox.inference import crossvalsets as CV
    gen = c['gen']
    rnd = bool(c['rnd'])
    if gen == 'random':
        perms = [p for pair in c['perms'] for p in pair]
    else:
        perms = list(c['perms']) if rnd else []
    with Shuffle(perms) as sh:
        if gen == 'loo_pattern':
            out = CV.sets_leave_one_out_pattern(src, c['byP'])
        elif gen == 'loo_rdm':
            out = CV.sets_leave_one_out_rdm(src, c['byR'])
        elif gen == 'k_fold_pattern':
            out = CV.sets_k_fold_pattern(src, pattern_descriptor=c['byP'], k=c['kP'], random=rnd)
        elif gen == 'k_fold_rdm':
            out = CV.sets_k_fold_rdm(src, k_rdm=c['kR'], random=rnd, rdm_descriptor=c['byR'])
        elif gen == 'of_k_pattern':
            out = CV.sets_of_k_pattern(src, pattern_descriptor=c['byP'], k=c['kP'], random=rnd)
        elif gen == 'of_k_rdm':
            out = CV.sets_of_k_rdm(src, rdm_descriptor=c['byR'], k=c['kR'], random=rnd)
        elif gen == 'k_fold':
            out = CV.sets_k_fold(src, k_rdm=c['kR'], k_pattern=c['kP'], random=rnd,
                                 pattern_descriptor=c['byP'], rdm_descriptor=c['byR'])
        elif gen == 'random':
            out = CV.sets_random(src, n_rdm=c['kR'], n_pattern=c['kP'], n_cv=len(c['perms']),
                                 pattern_descriptor=c['byP'], rdm_descriptor=c['byR'])
        else:
            raise ValueError(gen)
    if sh.perms:
        raise S.DrawMismatch('fewer shuffles requested than the specification describes')
    return out


def check_case(rec, const, flavour):
    """replay one TLC case; returns None or (key-suffix, detail)"""
    c = rec['case']
    a = src_abs(c['src'], const['NR'], const['NC'], const['NanPairs'])
    src = make_from_abs(a, flavour)
    gen = c['gen']
    try:
        train, test, ceil = call_generator(c, src, flavour)
    except S.DrawMismatch as ex:
        return f'{gen}/shuffle', str(ex)
    except Exception as ex:
        return f'{gen}/raises/{type(ex).__name__}', f'{type(ex).__name__}: {ex}'
    folds = rec['folds']
    if len(train) != len(folds) or len(test) != len(folds):
        return f'{gen}/n-folds', f'{len(train)} train / {len(test)} test sets, specification has {len(folds)}'
    has_ceil = bool(folds[0]['hasCeil'])
    if has_ceil != (ceil is not None):
        return f'{gen}/ceil-presence', f'ceil_set is {"None" if ceil is None else "given"}'
    if ceil is not None and len(ceil) != len(folds):
        return f'{gen}/n-folds', f'{len(ceil)} ceil sets'
    pby = c['byP'] or 'index'
    for f, F in enumerate(folds):
        for side, got in (('train', train[f]), ('test', test[f])) + ((('ceil', ceil[f]),) if has_ceil else ()):
            try:
                real = S.project(got[0])
            except S.ProjectionError as pe:
                return f'{gen}/{side}/{pe.field}', str(pe)
            d = S.diff(real, S.norm_abs(F[side]))
            if d:
                return f'{gen}/{side}/{d}', {'fold': f, 'real': real[d], 'spec': S.norm_abs(F[side])[d]}
            want = F['trainIdx'] if side == 'train' else F['testIdx']
            try:
                idx = [S.dec(pby, v) for v in got[1]]
            except Exception as ex:
                return f'{gen}/{side}/idx', f'{got[1]!r}: {ex}'
            if sorted(idx) != sorted(want) or (side != 'train' and idx != list(want) and gen != 'loo_pattern'):
                return f'{gen}/{side}/idx', {'fold': f, 'real': idx, 'spec': list(want)}
            # the index list handed out must select exactly the conditions of the object it comes with
            if c['byP']:
                cols = [S.dec(pby, v) for v in got[0].pattern_descriptors[pby]]
                if set(cols) != set(idx):
                    return f'{gen}/{side}/idx-vs-object', {'fold': f, 'idx': idx, 'object': cols}
    return None


# ------------------------------------------------------------------ clauses e / f: perturbation replay
def _models(nc, rng):
    import rsatoolbox
    from rsatoolbox.model import ModelWeighted, ModelSelect, ModelInterpolate, ModelFixed
    from rsatoolbox.model.fitter import fit_regress, fit_select, fit_interpolate, fit_mock
    n = nc * (nc - 1) // 2

    def rd(k):
        return rsatoolbox.rdm.RDMs(rng.uniform(0.5, 2.0, size=(k, n)),
                                   pattern_descriptors={'cond': list(range(1, nc + 1)),
                                                        'cat': [S.cat(c) for c in range(1, nc + 1)]})
    models = [ModelWeighted('w', rd(2)), ModelSelect('s', rd(3)), ModelInterpolate('i', rd(3)), ModelFixed('f', rd(1))]
    fitters = [fit_regress, fit_select, fit_interpolate, fit_mock]
    return models, fitters


class RecFitter:
    def __init__(self, fit, log, frozen=None):
        self.fit, self.log, self.frozen = fit, log, frozen

    def __call__(self, model, data, method='cosine', pattern_idx=None, pattern_descriptor=None, **kw):
        k = len(self.log)
        if self.frozen is not None:
            theta = self.frozen[k]
        else:
            theta = self.fit(model, data, method=method, pattern_idx=pattern_idx,
                             pattern_descriptor=pattern_descriptor, **kw)
        self.log.append(copy.deepcopy(theta))
        return theta


def perturbation_case(rec, const, flavour, seed, method='cosine'):
    """clauses e/f on the case's fold structure; returns None or (key-suffix, detail)"""
    from rsatoolbox.inference.evaluate import crossval
    c = rec['case']
    nr, nc = const['NR'], const['NC']
    rng = np.random.default_rng(seed)
    a = src_abs(c['src'], nr, nc, set())
    base_vals = {(r, i, j): float(rng.uniform(0.5, 2.0)) for r in range(1, nr + 1)
                 for i in range(1, nc + 1) for j in range(i + 1, nc + 1)}
    models, fitters = _models(nc, rng)
    pby = c['byP'] or 'index'
    if c['src'] == 2:
        return None        # a model has one copy of each condition; duplicated conditions belong to C04/C09

    def run(vals, frozen=None):
        src = make_from_abs(a, flavour, values=vals)
        train, test, ceil = call_generator(c, src, flavour)
        logs = [[] for _ in models]
        fl = [RecFitter(f, logs[j], None if frozen is None else frozen[j]) for j, f in enumerate(fitters)]
        res = crossval(models, src, train, test, ceil_set=ceil, method=method, fitter=fl,
                       pattern_descriptor=pby, calc_noise_ceil=False)
        return logs, np.array(res.evaluations)
    try:
        logs0, ev0 = run(base_vals)
    except Exception as ex:
        return 'crossval/raises', f'{type(ex).__name__}: {ex}'
    folds = rec['folds']
    evaluated = [f for f in range(len(folds))
                 if len(folds[f]['train']['pats']) > 2 and len(folds[f]['test']['pats']) > 2
                 and len(folds[f]['train']['rows']) > 0 and len(folds[f]['test']['rows']) > 0]
    if any(len(lg) != len(evaluated) for lg in logs0):
        return 'crossval/fit-calls', f'{[len(lg) for lg in logs0]} fits for {len(evaluated)} evaluable folds'
    for pos, f in enumerate(evaluated):
        F = folds[f]
        tr_rows, tr_pats = set(F['train']['rows']), set(F['train']['pats'])
        te_rows, te_pats = set(F['test']['rows']), set(F['test']['pats'])
        train_entries = {k for k in base_vals if k[0] in tr_rows and k[1] in tr_pats and k[2] in tr_pats}
        test_entries = {k for k in base_vals if k[0] in te_rows and k[1] in te_pats and k[2] in te_pats}
        # e: alter everything the training object of this fold does not contain
        alt = {k: (v if k in train_entries else v * float(rng.uniform(1.5, 3.0))) for k, v in base_vals.items()}
        if alt != base_vals:
            logs1, _ = run(alt)
            for j in range(len(models)):
                t0, t1 = logs0[j][pos], logs1[j][pos]
                if (t0 is None) != (t1 is None) or (t0 is not None and not np.array_equal(np.asarray(t0), np.asarray(t1))):
                    return f'e/theta-depends-on-test-data/{type(models[j]).__name__}', \
                        {'fold': f, 'theta': [None if t0 is None else np.asarray(t0).tolist(), None if t1 is None else np.asarray(t1).tolist()]}
        # f: alter everything the test object does not contain, parameters held fixed
        alt = {k: (v if k in test_entries else v * float(rng.uniform(1.5, 3.0))) for k, v in base_vals.items()}
        if alt != base_vals:
            _, ev1 = run(alt, frozen=logs0)
            if not np.array_equal(ev0[0, :, f], ev1[0, :, f], equal_nan=True):
                return 'f/score-depends-on-train-data', {'fold': f, 'eval': [ev0[0, :, f].tolist(), ev1[0, :, f].tolist()]}
    return None
