"""Binding of specs/EvalProtocol.tla to rsatoolbox.inference.evaluate (property C04).

The evaluation routines are observed without source hooks: ``Recorder`` replaces module-level names of
``rsatoolbox.inference.evaluate`` (bootstrap_sample*, sets_k_fold, sets_random, crossval, compare,
boot_noise_ceiling, cv_noise_ceiling) and ``numpy.random.randint / shuffle`` for the duration of one
call, hands recording fitters to the routine, and turns what it sees into the event sequence
``draw / sets / fit / compare / ceiling / result`` of the protocol.  Data RDMs and model RDMs hold
self-describing values (integer tokens, or distinct random reals with a lookup), so every object a
fitter or compare() receives is decoded to (source rows, source condition sequence) from its VALUES
and cross-checked with its descriptors.

* S -> I  ``replay_behaviour``: a behaviour emitted by TLC (draws, shuffle outcomes, symbolic table) is
  replayed with the outcomes forced; the recorded events must be the ones the table describes, and
  the number every symbolic cell denotes -- computed here with ``rsatoolbox.rdm.compare`` on objects
  built from the original values by the specification's row / condition sequences -- must be the
  stored evaluation; likewise noise ceilings, dof and variances.
* test-set routines (boot_testset.py) are further routines of the same protocol; ``perturb_testset`` adds the
  perturbation replay of deps(theta) / deps(score).
* I -> S  ``random_run``: a routine runs under a real seed, the events become a trace for
  ``Trace_EvalProtocol`` (similarities as integers x 1e6); variances, dof and the rerun clause are judged here.
"""
from __future__ import annotations

import copy

import numpy as np

from harness import cvsets as CVS
from harness import rdmstore as S

NANVAL = -9999999
SCALE = 1_000_000
PUBLIC = {'fixed': 'eval_fixed', 'crossval': 'crossval', 'bootcv': 'bootstrap_crossval',
          'dual': 'eval_dual_bootstrap', 'dualrand': 'eval_dual_bootstrap_random'}
MODEL_KINDS = ['fixed', 'weighted', 'select', 'interp']


def public_name(rc):
    if rc['routine'] == 'boot':
        if rc['bootR'] and rc['bootP']:
            return 'eval_bootstrap'
        return 'eval_bootstrap_rdm' if rc['bootR'] else 'eval_bootstrap_pattern'
    if rc['routine'] == 'testset':
        if rc['bootR'] and rc['bootP']:
            return 'bootstrap_testset'
        return 'bootstrap_testset_rdm' if rc['bootR'] else 'bootstrap_testset_pattern'
    return PUBLIC[rc['routine']]


def key_prefix(rc):
    """violation keys of the test-set routines live under C04/testset/..."""
    return 'testset/' if rc['routine'] == 'testset' else ''


# ------------------------------------------------------------------ descriptors as functions of source ids
def rdesc(by, r):
    return {'index': r - 1, 'subj': r, 'grp': S.grp(r)}[by]


def pdesc(by, c):
    return {'index': c - 1, 'cond': c, 'cat': S.cat(c)}[by]


def n_units(rc, nr, nc):
    ur = len({rdesc(rc['byR'], r) for r in range(1, nr + 1)})
    up = len({pdesc(rc['byP'], c) for c in range(1, nc + 1)})
    return ur, up


def dof_rule(rc, nr, nc):
    """clause e: resampled units - 1, the smaller when both axes are resampled"""
    ur, up = n_units(rc, nr, nc)
    if rc['routine'] == 'fixed':
        return nr - 1
    if rc['routine'] in ('crossval', 'testset'):
        return None
    if rc['bootR'] and rc['bootP']:
        return min(ur, up) - 1
    return ur - 1 if rc['bootR'] else up - 1


def grouped(rc, nr, nc):
    """does a resampled axis use a descriptor with duplicates (units != items)?"""
    ur, up = n_units(rc, nr, nc)
    return (rc['bootR'] and ur != nr) or (rc['bootP'] and up != nc)


def n_var(rc):
    return 3 if rc['routine'] == 'dual' else 1


def n_rep(rc):
    return rc['nCv'] if rc['routine'] in ('bootcv', 'dual') else 1


def n_folds(rc, nr):
    if rc['routine'] == 'fixed':
        return nr
    return {'none': 1, 'testset': 1, 'kfold': rc['kR'] * rc['kP'], 'kfoldpat': rc['kP'], 'random': rc['nCv']}[rc['cv']]


def keys(rc, nr):
    """canonical enumeration of the cell keys (i, j, f, r, v), as KeyAt of the specification"""
    out = []
    for i in range(1, rc['N'] + 1):
        for r in range(1, n_rep(rc) + 1):
            for v in range(1, n_var(rc) + 1):
                for f in range(1, n_folds(rc, nr) + 1):
                    for j in range(1, rc['nM'] + 1):
                        out.append((i, j, f, r, v))
    return out


def nc_keys(rc):
    return [(i, r, v) for i in range(1, rc['N'] + 1) for r in range(1, n_rep(rc) + 1)
            for v in range(1, n_var(rc) + 1)]


def stores_nc(rc):
    return not (rc['routine'] == 'boot' and not rc['bootNc']) and rc['routine'] != 'testset'


def cell_value(rc, evaluations, key):
    i, j, f, r, v = key
    e = np.asarray(evaluations)
    rt = rc['routine']
    if rt in ('fixed', 'crossval'):
        return e[0, j - 1, f - 1]
    if rt in ('boot', 'testset'):
        return e[i - 1, j - 1]
    if rt == 'bootcv':
        return e[i - 1, j - 1, f - 1, r - 1]
    if rt == 'dual':
        return e[i - 1, j - 1, f - 1, r - 1, v - 1]
    return e[i - 1, j - 1, f - 1]


def expected_shape(rc, nr):
    rt = rc['routine']
    M, F = rc['nM'], n_folds(rc, nr)
    return {'fixed': (1, M, nr), 'crossval': (1, M, F), 'boot': (rc['N'], M), 'testset': (rc['N'], M), 'bootcv': (rc['N'], M, F, rc['nCv']),
            'dual': (rc['N'], M, F, rc['nCv'], 3), 'dualrand': (rc['N'], M, rc['nCv'])}[rt]


def nc_value(rc, noise_ceiling, key):
    """(lower, upper) stored for the ceiling key (i, r, v); None when the shape does not provide it"""
    i, r, v = key
    a = np.asarray(noise_ceiling, dtype=float)
    rt = rc['routine']
    try:
        if rt == 'fixed' or (rt == 'crossval' and rc['cv'] == 'kfold'):
            return float(a[0]), float(a[1])
        if rt == 'boot':
            return float(a[0, i - 1]), float(a[1, i - 1])
        if rt == 'bootcv':
            return float(a[0, i - 1, r - 1]), float(a[1, i - 1, r - 1])
        if rt == 'dual':
            return float(a[0, i - 1, r - 1, v - 1]), float(a[1, i - 1, r - 1, v - 1])
        if rt == 'dualrand':
            return float(a[0, i - 1, 0]), float(a[1, i - 1, 0])
    except (IndexError, TypeError):
        return None
    return None


# ------------------------------------------------------------------ the world: data, models, values
class World:
    """source data (NR x NC), models, and the value tables that make every object self-describing"""

    def __init__(self, nr, nc, flavour, mode, seed, kinds, theta_supplied=True, scale=None):
        import rsatoolbox
        from rsatoolbox.model import ModelFixed, ModelWeighted, ModelSelect, ModelInterpolate
        self.nr, self.nc, self.flavour, self.mode = nr, nc, flavour, mode
        rng = np.random.default_rng(seed)
        self.abs = CVS.src_abs(1, nr, nc, set())
        self.values = {}
        # real values: a common pattern plus noise per RDM, so that candidate models can be ranked
        # differently by different comparison methods (see the selection model below)
        common = {(i, j): float(rng.uniform(0.5, 2.0)) for i in range(1, nc + 1) for j in range(i + 1, nc + 1)}
        for r in range(1, nr + 1):
            for i in range(1, nc + 1):
                for j in range(i + 1, nc + 1):
                    self.values[(r, i, j)] = float(S.tok(r, i, j, set())) if mode == 'tok' \
                        else max(0.05, common[(i, j)] + 0.1 * float(rng.standard_normal()))
        for k, fct in (scale or {}).items():      # perturbation replay: selected source entries altered
            self.values[k] *= fct
        self.data = CVS.make_from_abs(self.abs, flavour, values=self.values)
        self.full = {}
        for r in range(1, nr + 1):
            m = np.zeros((nc, nc))
            for (rr, i, j), v in self.values.items():
                if rr == r:
                    m[i - 1, j - 1] = m[j - 1, i - 1] = v
            self.full[r] = m
        n = nc * (nc - 1) // 2
        iu = np.triu_indices(nc, 1)
        self.kinds = list(kinds)
        self.models = []
        cls = {'fixed': ModelFixed, 'weighted': ModelWeighted, 'select': ModelSelect, 'interp': ModelInterpolate}
        nb = {'fixed': 1, 'weighted': 2, 'select': 3, 'interp': 3}
        c = (lambda v: S._container(v, flavour))
        for j, kind in enumerate(self.kinds, start=1):
            if mode == 'tok':
                vec = np.array([[1000.0 * j + 100 * b + 10 * (int(iu[0][k]) + 1) + (int(iu[1][k]) + 1)
                                 + 37.0 * ((b * (int(iu[0][k]) + 2) * (int(iu[1][k]) + 5) + j) % 7)
                                 for k in range(n)] for b in range(1, nb[kind] + 1)])
            else:
                vec = rng.uniform(0.5, 2.0, size=(nb[kind], n))
                if kind == 'select':
                    # candidate 0: the common pattern plus a large offset (correlation / rank methods prefer it),
                    # candidate 1: the common pattern plus noise (cosine prefers it), candidate 2: unrelated
                    base = np.array([common[(int(iu[0][k]) + 1, int(iu[1][k]) + 1)] for k in range(n)])
                    vec[0] = base + 5.0
                    vec[1] = base + 0.25 * rng.standard_normal(n)
            rd = rsatoolbox.rdm.RDMs(
                vec, dissimilarity_measure='tok', descriptors={'model': j},
                rdm_descriptors={'basis': list(range(nb[kind]))},
                pattern_descriptors={'cond': c([S.enc('cond', p, flavour) for p in range(1, nc + 1)]),
                                     'cat': c([S.enc('cat', S.cat(p), flavour) for p in range(1, nc + 1)]),
                                     'index': list(range(nc))})
            self.models.append(cls[kind](f'm{j}_{kind}', rd))
        # parameters supplied to the routines without fitting
        self.theta = None
        if theta_supplied:
            self.theta = []
            for kind in self.kinds:
                if kind == 'fixed':
                    self.theta.append(None)
                elif kind == 'weighted':
                    self.theta.append(np.array([0.25 + float(rng.uniform(0, 1)), 0.5 + float(rng.uniform(0, 1))]))
                elif kind == 'select':
                    self.theta.append(int(rng.integers(0, 3)))
                else:
                    w = float(rng.uniform(0.1, 0.9))
                    self.theta.append(np.array([0.0, w, 1 - w]))
        self._pred_cache = {}

    # ---- objects built from the original values by row / condition sequences (the specification's semantics)
    def square(self, full, conds):
        idx = np.array(conds, dtype=int) - 1
        m = full[np.ix_(idx, idx)].astype(float).copy()
        same = np.equal.outer(idx, idx)
        m[same] = np.nan
        np.fill_diagonal(m, 0.0)
        return m

    def data_ob(self, rows, conds):
        import rsatoolbox
        mats = np.array([self.square(self.full[r], conds) for r in rows])
        return rsatoolbox.rdm.RDMs(mats, pattern_descriptors={'cond': list(conds)})

    def full_pred(self, j, theta):
        key = (j, None if theta is None else np.asarray(theta, dtype=float).tobytes())
        if key not in self._pred_cache:
            m = self.models[j - 1]
            th = theta
            if self.kinds[j - 1] == 'select' and theta is not None:
                th = int(theta)
            self._pred_cache[key] = m.predict_rdm(th).get_matrices()[0].copy()
        return self._pred_cache[key]

    def pred_ob(self, j, theta, conds):
        import rsatoolbox
        return rsatoolbox.rdm.RDMs(np.array([self.square(self.full_pred(j, theta), conds)]),
                                   pattern_descriptors={'cond': list(conds)})

    # ---- decoding of objects seen inside the routine
    def decode_data(self, ob):
        """(rows, conds, ok): labels read off the descriptors, ok = the VALUES are those of exactly
        these source RDMs and condition pairs (NaN exactly for two copies of one condition)"""
        try:
            rows = [S.dec('subj', v) for v in ob.rdm_descriptors['subj']]
            conds = [S.dec('cond', v) for v in ob.pattern_descriptors['cond']]
        except Exception:
            return [], [], 0
        d = ob.get_matrices()
        ok = 1
        if d.shape != (len(rows), len(conds), len(conds)):
            return rows, conds, 0
        iu = np.triu_indices(len(conds), 1)
        for k, r in enumerate(rows):
            if r not in self.full:
                return rows, conds, 0
            want = self.square(self.full[r], conds)
            if not np.array_equal(want[iu], d[k][iu], equal_nan=True):
                ok = 0
        return rows, conds, ok

    def decode_pred(self, ob, cur_theta):
        """(model id, conds, ok): ok = the values are the model's prediction at the current parameters
        at exactly these condition pairs"""
        try:
            j = int(ob.descriptors['model'])
            conds = [S.dec('cond', v) for v in ob.pattern_descriptors['cond']]
        except Exception:
            return 0, [], 0
        d = ob.get_matrices()
        if d.shape != (1, len(conds), len(conds)) or not (1 <= j <= len(self.models)):
            return j, conds, 0
        want = self.square(self.full_pred(j, cur_theta.get(j)), conds)
        iu = np.triu_indices(len(conds), 1)
        ok = 1 if np.allclose(want[iu], d[0][iu], rtol=0, atol=1e-12, equal_nan=True) else 0
        return j, conds, ok


def tok_theta(kind, rows, conds, method='cosine'):
    """parameters of the token fitter: an injective-enough function of the training object AND the
    comparison method it was given"""
    h = (7 * sum(rows) + 3 * sum(conds) + 5 * len(conds) + 11 * len(rows) + sum((k + 1) * c for k, c in enumerate(conds))
         + sum(ord(ch) for ch in str(method))) % 23
    w = (h + 1) / 25.0
    if kind == 'fixed':
        return np.zeros(0)
    if kind == 'weighted':
        return np.array([1.0 - w / 2, w])
    if kind == 'select':
        return h % 3
    return np.array([w, 1.0 - w, 0.0]) if h % 2 else np.array([0.0, w, 1.0 - w])


def do_fit(kind, mode, model, data, method, pattern_idx, pattern_descriptor, rows, conds):
    """the fit of one model of kind `kind` in fitter mode `mode` -- used by the recording fitter (with the
    keyword arguments the routine hands over) and by the driver (with the method of the routine on the
    training object the specification names).  Deterministic except mode 'optimize' (random starts)."""
    from rsatoolbox.model import fitter as F
    if kind == 'fixed':
        return np.zeros(0)
    if mode == 'tok' or (kind == 'weighted' and mode == 'regress' and method not in ('cosine', 'corr')):
        return tok_theta(kind, rows, conds, method)
    fn = {'weighted': F.fit_regress if mode == 'regress' else F.fit_optimize,
          'select': F.fit_select, 'interp': F.fit_interpolate}[kind]
    if len(set(conds)) < 3:
        # a training object with fewer than 3 distinct conditions (possible in the test-set routines, whose
        # threshold looks at the held-out part only) has at most one distinct dissimilarity: nothing to fit
        return tok_theta(kind, rows, conds, method)
    return fn(model, data, method=method, pattern_idx=pattern_idx, pattern_descriptor=pattern_descriptor)


def refit(world, j, mode, method, rows, conds, pidx, by_p):
    """the driver's own fit of model j: on the object IT builds from the named training rows / conditions,
    with the index list in the flavour of the model's descriptors.  None where the fitter is not deterministic."""
    kind = world.kinds[j - 1]
    if mode == 'optimize' and kind == 'weighted':
        return None
    idx = [S.enc(by_p, v, world.flavour) for v in pidx]
    return do_fit(kind, mode, world.models[j - 1], world.data_ob(rows, conds), method, idx, by_p, list(rows), list(conds))


def same_theta(a, b):
    if a is None or b is None:
        return a is None and b is None
    a, b = np.asarray(a, dtype=float).reshape(-1), np.asarray(b, dtype=float).reshape(-1)
    return a.shape == b.shape and bool(np.allclose(a, b, rtol=0, atol=1e-9))


class RecFitter:
    """recording fitter (public extension point of the routines): logs the decoded training object and EVERY
    keyword argument it is called with; fits with exactly what it was given"""

    def __init__(self, rec, j, kind, mode, method, frozen=None):
        self.rec, self.j, self.kind, self.mode, self.method = rec, j, kind, mode, method
        self.frozen = None if frozen is None else list(frozen)   # parameters to return call by call (perturbation replay)

    def __call__(self, model, data, *args, **kwargs):
        rec = self.rec
        kw = dict(kwargs)
        extra = [f'positional:{len(args)}'] if args else []
        method = kw.pop('method', 'cosine')              # the library's default when the keyword is missing
        pattern_idx = kw.pop('pattern_idx', None)
        pattern_descriptor = kw.pop('pattern_descriptor', None)
        extra += sorted(k for k, v in kw.items() if not (k == 'sigma_k' and v is None))
        rows, conds, ok = rec.world.decode_data(data)
        try:
            pidx = [S.dec(pattern_descriptor, v) for v in pattern_idx]
        except Exception:
            pidx = [-1]
        if self.frozen is not None:
            theta = self.frozen.pop(0)
        else:
            theta = do_fit(self.kind, self.mode, model, data, method, pattern_idx, pattern_descriptor, rows, conds)
        rec.on_fit({'j': self.j, 'rows': rows, 'conds': conds, 'pidx': pidx, 'n': rec.tick(), 'vok': ok,
                    'meth': str(method), 'desc': str(pattern_descriptor), 'kw': extra,
                    'theta': copy.deepcopy(theta)})
        rec.cur_theta[self.j] = copy.deepcopy(theta)
        return theta


class _Rng:
    """numpy.random.randint / shuffle: outcomes forced (S -> I) or observed (I -> S), always logged"""

    def __init__(self, draws=None, perms=None):
        self.draws = None if draws is None else [list(d) for d in draws]
        self.perms = None if perms is None else [list(p) for p in perms]
        self.seen_draws, self.seen_perms = [], []
        self._randint, self._shuffle = np.random.randint, np.random.shuffle
        self._force_r = S.Randint(self.draws) if self.draws is not None else None
        self._force_s = CVS.Shuffle(self.perms) if self.perms is not None else None

    def randint(self, low, high=None, size=None, dtype=int):
        if self._force_r is not None:
            self._force_r._real = self._randint
            out = self._force_r(low, high, size=size, dtype=dtype)
        else:
            out = self._randint(low, high, size=size, dtype=dtype)
            if low != 0 or size is None or int(np.prod(size)) != high:
                raise S.DrawMismatch(f'randint({low}, {high}, size={size}): not one draw per group')
        self.seen_draws.append([int(x) + 1 for x in np.atleast_1d(out)])
        return out

    def shuffle(self, x):
        before = list(x)
        if self._force_s is not None:
            self._force_s(x)
        else:
            self._shuffle(x)
        after = list(x)
        if len(set(before)) != len(before):
            raise S.DrawMismatch('shuffle of a list with repeated entries')
        self.seen_perms.append([before.index(a) + 1 for a in after])

    def leftovers(self):
        n = 0
        if self._force_r is not None:
            n += len(self._force_r.forced)
        if self._force_s is not None:
            n += len(self._force_s.perms)
        return n

    def __enter__(self):
        np.random.randint = self.randint
        np.random.shuffle = self.shuffle
        return self

    def __exit__(self, *a):
        np.random.randint = self._randint
        np.random.shuffle = self._shuffle


PATCHED = ('bootstrap_sample', 'bootstrap_sample_rdm', 'bootstrap_sample_pattern', 'sets_k_fold', 'sets_random',
           'crossval', 'compare', 'boot_noise_ceiling', 'cv_noise_ceiling')


BT_PATCHED = ('bootstrap_sample', 'bootstrap_sample_rdm', 'bootstrap_sample_pattern', 'crossval')


class TestsetResult:
    """what bootstrap_testset* return (a tuple), with the attribute names of Result"""

    def __init__(self, out, rc, method):
        self.evaluations = np.asarray(out[0], dtype=float)
        self.n_rdm = np.asarray(out[1]) if rc['bootR'] else None
        self.n_pattern = np.asarray(out[-1]) if rc['bootP'] else None
        self.noise_ceiling = self.variances = self.model_var = self.diff_var = self.noise_ceil_var = None
        self.dof, self.cv_method, self.method = None, 'testset', method

    def ntest(self, N):
        return [[int(self.n_rdm[i]) if self.n_rdm is not None and i < len(self.n_rdm) else 0,
                 int(self.n_pattern[i]) if self.n_pattern is not None and i < len(self.n_pattern) else 0] for i in range(N)]


class Recorder:
    """observes one call of an evaluation routine and produces the protocol events"""

    def __init__(self, world, rc, method, draws=None, perms=None):
        self.world, self.rc, self.method = world, rc, method
        self.rng = _Rng(draws, perms)
        self.events = []
        self.cur_theta = {}
        self.n = 0
        self.bundle = None
        self.final_nc = None
        self.sample_no = 0
        self._orig = {}

    def tick(self):
        self.n += 1
        return self.n

    # ---- bundles: one (sample, repetition) = per variant [perms, fits, compares, ceiling]
    def _open_variant(self, perms):
        if self.bundle is None:
            self.bundle = []
        self.bundle.append({'pp': perms, 'fits': [], 'cmps': [], 'nc': None})

    def _variant(self):
        if not self.bundle:
            self._open_variant([])
        return self.bundle[-1]

    def flush(self):
        b = self.bundle
        self.bundle = None
        if not b:
            return
        rc = self.rc
        if rc['routine'] == 'fixed':
            # one compare call per model with all data RDMs -> one entry per (RDM, model)
            calls = b[0]['cmps']
            split = []
            nrows = max((len(c['rows']) for c in calls), default=0)
            for f in range(nrows):
                for c in calls:
                    if f < len(c['rows']) and f < len(c['vals']):
                        split.append(dict(c, rows=[c['rows'][f]], vals=[c['vals'][f]]))
            b[0]['cmps'] = split
        self.events.append({'e': 'sets', 'pp': [v['pp'] for v in b]})
        self.events.append({'e': 'fit', 'fits': [v['fits'] for v in b]})
        self.events.append({'e': 'compare', 'cmps': [v['cmps'] for v in b]})
        if rc['routine'] == 'crossval' and rc['cv'] == 'kfoldpat' and b[0]['nc'] is None:
            # no fold was evaluated: no ceiling call at all
            b[0]['nc'] = {'kind': 'loofolds', 'rows': [S.dec('subj', x) for x in self.world.data.rdm_descriptors['subj']],
                          'conds': [S.dec('cond', x) for x in self.world.data.pattern_descriptors['cond']],
                          'by': 'index', 'folds': [], 'lo': [], 'hi': [], 'vok': 1}
        self.events.append({'e': 'ceiling', 'ncs': [v['nc'] if v['nc'] is not None else
                                                     {'kind': 'none', 'rows': [], 'conds': [], 'by': '', 'folds': [],
                                                      'lo': NANVAL, 'hi': NANVAL} for v in b]})

    # ---- callbacks
    def on_fit(self, entry):
        self._variant()['fits'].append(entry)

    def on_compare(self, pred, data, out):
        j, pc, pok = self.world.decode_pred(pred, self.cur_theta)
        rows, conds, vok = self.world.decode_data(data)
        vals = [float(x) for x in np.asarray(out, dtype=float).reshape(-1)]
        self._variant()['cmps'].append({'j': j, 'pc': pc, 'rows': rows, 'conds': conds, 'vals': vals,
                                        'n': self.tick(), 'pok': int(pok and vok)})

    def _wrap(self, E):
        rec = self
        o = self._orig

        def draw_wrapper(name):
            def f(*a, **kw):
                rec.flush()
                n0 = len(rec.rng.seen_draws)
                out = o[name](*a, **kw)
                got = rec.rng.seen_draws[n0:]
                if name == 'bootstrap_sample':
                    d = [got[0] if len(got) > 0 else [], got[1] if len(got) > 1 else []]
                    bad = len(got) != 2
                elif name == 'bootstrap_sample_rdm':
                    d = [got[0] if got else [], []]
                    bad = len(got) != 1
                else:
                    d = [[], got[0] if got else []]
                    bad = len(got) != 1
                if bad:
                    raise S.DrawMismatch(f'{name} made {len(got)} calls of randint')
                rec.sample_no += 1
                rec.events.append({'e': 'draw', 'd': d})
                return out
            return f

        def sets_wrapper(name):
            def f(*a, **kw):
                n0 = len(rec.rng.seen_perms)
                out = o[name](*a, **kw)
                got = rec.rng.seen_perms[n0:]
                if name == 'sets_random':
                    if len(got) % 2:
                        raise S.DrawMismatch('sets_random made an odd number of shuffles')
                    got = [[got[2 * k], got[2 * k + 1]] for k in range(len(got) // 2)]
                rec._open_variant(got)
                return out
            return f

        def crossval(*a, **kw):
            out = o['crossval'](*a, **kw)
            if rec.bundle is not None and len(rec.bundle) >= n_var(rec.rc):
                rec.flush()
            return out

        def compare(pred, data, method='cosine', *a, **kw):
            out = o['compare'](pred, data, method, *a, **kw)
            rec.on_compare(pred, data, out)
            return out

        def boot_noise_ceiling(rdms, method='cosine', rdm_descriptor='index'):
            out = o['boot_noise_ceiling'](rdms, method=method, rdm_descriptor=rdm_descriptor)
            rows, conds, vok = rec.world.decode_data(rdms)
            ent = {'kind': 'loo', 'rows': rows, 'conds': conds, 'by': rdm_descriptor, 'folds': [],
                   'lo': float(out[0]), 'hi': float(out[1]), 'vok': vok}
            rc = rec.rc
            if rc['routine'] == 'boot' and not rc['bootNc']:
                rec.final_nc = ent
            elif rc['routine'] == 'crossval':
                v = rec._variant()
                if v['nc'] is None:
                    v['nc'] = {'kind': 'loofolds', 'rows': [S.dec('subj', x) for x in rec.world.data.rdm_descriptors['subj']],
                               'conds': [S.dec('cond', x) for x in rec.world.data.pattern_descriptors['cond']],
                               'by': rdm_descriptor, 'folds': [], 'lo': [], 'hi': [], 'vok': 1}
                v['nc']['folds'].append({'ceR': [], 'ceP': [], 'teR': rows, 'teP': conds})
                v['nc']['lo'].append(float(out[0]))
                v['nc']['hi'].append(float(out[1]))
                v['nc']['vok'] = int(v['nc']['vok'] and vok)
            else:
                rec._variant()['nc'] = ent
            return out

        def cv_noise_ceiling(rdms, ceil_set, test_set, method='cosine', pattern_descriptor='index'):
            out = o['cv_noise_ceiling'](rdms, ceil_set, test_set, method=method, pattern_descriptor=pattern_descriptor)
            rows, conds, vok = rec.world.decode_data(rdms)
            fl = []
            for k in range(len(test_set)):
                cr, cp, ok1 = rec.world.decode_data(ceil_set[k][0])
                tr, tp, ok2 = rec.world.decode_data(test_set[k][0])
                vok = int(vok and ok1 and ok2)
                fl.append({'ceR': cr, 'ceP': cp, 'teR': tr, 'teP': tp})
            rec._variant()['nc'] = {'kind': 'cv', 'rows': rows, 'conds': conds, 'by': pattern_descriptor, 'folds': fl,
                                    'lo': float(out[0]), 'hi': float(out[1]), 'vok': vok}
            return out

        new = {'crossval': crossval, 'compare': compare, 'boot_noise_ceiling': boot_noise_ceiling,
               'cv_noise_ceiling': cv_noise_ceiling}
        for name in ('bootstrap_sample', 'bootstrap_sample_rdm', 'bootstrap_sample_pattern'):
            new[name] = draw_wrapper(name)
        for name in ('sets_k_fold', 'sets_random'):
            new[name] = sets_wrapper(name)
        return new

    def call_sets(self, fn, *a, **kw):
        """a fold generator called by the user of crossval (observed like sets_k_fold inside the routines)"""
        n0 = len(self.rng.seen_perms)
        out = fn(*a, **kw)
        self._open_variant(self.rng.seen_perms[n0:])
        return out

    def __enter__(self):
        from rsatoolbox.inference import evaluate as E
        from rsatoolbox.inference import boot_testset as BT
        self.E, self.BT = E, BT
        for name in PATCHED:
            self._orig[name] = getattr(E, name)
        new = self._wrap(E)
        for name, f in new.items():
            setattr(E, name, f)
        # boot_testset.py binds its own names for the samplers and for crossval
        self._orig_bt = {name: getattr(BT, name) for name in BT_PATCHED}
        for name in BT_PATCHED:
            setattr(BT, name, new[name])
        self.rng.__enter__()
        return self

    def __exit__(self, *a):
        self.rng.__exit__()
        for name, f in self._orig.items():
            setattr(self.E, name, f)
        for name, f in self._orig_bt.items():
            setattr(self.BT, name, f)


# ------------------------------------------------------------------ calling the routines
def fitters_for(rec, world, fitmode, method, frozen=None):
    return [RecFitter(rec, j, kind, fitmode, method, None if frozen is None else frozen[j - 1])
            for j, kind in enumerate(world.kinds, start=1)]


def call_routine(rec, world, rc, method, fitmode, use_correction=None, frozen=None):
    """call the public routine the configuration names; returns the Result"""
    from rsatoolbox.inference import crossvalsets as CV
    E = rec.E
    data, models = world.data, world.models
    rt = rc['routine']
    if use_correction is None:
        use_correction = rc['nCv'] > 1
    for j, th in enumerate(world.theta or [None] * len(models), start=1):
        rec.cur_theta[j] = th
    if rt == 'fixed':
        if rc['bootR']:
            # fixed evaluation of a stack the caller resampled: RDMs (and 'index' values) occur repeatedly
            data, _ = E.bootstrap_sample_rdm(data, rc['byR'])
        else:
            rec.events.append({'e': 'draw', 'd': [[], []]})
        res = E.eval_fixed(models, data, theta=world.theta, method=method)
    elif rt == 'boot':
        if rc['bootR'] and rc['bootP']:
            res = E.eval_bootstrap(models, data, theta=world.theta, method=method, N=rc['N'],
                                   pattern_descriptor=rc['byP'], rdm_descriptor=rc['byR'], boot_noise_ceil=rc['bootNc'])
        elif rc['bootR']:
            res = E.eval_bootstrap_rdm(models, data, theta=world.theta, method=method, N=rc['N'],
                                       rdm_descriptor=rc['byR'], boot_noise_ceil=rc['bootNc'])
        else:
            res = E.eval_bootstrap_pattern(models, data, theta=world.theta, method=method, N=rc['N'],
                                           pattern_descriptor=rc['byP'], rdm_descriptor=rc['byR'],
                                           boot_noise_ceil=rc['bootNc'])
    elif rt == 'testset':
        BT = rec.BT
        fit = fitters_for(rec, world, fitmode, method, frozen)
        if rc['bootR'] and rc['bootP']:
            out = BT.bootstrap_testset(models, data, method=method, fitter=fit, N=rc['N'],
                                       pattern_descriptor=rc['byP'], rdm_descriptor=rc['byR'])
        elif rc['bootR']:
            out = BT.bootstrap_testset_rdm(models, data, method=method, fitter=fit, N=rc['N'], rdm_descriptor=rc['byR'])
        else:
            out = BT.bootstrap_testset_pattern(models, data, method=method, fitter=fit, N=rc['N'],
                                               pattern_descriptor=rc['byP'])
        res = TestsetResult(out, rc, method)
    elif rt == 'crossval':
        rec.events.append({'e': 'draw', 'd': [[], []]})
        fit = fitters_for(rec, world, fitmode, method)
        if rc['cv'] == 'kfold':
            train, test, ceil = E.sets_k_fold(data, k_rdm=rc['kR'], k_pattern=rc['kP'], random=True,
                                              pattern_descriptor=rc['byP'], rdm_descriptor=rc['byR'])
        else:
            train, test, ceil = rec.call_sets(CV.sets_k_fold_pattern, data, pattern_descriptor=rc['byP'],
                                              k=rc['kP'], random=True)
        res = E.crossval(models, data, train, test, ceil_set=ceil, method=method, fitter=fit,
                         pattern_descriptor=rc['byP'])
    else:
        fit = fitters_for(rec, world, fitmode, method)
        bt = 'both' if rc['bootR'] and rc['bootP'] else ('rdm' if rc['bootR'] else 'pattern')
        if rt == 'bootcv':
            res = E.bootstrap_crossval(models, data, method=method, fitter=fit, k_pattern=rc['kP'], k_rdm=rc['kR'],
                                       N=rc['N'], n_cv=rc['nCv'], pattern_descriptor=rc['byP'],
                                       rdm_descriptor=rc['byR'], boot_type=bt, use_correction=use_correction)
        elif rt == 'dual':
            res = E.eval_dual_bootstrap(models, data, method=method, fitter=fit, k_pattern=rc['kP'], k_rdm=rc['kR'],
                                        N=rc['N'], n_cv=rc['nCv'], pattern_descriptor=rc['byP'],
                                        rdm_descriptor=rc['byR'], use_correction=use_correction)
        else:
            res = E.eval_dual_bootstrap_random(models, data, method=method, fitter=fit, n_pattern=rc['kP'],
                                               n_rdm=rc['kR'], N=rc['N'], n_cv=rc['nCv'],
                                               pattern_descriptor=rc['byP'], rdm_descriptor=rc['byR'],
                                               boot_type=bt, use_correction=use_correction)
    rec.flush()
    return res


def kinds_for(rc, theta_supplied=True):
    kinds = MODEL_KINDS[:rc['nM']]
    if rc['cv'] == 'none' and not theta_supplied:
        # predict_rdm(theta=None) of a selection model raises (recorded as unsupported by the check)
        kinds = [k if k != 'select' else 'fixed' for k in kinds]
    return kinds


# ------------------------------------------------------------------ the numbers the symbolic records denote
def sim(world, method, pred_ob, data_ob):
    from rsatoolbox.rdm import compare
    return float(np.mean(compare(pred_ob, data_ob, method)))


def pooled(world, method, rows, conds):
    from rsatoolbox.util.inference_util import pool_rdm
    return pool_rdm(world.data_ob(rows, conds), method=method)


def loo_value(world, method, rows, conds, by):
    groups = sorted({rdesc(by, r) for r in rows})
    allp = pooled(world, method, rows, conds)
    lo, hi = [], []
    if len(groups) > 1:
        for g in groups:
            te = [r for r in rows if rdesc(by, r) == g]
            tr = [r for r in rows if rdesc(by, r) != g]
            tob = world.data_ob(te, conds)
            lo.append(sim(world, method, pooled(world, method, tr, conds), tob))
            hi.append(sim(world, method, allp, tob))
    else:
        tob = world.data_ob(rows, conds)
        lo.append(sim(world, method, allp, tob))
        hi.append(sim(world, method, allp, tob))
    return float(np.mean(lo)), float(np.mean(hi))


def cv_nc_value(world, method, nc):
    """cv_noise_ceiling: per fold lower = pool of the ceiling rows (at the test conditions) against the test
    object; upper = pool of ALL rows of the evaluated object AT THE TEST CONDITIONS of the fold (restricted
    first, with the multiplicity of the sample, then pooled) against the test object; means over the folds"""
    lo, hi = [], []
    for F in nc['folds']:
        tob = world.data_ob(F['teR'], F['teP'])
        lo.append(sim(world, method, pooled(world, method, F['ceR'], F['ceP']), tob))
        hi.append(sim(world, method, pooled(world, method, nc['rows'], F['allP']), tob))
    return float(np.mean(lo)), float(np.mean(hi))


def nc_expected(world, method, nc):
    if nc['kind'] == 'loo':
        return loo_value(world, method, nc['rows'], nc['conds'], nc['by'])
    if nc['kind'] == 'cv':
        return cv_nc_value(world, method, nc)
    if nc['kind'] == 'loofolds':
        v = [loo_value(world, method, F['teR'], F['teP'], nc['by']) for F in nc['folds']]
        return [x[0] for x in v], [x[1] for x in v]
    return float('nan'), float('nan')


def close(a, b, tol=1e-9):
    a, b = np.asarray(a, dtype=float), np.asarray(b, dtype=float)
    if a.shape != b.shape:
        return False
    return bool(np.all((np.isnan(a) & np.isnan(b)) | (np.abs(a - b) <= tol * (1 + np.abs(b)))))


# ------------------------------------------------------------------ clause f: variances by the stated definition
def expected_variances(rc, res, nr, use_correction):
    """covariance by the stated definition, from the STORED evaluations and ceilings.
    Returns (expected, kind) or (None, reason)."""
    ev = np.asarray(res.evaluations, dtype=float)
    rt = rc['routine']
    M = rc['nM']
    if rt in ('crossval', 'testset'):
        return None, 'no-claim'
    if rt == 'fixed':
        if nr < 2:
            return None, 'one-rdm'
        return np.cov(ev[0], ddof=1) / nr, 'fixed'
    nc = np.asarray(res.noise_ceiling, dtype=float)
    ok = ~np.isnan(ev.reshape(ev.shape[0], -1)).any(axis=1)
    if ok.sum() < 2:
        return None, 'fewer-than-two-usable-samples'
    has_nc = stores_nc(rc)

    def cov_of(e, c):
        # e: (n_ok, M) per-resample means, c: (2, n_ok) per-resample ceilings (or None)
        rows = e.T if c is None else np.concatenate([e.T, c])
        return np.atleast_2d(np.cov(rows, ddof=1))
    if rt == 'boot':
        return cov_of(ev[ok], nc[:, ok] if has_nc else None), 'plain'
    nvar = 3 if rt == 'dual' else 1
    out = []
    for v in range(nvar):
        e = ev[ok][..., v] if rt == 'dual' else ev[ok]
        c = nc[:, ok][..., v] if rt == 'dual' else nc[:, ok]
        # e: (n, M, F, R) or (n, M, R) ; c: (2, n, R)
        R = e.shape[-1]
        em = e.reshape(e.shape[0], M, -1).mean(axis=2)
        cm = c.mean(axis=-1)
        var_mean = cov_of(em, cm)
        if use_correction and rc['nCv'] > 1:
            per_rep = []
            for r in range(R):
                er = e[..., r]
                er = er.reshape(er.shape[0], M, -1).mean(axis=2)
                per_rep.append(cov_of(er, c[..., r]))
            var_1 = np.mean(np.array(per_rep), axis=0)
            out.append((rc['nCv'] * var_mean - var_1) / (rc['nCv'] - 1))
        else:
            out.append(var_mean)
    kind = 'corrected' if (use_correction and rc['nCv'] > 1) else 'plain'
    return (np.array(out) if rt == 'dual' else out[0]), kind


def check_variances(rc, res, nr, use_correction):
    """None or (key-suffix, detail)"""
    exp, kind = expected_variances(rc, res, nr, use_correction)
    if exp is None:
        return None, kind
    got = res.variances
    if got is None:
        return ('f/variances-missing', {'expected': exp}), kind
    got = np.asarray(got, dtype=float)
    M = rc['nM']
    if kind == 'fixed':
        got = np.atleast_2d(got) * (nr / (nr - 1))     # the small-sample factor Result applies through n_rdm
        exp = np.atleast_2d(exp)
        mv = np.asarray(res.model_var, dtype=float)
        if not close(got, exp, 1e-9) or not close(mv, np.diag(exp), 1e-9):
            return ('f/variances/fixed', {'stored_times_n_over_n_minus_1': got, 'definition': exp, 'model_var': mv}), kind
        return None, kind
    e2 = exp
    if got.shape != exp.shape:
        # a routine may store the model block only (no ceiling rows): the property speaks of the evaluations
        if got.shape[-1] == M and exp.shape[-1] == M + 2:
            e2 = exp[..., :M, :M]
        elif got.ndim == 0 and exp.shape == (1, 1):
            got = got.reshape(1, 1)
        else:
            return ('f/variances-shape', {'stored': list(got.shape), 'definition': list(exp.shape)}), kind
    if not close(got, e2, 1e-8):
        bad_model_block = not close(got[..., :M, :M], e2[..., :M, :M], 1e-8)
        suffix = 'f/variances' if kind == 'plain' else 'f/variances-corrected'
        if not bad_model_block:
            suffix += '-ceiling-rows'
        return (suffix, {'stored': got, 'definition': e2, 'nan_samples': int(np.isnan(np.asarray(res.evaluations)).reshape(len(res.evaluations), -1).any(axis=1).sum())}), kind
    return None, kind


# ------------------------------------------------------------------ S -> I
def forced_from_log(rc, log):
    draws, perms = [], []
    for s in log:
        d = s['d']
        if rc['bootR']:
            draws.append([x - 1 for x in d[0]])
        if rc['bootP']:
            draws.append([x - 1 for x in d[1]])
        for rep in s['perms']:
            for var in rep:
                if rc['cv'] == 'random':
                    for pair in var:
                        perms.extend([list(pair[0]), list(pair[1])])
                else:
                    perms.extend([list(p) for p in var])
    return draws, perms


def _split_samples(events):
    """events -> per sample (draw, list of repetition bundles); None when an evaluation event
    precedes the first draw (the routine evaluated something that is not a drawn sample)"""
    out = []
    cur = None
    for e in events:
        if e['e'] == 'draw':
            cur = {'d': e['d'], 'reps': []}
            out.append(cur)
        elif cur is None:
            return None
        elif e['e'] == 'sets':
            cur['reps'].append({'pp': e['pp']})
        elif e['e'] in ('fit', 'compare', 'ceiling'):
            cur['reps'][-1][e['e']] = e[{'fit': 'fits', 'compare': 'cmps', 'ceiling': 'ncs'}[e['e']]]
    return out


def replay_behaviour(rec_json, const, flavour, mode, method, fitmode, seed, theta_supplied=True):
    """Replay one TLC behaviour.  Returns (list of (key-suffix, detail), stats)."""
    bad, stats = _replay_behaviour(rec_json, const, flavour, mode, method, fitmode, seed, theta_supplied)
    return [(key_prefix(rec_json['rc']) + k, d) for k, d in bad], stats


def _replay_behaviour(rec_json, const, flavour, mode, method, fitmode, seed, theta_supplied=True):
    """Replay one TLC behaviour.  Returns (list of (key-suffix, detail), stats)."""
    rc = rec_json['rc']
    nr, nc = const['NR'], const['NC']
    name = public_name(rc)
    bad = []
    stats = {'cells': 0, 'nan': 0, 'fitted': 0, 'compares': 0, 'method_sensitive': 0, 'select_sensitive': 0}

    def viol(key, detail):
        bad.append((f'{key}/{name}', detail))
    world = World(nr, nc, flavour, mode, seed, kinds_for(rc, theta_supplied), theta_supplied or rc['cv'] != 'none')
    draws, perms = forced_from_log(rc, rec_json['log'])
    use_corr = rc['nCv'] > 1 and seed % 2 == 0
    try:
        with Recorder(world, rc, method, draws=draws, perms=perms) as rec:
            res = call_routine(rec, world, rc, method, fitmode, use_correction=use_corr)
            left = rec.rng.leftovers()
    except S.DrawMismatch as ex:
        viol('draws', {'error': str(ex)})
        return bad, stats
    except Exception as ex:
        viol(f'raises/{type(ex).__name__}', {'error': f'{type(ex).__name__}: {ex}'})
        return bad, stats
    if left:
        viol('draws', {'error': f'{left} forced random outcomes were never requested'})
    kk = keys(rc, nr)
    cells = dict(zip(kk, rec_json['cells']))
    ev = np.asarray(res.evaluations, dtype=float)
    if ev.shape != expected_shape(rc, nr):
        viol('a/evaluations-shape', {'stored': list(ev.shape), 'expected': list(expected_shape(rc, nr))})
        return bad, stats
    samples = _split_samples(rec.events)
    if samples is None:
        viol('a/compare-before-draw', {'events': [e['e'] for e in rec.events][:12]})
        return bad, stats
    if len(samples) != rc['N']:
        viol('draws', {'error': f'{len(samples)} samples drawn, N = {rc["N"]}'})
        return bad, stats
    nck = nc_keys(rc)
    ncs = dict(zip(nck, rec_json['nc'])) if stores_nc(rc) else {}
    thetas = {}
    for i in range(1, rc['N'] + 1):
        smp = samples[i - 1]
        want_d = [list(x) for x in rec_json['log'][i - 1]['d']]
        if [list(x) for x in smp['d']] != want_d:
            viol('draws', {'sample': i, 'seen': smp['d'], 'spec': want_d})
        small = all(cells[k]['nan'] == 1 for k in kk if k[0] == i) and rc['routine'] != 'crossval'
        nreps_spec = 0 if small else n_rep(rc)
        if len(smp['reps']) != nreps_spec:
            viol('c/nan', {'sample': i, 'what': f"{len(smp['reps'])} evaluated repetitions, the protocol has {nreps_spec}"})
            continue
        for r in range(1, nreps_spec + 1):
            b = smp['reps'][r - 1]
            for v in range(1, n_var(rc) + 1):
                okf = [f for f in range(1, n_folds(rc, nr) + 1) if cells[(i, 1, f, r, v)]['nan'] == 0]
                fits = b['fit'][v - 1] if v - 1 < len(b['fit']) else []
                cmps = b['compare'][v - 1] if v - 1 < len(b['compare']) else []
                ncalls = len(okf) * rc['nM']
                if len(cmps) != ncalls:
                    viol('a/compare-count', {'sample': i, 'rep': r, 'variant': v, 'calls': len(cmps), 'protocol': ncalls})
                    continue
                if len(fits) != (ncalls if rc['cv'] != 'none' else 0):
                    viol('b/fit-count', {'sample': i, 'rep': r, 'variant': v, 'calls': len(fits),
                                         'protocol': ncalls if rc['cv'] != 'none' else 0})
                    continue
                for k in range(ncalls):
                    f, j = okf[k // rc['nM']], k % rc['nM'] + 1
                    c = cells[(i, j, f, r, v)]
                    x = cmps[k]
                    stats['compares'] += 1
                    where = {'sample': i, 'model': j, 'fold': f, 'rep': r, 'variant': v}
                    if rc['cv'] == 'none':
                        thetas[(i, j, f, r, v)] = ('ok', None if world.theta is None else world.theta[j - 1])
                    else:
                        t = c['pred']['theta']
                        ft = fits[k]
                        thetas[(i, j, f, r, v)] = ('ok', ft['theta'])
                        stats['fitted'] += 1
                        if ft['j'] != j or list(ft['rows']) != list(t['rows']) or list(ft['conds']) != list(t['conds']) or not ft['vok']:
                            viol('b/fit-train', {**where, 'fitter_got': {k2: ft[k2] for k2 in ('j', 'rows', 'conds', 'vok')},
                                                 'protocol': {'rows': t['rows'], 'conds': t['conds']}})
                        elif list(ft['pidx']) != list(t['pidx']):
                            viol('b/fit-idx', {**where, 'fitter_got': ft['pidx'], 'protocol': t['pidx']})
                        # every keyword argument: the method the routine was called with ("M" in the behaviour),
                        # the routine's pattern descriptor, nothing else
                        if ft['meth'] != method or ft['desc'] != t['desc'] or ft['kw'] or t['meth'] != 'M':
                            viol('b/fit-method' if ft['meth'] != method else 'b/fit-keywords',
                                 {**where, 'fitter_got': {q: ft[q] for q in ('meth', 'desc', 'kw')},
                                  'protocol': {'meth': method, 'desc': t['desc'], 'kw': []}})
                        # the driver's own fit: right method, on the training object the protocol names
                        own = refit(world, j, fitmode, method, t['rows'], t['conds'], t['pidx'], t['desc'])
                        if own is not None:
                            thetas[(i, j, f, r, v)] = ('own', own)
                            if not same_theta(own, ft['theta']):
                                viol('b/fit-theta', {**where, 'fitter_returned': ft['theta'], 'fit_for_the_method_on_the_training_set': own,
                                                     'method': method})
                            if method != 'cosine' and world.kinds[j - 1] != 'fixed':
                                alt = refit(world, j, fitmode, 'cosine', t['rows'], t['conds'], t['pidx'], t['desc'])
                                if not same_theta(own, alt):
                                    stats['method_sensitive'] += 1
                                    if world.kinds[j - 1] == 'select' and fitmode != 'tok':
                                        stats['select_sensitive'] += 1
                        if not (ft['n'] < x['n'] and (k == 0 or cmps[k - 1]['n'] < ft['n'])):
                            viol('b/fit-before-use', {**where, 'fit_call': ft['n'], 'compare_call': x['n']})
                    if x['j'] != j or list(x['pc']) != list(c['pred']['conds']):
                        viol('a/pred-conds', {**where, 'compared': {'model': x['j'], 'conds': x['pc']},
                                              'protocol': {'model': j, 'conds': c['pred']['conds']}})
                    elif not x['pok']:
                        viol('a/pred-values', {**where, 'what': 'prediction is not the model at the parameters of this fold / '
                                                                'objects not self-consistent'})
                    if list(x['rows']) != list(c['data']['rows']) or list(x['conds']) != list(c['data']['conds']):
                        viol('a/data', {**where, 'compared': {'rows': x['rows'], 'conds': x['conds']}, 'protocol': c['data']})
            # ceilings of this repetition
            for v in range(1, n_var(rc) + 1):
                if not stores_nc(rc):
                    break
                n_spec = ncs[(i, r, v)]
                n_got = b['ceiling'][v - 1]
                same = (n_got['kind'] == n_spec['kind'] and list(n_got['rows']) == list(n_spec['rows'])
                        and list(n_got['conds']) == list(n_spec['conds'])
                        and (n_spec['kind'] != 'loo' or n_got['by'] == n_spec['by']))
                if same and n_spec['kind'] in ('cv', 'loofolds'):
                    same = len(n_got['folds']) == len(n_spec['folds']) and all(
                        list(a[q]) == list(b2[q]) for a, b2 in zip(n_got['folds'], n_spec['folds'])
                        for q in ('ceR', 'ceP', 'teR', 'teP'))
                if not same or not n_got.get('vok', 1):
                    viol('d/ceiling-object', {'sample': i, 'rep': r, 'variant': v,
                                              'called_with': {q: n_got[q] for q in ('kind', 'rows', 'conds', 'by', 'folds')},
                                              'protocol': {q: n_spec[q] for q in ('kind', 'rows', 'conds', 'by')}})
    # ---- the numbers
    for k in kk:
        c = cells[k]
        stored = cell_value(rc, ev, k)
        stats['cells'] += 1
        if c['nan'] == 1:
            stats['nan'] += 1
            if not np.isnan(stored):
                viol('c/nan', {'key': k, 'stored': stored, 'what': 'protocol marks the cell NaN (resample too small)'})
            continue
        if np.isnan(stored):
            viol('c/nan', {'key': k, 'stored': 'NaN', 'what': 'protocol evaluates the cell'})
            continue
        if k not in thetas:
            continue        # the calls for this cell were already reported as missing
        th = thetas[k][1]
        want = sim(world, method, world.pred_ob(k[1], th, c['pred']['conds']),
                   world.data_ob(c['data']['rows'], c['data']['conds']))
        if not close(stored, want, 1e-9):
            first = cell_value(rc, ev, (k[0], 1) + tuple(k[2:]))
            sub = 'a/value'
            if rc['routine'] == 'testset' and k[1] > 1 and stored == first:
                sub = 'a/value-of-first-model'       # every model's column holds the evaluation of model 1
            viol(sub, {'key': k, 'stored': stored, 'denoted': want, 'cell': c})
    # ---- noise ceilings
    if stores_nc(rc):
        for k in nck:
            n_spec = ncs[k]
            st = nc_value(rc, res.noise_ceiling, k)
            if n_spec['kind'] == 'loofolds':
                want = nc_expected(world, method, n_spec)
                a = np.asarray(res.noise_ceiling, dtype=float)
                if len(n_spec['folds']) == 0:
                    if a.size:
                        viol('d/ceiling-value', {'key': k, 'stored': a, 'denoted': want})
                elif a.shape != (2, len(n_spec['folds'])) or not close(a[0], want[0]) or not close(a[1], want[1]):
                    viol('d/ceiling-value', {'key': k, 'stored': a, 'denoted': want})
                continue
            if st is None:
                viol('d/ceiling-shape', {'key': k, 'shape': list(np.shape(res.noise_ceiling))})
                break
            if n_spec['kind'] == 'nan':
                if not (np.isnan(st[0]) and np.isnan(st[1])):
                    viol('c/nan-ceiling', {'key': k, 'stored': st})
                continue
            want = nc_expected(world, method, n_spec)
            if not close(st[0], want[0]) or not close(st[1], want[1]):
                viol('d/ceiling-value', {'key': k, 'stored': st, 'denoted': want, 'ceiling': {q: n_spec[q] for q in ('kind', 'rows', 'conds', 'by')}})
        if rc['routine'] == 'dualrand':
            a = np.asarray(res.noise_ceiling, dtype=float)
            if a.ndim == 3 and not all(np.array_equal(a[:, :, 0], a[:, :, q], equal_nan=True) for q in range(a.shape[2])):
                viol('d/ceiling-value', {'what': 'ceiling differs between the test sets of one sample'})
    elif rc['routine'] == 'testset':
        # no ceiling; the routines also return the number of held-out groups of every sample
        want_n = [[a if rc['bootR'] else 0, b if rc['bootP'] else 0] for a, b in rec_json['ntest']]
        if res.ntest(rc['N']) != want_n:
            viol('n-test', {'returned': res.ntest(rc['N']), 'groups_not_drawn': want_n})
    else:
        n_spec = rec_json['nc'][0]
        want = nc_expected(world, method, n_spec)
        a = np.asarray(res.noise_ceiling, dtype=float)
        fn = rec.final_nc
        if fn is None or list(fn['rows']) != list(n_spec['rows']) or list(fn['conds']) != list(n_spec['conds']) or fn['by'] != n_spec['by']:
            viol('d/ceiling-object', {'called_with': fn, 'protocol': {q: n_spec[q] for q in ('kind', 'rows', 'conds', 'by')}})
        if a.shape != (2,) or not close(a[0], want[0]) or not close(a[1], want[1]):
            viol('d/ceiling-value', {'stored': a, 'denoted': want})
    # ---- dof
    if rc['routine'] == 'fixed' and rc['bootR'] and any(len(set(s_['d'][0])) < len(s_['d'][0]) for s_ in rec_json['log']):
        stats['fixed_resampled'] = 1    # eval_fixed on a stack with repeated RDMs
    if rc['bootR'] and rc['bootP'] and n_units(rc, nr, nc)[1] < n_units(rc, nr, nc)[0]:
        stats['dofP_' + name] = 1       # the smaller factor is the condition axis
    want = rec_json['dof']
    if rc['routine'] not in ('crossval', 'testset') and res.dof != want:
        cls = 'grouped-descriptor' if grouped(rc, nr, nc) else 'unique-descriptor'
        if rc['routine'] == 'fixed':
            cls = 'resampled-stack' if rc['bootR'] else 'plain-stack'
        bad.append((f'e/dof/{cls}/{name}', {'stored': res.dof, 'units_minus_one': want, 'rc': rc,
                                             'n_rdm': nr, 'n_cond': nc, 'units': n_units(rc, nr, nc)}))
    # ---- variances
    v, kind = check_variances(rc, res, nr, use_corr)
    stats['var_' + kind] = 1
    if v is not None:
        viol(v[0], v[1])
    return bad, stats


# ------------------------------------------------------------------ test-set routines: perturbation replay
def perturb_testset(rec_json, const, flavour, method, seed):
    """deps(theta) and deps(score) of the test-set routines, bit for bit, with the draws of the behaviour forced:
    altering every source entry OUTSIDE the training object of sample i (in particular every held-out entry) must
    leave the parameters fitted for sample i identical; altering every entry outside its TEST object (in
    particular every drawn-only entry) must leave its scores identical when the parameters are held fixed."""
    rc = rec_json['rc']
    nr, nc = const['NR'], const['NC']
    name = public_name(rc)
    kk = keys(rc, nr)
    cells = dict(zip(kk, rec_json['cells']))
    draws, perms = forced_from_log(rc, rec_json['log'])
    kinds = kinds_for(rc, True)

    def run(scale=None, frozen=None):
        world = World(nr, nc, flavour, 'rnd', seed, kinds, True, scale=scale)
        with Recorder(world, rc, method, draws=draws, perms=perms) as rec:
            res = call_routine(rec, world, rc, method, 'regress', frozen=frozen)
        smp = _split_samples(rec.events)
        th = [[x['theta'] for x in (s_['reps'][0]['fit'][0] if s_['reps'] else [])] for s_ in smp]
        return world, th, np.asarray(res.evaluations, dtype=float)
    try:
        world, th0, ev0 = run()
    except Exception as ex:
        return [(f'testset/raises/{type(ex).__name__}/{name}', {'error': str(ex)})], 0
    bad, n = [], 0
    rng = np.random.default_rng(seed + 17)
    frozen = [[t[j] for t in th0 if t] for j in range(rc['nM'])]
    for i in range(1, rc['N'] + 1):
        c = cells[(i, 1, 1, 1, 1)]
        if c['nan'] == 1:
            continue
        t = c['pred']['theta']
        tr_r, tr_c = set(t['rows']), set(t['conds'])
        te_r, te_c = set(c['data']['rows']), set(c['data']['conds'])
        out_train = {k: float(rng.uniform(1.3, 2.5)) for k in world.values
                     if not (k[0] in tr_r and k[1] in tr_c and k[2] in tr_c)}
        out_test = {k: float(rng.uniform(1.3, 2.5)) for k in world.values
                    if not (k[0] in te_r and k[1] in te_c and k[2] in te_c)}
        if out_train:
            _, th1, _ = run(scale=out_train)
            n += 1
            same = len(th1) == len(th0) and len(th1[i - 1]) == len(th0[i - 1]) and all(
                np.array_equal(np.asarray(a), np.asarray(b)) for a, b in zip(th0[i - 1], th1[i - 1]))
            if not same:
                bad.append((f'testset/deps/theta-depends-on-held-out-data/{name}',
                            {'sample': i, 'theta': th0[i - 1], 'theta_after_altering_entries_outside_the_sample': th1[i - 1],
                             'training_rows': sorted(tr_r), 'training_conds': sorted(tr_c)}))
        if out_test:
            _, _, ev1 = run(scale=out_test, frozen=[list(f) for f in frozen])
            n += 1
            if ev1.shape != ev0.shape or not np.array_equal(ev0[i - 1], ev1[i - 1], equal_nan=True):
                bad.append((f'testset/deps/score-depends-on-drawn-data/{name}',
                            {'sample': i, 'scores': ev0[i - 1], 'scores_after_altering_entries_outside_the_test_set': ev1[i - 1],
                             'test_rows': sorted(te_r), 'test_conds': sorted(te_c)}))
    return bad, n


# ------------------------------------------------------------------ I -> S
def ints(x):
    a = np.asarray(x, dtype=float).reshape(-1)
    return [NANVAL if np.isnan(v) else int(round(float(v) * SCALE)) for v in a]


def trace_of(rc, rec, res, nr, method):
    """protocol events -> JSON-able trace for Trace_EvalProtocol (similarities as integers x 1e6)"""
    tr = [{'e': 'begin', 'rc': dict(rc, method=method)}]
    for e in rec.events:
        if e['e'] == 'draw':
            tr.append({'e': 'draw', 'd': e['d']})
        elif e['e'] == 'sets':
            tr.append({'e': 'sets', 'pp': e['pp']})
        elif e['e'] == 'fit':
            tr.append({'e': 'fit', 'fits': [[{'j': x['j'], 'rows': x['rows'] if x['vok'] else [],
                                              'conds': x['conds'] if x['vok'] else [], 'pidx': x['pidx'], 'n': x['n'],
                                              'meth': x['meth'], 'desc': x['desc'], 'kw': x['kw']}
                                             for x in v] for v in e['fits']]})
        elif e['e'] == 'compare':
            tr.append({'e': 'compare', 'cmps': [[{'j': x['j'], 'pc': x['pc'], 'rows': x['rows'], 'conds': x['conds'],
                                                  'vals': ints(x['vals']), 'n': x['n'], 'pok': x['pok']}
                                                 for x in v] for v in e['cmps']]})
        elif e['e'] == 'ceiling':
            out = []
            for x in e['ncs']:
                lo, hi = x['lo'], x['hi']
                if x['kind'] == 'loofolds':
                    lo, hi = 0, 0
                else:
                    lo, hi = ints([lo])[0] if lo != NANVAL else NANVAL, ints([hi])[0] if hi != NANVAL else NANVAL
                out.append({'kind': x['kind'] if x.get('vok', 1) else 'corrupt', 'rows': x['rows'], 'conds': x['conds'],
                            'by': x['by'], 'folds': x['folds'], 'lo': lo, 'hi': hi})
            tr.append({'e': 'ceiling', 'ncs': out})
    ev = np.asarray(res.evaluations, dtype=float)
    cells = [NANVAL] * len(keys(rc, nr))
    if ev.shape == expected_shape(rc, nr):
        cells = ints([cell_value(rc, ev, k) for k in keys(rc, nr)])
    ncl = []
    if stores_nc(rc):
        for k in nc_keys(rc):
            st = nc_value(rc, res.noise_ceiling, k)
            ncl.append([NANVAL, NANVAL] if st is None else ints(st))
    tr.append({'e': 'result', 'cells': cells, 'nc': ncl, 'dof': int(res.dof) if res.dof is not None else -1,
               'ntest': res.ntest(rc['N']) if rc['routine'] == 'testset' else []})
    return tr


def same_result(a, b):
    """clause g: every Result field identical, bit for bit"""
    diffs = []
    for f in ('evaluations', 'noise_ceiling', 'variances', 'model_var', 'diff_var', 'noise_ceil_var'):
        x, y = getattr(a, f), getattr(b, f)
        if (x is None) != (y is None):
            diffs.append(f)
        elif x is not None and not np.array_equal(np.asarray(x), np.asarray(y), equal_nan=True):
            diffs.append(f)
    for f in ('dof', 'n_rdm', 'n_pattern', 'cv_method', 'method'):
        x, y = getattr(a, f), getattr(b, f)
        if isinstance(x, np.ndarray) or isinstance(y, np.ndarray):
            if not np.array_equal(np.asarray(x), np.asarray(y)):
                diffs.append(f)
        elif x != y:
            diffs.append(f)
    return diffs


def run_once(rc, const, flavour, mode, method, fitmode, seed, theta_supplied, use_corr, np_seed):
    nr, nc = const['NR'], const['NC']
    world = World(nr, nc, flavour, mode, seed, kinds_for(rc, theta_supplied), theta_supplied or rc['cv'] != 'none')
    np.random.seed(np_seed)
    with Recorder(world, rc, method) as rec:
        res = call_routine(rec, world, rc, method, fitmode, use_correction=use_corr)
    return world, rec, res


def random_run(rc, const, flavour, mode, method, fitmode, seed, theta_supplied=True, rerun=True):
    """run a routine under a real seed; returns dict(trace, bad, stats)"""
    out = _random_run(rc, const, flavour, mode, method, fitmode, seed, theta_supplied, rerun)
    out['bad'] = [(key_prefix(rc) + k, d) for k, d in out['bad']]
    return out


def _random_run(rc, const, flavour, mode, method, fitmode, seed, theta_supplied=True, rerun=True):
    """run a routine under a real seed; returns dict(trace, bad, stats)"""
    nr, nc = const['NR'], const['NC']
    name = public_name(rc)
    bad = []
    use_corr = rc['nCv'] > 1 and seed % 3 != 0
    np_seed = (seed * 7919 + 13) % (2 ** 31 - 1)
    try:
        world, rec, res = run_once(rc, const, flavour, mode, method, fitmode, seed, theta_supplied, use_corr, np_seed)
    except S.DrawMismatch as ex:
        return {'trace': None, 'bad': [(f'draws/{name}', {'error': str(ex), 'rc': rc})], 'stats': {}}
    except Exception as ex:
        return {'trace': None, 'bad': [(f'raises/{type(ex).__name__}/{name}', {'error': f'{type(ex).__name__}: {ex}', 'rc': rc})],
                'stats': {}}
    stats = {'nan_samples': 0, 'ok_samples': 0}
    ev = np.asarray(res.evaluations, dtype=float)
    if ev.shape != expected_shape(rc, nr):
        bad.append((f'a/evaluations-shape/{name}', {'stored': list(ev.shape), 'expected': list(expected_shape(rc, nr))}))
    else:
        nan = np.isnan(ev.reshape(ev.shape[0], -1)).any(axis=1)
        stats['nan_samples'], stats['ok_samples'] = int(nan.sum()), int((~nan).sum())
    # every recorded similarity is the similarity of the decoded objects (guards the decoding itself)
    from rsatoolbox.rdm import compare as _cmp
    nchk = 0
    fits_ev = None
    for e in rec.events:
        if e['e'] == 'fit':
            fits_ev = e['fits']
        if e['e'] != 'compare' or nchk >= 6:
            continue
        for vi, v in enumerate(e['cmps']):
            for k, x in enumerate(v[:3]):
                if not x['pok'] or not x['rows'] or not x['pc']:
                    continue
                if rc['cv'] == 'none':
                    th = None if world.theta is None else world.theta[x['j'] - 1]
                elif fits_ev is not None and vi < len(fits_ev) and k < len(fits_ev[vi]):
                    th = fits_ev[vi][k]['theta']
                else:
                    continue
                want = np.asarray(_cmp(world.pred_ob(x['j'], th, x['pc']), world.data_ob(x['rows'], x['conds']), method),
                                  dtype=float).reshape(-1)
                nchk += 1
                if not close(x['vals'], want, 1e-9):
                    bad.append((f'a/compare-values/{name}', {'recorded': x['vals'], 'recomputed': want, 'entry': {q: x[q] for q in ('j', 'pc', 'rows', 'conds')}}))
    # the parameters every (checked) fitter call returned are the fit for the ROUTINE's method on the
    # training object it was given (the trace specification decides that this object is the fold's)
    nref = 0
    stats['method_sensitive'] = 0
    for e in rec.events:
        if e['e'] != 'fit':
            continue
        for v in e['fits']:
            for x in v:
                if nref >= 12 or not x['vok'] or x['desc'] != rc['byP'] or -1 in x['pidx']:
                    continue
                own = refit(world, x['j'], fitmode, method, x['rows'], x['conds'], x['pidx'], rc['byP'])
                if own is None:
                    continue
                nref += 1
                if not same_theta(own, x['theta']):
                    bad.append((f'b/fit-theta/{name}', {'fitter_returned': x['theta'], 'fit_for_the_method_on_the_training_set': own,
                                                        'method': method, 'fitter_keywords': {q: x[q] for q in ('meth', 'desc', 'kw')},
                                                        'rc': rc}))
                if method != 'cosine' and not same_theta(own, refit(world, x['j'], fitmode, 'cosine', x['rows'], x['conds'],
                                                                    x['pidx'], rc['byP'])):
                    stats['method_sensitive'] += 1
    # dof
    if rc['routine'] == 'fixed' and rc['bootR'] and any(e['e'] == 'draw' and len(set(e['d'][0])) < len(e['d'][0]) for e in rec.events):
        stats['fixed_resampled'] = 1
    if rc['bootR'] and rc['bootP'] and n_units(rc, nr, nc)[1] < n_units(rc, nr, nc)[0]:
        stats['dof_cond_smaller'] = 1
    want = dof_rule(rc, nr, nc)
    if want is not None and res.dof != want:
        cls = 'grouped-descriptor' if grouped(rc, nr, nc) else 'unique-descriptor'
        if rc['routine'] == 'fixed':
            cls = 'resampled-stack' if rc['bootR'] else 'plain-stack'
        bad.append((f'e/dof/{cls}/{name}', {'stored': res.dof, 'units_minus_one': want, 'rc': rc, 'n_rdm': nr, 'n_cond': nc,
                                             'units': n_units(rc, nr, nc)}))
    # variances from the stored evaluations
    v, kind = check_variances(rc, res, nr, use_corr)
    stats['var_kind'] = kind
    if v is not None:
        bad.append((f'{v[0]}/{name}', {**v[1], 'rc': rc, 'np_seed': np_seed}))
    # ceilings without bootstrap: those of the data
    if not stores_nc(rc) and rc['routine'] != 'testset':
        want_nc = loo_value(world, method, list(range(1, nr + 1)), list(range(1, nc + 1)), rc['byR'])
        a = np.asarray(res.noise_ceiling, dtype=float)
        if a.shape != (2,) or not close(a, want_nc):
            bad.append((f'd/ceiling-value/{name}', {'stored': a, 'denoted': want_nc}))
    # loofolds values
    for e in rec.events:
        if e['e'] == 'ceiling':
            for x in e['ncs']:
                if x['kind'] == 'loofolds':
                    a = np.asarray(res.noise_ceiling, dtype=float)
                    if len(x['lo']) == 0:
                        if a.size:
                            bad.append((f'd/ceiling-value/{name}', {'stored': a, 'events': []}))
                    elif a.shape != (2, len(x['lo'])) or not close(a[0], x['lo']) or not close(a[1], x['hi']):
                        bad.append((f'd/ceiling-value/{name}', {'stored': a, 'events': [x['lo'], x['hi']]}))
    # clause g
    if rerun:
        try:
            _, _, res2 = run_once(rc, const, flavour, mode, method, fitmode, seed, theta_supplied, use_corr, np_seed)
            d = same_result(res, res2)
            if d:
                bad.append((f'g/rerun/{name}', {'fields': d, 'rc': rc, 'np_seed': np_seed}))
        except Exception as ex:
            bad.append((f'g/rerun/{name}', {'error': f'{type(ex).__name__}: {ex}'}))
    return {'trace': trace_of(rc, rec, res, nr, method), 'bad': bad, 'stats': stats}
