"""Binding of specs/Transform.tla to rsatoolbox.rdm.transform (C17 clauses a - g) and the
invariance of the measures under the library's own transforms (C17 clause h, together with the
moves of specs/Compare.tla replayed by harness/compare.py).

Every TLC test vector [x, tr, meas, out] is turned into an RDMs object (NaN marks -> numpy.nan,
descriptors of list and ndarray type, a measure name of the stated class), the public transform is
called and the result is compared entry by entry with the exact rationals of the specification:

  rank / positive / minmax / custom   exact (results are correctly rounded rationals), atol 1e-12
  sqrt       the relation out >= 0, out^2 = max(x, 0) within 4 ulp, and out == math.sqrt(max(x,0))
  geotopo    atol 1e-9 (float quantile interpolation)
  geodesic   atol 1e-12 (sums of at most 3 min-max values), +inf where the graph is disconnected

Two deviations of this tree are recognised by DIAGNOSTIC models (never used as oracles) only to
give them their own violation keys, so that any other deviation is still reported separately:
the geodesic graph without its zero-weight edges (the specification emits that variant as `nz`) and
the geo-topological map whose three in-place assignments overwrite each other.
"""
from __future__ import annotations

import json
import math
import warnings
from fractions import Fraction

import numpy as np

warnings.filterwarnings('ignore')

from rsatoolbox.rdm import RDMs  # noqa: E402
import rsatoolbox.rdm as rr  # noqa: E402

from harness import compare as C  # noqa: E402

NAN_MARK = -999999
MEASURES = {'none': None, 'plain': 'test measure', 'sqeuclid': 'squared euclidean', 'ranked': 'crossnobis (ranks)'}
CUSTOM = {1: lambda v: 2 * v + 1, 2: lambda v: v ** 2, 3: lambda v: -v, 4: lambda v: v[:, ::-1].copy()}
CLAUSE = {'rank': 'a', 'positive': 'b', 'sqrt': 'b', 'minmax': 'c', 'geotopo': 'd', 'geodesic': 'e', 'custom': 'f'}


def to_array(x):
    v = np.array(x, dtype=float)
    v[v == NAN_MARK] = np.nan
    return v


def make_rdms(x, meas_class, dtype='float64', scale=None):
    """dtype: 'float64' | 'int64' | 'int32' (an RDMs object keeps the dtype of a 2-D input; only for
    stacks without missing entries); scale: the same vectors multiplied by a positive factor"""
    v = to_array(x)
    n_rdm, L = v.shape
    nc = C._n_from_len(L)
    if scale is not None:
        v = v * scale
    if dtype != 'float64':
        v = v.astype(dtype)
    return RDMs(v.copy(), dissimilarity_measure=MEASURES[meas_class],
                descriptors={'session': 'S1', 'tags': ['t', 'u']},
                rdm_descriptors={'subj': [f's{i}' for i in range(n_rdm)],          # list typed
                                 'run': np.arange(n_rdm) + 10},                    # ndarray typed
                pattern_descriptors={'cond': [f'c{i}' for i in range(nc)],
                                     'block': np.arange(nc) % 2})


def call_transform(rdms, tr):
    n = tr['n']
    if n == 'rank':
        return rr.rank_transform(rdms, method=tr['m'])
    if n == 'positive':
        return rr.positive_transform(rdms)
    if n == 'sqrt':
        return rr.sqrt_transform(rdms)
    if n == 'minmax':
        return rr.minmax_transform(rdms)
    if n == 'geodesic':
        return rr.geodesic_transform(rdms)
    if n == 'geotopo':
        ln, ld, un, ud = tr['q']
        return rr.geotopological_transform(rdms, ln / ld, un / ud)
    if n == 'custom':
        return rr.transform(rdms, CUSTOM[tr['q'][0]])
    raise ValueError(n)


def rat(p):
    """<<num, den>> of the specification -> float (nan for <<0,0>>, inf for <<1,0>>)"""
    if p[1] == 0:
        return math.nan if p[0] == 0 else math.inf
    return Fraction(p[0], p[1])


def _same(g, e, tol):
    if isinstance(e, float):
        if math.isnan(e):
            return math.isnan(g)
        return g == e          # inf
    if not math.isfinite(g):
        return False
    return abs(g - float(e)) <= tol


def geotopo_sequential_model(v, low, up):
    """DIAGNOSTIC ONLY: the three in-place assignments of this tree applied one after the other
    (entries set to 0 by the first are re-mapped by the second when gt_min <= 0 <= gt_max, mapped
    values above gt_max are set to 1 by the third)."""
    d = np.array(v, dtype=float)
    gmin, gmax = np.quantile(d, low), np.quantile(d, up)
    d[d < gmin] = 0
    sel = (d >= gmin) & (d <= gmax)
    d[sel] = (d[sel] - gmin) / (gmax - gmin)
    d[d > gmax] = 1
    return d


def descriptors_equal(a, b):
    if set(a.keys()) != set(b.keys()):
        return False
    for k in a:
        x, y = a[k], b[k]
        if isinstance(x, np.ndarray) or isinstance(y, np.ndarray):
            if not np.array_equal(np.asarray(x), np.asarray(y)):
                return False
        elif x != y:
            return False
    return True


SCALES = (1e-9, 1e-12, 1e6)
SCALE_INVARIANT = ('minmax', 'geodesic', 'geotopo')
INT_DTYPES = ('int64', 'int32')


def flavours_for(rec, idx):
    """float64 always; rotating with the vector index one integer dtype (stacks without missing entries:
    an RDMs object keeps an integer dtype, the definition does not depend on it) and, for the transforms
    that map onto [0,1] (hence do not see a positive scaling of the input), one scaled copy"""
    fl = [('float64', None)]
    if not any(NAN_MARK in v for v in rec['x']):
        fl.append((INT_DTYPES[idx % 2], None))
        if rec['tr']['n'] in SCALE_INVARIANT:
            fl.append(('float64', SCALES[idx % 3]))
    return fl


def check_record(rec, dtype='float64', scale=None):
    """S -> I for one Transform test vector -> (n_evaluations, [(key, what, case)])"""
    tr, x, mc = rec['tr'], rec['x'], rec['meas']
    n = tr['n']
    name = n + (f"/{tr['m']}" if n == 'rank' else '')
    if dtype != 'float64':
        name += '/int-dtype'
    if scale is not None:
        name += '/scaled-input'
    cl = CLAUSE[n]
    src = make_rdms(x, mc, dtype, scale)
    ref = make_rdms(x, mc, dtype, scale)          # untouched twin: what the source's descriptors were
    case0 = {'transform': tr, 'x': x, 'measure': MEASURES[mc], 'dtype': dtype, 'scale': scale}
    out = []
    try:
        res = call_transform(src, tr)
    except Exception as e:
        return 1, [(f'C17/{cl}/{name}/raises/{type(e).__name__}',
                    f'{n} raises on an input of its admissible domain: {e!r}'[:300], case0)]
    # ---- values
    got = np.asarray(res.get_vectors(), dtype=float)
    exp = [[rat(p) for p in row] for row in rec['out']]
    if got.shape != (len(exp), len(exp[0])):
        out.append((f'C17/{cl}/{name}/shape', f'{n}: result has shape {got.shape}', case0))
    else:
        tol = {'geotopo': 1e-9}.get(n, 1e-12)
        if scale is not None:
            tol = 1e-9          # the scaled inputs are no longer exact integers
        bad = []
        for i, row in enumerate(exp):
            for k, e in enumerate(row):
                g = float(got[i, k])
                if n == 'sqrt' and not isinstance(e, float):
                    sq = float(e)
                    ok = (g >= 0 and abs(g * g - sq) <= 4 * np.spacing(sq) and g == math.sqrt(sq))
                else:
                    ok = _same(g, e, tol)
                if not ok:
                    bad.append((i, k, g, float(e) if not isinstance(e, float) else e))
        if bad:
            key = f'C17/{cl}/{name}/value'
            if dtype != 'float64' and np.issubdtype(np.asarray(res.get_vectors()).dtype, np.integer):
                # the result was cast back to the integer dtype of the source
                key = f'C17/{cl}/{name}-truncated'
            elif n == 'geodesic':
                nz = [[rat(p) for p in row] for row in rec['nz']]
                if all(_same(float(got[i, k]), nz[i][k], 1e-12) for i in range(len(nz)) for k in range(len(nz[0]))):
                    key = 'C17/e/geodesic/zero-weight-edge-dropped'
            elif n == 'geotopo':
                ln, ld, un, ud = tr['q']
                model = geotopo_sequential_model(to_array(x), ln / ld, un / ud)
                if np.allclose(model, got, rtol=0, atol=1e-12):
                    key = 'C17/d/geotopo/branches-overwrite-each-other'
            i, k, g, e = bad[0]
            out.append((key, f'{name}: entry {k} of RDM {i} is {g}, the definition gives {e} ({len(bad)} entries differ)',
                        {**case0, 'expected': [[None if (isinstance(e, float) and math.isnan(e)) else float(e) for e in row] for row in exp],
                         'got': [[None if math.isnan(z) else z for z in row] for row in got.tolist()]}))
    # ---- clause g: descriptors carried over, measure name updated
    for what, a, b in (('descriptors', ref.descriptors, res.descriptors),
                       ('rdm_descriptors', ref.rdm_descriptors, res.rdm_descriptors),
                       ('pattern_descriptors', ref.pattern_descriptors, res.pattern_descriptors)):
        if not descriptors_equal(a, b):
            out.append((f'C17/g/{n}/{what}', f'{n}: {what} of the result differ from the source',
                        {**case0, 'source': {k: np.asarray(v).tolist() for k, v in a.items()},
                         'result': {k: np.asarray(v).tolist() for k, v in b.items()}}))
    m_out = res.dissimilarity_measure
    if rec['rename']:
        if not isinstance(m_out, str) or not m_out or m_out == MEASURES[mc]:
            out.append((f'C17/g/{n}/measure-not-updated',
                        f'{n}: dissimilarity_measure of the result is {m_out!r}, the source has {MEASURES[mc]!r}',
                        {**case0, 'result_measure': m_out}))
    elif m_out != MEASURES[mc]:
        out.append((f'C17/g/{n}/measure-changed-twice', f'{n}: measure {MEASURES[mc]!r} became {m_out!r}', case0))
    if not isinstance(res, RDMs) or res.n_rdm != len(x) or res.n_cond != ref.n_cond:
        out.append((f'C17/g/{n}/not-an-rdms', f'{n}: result is not an RDMs object of the same size', case0))
    return 1, out


def nontrivial(rec):
    """ties, a negative entry, a missing entry or more than one RDM"""
    x = rec['x']
    if len(x) > 1:
        return True
    v = x[0]
    return len(set(v)) < len(v) or min(v) < 0 or NAN_MARK in v


def replay_chunk(args):
    base, lines = args
    nev = nt = 0
    bad = []
    for j, line in enumerate(lines):
        rec = json.loads(line)
        if 'tr' not in rec:
            continue
        for dtype, scale in flavours_for(rec, base + j):
            n, out = check_record(rec, dtype, scale)
            nev += n
            bad.extend(out)
        nt += nontrivial(rec)
    return len(lines), nev, nt, bad


# ------------------------------------------------------------------------------------------------
# clause h through the library's own transforms, on the "out" vectors of Compare.tla
# ------------------------------------------------------------------------------------------------
EXTREME_SCALES = (1e-26, 1e-13, 1e12, 1e-20)


def invariance_checks(rec, nc, variant=0):
    """for a Compare test vector (t = "v"): which library transform must leave which measure
    unchanged.  Returns (n_evaluations, violations).

      rank-based measures : sqrt_transform / positive_transform on non-negative RDMs, rank_transform,
                            minmax_transform (strictly increasing on the value set of each RDM)
      corr, corr_cov      : minmax_transform (positive affine per RDM)
      cosine, cosine_cov  : transform(x -> 3x) (positive scaling)
    """
    m = rec['m']
    a, b = rec['a'], rec['b']
    out = []
    nev = 0
    if m == 'bures_metric' or m in C.RIEM_METHODS:
        return 0, out
    sg = None
    sigma = None
    if rec['s']:
        sg = C.SIGMAS[nc][rec['s'] - 1]
        sigma = C.sigma_array(sg)
    sgc = C.sigma_class(sg)
    todo = []
    nonneg = all(min(v) >= 0 for v in a + b)
    nonconst = all(len(set(v)) > 1 for v in a + b)
    if m in C.RANK_METHODS:
        # every rank method but 'ordinal' is a strictly increasing map of the value set ('ordinal' breaks
        # ties by position and is no function of the values)
        for meth in ('average', 'min', 'max', 'dense'):
            todo.append((f'rank_transform-{meth}', (lambda meth: lambda r: rr.rank_transform(r, method=meth))(meth), 0.0))
        if nonneg:
            todo.append(('sqrt_transform', lambda r: rr.sqrt_transform(r), 0.0))
            todo.append(('positive_transform', lambda r: rr.positive_transform(r), 0.0))
        if nonconst:
            todo.append(('minmax_transform', lambda r: rr.minmax_transform(r), 0.0))
    if m in ('corr', 'corr_cov') and nonconst:
        todo.append(('minmax_transform', lambda r: rr.minmax_transform(r), max(C.tol_for(m, sgc), 1e-12)))
    if m in ('cosine', 'cosine_cov'):
        todo.append(('scale', lambda r: rr.transform(r, lambda v: 3.0 * v), max(C.tol_for(m, sgc), 1e-12)))
    # every similarity is invariant under a positive rescaling of either RDM, however extreme (the squares of
    # the entries stay far from underflow / overflow)
    cx = EXTREME_SCALES[variant % len(EXTREME_SCALES)]
    todo.append((f'scale-extreme', (lambda cx: lambda r: rr.transform(r, lambda v: cx * v))(cx),
                 0.0 if m in C.RANK_METHODS else max(C.tol_for(m, sgc), 1e-12)))
    if not todo:
        return 0, out
    A0, B0 = C.make_rdms(a, 'a'), C.make_rdms(b, 'b')
    try:
        v0 = np.asarray(C.call(m, A0, B0, sigma, 'compare'), dtype=float)
    except Exception:
        return 0, out        # reported by the C03 replay
    # a second comparison on a subset of the conditions (n_cond >= 4): the RDMs object RETURNED by the
    # transform is cut down with subset_pattern and compared; an increasing map of the whole RDM is an
    # increasing map of the part, so the measure of the parts must not change either
    sel = None
    if nc >= 4:
        sel = [[0, 1, 2], [0, 2, 3], [1, 2, 3], [0, 1, 3]][variant % 4]
        sub = lambda r: r.subset_pattern('index', sel)
        sa, sb = sub(A0).get_vectors(), sub(B0).get_vectors()
        if not all(C._admissible(m, v) for v in list(sa) + list(sb)):
            sel = None
        else:
            ssig = None if sigma is None else (sigma[sel] if sigma.ndim == 1 else sigma[np.ix_(sel, sel)])
            try:
                w0 = np.asarray(C.call(m, sub(A0), sub(B0), ssig, 'compare'), dtype=float)
            except Exception:
                sel = None
    for tname, f, tol in todo:
        for side in (1, 2, 3):          # first, second, both
            if side != 3 and tname in ('positive_transform',):
                continue
            A1 = f(C.make_rdms(a, 'a')) if side in (1, 3) else A0
            B1 = f(C.make_rdms(b, 'b')) if side in (2, 3) else B0
            case = {'method': m, 'a': a, 'b': b, 'sigma_k': sg, 'transform': tname, 'side': side}
            for step in ('whole', 'subset'):
                if step == 'subset' and (sel is None or side == 2):
                    continue
                nev += 1
                try:
                    if step == 'whole':
                        v1, ref = np.asarray(C.call(m, A1, B1, sigma, 'compare'), dtype=float), v0
                    else:
                        v1 = np.asarray(C.call(m, A1.subset_pattern('index', sel), B1.subset_pattern('index', sel),
                                               ssig, 'compare'), dtype=float)
                        ref = w0
                except Exception as e:
                    out.append((f'C17/h/{m}/{tname}/raises/{type(e).__name__}', repr(e)[:200], {**case, 'step': step}))
                    continue
                if v1.shape != ref.shape or not np.all(np.abs(v1 - ref) <= tol):
                    out.append((f'C17/h/{m}/{tname}' + ('/then-subset_pattern' if step == 'subset' else '')
                                + (f'/sigma={sgc}' if m in C.COV_METHODS else ''),
                                f'{m} changes when {tname} is applied to ' + ('the first', 'the second', 'both')[side - 1]
                                + ' stack' + (' and the result is cut down with subset_pattern' if step == 'subset' else '')
                                + ' although the theory says it must not',
                                {**case, 'conditions': sel if step == 'subset' else None,
                                 'before': ref.tolist(), 'after': v1.tolist()}))
    return nev, out


def invariance_chunk(args):
    lines, nc = args
    nev = 0
    bad = []
    n = 0
    for j, line in enumerate(lines):
        rec = json.loads(line)
        if rec.get('t') != 'v':
            continue
        k, out = invariance_checks(rec, nc, variant=j)
        n += 1
        nev += k
        bad.extend(out)
    return n, nev, bad


# ------------------------------------------------------------------------------------------------
# float tier for the transforms: real-valued stacks against array-form definitions
# ------------------------------------------------------------------------------------------------
def _geodesic_def(v):
    n = C._n_from_len(len(v))
    w = (v - v.min()) / (v.max() - v.min())
    d = np.full((n, n), np.inf)
    np.fill_diagonal(d, 0.0)
    for k, (i, j) in enumerate(C._pairs(n)):
        if w[k] < 1:
            d[i, j] = d[j, i] = w[k]
    for k in range(n):
        d = np.minimum(d, d[:, [k]] + d[[k], :])
    return np.array([d[i, j] for i, j in C._pairs(n)])


def _geodesic_nz(v):
    n = C._n_from_len(len(v))
    w = (v - v.min()) / (v.max() - v.min())
    d = np.full((n, n), np.inf)
    np.fill_diagonal(d, 0.0)
    for k, (i, j) in enumerate(C._pairs(n)):
        if 0 < w[k] < 1:
            d[i, j] = d[j, i] = w[k]
    for k in range(n):
        d = np.minimum(d, d[:, [k]] + d[[k], :])
    return np.array([d[i, j] for i, j in C._pairs(n)])


def _geotopo_def(x, low, up):
    gmin, gmax = np.quantile(x, low), np.quantile(x, up)
    return np.where(x < gmin, 0.0, np.where(x > gmax, 1.0, (x - gmin) / (gmax - gmin)))


def float_case(seed):
    """real-valued stacks; the array-form definitions above are first run on the integer vectors of
    the specification by c17.py (kernel cross-check) and then judge these inputs"""
    rng = np.random.default_rng(seed)
    nc = int(rng.integers(3, 7))
    L = nc * (nc - 1) // 2
    nr = int(rng.integers(1, 4))
    kind = seed % 3
    if kind == 0:
        x = rng.uniform(0, 1, (nr, L))            # correlation-distance like: all entries below 1
    elif kind == 1:
        x = rng.normal(0, 2, (nr, L))             # crossvalidated distances: negative entries
    else:
        x = rng.integers(0, 5, (nr, L)) * 0.5     # ties
        for i in range(nr):
            if np.ptp(x[i]) == 0:
                x[i, 0] += 1
    out = []
    nev = 0
    q = [(0.0, 1.0), (0.25, 0.75), (0.1, 0.5)][seed % 3]
    cases = [('minmax', lambda r: rr.minmax_transform(r), np.array([(v - v.min()) / (v.max() - v.min()) for v in x]), 1e-12, 'c'),
             ('geodesic', lambda r: rr.geodesic_transform(r), np.array([_geodesic_def(v) for v in x]), 1e-12, 'e'),
             ('sqrt', lambda r: rr.sqrt_transform(r), np.sqrt(np.maximum(x, 0)), 0.0, 'b'),
             ('positive', lambda r: rr.positive_transform(r), np.maximum(x, 0), 0.0, 'b')]
    if np.quantile(x, q[1]) > np.quantile(x, q[0]):
        cases.append(('geotopo', lambda r: rr.geotopological_transform(r, q[0], q[1]), _geotopo_def(x, *q), 1e-9, 'd'))
    for name, f, exp, tol, cl in cases:
        nev += 1
        r = RDMs(x.copy(), dissimilarity_measure='test measure')
        try:
            got = np.asarray(f(r).get_vectors(), dtype=float)
        except Exception as e:
            out.append((f'C17/{cl}/{name}/float/raises/{type(e).__name__}', repr(e)[:200], {'seed': seed}))
            continue
        ok = got.shape == exp.shape and np.all((np.abs(got - exp) <= tol) | ((got == exp)))
        if ok:
            continue
        key = f'C17/{cl}/{name}/value'
        if name == 'geodesic' and np.all((np.abs(got - np.array([_geodesic_nz(v) for v in x])) <= 1e-12)
                                         | (got == np.array([_geodesic_nz(v) for v in x]))):
            key = 'C17/e/geodesic/zero-weight-edge-dropped'
        if name == 'geotopo' and np.allclose(got, geotopo_sequential_model(x, *q), rtol=0, atol=1e-12):
            key = 'C17/d/geotopo/branches-overwrite-each-other'
        out.append((key, f'{name} on a real-valued stack differs from its definition',
                    {'seed': seed, 'x': x.tolist(), 'quantiles': q if name == 'geotopo' else None,
                     'expected': np.where(np.isfinite(exp), exp, -1).tolist(), 'got': np.where(np.isfinite(got), got, -1).tolist()}))
    return nev, out


def array_defs_agree_with_spec(rec):
    """kernel cross-check: the array-form definitions used by the float tier reproduce the exact
    rationals of the specification on an integer test vector"""
    tr, x = rec['tr'], to_array(rec['x'])
    exp = np.array([[float(rat(p)) if not isinstance(rat(p), float) else rat(p) for p in row] for row in rec['out']])
    n = tr['n']
    if n == 'minmax':
        k = np.array([(v - v.min()) / (v.max() - v.min()) for v in x])
    elif n == 'geodesic':
        k = np.array([_geodesic_def(v) for v in x])
    elif n == 'geotopo':
        ln, ld, un, ud = tr['q']
        k = _geotopo_def(x, ln / ld, un / ud)
    else:
        return True
    return bool(np.all((np.abs(k - exp) <= 1e-9) | (k == exp)))


# ------------------------------------------------------------------------------------------------
# implementation -> specification for clause h: sessions compare(A, B) ; compare(T(A), B)
# ------------------------------------------------------------------------------------------------
def record_inv_trace(seed, nc):
    """integer stacks larger than the exhaustive grid; the second call repeats the first after a
    library transform of the first stack whose result is again integral, so that Trace_Compare can
    re-evaluate BOTH calls exactly and relate their statistics (inv = same | lin)."""
    rng = np.random.default_rng(seed)
    L = nc * (nc - 1) // 2
    n1, n2 = int(rng.integers(1, 4)), int(rng.integers(1, 3))
    span = int(rng.integers(2, 7))
    m = C.TRACE_METHODS[int(rng.integers(0, len(C.TRACE_METHODS)))]
    b = rng.integers(-2, span - 1, (n2, L))
    sg = {'kind': 'none', 'v': [], 'm': []}
    if m in C.COV_METHODS and rng.integers(0, 2):
        Bm = rng.integers(-1, 2, (nc, nc))
        sg = {'kind': 'mat', 'v': [], 'm': (Bm @ Bm.T + np.eye(nc, dtype=int)).tolist()}
    if m in C.RANK_METHODS:
        choice = int(rng.integers(0, 4))
        if choice == 0:                       # sqrt_transform of perfect squares
            root = rng.integers(0, span + 1, (n1, L))
            a = root ** 2
            T, a1, inv = (lambda r: rr.sqrt_transform(r)), root, 'same'
        elif choice == 1:                     # rank_transform; logged as doubled ranks (integers)
            a = rng.integers(-2, span - 1, (n1, L))
            T, a1, inv = (lambda r: rr.rank_transform(r)), None, 'same'
        elif choice == 2:                     # strictly increasing, not affine
            a = rng.integers(-2, span - 1, (n1, L))
            T, a1, inv = (lambda r: rr.transform(r, lambda v: v ** 3)), a ** 3, 'same'
        else:                                 # positive_transform of non-negative RDMs is the identity
            a = rng.integers(0, span + 1, (n1, L))
            T, a1, inv = (lambda r: rr.positive_transform(r)), a, 'same'
    elif m in ('corr', 'corr_cov'):
        a = rng.integers(-2, span - 1, (n1, L))
        T, a1, inv = (lambda r: rr.transform(r, lambda v: 3 * v + 2)), 3 * a + 2, 'lin'
    else:
        a = rng.integers(-2, span - 1, (n1, L))
        T, a1, inv = (lambda r: rr.transform(r, lambda v: 2 * v)), 2 * a, 'lin'
    if not all(C._admissible(m, v) for v in list(a) + list(b)):
        return None
    A0, B0 = C.make_rdms(a, 'a'), C.make_rdms(b, 'b')
    g0 = np.asarray(C.call(m, A0, B0, C.sigma_array(sg), 'compare'), dtype=float)
    A1 = T(C.make_rdms(a, 'a'))
    v1 = np.asarray(A1.get_vectors(), dtype=float)
    if a1 is None:
        a1 = np.rint(2 * v1).astype(int)
        if not np.array_equal(a1, 2 * v1):
            return {'error': 'rank_transform returned values that are not half-integers', 'a': a.tolist()}
    elif not np.array_equal(v1, a1.astype(float)):
        return {'error': 'transform did not return the expected integral vectors', 'a': a.tolist(), 'got': v1.tolist()}
    g1 = np.asarray(C.call(m, A1, B0, C.sigma_array(sg), 'compare'), dtype=float)
    evs = []
    for inv_, aa, g in (('none', a, g0), (inv, a1, g1)):
        ev = {'m': m, 'inv': inv_, 'sg': sg, 'a': np.asarray(aa).tolist(), 'b': b.tolist(), 'shape': list(g.shape)}
        if g.shape != (n1, n2) or not np.all(np.isfinite(g)):
            ev['bad'] = 'shape-or-nonfinite'
            ev['out'] = []
        else:
            ev['out'] = C.encode_out(m, g, L)
        ev['raw'] = g.tolist()
        evs.append(ev)
    return {'events': evs, 'same': bool(np.array_equal(g0, g1)), 'maxdiff': float(np.max(np.abs(g0 - g1)))}


def inv_trace_job(args):
    seed, nc = args
    try:
        return seed, nc, record_inv_trace(seed, nc), None
    except Exception as e:
        return seed, nc, None, repr(e)


# ------------------------------------------------------------------------------------------------
# chains of transforms (Transform.tla: Chain) and what follows them: a structural operation and a
# comparison (thorough tier)
# ------------------------------------------------------------------------------------------------
def _expected_values(rec):
    """exact output of the specification as floats (sqrt as the last step: root of the emitted square)"""
    last = rec['chain'][-1]['n']
    out = []
    for row in rec['out']:
        r = []
        for p in row:
            e = rat(p)
            if isinstance(e, float):
                r.append(e)
            else:
                r.append(math.sqrt(float(e)) if last == 'sqrt' else float(e))
        out.append(r)
    return np.array(out, dtype=float)


def run_chain(x, mc, chain):
    """the public transforms one after the other -> (final RDMs | None, violations)"""
    r = make_rdms(x, mc)
    out = []
    names = '>'.join(t['n'] for t in chain)
    for step, t in enumerate(chain):
        before = r.dissimilarity_measure
        try:
            r = call_transform(r, t)
        except Exception as e:
            out.append((f"C17/chain/{t['n']}/raises/{type(e).__name__}",
                        f"step {step + 1} ({t['n']}) of the chain {names} raises: {e!r}"[:300],
                        {'x': x, 'chain': chain, 'step': step}))
            return None, out
        after = r.dissimilarity_measure
        ranked_already = t['n'] == 'rank' and '(ranks)' in (before or '')
        if not ranked_already and (not isinstance(after, str) or not after or after == before):
            out.append((f"C17/g/{t['n']}/measure-not-updated",
                        f"{t['n']} (step {step + 1} of {names}): dissimilarity_measure stays {after!r}",
                        {'x': x, 'chain': chain, 'step': step, 'result_measure': after}))
    return r, out


def check_chain_record(rec):
    """S -> I for a chain of two or three transforms: final values against the exact rationals, descriptors
    of the source on the final object"""
    x, mc, chain = rec['x'], rec['meas'], rec['chain']
    names = '>'.join(t['n'] for t in chain)
    ref = make_rdms(x, mc)
    res, out = run_chain(x, mc, chain)
    if res is None:
        return 1, out
    got = np.asarray(res.get_vectors(), dtype=float)
    exp = _expected_values(rec)
    if got.shape != exp.shape:
        out.append((f'C17/chain/{names}/shape', f'result of the chain {names} has shape {got.shape}', {'x': x, 'chain': chain}))
        return 1, out
    tol = 1e-9
    same = (np.abs(got - exp) <= tol) | (got == exp) | (np.isnan(got) & np.isnan(exp))
    if not np.all(same):
        i, k = [int(z) for z in np.argwhere(~same)[0]]
        out.append((f'C17/chain/{names}/value',
                    f'chain {names}: entry {k} of RDM {i} is {got[i, k]}, the definitions composed give {exp[i, k]}',
                    {'x': x, 'chain': chain, 'measure': MEASURES[mc],
                     'expected': np.where(np.isfinite(exp), exp, -1).tolist(), 'got': np.where(np.isfinite(got), got, -1).tolist()}))
    for what, a, b in (('descriptors', ref.descriptors, res.descriptors),
                       ('rdm_descriptors', ref.rdm_descriptors, res.rdm_descriptors),
                       ('pattern_descriptors', ref.pattern_descriptors, res.pattern_descriptors)):
        if not descriptors_equal(a, b):
            out.append((f'C17/g/chain/{what}', f'chain {names}: {what} of the result differ from the source',
                        {'x': x, 'chain': chain}))
    return 1, out


STRUCT_METHODS = ('cosine', 'corr', 'spearman', 'kendall', 'tau-a', 'rho-a', 'cosine_cov', 'corr_cov')


def _sub_vec(v, sel):
    """condensed vector of the conditions sel (ascending) of a condensed vector"""
    n = C._n_from_len(len(v))
    idx = {p: k for k, p in enumerate(C._pairs(n))}
    return np.array([v[idx[(sel[i], sel[j])]] for i in range(len(sel)) for j in range(i + 1, len(sel))])


def structure_checks(rec, idx):
    """thorough tier: the RDMs object a chain returned is cut / resampled / concatenated through the public
    container operations and compared with the (equally treated) source stack; the expectation is the
    trusted array kernel of harness/compare.py on the EXACT chain output with the same index operation
    done on plain arrays.  Entries that are degenerate for the measure are not demanded; stacks whose chain
    output holds NaN or inf are skipped (missing values in compare() belong to C13)."""
    x, mc, chain = rec['x'], rec['meas'], rec['chain']
    exp = _expected_values(rec)
    if not np.all(np.isfinite(exp)) or any(NAN_MARK in v for v in x):
        return 0, []
    res, out = run_chain(x, mc, chain)
    if res is None:
        return 0, []
    X = to_array(x)
    n_rdm, L = X.shape
    nc = C._n_from_len(L)
    srcobj = make_rdms(x, mc)
    op = ('subset_pattern', 'subsample', 'concat', 'subset', 'subsample_pattern')[idx % 5]
    if op in ('subset_pattern', 'subsample_pattern') and nc < 4:
        op = 'concat'
    rows_t, rows_s = list(range(n_rdm)), list(range(n_rdm))
    sel = list(range(nc))
    try:
        if op == 'subset_pattern':
            sel = sorted([(idx // 5 + j) % nc for j in range(nc - 1)])
            R, S = res.subset_pattern('index', sel), srcobj.subset_pattern('index', sel)
        elif op == 'subsample_pattern':          # a selection without repeats, given out of order: kept ascending
            sel = sorted([(idx // 5 + j) % nc for j in range(3)])
            order = sel[::-1]
            R, S = res.subsample_pattern('index', order), srcobj.subsample_pattern('index', order)
        elif op == 'subset':
            rows_t = rows_s = [(idx // 5) % n_rdm]
            R, S = res.subset('index', rows_t), srcobj.subset('index', rows_s)
        elif op == 'subsample':
            rows_t = rows_s = [(idx // 5 + j) % n_rdm for j in (1, 0, 0)]
            R, S = res.subsample('index', rows_t), srcobj.subsample('index', rows_s)
        else:
            from rsatoolbox.rdm import concat
            R = concat([res, res.subset('index', [0])])
            S = srcobj
            rows_t = list(range(n_rdm)) + [0]
    except Exception as e:
        return 1, out + [(f'C17/chain/then-{op}/raises/{type(e).__name__}', repr(e)[:200], {'x': x, 'chain': chain, 'op': op})]
    ET = np.array([_sub_vec(exp[i], sel) for i in rows_t])
    ES = np.array([_sub_vec(X[i], sel) for i in rows_s])
    if not (np.allclose(R.get_vectors(), ET, rtol=0, atol=1e-9) and np.array_equal(S.get_vectors(), ES)):
        return 1, out + [(f'C17/chain/then-{op}/vectors', f'{op} after the chain does not hold the expected entries',
                          {'x': x, 'chain': chain, 'op': op, 'conditions': sel, 'rows': rows_t})]
    m = STRUCT_METHODS[(idx // 3) % len(STRUCT_METHODS)]
    if m in C.RANK_METHODS and any(t['n'] in ('geodesic', 'geotopo') for t in chain):
        # path sums / interpolated thresholds: entries that are exactly tied in the definition may differ in the
        # last bit in floats, and rank-based measures are not continuous there - use a continuous measure
        m = ('cosine', 'corr', 'cosine_cov', 'corr_cov')[idx % 4]
    sigma = None
    if m in C.COV_METHODS:
        sg = C.SIGMAS[nc][idx % 6] if nc in C.SIGMAS else None
        sigma = C.sigma_array(sg)
        if sigma is not None:
            sigma = sigma[sel] if sigma.ndim == 1 else sigma[np.ix_(sel, sel)]
    nev = 1
    try:
        got = np.asarray(C.call(m, R, S, sigma, 'compare'), dtype=float)
    except Exception as e:
        adm = all(C._admissible(m, v) for v in list(ET) + list(ES))
        if adm:
            out.append((f'C17/chain/then-{op}/compare/{m}/raises/{type(e).__name__}', repr(e)[:200],
                        {'x': x, 'chain': chain, 'op': op, 'method': m}))
        return nev, out
    tol = max(C.tol_for(m, 'none' if sigma is None else 'matrix'), 1e-9)
    for i, u in enumerate(ET):
        for j, w in enumerate(ES):
            if not (C._admissible(m, u) and C._admissible(m, w)):
                continue
            e = C.array_kernel(m, u, w, sigma)
            if not (abs(got[i, j] - e) <= tol):
                out.append((f'C17/chain/then-{op}/compare/{m}',
                            f'compare({op}(chain(x)), {op}(x), {m})[{i},{j}] = {got[i, j]}, the definition gives {e}',
                            {'x': x, 'chain': chain, 'op': op, 'conditions': sel, 'rows': rows_t, 'method': m,
                             'sigma_k': None if sigma is None else sigma.tolist()}))
                return nev, out
    return nev, out


def chain_chunk(args):
    base, lines, structure = args
    nev = nt = 0
    bad = []
    for j, line in enumerate(lines):
        rec = json.loads(line)
        if 'chain' not in rec:
            continue
        if len(rec['chain']) == 1:
            for dtype, scale in flavours_for(rec, base + j):
                n, out = check_record(rec, dtype, scale)
                nev += n
                bad.extend(out)
        else:
            n, out = check_chain_record(rec)
            nev += n
            bad.extend(out)
        if structure:
            n, out = structure_checks(rec, base + j)
            nev += n
            bad.extend(out)
        nt += nontrivial(rec)
    return len(lines), nev, nt, bad
